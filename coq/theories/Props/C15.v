(* C15 — Expression type inference is sound and symmetric.
   Only statements; each is closed by [exact] of a lemma from Proofs/TypeInfer_proofs.v.
   Model: Walkers/TypeInfer.v (TypeChecker after the repairs 71151e8 "exact arithmetic for bounds" and
   86a1852 "symmetric walk_equals"). *)
From Coq Require Import List ZArith NArith QArith Qcanon Bool.
Import ListNotations.
Require Import UPV.Core.Expr UPV.Core.Eval UPV.Core.Interp UPV.Walkers.TypeInfer UPV.Proofs.TypeInfer_proofs.

(* the inferred type contains every value the expression can take: for every typing environment, every accepted
   expression, every interpretation whose fluents / parameters / variables / interpreted functions take values of
   their declared types, and on which the expression is defined (both quantifier modes).  [inhabits] reads numeric
   bounds as exact rational intervals (None = unbounded) and integer types as containing integers only. *)
Theorem C15_infer_sound :
  forall G sc e t, infer G e = Some t ->
  forall I, respects G I -> forall v, eval sc e I = Some v -> inhabits G v t.
Proof. exact infer_sound_thm. Qed.
Print Assumptions C15_infer_sound.

(* Boolean-valued expressions get exactly bool, object-valued ones exactly a user type that contains the object *)
Theorem C15_infer_bool_user_exact :
  forall G sc e t, infer G e = Some t ->
  forall I, respects G I -> forall v, eval sc e I = Some v ->
  match v with
  | VBool _ => t = TBool
  | VObj o => exists u u', t = TUser u /\ lookupN o (g_obj G) = Some u' /\ In u (ancestors G u')
  | VNum _ => is_num t = true \/ t = TTime
  end.
Proof. exact infer_bool_user_exact_thm. Qed.
Print Assumptions C15_infer_bool_user_exact.

(* leaves get exactly their declared type *)
Theorem C15_infer_leaf_exact :
  forall G,
  (forall f args t, infer G (EFluent f args) = Some t -> exists sg, lookupN f (g_fl G) = Some (sg, t)) /\
  (forall p t, infer G (EParam p) = Some t -> lookupN p (g_par G) = Some t) /\
  (forall o t, infer G (EObj o) = Some t -> exists u, t = TUser u /\ lookupN o (g_obj G) = Some u) /\
  (forall x u t, infer G (EVar x u) = Some t -> t = TUser u /\ lookupN x (g_var G) = Some u) /\
  (forall b, infer G (EBool b) = Some TBool).
Proof. exact infer_leaf_exact_thm. Qed.
Print Assumptions C15_infer_leaf_exact.

(* an equality is accepted iff its mirrored equality is accepted (all pairs of operand types, any type hierarchy) *)
Theorem C15_equals_wf_symmetric : forall G t1 t2, wf_equals G t1 t2 = wf_equals G t2 t1.
Proof. exact equals_wf_symmetric_thm. Qed.
Print Assumptions C15_equals_wf_symmetric.

Theorem C15_equals_wf_char :
  forall G t1 t2,
  wf_equals G t1 t2 = true <->
  (exists a b, t1 = TUser a /\ t2 = TUser b /\ user_eq_ok G a b = true) \/
  ((is_num t1 || is_time t1) && (is_num t2 || is_time t2) = true).
Proof. exact equals_wf_char_thm. Qed.
Print Assumptions C15_equals_wf_char.

(* the interval product used by walk_times (unbounded sides, 0 * inf = 0) encloses every product *)
Theorem C15_interval_product :
  forall a b c d x y, itv a b x -> itv c d y ->
  itv (min4 (emul a c) (emul a d) (emul b c) (emul b d)) (max4 (emul a c) (emul a d) (emul b c) (emul b d)) (x * y)%Qc.
Proof. exact mul_itv. Qed.
Print Assumptions C15_interval_product.

(* ---- non-vacuity ---- *)
Definition ex_G : tenv :=
  {| g_fl := [(0%N, ([], TInt (Some 0%Z) None)); (1%N, ([], TReal None (Some (qc (-1) 2))))];
     g_par := []; g_var := []; g_obj := [(0%N, 1%N)]; g_ifun := []; g_father := [(1%N, 0%N)] |}.
Definition ex_I : interp :=
  {| fl := fun f _ => if (f =? 0)%N then Some (VNum (zq 7)) else if (f =? 1)%N then Some (VNum (qc (-3) 2)) else None;
     par := fun _ => None; var := fun _ => None; ifun := fun _ _ => None; objs := fun _ => [] |}.
(* (x * y) / (-3)  with x : int[0, inf], y : real[-inf, -1/2]:  x * y : real[-inf, 0]; the quotient : real[0, inf] *)
Definition ex_e : expr := EDiv (ETimes [EFluent 0%N []; EFluent 1%N []]) (EInt (-3)%Z).

Lemma ex_respects : respects ex_G ex_I.
Proof.
  constructor; simpl.
  - intros f sg t vs v H E. destruct (f =? 0)%N eqn:F0.
    + inversion H; subst. inversion E; subst. simpl. exists 7%Z. split; [reflexivity|]. split; [discriminate | exact I].
    + destruct (f =? 1)%N eqn:F1; [|discriminate]. inversion H; subst. inversion E; subst. simpl.
      split; [exact I | discriminate].
  - intros; discriminate.
  - intros; discriminate.
  - intros; discriminate.
Qed.

Definition infer_is (G : tenv) (e : expr) (t : ty) : bool :=
  match infer G e with Some t' => ty_eqb t' t | None => false end.

Example C15_infer_sound_nonvacuous :
  infer_is ex_G ex_e (TReal (Some (qc 0 1)) None) = true /\ respects ex_G ex_I /\
  ovalue_eqb (eval false ex_e ex_I) (Some (VNum (qc 7 2))) = true /\
  infer_is ex_G (EDiv (EInt 1) (EInt 3)) (TReal (Some (qc 1 3)) (Some (qc 1 3))) = true /\
  infer ex_G (EEquals (EObj 0%N) (EInt 5)) = None /\ infer ex_G (EEquals (EInt 5) (EObj 0%N)) = None /\
  infer ex_G (EEquals (EObj 0%N) (EObj 0%N)) = Some TBool.
Proof.
  split; [vm_compute; reflexivity|]. split; [exact ex_respects|].
  split; [vm_compute; reflexivity|]. split; [vm_compute; reflexivity|].
  split; [vm_compute; reflexivity|]. split; vm_compute; reflexivity.
Qed.

Example C15_equals_wf_nonvacuous :
  wf_equals ex_G (TUser 1%N) (TUser 0%N) = true /\ wf_equals ex_G (TUser 1%N) (TUser 7%N) = false /\
  wf_equals ex_G (TInt None None) TTime = true /\ wf_equals ex_G (TUser 0%N) (TInt None None) = false.
Proof. repeat split; vm_compute; reflexivity. Qed.

Definition ext_eqb (a b : ext) : bool :=
  match a, b with NegInf, NegInf | PosInf, PosInf => true | Fin x, Fin y => qc_eqb x y | _, _ => false end.

Example C15_interval_product_nonvacuous :
  itv (Fin (qc 0 1)) PosInf (qc 7 1) /\ itv NegInf (Fin (qc (-1) 2)) (qc (-3) 2) /\
  ext_eqb (min4 (emul (Fin (qc 0 1)) NegInf) (emul (Fin (qc 0 1)) (Fin (qc (-1) 2))) (emul PosInf NegInf) (emul PosInf (Fin (qc (-1) 2)))) NegInf = true /\
  ext_eqb (max4 (emul (Fin (qc 0 1)) NegInf) (emul (Fin (qc 0 1)) (Fin (qc (-1) 2))) (emul PosInf NegInf) (emul PosInf (Fin (qc (-1) 2)))) (Fin (qc 0 1)) = true.
Proof. repeat split; try exact I; vm_compute; try reflexivity; discriminate. Qed.
