(* C19, part "expr": the expression layer of the ANML codec inside the model (Model/AnmlExpr.v).
   print  = ConverterToANMLString.walk on the printable fragment anml_ok (anml_writer.py);
   parse  = the pyparsing precedence tables of anml_grammar.py fused with ANMLReader._parse_expression, run with the
            fuel  fuel_of ts = 20 * length ts + 20  (out-of-fuel is a distinguished result that gives None);
   norm   = what the reader rebuilds (left-nested binary and/or/+/*, "-5" as Times(-1,5), "(n/d)" as a division,
            Iff as two implications, Not(Not x) collapsed), the identity elsewhere. *)
From Coq Require Import List ZArith NArith QArith Qcanon Bool.
Import ListNotations.
Require Import UPV.Core.Expr UPV.Core.Eval UPV.Model.AnmlExpr UPV.Proofs.AnmlExpr_proofs.

(* Hypothesis names_ok W R arity (record in Proofs/AnmlExpr_proofs.v): the writer's names_mapping W is injective
   across and within the kinds of named things (fresh identifiers: _get_anml_name) and the reader's tables R are
   those built from the declarations written with these identifiers: every identifier resolves to the thing it was
   written for (types_map, parameters, problem.fluent with its arity, problem.object), a fluent / object / parameter
   identifier is never a variable identifier, a fluent or object identifier is not a parameter, an object identifier
   is not a fluent.  [bs] = the variables bound around the expression (forall-effects), [rscope W bs] the reader's
   `variables` argument for them. *)
Theorem C19_expr_roundtrip :
  forall W R arity, names_ok W R arity ->
  forall e bs ts, print W R arity bs e = Some ts -> parse R (rscope W bs) ts = Some (norm e).
Proof.
  intros W R arity HN e bs ts Hp. unfold print in Hp.
  destruct (anml_ok R arity bs e) eqn:E; [|discriminate]. injection Hp as <-.
  exact (parse_print W R arity HN e bs E).
Qed.
Print Assumptions C19_expr_roundtrip.

(* The normal form has the value of the original on every interpretation, in both quantifier modes.
   nodneg e: no NOT directly under a NOT - an invariant of every FNode built through ExpressionManager.Not; without
   it the statement is false for the ill-typed Not(Not(3)) (original undefined, re-read 3). *)
Theorem C19_expr_norm_eval :
  forall R arity sc e bs I, anml_ok R arity bs e = true -> nodneg e = true -> eval sc (norm e) I = eval sc e I.
Proof. intros R arity sc e bs I. exact (norm_eval R arity e sc bs I). Qed.
Print Assumptions C19_expr_norm_eval.

(* both together: what is read back from the printed text means the same as the original *)
Theorem C19_expr_roundtrip_meaning :
  forall W R arity, names_ok W R arity ->
  forall e bs ts, print W R arity bs e = Some ts -> nodneg e = true ->
  exists e', parse R (rscope W bs) ts = Some e' /\ forall sc I, eval sc e' I = eval sc e I.
Proof.
  intros W R arity HN e bs ts Hp Hn. exists (norm e). split; [exact (C19_expr_roundtrip W R arity HN e bs ts Hp)|].
  intros sc I. unfold print in Hp. destruct (anml_ok R arity bs e) eqn:E; [|discriminate].
  exact (C19_expr_norm_eval R arity sc e bs I E Hn).
Qed.
Print Assumptions C19_expr_roundtrip_meaning.

(* Non-vacuity: the naming exW / tables exR (identifiers 4k fluents, 4k+1 parameters, 4k+2 objects, 4k+3 variables)
   satisfy names_ok, and an expression with EVERY constructor of the fragment is printable, is not its own normal
   form, and is read back as its normal form (by the theorem and, independently, by computation). *)
Definition ex_e : expr :=
  EAnd [ EOr [EFluent 0 []; ENot (EFluent 1 [EObj 5; EParam 2]); EBool false];
         EImplies (EBool true) (EIff (EFluent 0 []) (EFluent 0 []));
         EForall [(1%N, 7%N); (2%N, 8%N)] (EExists [(3%N, 7%N)] (EFluent 1 [EVar 1 7; EVar 3 7]));
         ELe (EPlus [EFluent 2 []; EInt 3; EInt (-4)]) (ETimes [EReal (Q2Qc (Qmake (-7) 2)); EFluent 3 []; EInt 2]);
         ELt (EMinus (EFluent 2 []) (EInt (-1))) (EDiv (EFluent 3 []) (EReal (Q2Qc (Qmake 5 4))));
         EEquals (EParam 1) (EObj 0) ].
Definition ex_toks : list token := pr exW ex_e.
Definition ex_parsed : option expr := parse exR [] ex_toks.
Definition ex_same : bool := expr_eqb (norm ex_e) ex_e.
Example C19_expr_roundtrip_nonvacuous :
  names_ok exW exR ex_arity
  /\ print exW exR ex_arity [] ex_e = Some ex_toks
  /\ nodneg ex_e = true
  /\ ex_same = false
  /\ ex_parsed = Some (norm ex_e)
  /\ exists e', parse exR (rscope exW []) ex_toks = Some e' /\ forall sc I, eval sc e' I = eval sc ex_e I.
Proof.
  split; [exact ex_names_ok|]. split; [vm_compute; reflexivity|]. split; [vm_compute; reflexivity|].
  split; [vm_compute; reflexivity|]. split; [vm_compute; reflexivity|].
  apply (C19_expr_roundtrip_meaning exW exR ex_arity ex_names_ok ex_e []); vm_compute; reflexivity.
Qed.
Print Assumptions C19_expr_roundtrip_nonvacuous.
