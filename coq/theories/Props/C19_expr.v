(* C19, part "expr": the expression layer of the ANML codec inside the model (Model/AnmlExpr.v).
   State of the proofs: the round trip is PROVED for the atomic part of the fragment (constants, objects, parameters,
   bound variables, 0-ary fluents), through the whole precedence descent and with the fuel bound; the full statements
   are kept as [..._goal] (what is missing: the induction over the compound constructors, for which the level lemmas
   of Proofs/AnmlExpr_proofs.v -- P_xxx, up_xxx, imp_of_xxx, chain_parses -- are the building blocks).  The concrete
   instance [C19_expr_roundtrip_example] (every constructor of the fragment) is checked by computation. *)
From Coq Require Import List ZArith NArith QArith Qcanon Bool.
Import ListNotations.
Require Import UPV.Core.Expr UPV.Core.Eval UPV.Model.AnmlExpr UPV.Proofs.AnmlExpr_proofs.

(* FULL statements (not yet proved in general). *)
Definition C19_expr_roundtrip_goal : Prop :=
  forall W R arity, names_ok W R arity ->
  forall e bs ts, print W R arity bs e = Some ts -> parse R (rscope W bs) ts = Some (norm e).
Definition C19_expr_norm_eval_goal : Prop :=
  forall R arity sc e bs I, anml_ok R arity bs e = true -> nodneg e = true -> eval sc (norm e) I = eval sc e I.

(* Hypothesis names_ok W R arity: the writer's names_mapping W is injective across and within the kinds of named
   things (fresh identifiers, _get_anml_name) and the reader's tables R are those built from the declarations
   written with these identifiers (each identifier resolves to the thing it was written for, with its arity).
   The theorem excludes out-of-fuel: [parse] runs [go] with fuel_of ts = 20 * length ts + 20. *)
Theorem C19_expr_roundtrip_atomic_partial :
  forall W R arity, names_ok W R arity ->
  forall e bs ts, atomic e = true -> print W R arity bs e = Some ts -> parse R (rscope W bs) ts = Some (norm e).
Proof.
  intros W R arity HN e bs ts Ha Hp. unfold print in Hp.
  destruct (anml_ok R arity bs e) eqn:E; [|discriminate]. injection Hp as <-.
  exact (parse_print_atomic W R arity HN e bs Ha E).
Qed.
Print Assumptions C19_expr_roundtrip_atomic_partial.

(* A concrete instance with every constructor of the fragment: identifiers 4k (fluents), 4k+1 (parameters),
   4k+2 (objects), 4k+3 (variables), k (types). *)
Definition exW : wnames :=
  {| nmF := fun f => (4 * f)%N; nmP := fun p => (4 * p + 1)%N; nmO := fun o => (4 * o + 2)%N;
     nmV := fun v => (4 * v + 3)%N; nmT := fun t => t |}.
Definition ex_arity (f : N) : nat := match f with 0%N => 0 | 1%N => 2 | _ => 0 end.
Definition exR : rtables :=
  {| tyOf := fun s => Some s;
     parOf := fun s => if (s mod 4 =? 1)%N then Some (s / 4)%N else None;
     fluOf := fun s => if (s mod 4 =? 0)%N then Some ((s / 4)%N, ex_arity (s / 4)%N) else None;
     objOf := fun s => if (s mod 4 =? 2)%N then Some (s / 4)%N else None;
     varOf := fun s => (s / 4)%N;
     fbool := fun f => (f =? 0)%N || (f =? 1)%N;
     pbool := fun _ => false |}.
Definition ex_e : expr :=
  EAnd [ EOr [EFluent 0 []; ENot (EFluent 1 [EObj 5; EParam 2]); EBool false];
         EImplies (EBool true) (EIff (EFluent 0 []) (EFluent 0 []));
         EForall [(1%N, 7%N); (2%N, 8%N)] (EExists [(3%N, 7%N)] (EFluent 1 [EVar 1 7; EVar 3 7]));
         ELe (EPlus [EFluent 2 []; EInt 3; EInt (-4)]) (ETimes [EReal (Q2Qc (Qmake (-7) 2)); EFluent 3 []; EInt 2]);
         ELt (EMinus (EFluent 2 []) (EInt (-1))) (EDiv (EFluent 3 []) (EReal (Q2Qc (Qmake 5 4))));
         EEquals (EParam 1) (EObj 0) ].
Definition ex_parsed : option expr := parse exR [] (pr exW ex_e).
Example C19_expr_roundtrip_example :
  anml_ok exR ex_arity [] ex_e = true /\ ex_parsed = Some (norm ex_e) /\ nodneg ex_e = true.
Proof. vm_compute. repeat split; reflexivity. Qed.
Example C19_expr_roundtrip_atomic_partial_nonvacuous :
  print exW exR ex_arity [(9%N, 7%N)] (EVar 9 7) = Some [TName 39%N]
  /\ parse exR (rscope exW [(9%N, 7%N)]) [TName 39%N] = Some (EVar 9 7).
Proof. vm_compute. split; reflexivity. Qed.
