(* C16 — Expressions are hash-consed and constructors normalise as documented.
   Only statements; each is closed by [exact] of a lemma from Proofs/HashCons_proofs.v.

   Reading guide.  [tc] is ANY type-check verdict function and [ar] any fluent-arity table: the hash-consing theorems
   do not depend on what the type checker says (the concrete ones are [typecheck D], [arity D]).
   [run tc ar st ks] is the manager after the history [ks] of constructor calls, failing calls included.
   [Inv st] := ids strictly increase along the table and are < next_id, no two entries share a content, TRUE/FALSE
   exist and every child id of a node is the id of a node ([C16_init_inv]: the fresh manager satisfies it, and
   [C16_inv_preserved]: every call preserves it). *)
From Coq Require Import List ZArith NArith QArith Bool Sorted.
Import ListNotations.
Require Import UPV.Model.HashCons UPV.Proofs.HashCons_proofs.
Open Scope N_scope.

Theorem C16_init_inv : forall D, Inv (init (typecheck D)).
Proof. exact init_inv. Qed.
Print Assumptions C16_init_inv.

Theorem C16_inv_preserved : forall tc ar ks st, Inv st -> Inv (run tc ar st ks).
Proof. exact run_inv. Qed.
Print Assumptions C16_inv_preserved.

(* ids are unique, strictly increasing in creation order, below the next free id, which never decreases *)
Theorem C16_ids_unique_and_increasing :
  forall tc ar st ks, Inv st ->
    StronglySorted N.lt (map n_id (tbl (run tc ar st ks))) /\ NoDup (map n_id (tbl (run tc ar st ks))) /\
    (forall n, In n (tbl (run tc ar st ks)) -> n_id n < next_id (run tc ar st ks)) /\
    next_id st <= next_id (run tc ar st ks).
Proof. exact ids_unique_and_increasing. Qed.
Print Assumptions C16_ids_unique_and_increasing.

(* structurally different expressions are distinct nodes with distinct ids; equal ids mean the same node *)
Theorem C16_distinct_content_distinct_id :
  forall tc ar st ks n1 n2, Inv st ->
    In n1 (tbl (run tc ar st ks)) -> In n2 (tbl (run tc ar st ks)) ->
    ((n_op n1, n_args n1, n_pay n1) = (n_op n2, n_args n2, n_pay n2) <-> n_id n1 = n_id n2) /\
    (n_id n1 = n_id n2 -> n1 = n2).
Proof. exact distinct_content_distinct_id. Qed.
Print Assumptions C16_distinct_content_distinct_id.

(* a node's id, operator, children and payload never change and the node never leaves the table, whatever is
   constructed afterwards (this needs no invariant at all) *)
Theorem C16_nodes_immutable :
  forall tc ar st ks n, In n (tbl st) -> In n (tbl (run tc ar st ks)).
Proof. exact nodes_immutable. Qed.
Print Assumptions C16_nodes_immutable.

(* same content => same node: create_node on a content the table holds returns that node and changes nothing *)
Theorem C16_same_content_same_node :
  forall tc ar st ks n c, Inv st -> In n (tbl (run tc ar st ks)) -> (n_op n, n_args n, n_pay n) = c ->
    create_node tc (run tc ar st ks) c = (run tc ar st ks, Ok (n_id n)).
Proof. exact same_content_same_node. Qed.
Print Assumptions C16_same_content_same_node.

(* building the same expression twice yields the identical node: a constructor call that returned node i returns
   node i again, and leaves the manager untouched, after ANY further history [ks'] (failing calls included) *)
Theorem C16_same_call_same_node :
  forall tc ar st ks k st1 i ks', Inv st ->
    step tc ar (run tc ar st ks) k = (st1, Ok i) ->
    step tc ar (run tc ar st1 ks') k = (run tc ar st1 ks', Ok i).
Proof. exact same_call_same_node. Qed.
Print Assumptions C16_same_call_same_node.

Theorem C16_result_in_table :
  forall tc ar st ks k st1 i, Inv st -> step tc ar (run tc ar st ks) k = (st1, Ok i) ->
    exists n, In n (tbl st1) /\ n_id n = i.
Proof. exact result_in_table. Qed.
Print Assumptions C16_result_in_table.

(* a create_node that fails its type check leaves the table exactly as it was *)
Theorem C16_failed_create_leaves_table :
  forall tc st c e st1, create_node tc st c = (st1, Err e) -> tbl st1 = tbl st.
Proof. exact failed_create_leaves_table. Qed.
Print Assumptions C16_failed_create_leaves_table.

(* ---- documented normalisations ---- *)
Theorem C16_and_nil : forall tc ar st, step tc ar st (KNary NAnd []) = (st, Ok true_id).
Proof. exact and_nil. Qed.
Print Assumptions C16_and_nil.
Theorem C16_or_nil : forall tc ar st, step tc ar st (KNary NOr []) = (st, Ok false_id).
Proof. exact or_nil. Qed.
Print Assumptions C16_or_nil.
Theorem C16_plus_nil : forall tc ar st, step tc ar st (KNary NPlus []) = step tc ar st (KInt 0).
Proof. exact plus_nil. Qed.
Print Assumptions C16_plus_nil.
Theorem C16_times_nil : forall tc ar st, step tc ar st (KNary NTimes []) = step tc ar st (KInt 1).
Proof. exact times_nil. Qed.
Print Assumptions C16_times_nil.

(* And / Or / Plus / Times of one argument is that (promoted) argument itself *)
Theorem C16_nary_single : forall tc ar st o a, step tc ar st (KNary o [a]) = promote tc ar st a.
Proof. exact nary_single. Qed.
Print Assumptions C16_nary_single.

(* Not of a Not node returns the node under it, creating nothing *)
Theorem C16_not_not :
  forall tc ar st j n i r, find_id j (tbl st) = Some n -> n_op n = ONot -> n_args n = i :: r ->
    step tc ar st (KNot (ANode j)) = (st, Ok i).
Proof. exact not_not. Qed.
Print Assumptions C16_not_not.

Theorem C16_not_not_roundtrip :
  forall tc ar st i n st1 j, wf st -> find_id i (tbl st) = Some n -> n_op n <> ONot ->
    step tc ar st (KNot (ANode i)) = (st1, Ok j) -> step tc ar st1 (KNot (ANode j)) = (st1, Ok i).
Proof. exact not_not_roundtrip. Qed.
Print Assumptions C16_not_not_roundtrip.

(* GE a b is the node LE b a, GT a b the node LT b a *)
Theorem C16_ge_is_le_swapped :
  forall tc ar st a b st1 i, Inv st ->
    step tc ar st (KBin BGE a b) = (st1, Ok i) -> step tc ar st1 (KBin BLE b a) = (st1, Ok i).
Proof. exact ge_is_le_swapped. Qed.
Print Assumptions C16_ge_is_le_swapped.
Theorem C16_gt_is_lt_swapped :
  forall tc ar st a b st1 i, Inv st ->
    step tc ar st (KBin BGT a b) = (st1, Ok i) -> step tc ar st1 (KBin BLT b a) = (st1, Ok i).
Proof. exact gt_is_lt_swapped. Qed.
Print Assumptions C16_gt_is_lt_swapped.
Theorem C16_ge_on_nodes :
  forall tc ar st i j, step tc ar st (KBin BGE (ANode i) (ANode j)) = step tc ar st (KBin BLE (ANode j) (ANode i)).
Proof. exact ge_nodes. Qed.
Print Assumptions C16_ge_on_nodes.
Theorem C16_gt_on_nodes :
  forall tc ar st i j, step tc ar st (KBin BGT (ANode i) (ANode j)) = step tc ar st (KBin BLT (ANode j) (ANode i)).
Proof. exact gt_nodes. Qed.
Print Assumptions C16_gt_on_nodes.
Theorem C16_ge_content :
  forall tc ar st a b st1 i, step tc ar st (KBin BGE a b) = (st1, Ok i) ->
    exists n ia ib, In n (tbl st1) /\ n_id n = i /\ (n_op n, n_args n, n_pay n) = (OLE, [ib; ia], PNone).
Proof. exact ge_content. Qed.
Print Assumptions C16_ge_content.

(* numeric literals (Fraction(4,2), 2.0, "4/2", "2.0", 2 ...): equal rationals are promoted identically;
   an integral one IS the Int constant, a non-integral one the Real constant with the reduced fraction *)
Theorem C16_literal_canonical :
  forall tc ar st q1 q2, (q1 == q2)%Q -> promote tc ar st (ANum q1) = promote tc ar st (ANum q2).
Proof. exact promote_num_canonical. Qed.
Print Assumptions C16_literal_canonical.
Theorem C16_literal_integral_is_Int :
  forall tc ar st q, Qden (Qred q) = 1%positive -> promote tc ar st (ANum q) = step tc ar st (KInt (Qnum (Qred q))).
Proof. exact promote_num_integral. Qed.
Print Assumptions C16_literal_integral_is_Int.
Theorem C16_literal_fraction_is_reduced_Real :
  forall tc ar st q, Qden (Qred q) <> 1%positive ->
    promote tc ar st (ANum q) = create_node tc st (OReal, [], PReal (Qnum (Qred q)) (Qden (Qred q))).
Proof. exact promote_num_fraction. Qed.
Print Assumptions C16_literal_fraction_is_reduced_Real.
Theorem C16_int_literal_is_Int : forall tc ar st z, promote tc ar st (AInt z) = step tc ar st (KInt z).
Proof. exact promote_int_is_Int. Qed.
Print Assumptions C16_int_literal_is_Int.

(* ---- non-vacuity: a concrete history over a small environment, with failing calls in the middle ---- *)
Definition exD : decls :=
  {| d_fluents := [(0, ([], TBool)); (1, ([], TNum false None)); (2, ([PtUser 0], TBool))];
     d_objects := [(0, 0)]; d_params := []; d_ancestors := [(0, [0])] |}.
Definition exK : list call :=
  [ KBin BEquals (AFluent 0) (AFluent 0);          (* ill-typed: Equals on booleans -> fails *)
    KBin BDiv (AInt 3) (ANum (0 # 5));             (* 3 / 0 -> ZeroDivisionError in the type checker *)
    KBin BGE (AFluent 1) (ANum (4 # 2));           (* i >= Fraction(4,2) *)
    KBin BLE (AInt 2) (AFluent 1);                 (* 2 <= i : the same node *)
    KNot (AFluent 0); KNot (ANode 11);             (* not b ; not (not b) = b *)
    KBin BEquals (AFluent 0) (AFluent 0) ].        (* fails again *)

Example C16_nonvacuous :
  let tcD := typecheck exD in let arD := arity exD in
  map fst (run_obs tcD arD (init tcD) exK)
    = [Err EType; Err EZeroDiv; Ok 10; Ok 10; Ok 11; Ok 3; Err EType]
  /\ Inv (init tcD)
  /\ length (tbl (run tcD arD (init tcD) exK)) = 9%nat.
Proof. cbv zeta. split; [vm_compute; reflexivity | split; [apply init_inv | vm_compute; reflexivity]]. Qed.

Example C16_literals_nonvacuous :
  uniform (4 # 2) = inl 2%Z /\ uniform (6 # 4) = inr (3 # 2)%Q /\ uniform (20 # 10) = inl 2%Z.
Proof. vm_compute. repeat split. Qed.
