(* C18 (part: plans) — "a plan written by the writer parses back to an equivalent plan".
   The PLAN TEXT codec is modelled in Model/PlanText.v: print_plan = PDDLWriter._write_plan (+ _time_to_str),
   parse_plan = UPPDDLReader.parse_plan_string up to the look-ups, resolve_* = the look-ups through get_item_named.
   Only statements; each is closed by [exact] of a lemma from Proofs/PlanText_proofs.v.
   Model = code is checked by harness/ext/c18_plan.py (Corr/Corr_C18_plan.v). *)
From Coq Require Import List NArith ZArith QArith Qabs Ascii Bool.
From Coq Require Import String.
Import ListNotations.
Require Import UPV.Model.PlanText UPV.Proofs.PlanText_proofs.

(* (1) decimal codec: whenever the writer's _time_to_str prints a Fraction q exactly (print_dec q = Some s: q >= 0,
   the denominator divides a power of ten, at most 50 significant digits), Fraction(s) as used by the reader is q.
   q_reduced: q is in lowest terms, as every Python Fraction is. *)
Theorem C18_plan_dec_round_trip :
  forall q s, q_reduced q = true -> print_dec q = Some s -> parse_dec s = Some q.
Proof. exact parse_dec_print_dec. Qed.
Print Assumptions C18_plan_dec_round_trip.

(* the same inside a line: the number is read back and exactly the continuation is left, for every continuation that
   does not start with a digit or a point (in the plan grammar: ":" and "]") *)
Theorem C18_plan_dec_prefix_round_trip :
  forall q s rest, q_reduced q = true -> print_dec q = Some s ->
    match rest with [] => True | c :: _ => (is_digit c || (code c =? 46)%N) = false end ->
    parse_num (s ++ rest) = Some (q, rest).
Proof. exact print_dec_parse. Qed.
Print Assumptions C18_plan_dec_prefix_round_trip.

(* the exact fragment is contained in: non-negative, denominator divides a power of ten (= 2^a * 5^b) *)
Theorem C18_plan_dec_fragment :
  forall q s, print_dec q = Some s ->
    (0 <= Qnum q)%Z /\ exists k, (N.pos (pow10 k) mod N.pos (Qden q) = 0)%N.
Proof. exact print_dec_fragment. Qed.
Print Assumptions C18_plan_dec_fragment.

(* ... and completely: print_dec gives None ONLY for a negative value, a denominator that divides no power of ten
   (a prime factor other than 2 and 5), or an exact expansion of more than 50 significant digits (k is the exponent
   found by find_k, the least one) *)
Theorem C18_plan_dec_none_only_outside_fragment :
  forall q, print_dec q = None ->
    (Qnum q < 0)%Z
    \/ (forall k, (pow10N k mod N.pos (Qden q) <> 0)%N)
    \/ exists k, (pow10N k mod N.pos (Qden q) = 0)%N /\
         (50 < List.length (digits (Z.to_N (Qnum q) * (pow10N k / N.pos (Qden q)))))%nat.
Proof. exact print_dec_none. Qed.
Print Assumptions C18_plan_dec_none_only_outside_fragment.

Definition ex_eighth : Q := 1 # 8.
Definition ex_big : Q := 10000000001 # 1000.
Definition ex_tiny : Q := 1 # 100000.
Definition ex_third : Q := 1 # 3.
Definition ex_neg : Q := (-1) # 2.
Definition ex_52digits : Q := 1000000000000000000000000000000000000000000000000001 # 10.
Definition ex_50digits : Q := 10000000000000000000000000000000000000000000000001 # 10.
Definition st (s : String.string) : str := String.list_ascii_of_string s.

Example C18_plan_dec_round_trip_nonvacuous :
  q_reduced ex_eighth = true /\ print_dec ex_eighth = Some (st "0.125"%string)
  /\ print_dec ex_big = Some (st "10000000.001"%string) /\ print_dec ex_tiny = Some (st "0.00001"%string)
  /\ print_dec ex_50digits = Some (st "1000000000000000000000000000000000000000000000000.1"%string)
  /\ print_dec ex_third = None /\ print_dec ex_neg = None /\ print_dec ex_52digits = None
  /\ parse_dec (st "00012.500"%string) = Some (25 # 2) /\ parse_dec (st "1."%string) = Some (1 # 1)
  /\ parse_dec (st ".5"%string) = None /\ parse_dec (st "1e3"%string) = None /\ parse_dec (st "1.5.2"%string) = None.
Proof. vm_compute. repeat split. Qed.

(* (2) sequential plans: every written plan whose names are well formed (non-empty, characters of [\w?-], unchanged
   by lower()) is read back identically.  The writer's names are always of this form (_get_pddl_name). *)
Theorem C18_plan_seq_round_trip :
  forall l, forallb wf_step l = true -> parse_plan (print_seq l) = Some (PSeq l).
Proof. exact parse_print_seq. Qed.
Print Assumptions C18_plan_seq_round_trip.

(* (3) time-triggered plans: start times and durations that the writer prints exactly (dec_ok), names as above *)
Theorem C18_plan_tt_round_trip :
  forall l txt, forallb wf_tstep l = true -> print_tt l = Some txt ->
    parse_plan txt = Some (match l with [] => PSeq [] | _ => PTT l end).
Proof. exact parse_print_tt. Qed.
Print Assumptions C18_plan_tt_round_trip.

(* a well-formed plan is always printed (print_plan is None only for a time outside the exact fragment) *)
Theorem C18_plan_print_total :
  forall p, wf_plan p = true -> exists t, print_plan p = Some t.
Proof. exact print_plan_total. Qed.
Print Assumptions C18_plan_print_total.

(* both kinds at once, on lists of characters and on Coq strings; plan_norm: the EMPTY time-triggered plan is written
   as the empty text and comes back as the empty sequential plan, every other plan comes back unchanged *)
Theorem C18_plan_round_trip :
  forall p t, wf_plan p = true -> print_plan p = Some t -> parse_plan t = Some (plan_norm p).
Proof. exact parse_print_plan. Qed.
Print Assumptions C18_plan_round_trip.

Theorem C18_plan_string_round_trip :
  forall p s, wf_plan p = true -> print_plan_string p = Some s -> parse_plan_string s = Some (plan_norm p).
Proof. exact parse_print_plan_string. Qed.
Print Assumptions C18_plan_string_round_trip.

Theorem C18_plan_dec_string_round_trip :
  forall q s, q_reduced q = true -> print_dec_string q = Some s -> parse_dec_string s = Some q.
Proof. exact parse_print_dec_string. Qed.
Print Assumptions C18_plan_dec_string_round_trip.

(* with the look-ups: [act]/[obj] = get_item_named restricted to actions/objects, [inst_ok] = the checks of the
   ActionInstance constructor, [aname]/[oname] = the writer's renaming (get_pddl_name).  Hypotheses (inst_good): on the
   items of the plan get_item_named inverts get_pddl_name (the writer fills nto_renamings and otn_renamings together)
   and every instance passes the constructor's checks; the names are well formed.  Then reading the written text
   and resolving the names gives back the plan itself. *)
Theorem C18_plan_items_seq_round_trip :
  forall (A O : Type) (act : str -> option A) (obj : str -> option O) (inst_ok : A -> list O -> bool)
         (aname : A -> str) (oname : O -> str) (l : list (A * list O)),
    Forall (inst_good A O act obj inst_ok aname oname) l ->
    forallb wf_step (map (inst_names A O aname oname) l) = true ->
    exists raw, parse_plan (print_seq (map (inst_names A O aname oname) l)) = Some (PSeq raw)
                /\ resolve_seq A O act obj inst_ok raw = Some l.
Proof. exact items_seq_round_trip. Qed.
Print Assumptions C18_plan_items_seq_round_trip.

Theorem C18_plan_items_tt_round_trip :
  forall (A O : Type) (act : str -> option A) (obj : str -> option O) (inst_ok : A -> list O -> bool)
         (aname : A -> str) (oname : O -> str) (l : list (Q * (A * list O) * option Q)),
    l <> [] ->
    Forall (fun r => inst_good A O act obj inst_ok aname oname (snd (fst r))) l ->
    forallb wf_tstep (map (trow_names A O aname oname) l) = true ->
    exists txt raw, print_tt (map (trow_names A O aname oname) l) = Some txt
                    /\ parse_plan txt = Some (PTT raw)
                    /\ resolve_tt A O act obj inst_ok raw = Some l.
Proof. exact items_tt_round_trip. Qed.
Print Assumptions C18_plan_items_tt_round_trip.

(* (4) non-vacuity: concrete plans in the fragment, with the text the writer produces *)
Definition ex_seq : plan :=
  PSeq [mkStep (st "move_0"%string) [st "r2"; st "l1_0"%string; st "loc-3"%string]; mkStep (st "noop"%string) []; mkStep (st "pick-up"%string) [st "r_x"]].
Definition ex_seq_text : str := st "(move_0 r2 l1_0 loc-3)"%string ++ [nl] ++ st "(noop)"%string ++ [nl] ++ st "(pick-up r_x)"%string ++ [nl].
Example C18_plan_seq_round_trip_nonvacuous :
  wf_plan ex_seq = true /\ print_plan ex_seq = Some ex_seq_text /\ parse_plan ex_seq_text = Some ex_seq.
Proof. vm_compute. repeat split. Qed.

Definition ex_tt : plan :=
  PTT [mkTStep ex_eighth (mkStep (st "fly"%string) [st "r2"; st "l1"%string]) (Some (7 # 2));
       mkTStep ex_big (mkStep (st "noop"%string) []) None;
       mkTStep (3 # 1) (mkStep (st "charge"%string) []) (Some ex_tiny)].
Definition ex_tt_text : str :=
  st "0.125: (fly r2 l1)[3.5]"%string ++ [nl] ++ st "10000000.001: (noop)"%string ++ [nl] ++ st "3: (charge)[0.00001]"%string ++ [nl].
Example C18_plan_tt_round_trip_nonvacuous :
  wf_plan ex_tt = true /\ print_plan ex_tt = Some ex_tt_text /\ parse_plan ex_tt_text = Some ex_tt.
Proof. vm_compute. repeat split. Qed.

(* the look-up hypotheses are satisfiable: two actions and two objects named by small tables *)
Definition ex_act (n : str) : option nat :=
  if list_eq_dec ascii_dec n (st "move"%string) then Some 0%nat else if list_eq_dec ascii_dec n (st "noop"%string) then Some 1%nat else None.
Definition ex_obj (n : str) : option nat :=
  if list_eq_dec ascii_dec n (st "a"%string) then Some 0%nat else if list_eq_dec ascii_dec n (st "b"%string) then Some 1%nat else None.
Definition ex_aname (a : nat) : str := match a with O => st "move"%string | _ => st "noop"%string end.
Definition ex_oname (o : nat) : str := match o with O => st "a"%string | _ => st "b"%string end.
Definition ex_ok (a : nat) (os : list nat) : bool := Nat.eqb (List.length os) (match a with O => 2 | _ => 0 end)%nat.
Definition ex_items : list (nat * list nat) := [(0, [0; 1]); (1, [])]%nat.
Example C18_plan_items_seq_round_trip_nonvacuous :
  Forall (inst_good nat nat ex_act ex_obj ex_ok ex_aname ex_oname) ex_items
  /\ forallb wf_step (map (inst_names nat nat ex_aname ex_oname) ex_items) = true.
Proof. split; [repeat constructor|vm_compute; reflexivity]. Qed.

(* (5) case: the reader lower-cases every line before matching, so a name with an upper-case letter does not survive
   (wf_name's "unchanged by lower()" is necessary); the writer never emits one (_get_pddl_name lower-cases) *)
Definition ex_upper : step := mkStep (st "Move"%string) [st "A"].
Theorem C18_plan_upper_case_name_refuted :
  exists s, forallb is_name (s_name s) = true /\ forallb (forallb is_name) (s_args s) = true
            /\ parse_plan (print_seq [s]) = Some (PSeq [mkStep (map lower (s_name s)) (map (map lower) (s_args s))])
            /\ parse_plan (print_seq [s]) <> Some (PSeq [s]).
Proof. exists ex_upper. vm_compute. repeat split. discriminate. Qed.
Print Assumptions C18_plan_upper_case_name_refuted.

(* the kind of an EMPTY time-triggered plan is lost: it is written as the empty text, which reads as SequentialPlan([]) *)
Theorem C18_plan_empty_tt_kind_refuted :
  exists p, wf_plan p = true /\ exists t, print_plan p = Some t /\ parse_plan t <> Some p.
Proof. exists (PTT []). split; [reflexivity|]. exists []. split; [reflexivity|]. vm_compute. discriminate. Qed.
Print Assumptions C18_plan_empty_tt_kind_refuted.

(* ---------- the writer on EVERY Fraction: print_dec_real / print_plan_real mirror _time_to_str / _write_plan in full
   (Decimal division at 50 significant digits, ROUND_HALF_EVEN, plain notation; compared with the code byte for byte
   also for 1/3, 2/7, more than 50 digits, negative values) ---------- *)

Definition in_exact_fragment (q : Q) : Prop := exists s, print_dec q = Some s.

(* on the exact fragment the total printer IS print_dec *)
Theorem C18_plan_dec_real_agrees :
  forall q s, q_reduced q = true -> print_dec q = Some s -> print_dec_real q = s.
Proof. exact print_dec_real_agrees. Qed.
Print Assumptions C18_plan_dec_real_agrees.

Theorem C18_plan_real_round_trip :
  forall q, q_reduced q = true -> in_exact_fragment q -> parse_dec (print_dec_real q) = Some q.
Proof. exact parse_print_dec_real_exact. Qed.
Print Assumptions C18_plan_real_round_trip.

Theorem C18_plan_plan_real_agrees :
  forall p t, wf_plan p = true -> print_plan p = Some t -> print_plan_real p = t.
Proof. exact print_plan_real_agrees. Qed.
Print Assumptions C18_plan_plan_real_agrees.

(* the plan round trip about the function that mirrors _write_plan in full *)
Theorem C18_plan_plan_real_round_trip :
  forall p, wf_plan p = true -> parse_plan (print_plan_real p) = Some (plan_norm p).
Proof. exact parse_print_plan_real. Qed.
Print Assumptions C18_plan_plan_real_round_trip.

(* for EVERY q >= 0 the reader gets back dec_rounded q = the value of the 50-digit decimal computed by the writer's
   division (dec_div50) *)
Theorem C18_plan_dec_real_parses :
  forall q, (0 <= Qnum q)%Z -> parse_dec (print_dec_real q) = Some (dec_rounded q).
Proof. exact parse_print_dec_real. Qed.
Print Assumptions C18_plan_dec_real_parses.

(* the coefficient printed has at most 50 digits *)
Theorem C18_plan_dec_real_50_digits :
  forall n d, (fst (dec_div50 n d) < pow10N 50)%N.
Proof. exact dec_div50_bound. Qed.
Print Assumptions C18_plan_dec_real_50_digits.

(* what is read back is always (the value of) a decimal with at most 50 significant digits *)
Theorem C18_plan_dec_rounded_shape :
  forall q, N.pos (Qden q) <> 1%N -> exists c e, dec_rounded q = dec_val c e /\ (c < pow10N 50)%N.
Proof. exact dec_rounded_shape. Qed.
Print Assumptions C18_plan_dec_rounded_shape.

(* a Fraction whose denominator has a prime factor other than 2 and 5 is denoted by NO decimal string at all *)
Theorem C18_plan_no_decimal_denotes :
  forall q s, q_reduced q = true -> (forall k, (pow10N k mod N.pos (Qden q) <> 0)%N) -> parse_dec s <> Some q.
Proof. exact no_decimal_denotes. Qed.
Print Assumptions C18_plan_no_decimal_denotes.

(* (boundary of the property, not a finding) outside the exact fragment - non-decimal denominator OR more than 50
   significant digits - the written time is read back as dec_rounded q, which is NOT q: the round trip loses it *)
Theorem C18_plan_dec_rounds_outside_fragment :
  forall q, q_reduced q = true -> (0 <= Qnum q)%Z -> print_dec q = None ->
    parse_dec (print_dec_real q) = Some (dec_rounded q) /\ dec_rounded q <> q.
Proof. exact dec_rounds_outside_fragment. Qed.
Print Assumptions C18_plan_dec_rounds_outside_fragment.

(* NOT proved: that dec_rounded q is THE half-even rounding of q to 50 significant digits (|q - q'| <= half a unit of
   the 50th digit, ties to even); dec_div50 mirrors _pydecimal's algorithm and is compared with the code on every
   correspondence case; examples below (incl. the two tie directions) *)
Definition C18_plan_dec_rounded_is_half_even_goal : Prop :=
  forall q, q_reduced q = true -> (0 < Qnum q)%Z -> print_dec q = None ->
    exists c e, dec_rounded q = dec_val c e /\ (pow10N 49 <= c < pow10N 50)%N
      /\ (Qabs (q - dec_val c e) * (2 # 1) <= dec_val 1 e)%Q
      /\ ((Qabs (q - dec_val c e) * (2 # 1) == dec_val 1 e)%Q -> N.even c = true).

Definition ex_tie_down : Q := 40000000000000000000000000000000000000000000000001 # 2.
Definition ex_tie_up : Q := 40000000000000000000000000000000000000000000000003 # 2.
Example C18_plan_dec_rounds_examples :
  dec_rounded ex_third = (33333333333333333333333333333333333333333333333333 # 100000000000000000000000000000000000000000000000000)
  /\ dec_rounded ex_52digits = (100000000000000000000000000000000000000000000000000 # 1)
  /\ dec_rounded ex_tie_down = (20000000000000000000000000000000000000000000000000 # 1)
  /\ dec_rounded ex_tie_up = (20000000000000000000000000000000000000000000000002 # 1)
  /\ dec_rounded ex_eighth = ex_eighth
  /\ q_reduced ex_tie_down = true /\ q_reduced ex_tie_up = true
  /\ print_dec ex_third = None /\ print_dec ex_tie_down = None.
Proof. vm_compute. repeat split. Qed.

Example C18_plan_dec_real_examples :
  print_dec_real ex_third = st "0.33333333333333333333333333333333333333333333333333"%string
  /\ print_dec_real (2 # 3) = st "0.66666666666666666666666666666666666666666666666667"%string
  /\ print_dec_real ex_52digits = st "100000000000000000000000000000000000000000000000000"%string
  /\ print_dec_real ex_neg = st "-0.5"%string
  /\ print_dec_real ex_eighth = st "0.125"%string /\ print_dec_real ex_big = st "10000000.001"%string
  /\ print_plan_real ex_tt = ex_tt_text /\ print_plan_real ex_seq = ex_seq_text.
Proof. vm_compute. repeat split. Qed.
