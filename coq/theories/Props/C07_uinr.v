(* C07 (compiler completeness), Layer A, part file: UndefinedInitialNumericRemover.
   Model, state relation and hypotheses: see Props/C06_uinr.v.  The compiled problem keeps the action names, so the
   compiled counterpart of a plan is the plan itself (same length, maps back to the same sequence). *)
From Coq Require Import List ZArith NArith QArith Qcanon Bool.
Import ListNotations.
Require Import UPV.Core.Expr UPV.Core.Eval UPV.Core.Interp UPV.Planning.Problem UPV.Planning.Sem.
Require Import UPV.Compilers.LayerA_Defs UPV.Compilers.LayerA_Quant UPV.Compilers.LayerA_Uinr.
Require Import UPV.Proofs.LayerA_Uinr_proofs.

Theorem C07_LA_uinr_complete :
  forall (umap : list (N * N)) (P : problem), uinr_ok umap P = true ->
  forall (s s' : state) (pi : list (N * list value)), uinr_rel umap s s' ->
    valid_plan false P s pi = true -> valid_plan false (uinr_compile umap P) s' pi = true.
Proof. exact uinr_complete. Qed.
Print Assumptions C07_LA_uinr_complete.

(* every original run has its compiled run, step by step, with related states *)
Theorem C07_LA_uinr_run :
  forall (umap : list (N * N)) (P : problem), uinr_ok umap P = true ->
  forall (pi : list (N * list value)) (s s' : state), uinr_rel umap s s' ->
    orel umap (run P (spec_step false P) s pi) (run (uinr_compile umap P) (spec_step false (uinr_compile umap P)) s' pi).
Proof. exact uinr_run. Qed.
Print Assumptions C07_LA_uinr_run.

(* without [action_ok]: `a: if c then y := x + 1; g := true` (and `a: if c then x += 1; g := true`), x without value,
   c false: the original skips the conditional effect and [a] is valid; the compiled a requires is_value_defined_x as a
   PRECONDITION and is not applicable.  The real compiler and validator show exactly this
   (finding C07-uinr-guard-on-conditional-read). *)
Theorem C07_LA_uinr_conditional_read_refuted :
  exists (umap : list (N * N)) (P : problem) (s s' : state) (pi : list (N * list value)),
    umap_ok umap P = true /\ uinr_ok umap P = false /\ uinr_rel umap s s' /\
    valid_plan false P s pi = true /\ valid_plan false (uinr_compile umap P) s' pi = false.
Proof.
  exists UinrW.um, UinrW.P2, UinrW.s0, (uinr_init UinrW.um UinrW.dflt UinrW.s0), UinrW.plan2.
  destruct uinr_cond_read_incomplete as (H1 & H2 & H3 & H4 & H5 & _). exact (conj H1 (conj H2 (conj H3 (conj H4 H5)))).
Qed.
Print Assumptions C07_LA_uinr_conditional_read_refuted.

Theorem C07_LA_uinr_conditional_increase_refuted :
  exists (umap : list (N * N)) (P : problem) (s s' : state) (pi : list (N * list value)),
    uinr_ok umap P = false /\ uinr_rel umap s s' /\
    valid_plan false P s pi = true /\ valid_plan false (uinr_compile umap P) s' pi = false.
Proof.
  exists UinrW.um, UinrW.P2', UinrW.s0, (uinr_init UinrW.um UinrW.dflt UinrW.s0), UinrW.plan2.
  destruct uinr_cond_read_incomplete as (_ & _ & H3 & _ & _ & H6 & H7 & H8). exact (conj H6 (conj H3 (conj H7 H8))).
Qed.
Print Assumptions C07_LA_uinr_conditional_increase_refuted.

Example C07_LA_uinr_nonvacuous :
  uinr_ok UinrW.um UinrW.P3 = true /\
  uinr_rel UinrW.um UinrW.s0 (uinr_init UinrW.um UinrW.dflt UinrW.s0) /\
  valid_plan false UinrW.P3 UinrW.s0 UinrW.plan3 = true /\
  valid_plan false (uinr_compile UinrW.um UinrW.P3) (uinr_init UinrW.um UinrW.dflt UinrW.s0) UinrW.plan3 = true.
Proof. destruct uinr_nonvacuous as (H1 & H2 & H3 & H4 & _). exact (conj H1 (conj H2 (conj H3 H4))). Qed.
Print Assumptions C07_LA_uinr_nonvacuous.
