(* C08, Layer A part — "every compiled problem is well formed", PROVED for the Layer A compiler models, for ALL problems.
   Definitions: Compilers/LayerA_Wf.v ([wf_problem] = the counterpart of C08's checker wf_np on Planning/Problem.problem,
   plus "no free variables"); proofs: Proofs/LayerA_Wf_proofs.v.  Order: state-invariants remover, bounded-types remover,
   quantifiers remover, conditional-effects remover, negative-conditions remover, grounder, disjunctive-conditions
   remover.  External behaviour (simplifier, fresh names, DNF walker, negative-fluent rewriting, the grounder's
   parameter tuples) enters as explicit hypotheses, stated beside each theorem. *)
From Coq Require Import List ZArith NArith QArith Qcanon Bool Lia Cantor.
Import ListNotations.
Require Import UPV.Core.Expr UPV.Core.Eval UPV.Core.Interp UPV.Planning.Problem UPV.Planning.Sem UPV.Planning.Ground.
Require Import UPV.Walkers.Subst.
Require Import UPV.Compilers.Variants UPV.Compilers.LayerA_Defs UPV.Compilers.LayerA_Quant UPV.Compilers.LayerA_Inv
  UPV.Compilers.LayerA_Variants UPV.Compilers.LayerA_Ground UPV.Compilers.LayerA_Neg UPV.Compilers.LayerA_Wf.
Require Import UPV.Proofs.LayerA_Wf_proofs.

(* the clause code used by the correspondence is 0 exactly on the well-formed problems *)
Theorem C08_LA_wf_code_zero : forall P, wf_la_code P = 0%N <-> wf_problem P = true.
Proof. exact wf_la_code_zero. Qed.
Print Assumptions C08_LA_wf_code_zero.

(* ---- 1. StateInvariantsRemover.  Hypothesis: the simplifier introduces nothing undeclared (keeps_wf). *)
Theorem C08_LA_sir_wf : forall smp P, keeps_wf (denv_of P) smp -> wf_problem P = true ->
  wf_problem (sir_compile smp P) = true /\ no_invariants (sir_compile smp P) = true.
Proof. exact sir_wf. Qed.
Print Assumptions C08_LA_sir_wf.

(* ---- 2. BoundedTypesRemover.  Same hypothesis.  The bound constraints it adds are well formed by themselves
   (bound_invs_wf: every ground instance of a declared fluent over declared objects). *)
Theorem C08_LA_btr_wf : forall smp P, keeps_wf (denv_of P) smp -> wf_problem P = true ->
  wf_problem (btr_compile smp P) = true /\ no_bounded (btr_compile smp P) = true.
Proof. exact btr_wf. Qed.
Print Assumptions C08_LA_btr_wf.

(* ---- 3. QuantifiersRemover.  keeps_wf for the result; "the simplifier does not invent quantifiers" (keeps qf) for the
   promised shape: no quantifier in any precondition / effect condition / effect value / goal / invariant, no forall
   effect.  The expansion itself is quantifier free without any side condition. *)
Theorem C08_LA_expand_quantifier_free : forall ob e, qf (expand ob e) = true.
Proof. exact qf_expand'. Qed.
Print Assumptions C08_LA_expand_quantifier_free.

Theorem C08_LA_quant_wf : forall smp P, keeps_wf (denv_of P) smp -> wf_problem P = true ->
  wf_problem (quant_compile smp P) = true /\ (keeps qf smp -> quantifier_free (quant_compile smp P) = true).
Proof. exact quant_wf. Qed.
Print Assumptions C08_LA_quant_wf.

(* ---- 4. ConditionalEffectsRemover.  Hypotheses: check_and_simplify_preconditions introduces nothing undeclared
   (simp_pre_wf); fresh names are pairwise different and new (nm_inj, nm_fresh: C08_fresh_name_is_fresh /
   C08_fresh_names_nodup); and the side condition cer_side: the condition of a conditional effect does not mention the
   effect's forall variables. *)
Theorem C08_LA_cer_wf : forall simp_pre nm P, simp_pre_wf (denv_of P) simp_pre -> nm_inj nm -> nm_fresh nm P ->
  cer_side P = true -> wf_problem P = true ->
  wf_problem (cer_compile simp_pre nm P) = true /\ no_cond_effects (cer_compile simp_pre nm P) = true.
Proof. exact cer_wf. Qed.
Print Assumptions C08_LA_cer_wf.

(* ---- 5. NegativeConditionsRemover.  Hypotheses: the rewriting maps expressions over the original declarations to
   expressions over the compiled ones (it introduces only the negation fluents the compiler declares), keeps_wf for the
   compiled declarations, and the negation fluents are new and pairwise different (nmap_fresh, decidable). *)
Theorem C08_LA_neg_wf : forall nmap rw smp P,
  (forall ps B e, wfx (denv_of P) ps B e = true -> wfx (denv_of (neg_compile nmap rw smp P)) ps B (rw e) = true) ->
  keeps_wf (denv_of (neg_compile nmap rw smp P)) smp ->
  nmap_fresh nmap P = true -> wf_problem P = true -> wf_problem (neg_compile nmap rw smp P) = true.
Proof. exact neg_wf. Qed.
Print Assumptions C08_LA_neg_wf.

Theorem C08_LA_neg_shape : forall nmap rw smp P, (forall e, neg_free (rw e) = true) -> keeps neg_free smp ->
  negation_free (neg_compile nmap rw smp P) = true.
Proof. exact neg_shape. Qed.
Print Assumptions C08_LA_neg_shape.

(* ---- 6. Grounder.  Hypotheses: keeps_wf (the grounder's Simplifier(env, problem) folds static fluents to declared
   constants), fresh names, and tuples_ok: the enumerated tuples have the action's arity and consist of declared
   objects / constants.  Result: well formed, no action has parameters, hence no parameter occurs anywhere. *)
Theorem C08_LA_ground_wf : forall smp tuples nm P, keeps_wf (denv_of P) smp -> nm_inj nm -> nm_fresh nm P ->
  tuples_ok P tuples -> wf_problem P = true ->
  wf_problem (ground_compile smp tuples nm P) = true /\ ground_problem (ground_compile smp tuples nm P) = true.
Proof. exact ground_wf. Qed.
Print Assumptions C08_LA_ground_wf.

Theorem C08_LA_ground_param_free : forall D B e, wfx D [] B e = true -> param_free e = true.
Proof. exact wfx_param_free. Qed.
Print Assumptions C08_LA_ground_param_free.

(* ---- 7. DisjunctiveConditionsRemover (goals kept: no auxiliary goal action).  Hypotheses: the DNF walker returns
   disjuncts / literals over the condition's own atoms (cdnf_wf, pre_dnf_wf), fresh names, well-formed goal conjuncts. *)
Theorem C08_LA_dcr_wf : forall cdnf pre_dnf nm P, cdnf_wf (denv_of P) cdnf -> pre_dnf_wf (denv_of P) pre_dnf ->
  forall goals', nm_inj nm -> nm_fresh nm P -> forallb (wfx (denv_of P) [] []) goals' = true -> wf_problem P = true ->
  wf_problem (dcr_compile cdnf pre_dnf nm P goals') = true.
Proof. exact dcr_wf. Qed.
Print Assumptions C08_LA_dcr_wf.

(* ---- totality: the conflict exception of _add_effect_instance cannot escape — every action a model keeps has a
   conflict-free effect list (the others are left out, as the real `except UPConflictingEffectsException` does) *)
Theorem C08_LA_quant_kept_conflict_free : forall smp P a a', q_action smp P a = Some a' -> add_effs_ok [] [] (a_effs a') = true.
Proof. exact q_action_conflict_free. Qed.
Print Assumptions C08_LA_quant_kept_conflict_free.
Theorem C08_LA_ground_kept_conflict_free : forall smp a args g, g_action smp a args = Some g -> add_effs_ok [] [] (a_effs g) = true.
Proof. exact g_action_conflict_free. Qed.
Print Assumptions C08_LA_ground_kept_conflict_free.
Theorem C08_LA_cer_kept_conflict_free : forall simp_pre a v, In v (cer_variants simp_pre a) ->
  add_effs_ok [] [] (a_effs v) = true /\ a_effs v <> [].
Proof. exact cer_variants_conflict_free. Qed.
Print Assumptions C08_LA_cer_kept_conflict_free.
Theorem C08_LA_dcr_kept_conflict_free : forall cdnf a pd v, In v (dnf_variants cdnf a pd) ->
  add_effs_ok [] [] (a_effs v) = true /\ a_effs v <> [].
Proof. exact dnf_variants_conflict_free. Qed.
Print Assumptions C08_LA_dcr_kept_conflict_free.

(* ================================================================== non-vacuity *)
Definition mkeff f args v c k vars b : effect :=
  {| e_fl := f; e_args := args; e_val := v; e_cond := c; e_kind := k; e_vars := vars; e_isbool := b |}.

(* type 0 = {0, 1};  p(x : 0) Boolean, n : [0, 5];  act0(x): p(x), exists y. not p(y) |-> if n < 3 then p(x) := false;
   forall z. p(z) := true; n += 1;  act1: n := 0;  goal forall y. p(y);  invariant n <= 5 *)
Definition EX : problem :=
  {| p_objs := [(0, [0; 1])]%N; p_ifun := [];
     p_fluents := [ {| fd_id := 0%N; fd_sig := [0%N]; fd_ty := FBool |};
                    {| fd_id := 1%N; fd_sig := []; fd_ty := FNum (Some (zq 0)) (Some (zq 5)) |} ];
     p_actions := [ (0%N, {| a_params := [0%N];
                             a_pre := [EFluent 0 [EParam 0]; EExists [(0, 0)]%N (ENot (EFluent 0 [EVar 0 0]))];
                             a_effs := [ mkeff 0%N [EParam 0] (EBool false) (ELt (EFluent 1 []) (EInt 3)) KAssign [] true;
                                         mkeff 0%N [EVar 1 0] (EBool true) (EBool true) KAssign [(1, 0)]%N true;
                                         mkeff 1%N [] (EInt 1) (EBool true) KInc [] false ] |});
                    (1%N, {| a_params := []; a_pre := [];
                             a_effs := [ mkeff 1%N [] (EInt 0) (EBool true) KAssign [] false ] |}) ];
     p_goals := [EForall [(0, 0)]%N (EFluent 0 [EVar 0 0])];
     p_invs := [ELe (EFluent 1 []) (EInt 5)] |}.

Definition id_smp (e : expr) : expr := e.
Lemma id_keeps_wf D : keeps_wf D id_smp. Proof. intros ps B e H. exact H. Qed.
Lemma id_keeps q : keeps q id_smp. Proof. intros e H. exact H. Qed.

(* an injective fresh-name function: Cantor pairing above every id in use *)
Definition nm0 (i : N) (k : nat) : N := (N.of_nat (Cantor.to_nat (N.to_nat i, k)) + 100)%N.
Lemma nm0_inj : nm_inj nm0.
Proof.
  intros i k i' k' H. unfold nm0 in H. apply N.add_cancel_r in H. apply Nat2N.inj in H.
  apply (f_equal Cantor.of_nat) in H. rewrite !Cantor.cancel_of_to in H. inversion H as [[H1 H2]].
  apply N2Nat.inj in H1. auto.
Qed.
Lemma nm0_fresh : nm_fresh nm0 EX.
Proof. intros i k H. cbn in H. unfold nm0 in H. destruct H as [H|[H|[]]]; lia. Qed.

Example C08_LA_sir_wf_nonvacuous :
  keeps_wf (denv_of EX) id_smp /\ wf_problem EX = true /\ p_invs EX <> [] /\
  wf_problem (sir_compile id_smp EX) = true /\ List.length (p_goals (sir_compile id_smp EX)) = 2%nat.
Proof.
  split; [apply id_keeps_wf|]. split; [vm_compute; reflexivity|]. split; [discriminate|]. split.
  - apply C08_LA_sir_wf; [apply id_keeps_wf|vm_compute; reflexivity].
  - vm_compute. reflexivity.
Qed.

Example C08_LA_btr_wf_nonvacuous :
  no_bounded EX = false /\ wf_problem (btr_compile id_smp EX) = true /\ no_bounded (btr_compile id_smp EX) = true.
Proof. split; [vm_compute; reflexivity|]. apply C08_LA_btr_wf; [apply id_keeps_wf|vm_compute; reflexivity]. Qed.

Example C08_LA_quant_wf_nonvacuous :
  quantifier_free EX = false /\ wf_problem (quant_compile id_smp EX) = true /\ quantifier_free (quant_compile id_smp EX) = true /\
  List.length (a_effs (snd (hd (0%N, {| a_params := []; a_pre := []; a_effs := [] |}) (p_actions (quant_compile id_smp EX))))) = 4%nat.
Proof.
  split; [vm_compute; reflexivity|]. destruct (C08_LA_quant_wf id_smp EX (id_keeps_wf _) eq_refl) as [H1 H2].
  split; [exact H1|]. split; [apply H2; apply id_keeps|]. vm_compute. reflexivity.
Qed.

Example C08_LA_cer_wf_nonvacuous :
  no_cond_effects EX = false /\ cer_side EX = true /\
  wf_problem (cer_compile (fun l => Some l) nm0 EX) = true /\ no_cond_effects (cer_compile (fun l => Some l) nm0 EX) = true /\
  List.length (p_actions (cer_compile (fun l => Some l) nm0 EX)) = 3%nat.
Proof.
  split; [vm_compute; reflexivity|]. split; [vm_compute; reflexivity|].
  destruct (C08_LA_cer_wf (fun l => Some l) nm0 EX) as [H1 H2]; try (vm_compute; reflexivity).
  - intros ps l l' H E. inversion E; subst. exact H.
  - exact nm0_inj.
  - exact nm0_fresh.
  - split; [exact H1|]. split; [exact H2|]. vm_compute. reflexivity.
Qed.

(* without the side condition the statement is false of the model: a forall effect whose condition mentions its
   variable becomes a precondition with a free variable.  The REAL ConditionalEffectsRemover raises
   UPUnboundedVariablesError on such a problem (finding C08-cer-forall-condition). *)
Definition EXC : problem :=
  {| p_objs := [(0, [0; 1])]%N; p_ifun := [];
     p_fluents := [ {| fd_id := 0%N; fd_sig := [0%N]; fd_ty := FBool |}; {| fd_id := 1%N; fd_sig := [0%N]; fd_ty := FBool |} ];
     p_actions := [ (0%N, {| a_params := []; a_pre := [];
                             a_effs := [ mkeff 1%N [EVar 0 0] (EBool true) (EFluent 0 [EVar 0 0]) KAssign [(0, 0)]%N true ] |}) ];
     p_goals := []; p_invs := [] |}.
Theorem C08_LA_cer_wf_without_side_condition_refuted :
  exists P, wf_problem P = true /\ cer_side P = false /\ wf_problem (cer_compile (fun l => Some l) nm0 P) = false.
Proof. exists EXC. repeat split; vm_compute; reflexivity. Qed.
Print Assumptions C08_LA_cer_wf_without_side_condition_refuted.

Example C08_LA_neg_wf_nonvacuous :
  wf_problem (neg_compile [(0, 2)]%N id_smp id_smp EX) = true /\
  List.length (p_fluents (neg_compile [(0, 2)]%N id_smp id_smp EX)) = 3%nat /\
  List.length (a_effs (snd (hd (0%N, {| a_params := []; a_pre := []; a_effs := [] |})
                               (p_actions (neg_compile [(0, 2)]%N id_smp id_smp EX))))) = 5%nat.
Proof.
  split; [|split; vm_compute; reflexivity].
  apply C08_LA_neg_wf; try (vm_compute; reflexivity); [|apply id_keeps_wf].
  intros ps B e H. unfold id_smp at 2. eapply wfx_dle; [apply neg_dle|exact H].
Qed.

Example C08_LA_neg_shape_nonvacuous :
  negation_free (neg_compile [(0, 2)]%N (fun _ => EBool true) id_smp EX) = true /\ negation_free EX = false.
Proof. split; [apply C08_LA_neg_shape; [reflexivity|apply id_keeps] | vm_compute; reflexivity]. Qed.

Definition tup0 (i : N) : list (list value) := if (i =? 0)%N then [[VObj 0]; [VObj 1]] else [[]].
Example C08_LA_ground_wf_nonvacuous :
  ground_problem EX = false /\ tuples_ok EX tup0 /\
  wf_problem (ground_compile id_smp tup0 nm0 EX) = true /\ ground_problem (ground_compile id_smp tup0 nm0 EX) = true /\
  List.length (p_actions (ground_compile id_smp tup0 nm0 EX)) = 3%nat.
Proof.
  assert (Ht : tuples_ok EX tup0).
  { intros i a args Hin Ha. cbn in Hin. destruct Hin as [E|[E|[]]]; inversion E; subst; cbn in Ha.
    - destruct Ha as [<-|[<-|[]]]; split; reflexivity.
    - destruct Ha as [<-|[]]; split; reflexivity. }
  split; [vm_compute; reflexivity|]. split; [exact Ht|].
  destruct (C08_LA_ground_wf id_smp tup0 nm0 EX (id_keeps_wf _) nm0_inj nm0_fresh Ht eq_refl) as [H1 H2].
  split; [exact H1|]. split; [exact H2|]. vm_compute. reflexivity.
Qed.

Example C08_LA_dcr_wf_nonvacuous :
  wf_problem (dcr_compile (fun c => [c]) (fun a => [a_pre a]) nm0 EX (p_goals EX)) = true /\
  List.length (p_actions (dcr_compile (fun c => [c]) (fun a => [a_pre a]) nm0 EX (p_goals EX))) = 2%nat.
Proof.
  split; [|vm_compute; reflexivity]. apply C08_LA_dcr_wf; try (vm_compute; reflexivity).
  - intros ps B c d H [<-|[]]. exact H.
  - intros a d x Hw [<-|[]] Hx. unfold wf_action in Hw. apply andb_true_iff in Hw. destruct Hw as [Hw _].
    apply andb_true_iff in Hw. destruct Hw as [_ Hw]. rewrite forallb_forall in Hw. auto.
  - exact nm0_inj.
  - exact nm0_fresh.
Qed.

(* ---- 7b. DisjunctiveConditionsRemover, the promised shape: no precondition, effect condition or goal of the compiled
   problem is a disjunction.  Hypotheses: the DNF walker's disjuncts of an effect condition and the literals of a
   precondition disjunct are not disjunctions themselves (C12), and neither are the goal conjuncts handed over. *)
Theorem C08_LA_dcr_shape : forall cdnf pre_dnf nm P goals',
  (forall c d, In d (cdnf c) -> is_or d = false) ->
  (forall a d x, In d (pre_dnf a) -> In x d -> is_or x = false) ->
  forallb (fun g => negb (is_or g)) goals' = true ->
  dcr_shape (dcr_compile cdnf pre_dnf nm P goals') = true.
Proof. exact dcr_shape_ok. Qed.
Print Assumptions C08_LA_dcr_shape.

(* a walker for the example: an Or is split into its arguments, anything else is its own single disjunct / literal *)
Definition or_args (c : expr) : list expr := match c with EOr l => filter (fun x => negb (is_or x)) l | _ => [c] end.
Definition EXD : problem :=
  {| p_objs := []; p_ifun := [];
     p_fluents := [ {| fd_id := 0%N; fd_sig := []; fd_ty := FBool |}; {| fd_id := 1%N; fd_sig := []; fd_ty := FBool |} ];
     p_actions := [ (0%N, {| a_params := []; a_pre := [EOr [EFluent 0 []; EFluent 1 []]];
                             a_effs := [ mkeff 0%N [] (EBool true) (EOr [EFluent 0 []; ENot (EFluent 1 [])]) KAssign [] true ] |}) ];
     p_goals := [EFluent 0 []]; p_invs := [] |}.
Example C08_LA_dcr_shape_nonvacuous :
  dcr_shape EXD = false /\
  dcr_shape (dcr_compile or_args (fun a => map (fun x => [x]) (flat_map or_args (a_pre a))) nm0 EXD (p_goals EXD)) = true /\
  List.length (p_actions (dcr_compile or_args (fun a => map (fun x => [x]) (flat_map or_args (a_pre a))) nm0 EXD (p_goals EXD))) = 2%nat.
Proof.
  split; [vm_compute; reflexivity|]. split; [|vm_compute; reflexivity]. apply C08_LA_dcr_shape.
  - intros c d H. unfold or_args in H. destruct c; try (destruct H as [<-|[]]; reflexivity).
    apply filter_In in H. destruct H as [_ H]. apply negb_true_iff in H. exact H.
  - intros a d x Hd Hx. apply in_map_iff in Hd. destruct Hd as [y [<- Hy]]. destruct Hx as [<-|[]].
    apply in_flat_map in Hy. destruct Hy as [c [_ Hy]]. unfold or_args in Hy.
    destruct c; try (destruct Hy as [<-|[]]; reflexivity).
    apply filter_In in Hy. destruct Hy as [_ Hy]. apply negb_true_iff in Hy. exact Hy.
  - vm_compute. reflexivity.
Qed.
