(* C07, part "pipe": Layer A completeness for compiler PIPELINES and for DisjunctiveConditionsRemover with a disjunctive
   goal.  STATEMENTS ONLY (definitions, proofs and the non-vacuity instances: see Props/C06_pipe.v). *)
From Coq Require Import List ZArith NArith QArith Qcanon Bool.
Import ListNotations.
Require Import UPV.Core.Expr UPV.Core.Eval UPV.Core.Interp UPV.Planning.Problem UPV.Planning.Sem.
Require Import UPV.Proofs.Step_proofs UPV.Compilers.Variants UPV.Proofs.Variants_proofs.
Require Import UPV.Compilers.LayerA_Defs UPV.Compilers.LayerA_Quant UPV.Compilers.LayerA_Variants.
Require Import UPV.Planning.Ground UPV.Compilers.LayerA_Ground.
Require Import UPV.Compilers.LayerA_Pipe UPV.Proofs.LayerA_Pipe_proofs.
Require Import UPV.Compilers.LayerA_DcrGoal UPV.Proofs.LayerA_DcrGoal_proofs.
Require UPV.Props.C06_pipe.
Local Open Scope nat_scope.

(* ---------------------------------------------------------------- PART 1: pipelines.
   [stage_complete] is C07 for one compiler: every valid source plan has a compiled plan, at most [st_aux] steps longer,
   that maps back to it modulo steps that change nothing ([sub_noop_eq], the relation of the C07_LA_* theorems).
   "Modulo" does not compose from plan-level facts alone: deleting a no-op step of the INTERMEDIATE plan must be
   deleting a no-op step (or nothing) of the source plan.  [stage_noop] says exactly that (for VALID compiled plans),
   and every stage that simulates its source problem step by step has it, provided a compiled step that changes nothing
   is matched by a source step that changes nothing (e.g. because the compiled state determines the source state, or
   because the source step cannot touch the fluents the relation leaves open): *)
Theorem C07_LA_pipe_simulation_noop :
  forall st : stage,
    (forall s s' x' t', st_rel st s s' -> st_okD st x' ->
       run (st_dst st) (spec_step false (st_dst st)) s' [x'] = Some t' ->
       exists t, run (st_src st) (spec_step false (st_src st)) s (ostep (st_back st) x') = Some t /\ st_rel st t t') ->
    (forall s s' x' t t', st_rel st s s' -> st_rel st t t' -> state_eq s' t' ->
       run (st_src st) (spec_step false (st_src st)) s (ostep (st_back st) x') = Some t -> state_eq s t) ->
    stage_noop st.
Proof. exact sim_noop. Qed.
Print Assumptions C07_LA_pipe_simulation_noop.

(* the relation "delete steps that change nothing" is transitive (and respects pointwise-equal start states) *)
Theorem C07_LA_pipe_sub_noop_trans :
  forall (P : problem) (s : state) (a b c : pplan),
    sub_noop_eq P s a b -> sub_noop_eq P s b c -> sub_noop_eq P s a c.
Proof. intros P s a b c H1 H2. exact (sne_trans P s a b H1 c H2). Qed.
Print Assumptions C07_LA_pipe_sub_noop_trans.

(* completeness composes, THE BOUNDS ADD ([st_aux (compose a b)] = st_aux a + st_aux b); what the first stage
   guarantees about the steps of its compiled plan must be what the second stage asks of its source plan *)
Theorem C07_LA_pipe_complete_composes :
  forall a b : stage, st_dst a = st_src b -> (forall x, st_okD a x -> st_okS b x) ->
    stage_complete a -> stage_noop a -> stage_complete b -> stage_complete (compose a b).
Proof. exact compose_complete. Qed.
Print Assumptions C07_LA_pipe_complete_composes.

Theorem C07_LA_pipe_noop_composes :
  forall a b : stage, st_dst a = st_src b -> stage_sound b -> stage_noop a -> stage_noop b -> stage_noop (compose a b).
Proof. exact compose_noop. Qed.
Print Assumptions C07_LA_pipe_noop_composes.

(* pipelines of ANY length: all three facts ([certified] = sound, complete, no-op preserving) by induction over the
   list; the bound of the pipeline is the sum of the stages' bounds *)
Theorem C07_LA_pipe_pipeline_certified :
  forall (l : list stage) (Q : problem), Forall certified l -> linked l Q -> certified (compose_all l Q).
Proof. exact pipeline_certified. Qed.
Print Assumptions C07_LA_pipe_pipeline_certified.

Theorem C07_LA_pipe_pipeline_bound :
  forall (l : list stage) (Q : problem), st_aux (compose_all l Q) = fold_right (fun a n => st_aux a + n) 0 l.
Proof. exact compose_all_aux. Qed.
Print Assumptions C07_LA_pipe_pipeline_bound.

(* the Layer A compilers as certified stages (C06_LA_* / C07_LA_* of Props/C06.v, Props/C07.v + the run lemmas) *)
Theorem C07_LA_pipe_quant_stage_certified :
  forall (smp : expr -> expr), smp_exact smp ->
  forall (P : problem) (tau : N -> N), unique_ids P -> problem_wf P tau = true -> no_action_dropped smp P ->
    certified (quant_stage smp P).
Proof. exact quant_stage_certified. Qed.
Print Assumptions C07_LA_pipe_quant_stage_certified.

Theorem C07_LA_pipe_cer_stage_certified :
  forall (simp_pre : list expr -> option (list expr)), simp_pre_ok simp_pre ->
  forall (nm : N -> nat -> N) (P : problem), unique_ids P -> unique_ids (cer_compile simp_pre nm P) ->
  forall G : state -> Prop,
    (forall s aid a args t, G s -> lookup_action P aid = Some a -> spec_step false P s a args = Some t -> G t) ->
    (forall s args i a, G s -> In (i, a) (p_actions P) -> Forall (cond_ok P s a args) (cond_effs (a_effs a))) ->
    (forall s args i a, G s -> In (i, a) (p_actions P) ->
       add_effs_ok [] [] (a_effs (ce_variant a (the_sel P s a args))) = false -> applicable P s a args = false) ->
    certified (cer_stage simp_pre nm G P).
Proof. exact cer_stage_certified. Qed.
Print Assumptions C07_LA_pipe_cer_stage_certified.

Theorem C07_LA_pipe_ground_stage_certified :
  forall (smp : expr -> expr) (tuples : N -> list (list value)) (nm : N -> nat -> N) (P : problem) (G : state -> Prop),
    smp_exact_on P G smp -> unique_ids P -> unique_ids (ground_compile smp tuples nm P) ->
    (forall s aid a args t, G s -> lookup_action P aid = Some a -> spec_step false P s a args = Some t -> G t) ->
    instances_ok smp tuples P ->
    (forall s i a args, G s -> In (i, a) (p_actions P) -> In args (tuples i) ->
       add_effs_ok [] [] (g_effects smp (zip_params (a_params a) args) (a_effs a)) = false ->
       spec_step false P s a args = None) ->
    certified (ground_stage smp tuples nm G P).
Proof. exact ground_stage_certified. Qed.
Print Assumptions C07_LA_pipe_ground_stage_certified.

(* CLOSED THEOREM for CompilersPipeline([QuantifiersRemover(), ConditionalEffectsRemover()]): hypotheses of
   C07_LA_quant_complete on P and of C07_LA_cer_complete on the intermediate problem; bound 0 + 0 *)
Theorem C07_LA_pipe_quant_cer_complete :
  forall (smp : expr -> expr), smp_exact smp ->
  forall (simp_pre : list expr -> option (list expr)), simp_pre_ok simp_pre ->
  forall (nm : N -> nat -> N) (P : problem) (tau : N -> N), unique_ids P -> problem_wf P tau = true ->
    unique_ids (qc_dst smp simp_pre nm P) ->
  forall G : state -> Prop,
    (forall s aid a args t, G s -> lookup_action (qc_mid smp P) aid = Some a ->
       spec_step false (qc_mid smp P) s a args = Some t -> G t) ->
    (forall s args i a, G s -> In (i, a) (p_actions (qc_mid smp P)) ->
       Forall (cond_ok (qc_mid smp P) s a args) (cond_effs (a_effs a))) ->
    no_action_dropped smp P ->
    (forall s args i a, G s -> In (i, a) (p_actions (qc_mid smp P)) ->
       add_effs_ok [] [] (a_effs (ce_variant a (the_sel (qc_mid smp P) s a args))) = false ->
       applicable (qc_mid smp P) s a args = false) ->
  forall (s0 : state) (pi : pplan), bool_state P s0 -> G s0 -> plan_targets_total P pi ->
    valid_plan false P s0 pi = true ->
    exists pi', length pi' <= length pi /\ valid_plan false (qc_dst smp simp_pre nm P) s0 pi' = true /\
                sub_noop_eq P s0 pi (pback (pipeline_back (qc_stages smp simp_pre nm G P)) pi').
Proof. exact pipe_quant_cer_complete. Qed.
Print Assumptions C07_LA_pipe_quant_cer_complete.

(* CLOSED THEOREM for CompilersPipeline([Grounder(), ConditionalEffectsRemover()]) *)
Theorem C07_LA_pipe_ground_cer_complete :
  forall (smp : expr -> expr) (tuples : N -> list (list value)) (gnm : N -> nat -> N) (P : problem) (G1 : state -> Prop),
    smp_exact_on P G1 smp -> unique_ids P -> unique_ids (ground_compile smp tuples gnm P) ->
    (forall s aid a args t, G1 s -> lookup_action P aid = Some a -> spec_step false P s a args = Some t -> G1 t) ->
    instances_ok smp tuples P ->
  forall (simp_pre : list expr -> option (list expr)), simp_pre_ok simp_pre ->
  forall (nm : N -> nat -> N), unique_ids (cer_compile simp_pre nm (ground_compile smp tuples gnm P)) ->
  forall G2 : state -> Prop,
    (forall s aid a args t, G2 s -> lookup_action (ground_compile smp tuples gnm P) aid = Some a ->
       spec_step false (ground_compile smp tuples gnm P) s a args = Some t -> G2 t) ->
    (forall s args i a, G2 s -> In (i, a) (p_actions (ground_compile smp tuples gnm P)) ->
       Forall (cond_ok (ground_compile smp tuples gnm P) s a args) (cond_effs (a_effs a))) ->
    (forall s i a args, G1 s -> In (i, a) (p_actions P) -> In args (tuples i) ->
       add_effs_ok [] [] (g_effects smp (zip_params (a_params a) args) (a_effs a)) = false ->
       spec_step false P s a args = None) ->
    (forall s args i a, G2 s -> In (i, a) (p_actions (ground_compile smp tuples gnm P)) ->
       add_effs_ok [] [] (a_effs (ce_variant a (the_sel (ground_compile smp tuples gnm P) s a args))) = false ->
       applicable (ground_compile smp tuples gnm P) s a args = false) ->
  forall (s0 : state) (pi : pplan), G1 s0 -> G2 s0 -> plan_in_tuples tuples pi ->
    valid_plan false P s0 pi = true ->
    exists pi', length pi' <= length pi /\
                valid_plan false (cer_compile simp_pre nm (ground_compile smp tuples gnm P)) s0 pi' = true /\
                sub_noop_eq P s0 pi (pback (pipeline_back (gc_stages smp tuples gnm G1 simp_pre nm G2 P)) pi').
Proof. exact pipe_ground_cer_complete. Qed.
Print Assumptions C07_LA_pipe_ground_cer_complete.

(* ---------------------------------------------------------------- PART 2: DisjunctiveConditionsRemover, disjunctive goal:
   COMPLETENESS with bound k + 1.  Every valid original plan has a compiled counterpart — variants for the steps that
   change something, followed by ONE goal action — that is valid from the compiled initial state and maps back (the
   goal-action step dropped) to the original plan modulo steps that change nothing.  Hypotheses: those of
   C07_LA_dcr_complete with the goal hypothesis replaced by the DNF equivalence for the goal actions' preconditions,
   [dcrg_fresh], unique compiled names, and that the state invariants / bounded types hold in the initial state
   (get_initial_state checks them; needed only for the EMPTY plan: the goal action is then applied in s0 itself). *)
Theorem C07_LA_dcrgoal_complete :
  forall (cdnf : expr -> list expr) (pre_dnf : action -> list (list expr)) (nm : N -> nat -> N) (fk : N)
         (gnm : nat -> N) (gds : list (list expr)) (P : problem),
    unique_ids (dcrg_compile cdnf pre_dnf nm fk gnm gds P) ->
    dcrg_fresh cdnf pre_dnf nm fk gds P = true ->
  forall G : state -> Prop,
    (forall s aid a args t, G s -> lookup_action P aid = Some a -> spec_step false P s a args = Some t -> G t) ->
    (forall s args i a, G s -> In (i, a) (p_actions P) -> Forall (dnf_effect_ok cdnf P s a args) (a_effs a)) ->
    (forall s args i a, G s -> In (i, a) (p_actions P) ->
       existsb (all_hold false (mk_interp P s (zip_params (a_params a) args))) (pre_dnf a) =
       all_hold false (mk_interp P s (zip_params (a_params a) args)) (a_pre a)) ->
    (forall s, G s -> existsb (all_hold false (mk_interp P s [])) gds = all_hold false (mk_interp P s []) (p_goals P)) ->
    (forall s args i a d, G s -> In (i, a) (p_actions P) -> In d (pre_dnf a) ->
       add_effs_ok [] [] (a_effs (dnf_variant cdnf a d)) = false ->
       all_hold false (mk_interp P s (zip_params (a_params a) args)) d = true -> applicable P s a args = false) ->
  forall (s0 s0' : state) (pi : pplan), G s0 -> agree_off fk s0 s0' -> invariants_ok false P s0 = true ->
    valid_plan false P s0 pi = true ->
    exists pi', valid_plan false (dcrg_compile cdnf pre_dnf nm fk gnm gds P) s0' pi' = true /\
                length pi' <= length pi + 1 /\
                sub_noop_eq P s0 pi (pback (dcrg_back cdnf pre_dnf nm fk gnm gds P) pi').
Proof. exact dcrg_complete. Qed.
Print Assumptions C07_LA_dcrgoal_complete.

(* ---------------------------------------------------------------- third round: more compilers as certified stages *)
Require Import UPV.Compilers.LayerA_Inv UPV.Compilers.LayerA_Neg.

(* NegativeConditionsRemover (hypotheses of C06_LA_ncr_sound / C07_LA_ncr_complete); relation [neg_rel]: the compiled
   state is NOT the source state.  stage_noop holds because no effect of a clean problem targets a negation fluent *)
Theorem C07_LA_pipe_ncr_stage_certified :
  forall (nmap : list (N * N)) (rw smp : expr -> expr) (P : problem),
    nmap_ok nmap P = true -> problem_clean nmap P = true -> ncr_safe nmap P = true -> rw_ok nmap rw P -> smp_exact smp ->
    certified (ncr_stage nmap rw smp P).
Proof. exact ncr_stage_certified. Qed.
Print Assumptions C07_LA_pipe_ncr_stage_certified.

(* BoundedTypesRemover / StateInvariantsRemover: the relation carries "the moved constraints hold initially"; they do not
   simulate step by step, stage_noop is proved along valid plans ([inv_noop]) *)
Theorem C07_LA_pipe_btr_stage_certified :
  forall (smp : expr -> expr), smp_holds smp -> forall P : problem, unique_ids P -> certified (btr_stage smp P).
Proof. exact btr_stage_certified. Qed.
Print Assumptions C07_LA_pipe_btr_stage_certified.

Theorem C07_LA_pipe_sir_stage_certified :
  forall (smp : expr -> expr), smp_holds smp ->
  forall P : problem, unique_ids P -> Forall (closed_cond P) (p_invs P) -> certified (sir_stage smp P).
Proof. exact sir_stage_certified. Qed.
Print Assumptions C07_LA_pipe_sir_stage_certified.

(* CLOSED THEOREM for CompilersPipeline([QuantifiersRemover(), NegativeConditionsRemover()]) *)
Theorem C07_LA_pipe_quant_ncr_complete :
  forall (smp : expr -> expr), smp_exact smp ->
  forall (P : problem) (tau : N -> N), unique_ids P -> problem_wf P tau = true ->
  forall (nmap : list (N * N)) (rw smp2 : expr -> expr),
    nmap_ok nmap (quant_compile smp P) = true -> problem_clean nmap (quant_compile smp P) = true ->
    ncr_safe nmap (quant_compile smp P) = true -> rw_ok nmap rw (quant_compile smp P) -> smp_exact smp2 ->
    no_action_dropped smp P ->
  forall (s0 s0' : state) (pi : pplan), bool_state P s0 -> neg_rel nmap s0 s0' -> plan_targets_total P pi ->
    valid_plan false P s0 pi = true ->
    exists pi', length pi' <= length pi /\
                valid_plan false (neg_compile nmap rw smp2 (quant_compile smp P)) s0' pi' = true /\
                sub_noop_eq P s0 pi (pback (pipeline_back (qn_stages smp nmap rw smp2 P)) pi').
Proof. exact pipe_quant_ncr_complete. Qed.
Print Assumptions C07_LA_pipe_quant_ncr_complete.

(* CLOSED THEOREM for CompilersPipeline([BoundedTypesRemover(), ConditionalEffectsRemover()]) *)
Theorem C07_LA_pipe_btr_cer_complete :
  forall (smp : expr -> expr), smp_holds smp ->
  forall P : problem, unique_ids P -> unique_ids (btr_compile smp P) ->
  forall (simp_pre : list expr -> option (list expr)), simp_pre_ok simp_pre ->
  forall (nm : N -> nat -> N), unique_ids (cer_compile simp_pre nm (btr_compile smp P)) ->
  forall G : state -> Prop,
    (forall s aid a args t, G s -> lookup_action (btr_compile smp P) aid = Some a ->
       spec_step false (btr_compile smp P) s a args = Some t -> G t) ->
    (forall s args i a, G s -> In (i, a) (p_actions (btr_compile smp P)) ->
       Forall (cond_ok (btr_compile smp P) s a args) (cond_effs (a_effs a))) ->
    (forall s args i a, G s -> In (i, a) (p_actions (btr_compile smp P)) ->
       add_effs_ok [] [] (a_effs (ce_variant a (the_sel (btr_compile smp P) s a args))) = false ->
       applicable (btr_compile smp P) s a args = false) ->
  forall (s0 : state) (pi : pplan), all_hold false (mk_interp P s0 []) (bound_invs P) = true -> G s0 ->
    valid_plan false P s0 pi = true ->
    exists pi', length pi' <= length pi /\
                valid_plan false (cer_compile simp_pre nm (btr_compile smp P)) s0 pi' = true /\
                sub_noop_eq P s0 pi (pback (pipeline_back (bc_stages smp simp_pre nm G P)) pi').
Proof. exact pipe_btr_cer_complete. Qed.
Print Assumptions C07_LA_pipe_btr_cer_complete.

(* ---------------------------------------------------------------- fourth round *)
Require Import UPV.Compilers.LayerA_Uinr UPV.Compilers.LayerA_Utfr.

(* UndefinedInitialNumericRemover; [orig_no_comp] (decidable): no original effect targets a companion fluent *)
Theorem C07_LA_pipe_uinr_stage_certified :
  forall (umap : list (N * N)) (P : problem), uinr_ok umap P = true -> orig_no_comp umap P = true ->
    certified (uinr_stage umap P).
Proof. exact uinr_stage_certified. Qed.
Print Assumptions C07_LA_pipe_uinr_stage_certified.

(* UsertypeFluentsRemover: the Boolean encoding determines the object-valued state *)
Theorem C07_LA_pipe_utfr_stage_certified :
  forall (tr smp : expr -> expr) (P : problem) (G : state -> Prop) (Q : pstep -> Prop),
    smp_exact smp -> utfr_wf tr smp P = true -> tr_ok tr P -> effects_defined P G -> LayerA_Utfr.one_value P G ->
    closed P G -> unique_ids P -> certified (utfr_stage tr smp G Q P).
Proof. exact utfr_stage_certified. Qed.
Print Assumptions C07_LA_pipe_utfr_stage_certified.

(* the fake-goal compile: a certified stage with ONE auxiliary step; [orig_no_fk] (decidable): no original effect
   targets fk *)
Theorem C07_LA_pipe_dcrg_stage_certified :
  forall (cdnf : expr -> list expr) (pre_dnf : action -> list (list expr)) (nm : N -> nat -> N) (fk : N)
         (gnm : nat -> N) (gds : list (list expr)) (P : problem),
    unique_ids P -> unique_ids (dcrg_compile cdnf pre_dnf nm fk gnm gds P) ->
    dcrg_fresh cdnf pre_dnf nm fk gds P = true -> orig_no_fk fk P = true ->
  forall G : state -> Prop,
    (forall s aid a args t, G s -> lookup_action P aid = Some a -> spec_step false P s a args = Some t -> G t) ->
    (forall s args i a, G s -> In (i, a) (p_actions P) -> Forall (dnf_effect_ok cdnf P s a args) (a_effs a)) ->
    (forall s args i a, G s -> In (i, a) (p_actions P) ->
       existsb (all_hold false (mk_interp P s (zip_params (a_params a) args))) (pre_dnf a) =
       all_hold false (mk_interp P s (zip_params (a_params a) args)) (a_pre a)) ->
    (forall s, G s -> existsb (all_hold false (mk_interp P s [])) gds = all_hold false (mk_interp P s []) (p_goals P)) ->
    (forall s args i a d, G s -> In (i, a) (p_actions P) -> In d (pre_dnf a) ->
       add_effs_ok [] [] (a_effs (dnf_variant cdnf a d)) = false ->
       all_hold false (mk_interp P s (zip_params (a_params a) args)) d = true -> applicable P s a args = false) ->
    certified (dcrg_stage cdnf pre_dnf nm fk gnm gds G P) /\
    st_aux (dcrg_stage cdnf pre_dnf nm fk gnm gds G P) = 1%nat.
Proof. intros. split; [apply dcrg_stage_certified; assumption | reflexivity]. Qed.
Print Assumptions C07_LA_pipe_dcrg_stage_certified.

(* CLOSED THEOREM for CompilersPipeline([Grounder(), NegativeConditionsRemover()]) *)
Theorem C07_LA_pipe_ground_ncr_complete :
  forall (smp : expr -> expr) (tuples : N -> list (list value)) (gnm : N -> nat -> N) (P : problem) (G1 : state -> Prop),
    smp_exact_on P G1 smp -> unique_ids P -> unique_ids (ground_compile smp tuples gnm P) ->
    (forall s aid a args t, G1 s -> lookup_action P aid = Some a -> spec_step false P s a args = Some t -> G1 t) ->
    instances_ok smp tuples P ->
  forall (nmap : list (N * N)) (rw smp2 : expr -> expr),
    nmap_ok nmap (ground_compile smp tuples gnm P) = true -> problem_clean nmap (ground_compile smp tuples gnm P) = true ->
    ncr_safe nmap (ground_compile smp tuples gnm P) = true -> rw_ok nmap rw (ground_compile smp tuples gnm P) ->
    smp_exact smp2 ->
    (forall s i a args, G1 s -> In (i, a) (p_actions P) -> In args (tuples i) ->
       add_effs_ok [] [] (g_effects smp (zip_params (a_params a) args) (a_effs a)) = false ->
       spec_step false P s a args = None) ->
  forall (s0 s0' : state) (pi : pplan), G1 s0 -> neg_rel nmap s0 s0' -> plan_in_tuples tuples pi ->
    valid_plan false P s0 pi = true ->
    exists pi', (length pi' <= length pi)%nat /\
                valid_plan false (neg_compile nmap rw smp2 (ground_compile smp tuples gnm P)) s0' pi' = true /\
                sub_noop_eq P s0 pi (pback (pipeline_back (gn_stages smp tuples gnm G1 nmap rw smp2 P)) pi').
Proof. exact pipe_ground_ncr_complete. Qed.
Print Assumptions C07_LA_pipe_ground_ncr_complete.

(* "pipeline:usertype+quantifiers+disjunctive": certified stages give a certified pipeline with bound 0 + 0 + 1 *)
Theorem C07_LA_pipe_uqd_certified :
  forall (tr smp1 smp : expr -> expr) (G0 G2 : state -> Prop) (cdnf : expr -> list expr)
         (pre_dnf : action -> list (list expr)) (nm : N -> nat -> N) (fk : N) (gnm : nat -> N) (gds : list (list expr))
         (P : problem),
    Forall certified (uqd_stages tr smp1 G0 smp cdnf pre_dnf nm fk gnm gds G2 P) ->
    certified (compose_all (uqd_stages tr smp1 G0 smp cdnf pre_dnf nm fk gnm gds G2 P)
                           (uqd_dst tr smp1 smp cdnf pre_dnf nm fk gnm gds P)) /\
    st_aux (compose_all (uqd_stages tr smp1 G0 smp cdnf pre_dnf nm fk gnm gds G2 P)
                        (uqd_dst tr smp1 smp cdnf pre_dnf nm fk gnm gds P)) = 1%nat.
Proof. intros. split; [apply pipe_uqd_certified; assumption | reflexivity]. Qed.
Print Assumptions C07_LA_pipe_uqd_certified.

(* ---------------------------------------------------------------- non-vacuity (instances of Props/C06_pipe.v) *)
Example C07_LA_pipe_quant_cer_complete_nonvacuous :
  no_action_dropped C06_pipe.LP.idsmp C06_pipe.LP.Pp /\
  plan_targets_total C06_pipe.LP.Pp [(0%N, [])] /\
  valid_plan false C06_pipe.LP.Pp C06_pipe.LP.s0 [(0%N, [])] = true /\
  valid_plan false (qc_dst C06_pipe.LP.idsmp C06_pipe.LP.sp C06_pipe.LP.nm C06_pipe.LP.Pp) C06_pipe.LP.s0 [(11%N, [])] = true /\
  sub_noop_eq C06_pipe.LP.Pp C06_pipe.LP.s0 [(0%N, [])]
    (pback (pipeline_back (qc_stages C06_pipe.LP.idsmp C06_pipe.LP.sp C06_pipe.LP.nm C06_pipe.LP.G C06_pipe.LP.Pp)) [(11%N, [])]).
Proof.
  split; [intros aid a [H|[]]; inversion H; subst; vm_compute; discriminate|].
  split; [exact C06_pipe.LP.targets|]. split; [vm_compute; reflexivity|]. split; [vm_compute; reflexivity|].
  change (pback (pipeline_back (qc_stages C06_pipe.LP.idsmp C06_pipe.LP.sp C06_pipe.LP.nm C06_pipe.LP.G C06_pipe.LP.Pp)) [(11%N, [])])
    with [(0%N, @nil value)].
  eapply sne_keep; [reflexivity | reflexivity | constructor].
Qed.

Example C07_LA_dcrgoal_complete_nonvacuous :
  invariants_ok false C06_pipe.LQ.Pd C06_pipe.LQ.s0 = true /\
  valid_plan false C06_pipe.LQ.Pd C06_pipe.LQ.s0 [(1%N, [])] = true /\
  valid_plan false C06_pipe.LQ.P' (with_fk C06_pipe.LQ.fk C06_pipe.LQ.s0) [(30%N, []); (41%N, [])] = true /\
  (* the bound k + 1 is needed: no compiled plan of length 1 is valid *)
  forallb (fun id => negb (valid_plan false C06_pipe.LQ.P' (with_fk C06_pipe.LQ.fk C06_pipe.LQ.s0) [(id, [])]))
          [20%N; 30%N; 40%N; 41%N] = true /\
  sub_noop_eq C06_pipe.LQ.Pd C06_pipe.LQ.s0 [(1%N, [])]
    (pback (dcrg_back C06_pipe.LQ.cd C06_pipe.LQ.pd C06_pipe.LQ.nm C06_pipe.LQ.fk C06_pipe.LQ.gnm C06_pipe.LQ.gds C06_pipe.LQ.Pd)
           [(30%N, []); (41%N, [])]).
Proof.
  split; [vm_compute; reflexivity|]. split; [vm_compute; reflexivity|]. split; [vm_compute; reflexivity|].
  split; [vm_compute; reflexivity|].
  change (pback (dcrg_back C06_pipe.LQ.cd C06_pipe.LQ.pd C06_pipe.LQ.nm C06_pipe.LQ.fk C06_pipe.LQ.gnm C06_pipe.LQ.gds C06_pipe.LQ.Pd)
            [(30%N, []); (41%N, [])]) with [(1%N, @nil value)].
  eapply sne_keep; [reflexivity | reflexivity | constructor].
Qed.

Example C07_LA_pipe_uqd_certified_nonvacuous :
  Forall certified C06_pipe.LU.stages /\
  st_aux (compose_all C06_pipe.LU.stages C06_pipe.LU.P3) = 1%nat /\
  st_rel (compose_all C06_pipe.LU.stages C06_pipe.LU.P3) C06_pipe.LQ.s0 (with_fk C06_pipe.LQ.fk C06_pipe.LQ.s0) /\
  valid_plan false C06_pipe.LU.P0 C06_pipe.LQ.s0 [(1%N, [])] = true /\
  valid_plan false C06_pipe.LU.P3 (with_fk C06_pipe.LQ.fk C06_pipe.LQ.s0) [(30%N, []); (41%N, [])] = true.
Proof.
  split; [exact C06_pipe.LU.all_certified|]. split; [reflexivity|]. split; [|split; vm_compute; reflexivity].
  assert (HG : C06_pipe.LU.G C06_pipe.LQ.s0) by (split; [exists false | exists false]; reflexivity).
  exists C06_pipe.LQ.s0. split.
  - split; [|exact HG]. split; [intros g a _; reflexivity | intros f t a Hf; discriminate].
  - exists C06_pipe.LQ.s0. split.
    + split; [reflexivity|]. intros f args Hb. unfold C06_pipe.LQ.s0. destruct (f =? C06_pipe.LQ.fk)%N; [left; reflexivity | right; exists false; reflexivity].
    + exists (with_fk C06_pipe.LQ.fk C06_pipe.LQ.s0). split; [|reflexivity].
      apply dcrg_rel_init; [exact HG | vm_compute; reflexivity].
Qed.

(* NegativeConditionsRemover as a certified stage on the example problem of Proofs/LayerA_Neg_proofs.v *)
Require Import UPV.Proofs.LayerA_Neg_proofs.
Example C07_LA_pipe_ncr_stage_certified_nonvacuous :
  certified (ncr_stage NegEx.nm (nrw (ng NegEx.nm)) NegEx.idf NegEx.Pe) /\
  st_rel (ncr_stage NegEx.nm (nrw (ng NegEx.nm)) NegEx.idf NegEx.Pe) NegEx.se NegEx.se' /\
  valid_plan false NegEx.Pe NegEx.se NegEx.plan = true /\
  valid_plan false (st_dst (ncr_stage NegEx.nm (nrw (ng NegEx.nm)) NegEx.idf NegEx.Pe)) NegEx.se' NegEx.plan = true.
Proof.
  split; [apply ncr_stage_certified; [vm_compute; reflexivity | vm_compute; reflexivity | vm_compute; reflexivity |
                                      exact NegEx.rwok | exact NegEx.smpok]|].
  split; [exact NegEx.rel|]. split; vm_compute; reflexivity.
Qed.
