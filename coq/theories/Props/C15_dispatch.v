(* C15 (part "dispatch") -- REGENERATED-FROM-SOURCE tie of the TypeChecker (Walkers/TypeInfer.v) model(s) to the Python walkers.

   coq/theories/Gen/Gen_Walkers.v is rewritten by tools/gen_walkers.py from the CURRENT source (ast only, fail closed):
   the OperatorKind members and, for every walker class, the table operator -> defining class "." method that
   MetaNodeTypeHandler + Walker.__init__ build (decorators, walk_<operator> naming convention and inheritance resolved).
   coq/theories/Model/WalkerTables.v holds what the hand-written models assume, entry by entry, each with the Gallina
   branch that models the handler.  The theorems below are EQUALITIES BETWEEN CLOSED FINITE TABLES (string literals),
   so `vm_compute; reflexivity` is a complete proof and not a bounded check: nothing is quantified except, in
   C15_operators_covered, the expression e, which is handled by case analysis on its constructor.
   They fail to compile when a handler is re-mapped, dropped (an inherited one applies), when a @handles list changes,
   or when OperatorKind gets a member that Core/Expr.v neither models nor lists as unmodelled. *)
From Coq Require Import List String Bool Permutation.
Import ListNotations.
Require Import UPV.Core.Expr UPV.Model.WalkerTables UPV.Gen.Gen_Walkers.
Local Open Scope string_scope.

(* TypeChecker.functions as in [infer_r] *)
Theorem C15_dispatch_as_modelled :
  lookup "TypeChecker" Gen_Walkers.dispatch = Some expected_typechecker.
Proof. vm_compute; reflexivity. Qed.
Print Assumptions C15_dispatch_as_modelled.

(* The OperatorKind members of the current source are exactly (up to order) the operators Core/Expr.v has a constructor
   for plus the explicitly listed unmodelled ones; and EVERY expression of the IR carries an operator that exists in the
   source and that the table of TypeChecker sends to a handler other than Walker.walk_error. *)
Theorem C15_operators_covered :
  Permutation Gen_Walkers.operator_kinds (modelled_operators ++ unmodelled_operators) /\
  forall e : expr,
    In (op_of e) Gen_Walkers.operator_kinds /\
    handled Gen_Walkers.dispatch "TypeChecker" e = true.
Proof.
  split.
  - apply covers_sound; vm_compute; reflexivity.
  - intro e. split.
    + eapply Permutation_in.
      * apply Permutation_sym, covers_sound; vm_compute; reflexivity.
      * apply in_or_app; left; apply op_of_modelled.
    + destruct e; vm_compute; repeat split; reflexivity.
Qed.
Print Assumptions C15_operators_covered.
