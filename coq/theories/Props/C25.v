(* C25 — DeltaSTN decides temporal consistency exactly.
   Only statements; each is closed by [exact] of a lemma from Proofs/Stn_proofs.v / Proofs/Stn_termination.v.
   Vocabulary (Model/Stn.v): a constraint (x, y, b) means  t x - t y <= b;  [solvable cs] = some assignment N -> Q
   satisfies all of cs;  [model_of s] = the reported model (minus the stored distance; 0 for unknown events);
   [run_adds fuel s adds] = the add calls in order (None = the model's fuel ran out in some _inc_check);
   [run_ops fuel [] ops] = a history of constructor / add / copy_stn calls on a heap of networks;
   [lineages ops] = for each network of the heap, the add calls that reached it (those made on its ancestors before
   the copy, then its own) and its epsilon.  All statements are for epsilon = 0 (the class default); bounds are
   arbitrary rationals (integers included). *)
From Coq Require Import List ZArith NArith QArith Bool.
Import ListNotations.
Require Import UPV.Model.Stn UPV.Proofs.Stn_proofs UPV.Proofs.Stn_termination.

(* (0) the fuel of the model is not a restriction: for every insertion sequence there is a fuel, computed from the
   sequence, with which no _inc_check runs out of fuel (so _inc_check terminates on every reachable state) *)
Theorem C25_terminates :
  forall eps adds, eps == 0 -> exists s, run_adds (enough_fuel adds) (empty_stn eps) adds = Some s.
Proof. exact stn_terminates. Qed.
Print Assumptions C25_terminates.

(* (1) reported consistency <=> the inserted difference constraints have a solution *)
Theorem C25_consistency_iff_solvable :
  forall eps adds, eps == 0 ->
    exists s, run_adds (enough_fuel adds) (empty_stn eps) adds = Some s /\ (check_stn s = true <-> solvable adds).
Proof. exact stn_decides. Qed.
Print Assumptions C25_consistency_iff_solvable.

(* ... for whatever fuel, as long as it did not run out *)
Theorem C25_consistency_iff_solvable_any_fuel :
  forall fuel eps adds s, eps == 0 -> run_adds fuel (empty_stn eps) adds = Some s ->
    (check_stn s = true <-> solvable adds).
Proof. exact stn_sat_iff. Qed.
Print Assumptions C25_consistency_iff_solvable_any_fuel.

(* (2) while consistent, the reported model satisfies every inserted constraint, is non-negative, and is pointwise
   below every non-negative solution: it is the least solution with every event time non-negative *)
Theorem C25_model_is_least_nonneg_solution :
  forall fuel eps adds s, eps == 0 -> run_adds fuel (empty_stn eps) adds = Some s -> check_stn s = true ->
    solution (model_of s) adds /\ nonneg (model_of s) /\
    (forall t, nonneg t -> solution t adds -> forall x, model_of s x <= t x).
Proof. exact stn_model_least_nonneg. Qed.
Print Assumptions C25_model_is_least_nonneg_solution.

(* get_stn_model answers (no KeyError) for both events of every inserted constraint, with the value of model_of *)
Theorem C25_model_defined_on_inserted_events :
  forall fuel eps adds s x y b, eps == 0 -> run_adds fuel (empty_stn eps) adds = Some s -> check_stn s = true ->
    In (x, y, b) adds ->
    get_stn_model s x = Some (model_of s x) /\ get_stn_model s y = Some (model_of s y).
Proof. exact stn_model_defined. Qed.
Print Assumptions C25_model_defined_on_inserted_events.

(* (3) a copy evolves independently: after ANY history of constructor / add / copy_stn calls, the state of every
   network is exactly the state obtained by replaying, on a fresh network, its own lineage — insertions made on
   other networks (the original after the copy, other copies) have no influence *)
Theorem C25_copy_evolves_independently :
  forall fuel ops heap k s, run_ops fuel [] ops = Some heap -> nth_error heap k = Some s ->
    exists adds eps, nth_error (lineages ops) k = Some (adds, eps) /\ run_adds fuel (empty_stn eps) adds = Some s.
Proof. exact heap_network_replays_lineage. Qed.
Print Assumptions C25_copy_evolves_independently.

(* ... in particular a network is unchanged by any calls that do not insert into it *)
Theorem C25_untouched_network_unchanged :
  forall fuel i ops heap heap' s, run_ops fuel heap ops = Some heap' ->
    forallb (fun o => negb (targets i o)) ops = true -> nth_error heap i = Some s -> nth_error heap' i = Some s.
Proof. exact run_ops_untargeted. Qed.
Print Assumptions C25_untouched_network_unchanged.

(* (1)+(2) for every network of a heap after any history with copies *)
Theorem C25_history_consistency_iff_solvable :
  forall fuel ops heap k s adds eps, run_ops fuel [] ops = Some heap -> nth_error heap k = Some s ->
    nth_error (lineages ops) k = Some (adds, eps) -> eps == 0 -> (check_stn s = true <-> solvable adds).
Proof. exact heap_sat_iff. Qed.
Print Assumptions C25_history_consistency_iff_solvable.

Theorem C25_history_model_is_least_nonneg_solution :
  forall fuel ops heap k s adds eps, run_ops fuel [] ops = Some heap -> nth_error heap k = Some s ->
    nth_error (lineages ops) k = Some (adds, eps) -> eps == 0 -> check_stn s = true ->
    solution (model_of s) adds /\ nonneg (model_of s) /\
    (forall t, nonneg t -> solution t adds -> forall x, model_of s x <= t x).
Proof. exact heap_model_least_nonneg. Qed.
Print Assumptions C25_history_model_is_least_nonneg_solution.

(* non-vacuity: a consistent network with rational bounds and a propagation, its copy made inconsistent *)
Example C25_nonvacuous :
  let ops := [OpNew 0; OpAdd 0 1 0 (5 # 2); OpAdd 0 0 1 (-(3 # 2)); OpAdd 0 2 1 (-1); OpCopy 0; OpAdd 1 1 2 (-1); OpAdd 0 0 2 3] in
  exists a b,
    run_ops 100 [] ops = Some [a; b] /\
    check_stn a = true /\ check_stn b = false /\
    lineages ops = [([(1%N, 0%N, 5 # 2); (0%N, 1%N, -(3 # 2)); (2%N, 1%N, -1); (0%N, 2%N, 3)], 0);
                    ([(1%N, 0%N, 5 # 2); (0%N, 1%N, -(3 # 2)); (2%N, 1%N, -1); (1%N, 2%N, -1)], 0)] /\
    Qeq_bool (model_of a 1%N) (3 # 2) = true /\ Qeq_bool (model_of a 0%N) 0 = true /\ Qeq_bool (model_of a 2%N) 0 = true.
Proof.
  cbv zeta. eexists. eexists. split; [vm_compute; reflexivity|].
  repeat split; vm_compute; reflexivity.
Qed.
