(* C06, part "pipe": Layer A for compiler PIPELINES and for DisjunctiveConditionsRemover with a disjunctive goal.
   STATEMENTS ONLY (definitions: Compilers/LayerA_Pipe.v, Compilers/LayerA_DcrGoal.v; proofs: Proofs/LayerA_Pipe_proofs.v,
   Proofs/LayerA_DcrGoal_proofs.v).  The per-compiler facts that are composed are the C06_LA_* / C07_LA_* theorems of
   Props/C06.v and Props/C07.v. *)
From Coq Require Import List ZArith NArith QArith Qcanon Bool.
Import ListNotations.
Require Import UPV.Core.Expr UPV.Core.Eval UPV.Core.Interp UPV.Planning.Problem UPV.Planning.Sem.
Require Import UPV.Proofs.Step_proofs UPV.Compilers.Variants UPV.Proofs.Variants_proofs.
Require Import UPV.Compilers.LayerA_Defs UPV.Compilers.LayerA_Quant UPV.Compilers.LayerA_Variants.
Require Import UPV.Planning.Ground UPV.Compilers.LayerA_Ground.
Require Import UPV.Compilers.LayerA_Pipe UPV.Proofs.LayerA_Pipe_proofs.
Require Import UPV.Compilers.LayerA_DcrGoal UPV.Proofs.LayerA_DcrGoal_proofs.
Require Import UPV.Compilers.LayerA_Inv UPV.Compilers.LayerA_Utfr UPV.Proofs.LayerA_Utfr_proofs UPV.Proofs.LayerA_base.
Require UPV.Props.C06.
Local Open Scope nat_scope.

(* ---------------------------------------------------------------- PART 1: pipelines (CompilersPipeline).
   A [stage] = (source problem, compiled problem, action-instance map back with None = auxiliary step, bound on auxiliary
   steps, relation between the two initial states, per-step side conditions).  [stage_sound] is C06 for one compiler:
   a valid compiled plan maps back ([pback] = SequentialPlan.replace_action_instances) to a valid source plan. *)

(* soundness composes: no condition links the two stages except that the second starts where the first ended; the map
   back of the pair is "second stage first" and its side condition is the second stage's on the compiled plan and the
   first stage's on the intermediate plan ([compose]) *)
Theorem C06_LA_pipe_sound_composes :
  forall a b : stage, st_dst a = st_src b -> stage_sound a -> stage_sound b -> stage_sound (compose a b).
Proof. exact compose_sound. Qed.
Print Assumptions C06_LA_pipe_sound_composes.

(* pipelines of ANY length (induction over the list of stages; [compose_all l Q] = the stages of l in order, ending in
   problem Q; [linked] = every stage starts from the problem the previous one produced) *)
Theorem C06_LA_pipe_pipeline_sound :
  forall (l : list stage) (Q : problem), Forall stage_sound l -> linked l Q -> stage_sound (compose_all l Q).
Proof. exact pipeline_sound. Qed.
Print Assumptions C06_LA_pipe_pipeline_sound.

(* the map back of the composed pipeline is the one CompilersPipeline.compile builds — the stages' functions applied
   in REVERSE order, None as soon as one of them answers None ([pipeline_back] = mb_chain (rev ...)) — and on plans it
   maps back through the last stage first *)
Theorem C06_LA_pipe_back_is_reverse_chain :
  forall (l : list stage) (Q : problem) (x : pstep), st_back (compose_all l Q) x = pipeline_back l x.
Proof. exact pipeline_back_spec. Qed.
Print Assumptions C06_LA_pipe_back_is_reverse_chain.

Theorem C06_LA_pipe_back_on_plans :
  forall (l : list stage) (Q : problem) (pi' : pplan),
    pback (pipeline_back l) pi' = fold_right (fun a rho => pback (st_back a) rho) pi' l.
Proof. exact pipeline_pback. Qed.
Print Assumptions C06_LA_pipe_back_on_plans.

(* a stage that simulates the source problem step by step (every compiled step is matched by its image, or by no move
   when it is auxiliary, and the states stay related) is sound as soon as related states transfer the goals: this is
   how the per-compiler run lemmas of Layer A enter *)
Theorem C06_LA_pipe_simulation_sound :
  forall st : stage,
    (forall s s' x' t', st_rel st s s' -> st_okD st x' ->
       run (st_dst st) (spec_step false (st_dst st)) s' [x'] = Some t' ->
       exists t, run (st_src st) (spec_step false (st_src st)) s (ostep (st_back st) x') = Some t /\ st_rel st t t') ->
    (forall t t', st_rel st t t' -> goals_hold false (st_dst st) t' = true -> goals_hold false (st_src st) t = true) ->
    stage_sound st.
Proof. exact sim_sound. Qed.
Print Assumptions C06_LA_pipe_simulation_sound.

(* the Layer A compilers as sound stages (= C06_LA_quant_sound, C06_LA_cer_sound, C06_LA_ground_sound) *)
Theorem C06_LA_pipe_quant_stage_sound :
  forall (smp : expr -> expr), smp_exact smp ->
  forall (P : problem) (tau : N -> N), unique_ids P -> problem_wf P tau = true -> stage_sound (quant_stage smp P).
Proof. exact quant_stage_sound. Qed.
Print Assumptions C06_LA_pipe_quant_stage_sound.

Theorem C06_LA_pipe_cer_stage_sound :
  forall (simp_pre : list expr -> option (list expr)), simp_pre_ok simp_pre ->
  forall (nm : N -> nat -> N) (P : problem), unique_ids P -> unique_ids (cer_compile simp_pre nm P) ->
  forall G : state -> Prop,
    (forall s aid a args t, G s -> lookup_action P aid = Some a -> spec_step false P s a args = Some t -> G t) ->
    (forall s args i a, G s -> In (i, a) (p_actions P) -> Forall (cond_ok P s a args) (cond_effs (a_effs a))) ->
    stage_sound (cer_stage simp_pre nm G P).
Proof. exact cer_stage_sound. Qed.
Print Assumptions C06_LA_pipe_cer_stage_sound.

Theorem C06_LA_pipe_ground_stage_sound :
  forall (smp : expr -> expr) (tuples : N -> list (list value)) (nm : N -> nat -> N) (P : problem) (G : state -> Prop),
    smp_exact_on P G smp -> unique_ids P -> unique_ids (ground_compile smp tuples nm P) ->
    (forall s aid a args t, G s -> lookup_action P aid = Some a -> spec_step false P s a args = Some t -> G t) ->
    instances_ok smp tuples P -> stage_sound (ground_stage smp tuples nm G P).
Proof. exact ground_stage_sound. Qed.
Print Assumptions C06_LA_pipe_ground_stage_sound.

(* CLOSED THEOREM for CompilersPipeline([QuantifiersRemover(), ConditionalEffectsRemover()]) (harness spec
   "pipeline:quantifiers+conditional-effects"): the hypotheses are those of C06_LA_quant_sound on the original problem P
   and those of C06_LA_cer_sound on the INTERMEDIATE problem quant_compile smp P (G = the states on which C37's
   hypotheses hold there); the side condition of the first stage ([plan_targets_total]) is asked of the mapped-back plan.
   [qc_dst] = cer_compile simp_pre nm (quant_compile smp P); [qc_stages] = the two stages. *)
Theorem C06_LA_pipe_quant_cer_sound :
  forall (smp : expr -> expr), smp_exact smp ->
  forall (simp_pre : list expr -> option (list expr)), simp_pre_ok simp_pre ->
  forall (nm : N -> nat -> N) (P : problem) (tau : N -> N), unique_ids P -> problem_wf P tau = true ->
    unique_ids (qc_dst smp simp_pre nm P) ->
  forall G : state -> Prop,
    (forall s aid a args t, G s -> lookup_action (qc_mid smp P) aid = Some a ->
       spec_step false (qc_mid smp P) s a args = Some t -> G t) ->
    (forall s args i a, G s -> In (i, a) (p_actions (qc_mid smp P)) ->
       Forall (cond_ok (qc_mid smp P) s a args) (cond_effs (a_effs a))) ->
  forall (s0 : state) (pi' : pplan), bool_state P s0 -> G s0 ->
    plan_targets_total P (pback (pipeline_back (qc_stages smp simp_pre nm G P)) pi') ->
    valid_plan false (qc_dst smp simp_pre nm P) s0 pi' = true ->
    valid_plan false P s0 (pback (pipeline_back (qc_stages smp simp_pre nm G P)) pi') = true.
Proof. exact pipe_quant_cer_sound. Qed.
Print Assumptions C06_LA_pipe_quant_cer_sound.

(* ... where the pipeline's map back only renames through the second stage's table (QuantifiersRemover keeps names) *)
Theorem C06_LA_pipe_quant_cer_back :
  forall (smp : expr -> expr) (simp_pre : list expr -> option (list expr)) (nm : N -> nat -> N) (P : problem)
         (G : state -> Prop) (pi' : pplan),
    pback (pipeline_back (qc_stages smp simp_pre nm G P)) pi' = vt_map_back (cer_table simp_pre nm (qc_mid smp P)) pi'.
Proof. exact qc_pback. Qed.
Print Assumptions C06_LA_pipe_quant_cer_back.

(* CLOSED THEOREM for CompilersPipeline([Grounder(), ConditionalEffectsRemover()]) (the grounder as first stage;
   hypotheses of C06_LA_ground_sound on P with G1, of C06_LA_cer_sound on the ground problem with G2) *)
Theorem C06_LA_pipe_ground_cer_sound :
  forall (smp : expr -> expr) (tuples : N -> list (list value)) (gnm : N -> nat -> N) (P : problem) (G1 : state -> Prop),
    smp_exact_on P G1 smp -> unique_ids P -> unique_ids (ground_compile smp tuples gnm P) ->
    (forall s aid a args t, G1 s -> lookup_action P aid = Some a -> spec_step false P s a args = Some t -> G1 t) ->
    instances_ok smp tuples P ->
  forall (simp_pre : list expr -> option (list expr)), simp_pre_ok simp_pre ->
  forall (nm : N -> nat -> N), unique_ids (cer_compile simp_pre nm (ground_compile smp tuples gnm P)) ->
  forall G2 : state -> Prop,
    (forall s aid a args t, G2 s -> lookup_action (ground_compile smp tuples gnm P) aid = Some a ->
       spec_step false (ground_compile smp tuples gnm P) s a args = Some t -> G2 t) ->
    (forall s args i a, G2 s -> In (i, a) (p_actions (ground_compile smp tuples gnm P)) ->
       Forall (cond_ok (ground_compile smp tuples gnm P) s a args) (cond_effs (a_effs a))) ->
  forall (s0 : state) (pi' : pplan), G1 s0 -> G2 s0 ->
    valid_plan false (cer_compile simp_pre nm (ground_compile smp tuples gnm P)) s0 pi' = true ->
    valid_plan false P s0 (pback (pipeline_back (gc_stages smp tuples gnm G1 simp_pre nm G2 P)) pi') = true.
Proof. exact pipe_ground_cer_sound. Qed.
Print Assumptions C06_LA_pipe_ground_cer_sound.

(* ---------------------------------------------------------------- PART 2: DisjunctiveConditionsRemover, disjunctive goal.
   [dcrg_compile cdnf pre_dnf nm fk gnm gds P]: the DNF variants of every action, each with the extra effect fk := false,
   one goal action per kept disjunct of the goals (precondition lists [gds]) with the single effect fk := true, the
   fresh Boolean fluent fk appended to the fluents, goal = fk.  [dcrg_back] drops the goal-action steps and renames the
   variant steps.  The frame lemma the previous round lacked: *)
Theorem C06_LA_dcrgoal_eval_frame :
  forall (fk : N) (sc : bool) (e : expr) (I I' : interp),
    irel fk I I' -> cleanf fk e = true -> eval sc e I' = eval sc e I.
Proof. exact eval_cleanf. Qed.
Print Assumptions C06_LA_dcrgoal_eval_frame.

(* one step: an action that neither reads nor writes fk, with the extra effect fk := b appended, steps in the compiled
   problem exactly when the action steps in the original problem; successors agree off fk; fk = b afterwards *)
Theorem C06_LA_dcrgoal_step :
  forall (fk : N) (P P' : problem),
    p_objs P' = p_objs P -> p_ifun P' = p_ifun P -> p_fluents P' = p_fluents P ++ [fk_decl fk] -> p_invs P' = p_invs P ->
    forallb (cleanf fk) (p_invs P ++ bound_invs P) = true ->
  forall (a : action) (b : bool) (args : list value) (s s' : state),
    agree_off fk s s' -> action_cleanf fk a = true ->
    match spec_step false P s a args, spec_step false P' s' (add_eff a (bool_effect fk b)) args with
    | Some t, Some t' => agree_off fk t t' /\ t' fk [] = Some (VBool b)
    | None, None => True
    | _, _ => False
    end.
Proof. exact step_extra. Qed.
Print Assumptions C06_LA_dcrgoal_step.

(* SOUNDNESS at plan level.  Hypotheses: those of C06_LA_dcr_sound with the goal hypothesis replaced by "some goal
   action's precondition holds exactly where the original goals hold" (DNF of the goals, C12); unique compiled names
   (C08); [dcrg_fresh] (decidable: no variant reads or writes fk, no invariant / bounded-type constraint / goal
   disjunct mentions it); the compiled initial state agrees with the original one off fk and has fk = false
   (add_fluent(fake_fluent, default_initial_value=False)). *)
Theorem C06_LA_dcrgoal_sound :
  forall (cdnf : expr -> list expr) (pre_dnf : action -> list (list expr)) (nm : N -> nat -> N) (fk : N)
         (gnm : nat -> N) (gds : list (list expr)) (P : problem),
    unique_ids P -> unique_ids (dcrg_compile cdnf pre_dnf nm fk gnm gds P) ->
    dcrg_fresh cdnf pre_dnf nm fk gds P = true ->
  forall G : state -> Prop,
    (forall s aid a args t, G s -> lookup_action P aid = Some a -> spec_step false P s a args = Some t -> G t) ->
    (forall s args i a, G s -> In (i, a) (p_actions P) -> Forall (dnf_effect_ok cdnf P s a args) (a_effs a)) ->
    (forall s args i a, G s -> In (i, a) (p_actions P) ->
       existsb (all_hold false (mk_interp P s (zip_params (a_params a) args))) (pre_dnf a) =
       all_hold false (mk_interp P s (zip_params (a_params a) args)) (a_pre a)) ->
    (forall s, G s -> existsb (all_hold false (mk_interp P s [])) gds = all_hold false (mk_interp P s []) (p_goals P)) ->
  forall (s0 s0' : state) (pi' : pplan), G s0 -> agree_off fk s0 s0' -> s0' fk [] = Some (VBool false) ->
    valid_plan false (dcrg_compile cdnf pre_dnf nm fk gnm gds P) s0' pi' = true ->
    valid_plan false P s0 (pback (dcrg_back cdnf pre_dnf nm fk gnm gds P) pi') = true.
Proof. exact dcrg_sound. Qed.
Print Assumptions C06_LA_dcrgoal_sound.

(* ---------------------------------------------------------------- third round: more compilers as sound stages *)
Require Import UPV.Compilers.LayerA_Inv UPV.Compilers.LayerA_Neg.

Theorem C06_LA_pipe_ncr_stage_sound :
  forall (nmap : list (N * N)) (rw smp : expr -> expr) (P : problem),
    nmap_ok nmap P = true -> problem_clean nmap P = true -> ncr_safe nmap P = true -> rw_ok nmap rw P -> smp_exact smp ->
    stage_sound (ncr_stage nmap rw smp P).
Proof. exact ncr_stage_sound. Qed.
Print Assumptions C06_LA_pipe_ncr_stage_sound.

Theorem C06_LA_pipe_btr_stage_sound :
  forall (smp : expr -> expr), smp_holds smp -> forall P : problem, unique_ids P -> stage_sound (btr_stage smp P).
Proof. exact btr_stage_sound. Qed.
Print Assumptions C06_LA_pipe_btr_stage_sound.

Theorem C06_LA_pipe_sir_stage_sound :
  forall (smp : expr -> expr), smp_holds smp ->
  forall P : problem, unique_ids P -> Forall (closed_cond P) (p_invs P) -> stage_sound (sir_stage smp P).
Proof. exact sir_stage_sound. Qed.
Print Assumptions C06_LA_pipe_sir_stage_sound.

(* a step changes only fluents that some effect of the action targets (used for stage_noop of stages whose relation
   leaves some fluent of the source state open) *)
Theorem C06_LA_pipe_step_untouched :
  forall (P : problem) (s : state) (a : action) (args : list value) (t : state) (g : N),
    spec_step false P s a args = Some t -> (forall e, In e (a_effs a) -> e_fl e <> g) -> forall x, t g x = s g x.
Proof. exact step_untouched. Qed.
Print Assumptions C06_LA_pipe_step_untouched.

(* CLOSED THEOREM for CompilersPipeline([QuantifiersRemover(), NegativeConditionsRemover()]): hypotheses of
   C06_LA_quant_sound on P, of C06_LA_ncr_sound on the intermediate problem; the compiled initial state is related to
   the original one by [neg_rel]; the map back is the identity on plans (both stages keep names) *)
Theorem C06_LA_pipe_quant_ncr_sound :
  forall (smp : expr -> expr), smp_exact smp ->
  forall (P : problem) (tau : N -> N), unique_ids P -> problem_wf P tau = true ->
  forall (nmap : list (N * N)) (rw smp2 : expr -> expr),
    nmap_ok nmap (quant_compile smp P) = true -> problem_clean nmap (quant_compile smp P) = true ->
    ncr_safe nmap (quant_compile smp P) = true -> rw_ok nmap rw (quant_compile smp P) -> smp_exact smp2 ->
  forall (s0 s0' : state) (pi' : pplan), bool_state P s0 -> neg_rel nmap s0 s0' -> plan_targets_total P pi' ->
    valid_plan false (neg_compile nmap rw smp2 (quant_compile smp P)) s0' pi' = true ->
    valid_plan false P s0 (pback (pipeline_back (qn_stages smp nmap rw smp2 P)) pi') = true.
Proof. exact pipe_quant_ncr_sound. Qed.
Print Assumptions C06_LA_pipe_quant_ncr_sound.

Theorem C06_LA_pipe_quant_ncr_back :
  forall (smp : expr -> expr) (P : problem) (nmap : list (N * N)) (rw smp2 : expr -> expr) (pi' : pplan),
    pback (pipeline_back (qn_stages smp nmap rw smp2 P)) pi' = pi'.
Proof. exact qn_pback. Qed.
Print Assumptions C06_LA_pipe_quant_ncr_back.

(* CLOSED THEOREM for CompilersPipeline([BoundedTypesRemover(), ConditionalEffectsRemover()]) *)
Theorem C06_LA_pipe_btr_cer_sound :
  forall (smp : expr -> expr), smp_holds smp ->
  forall P : problem, unique_ids P -> unique_ids (btr_compile smp P) ->
  forall (simp_pre : list expr -> option (list expr)), simp_pre_ok simp_pre ->
  forall (nm : N -> nat -> N), unique_ids (cer_compile simp_pre nm (btr_compile smp P)) ->
  forall G : state -> Prop,
    (forall s aid a args t, G s -> lookup_action (btr_compile smp P) aid = Some a ->
       spec_step false (btr_compile smp P) s a args = Some t -> G t) ->
    (forall s args i a, G s -> In (i, a) (p_actions (btr_compile smp P)) ->
       Forall (cond_ok (btr_compile smp P) s a args) (cond_effs (a_effs a))) ->
  forall (s0 : state) (pi' : pplan), G s0 ->
    valid_plan false (cer_compile simp_pre nm (btr_compile smp P)) s0 pi' = true ->
    valid_plan false P s0 (pback (pipeline_back (bc_stages smp simp_pre nm G P)) pi') = true.
Proof. exact pipe_btr_cer_sound. Qed.
Print Assumptions C06_LA_pipe_btr_cer_sound.

(* ---------------------------------------------------------------- fourth round: UINR / UTFR / the fake-goal compile as
   stages, the pipelines "grounder+negative-conditions" and "usertype+quantifiers+disjunctive" of compcheck *)
Require Import UPV.Compilers.LayerA_Uinr UPV.Compilers.LayerA_Utfr.

Theorem C06_LA_pipe_uinr_stage_sound :
  forall (umap : list (N * N)) (P : problem), uinr_ok umap P = true -> stage_sound (uinr_stage umap P).
Proof. exact uinr_stage_sound. Qed.
Print Assumptions C06_LA_pipe_uinr_stage_sound.

(* Q = any per-step condition a later stage asks of the (common) plan *)
Theorem C06_LA_pipe_utfr_stage_sound :
  forall (tr smp : expr -> expr) (P : problem) (G : state -> Prop) (Q : pstep -> Prop),
    smp_exact smp -> utfr_wf tr smp P = true -> tr_ok tr P -> effects_defined P G -> LayerA_Utfr.one_value P G ->
    closed P G -> unique_ids P -> stage_sound (utfr_stage tr smp G Q P).
Proof. exact utfr_stage_sound. Qed.
Print Assumptions C06_LA_pipe_utfr_stage_sound.

(* the fake-goal compile as a stage (relation [dcrg_rel]: agree off fk, G, invariants, "fk true only where the goals
   hold"; established by the compiled initial state: [C06_LA_pipe_dcrg_rel_init]) *)
Theorem C06_LA_pipe_dcrg_stage_sound :
  forall (cdnf : expr -> list expr) (pre_dnf : action -> list (list expr)) (nm : N -> nat -> N) (fk : N)
         (gnm : nat -> N) (gds : list (list expr)) (P : problem),
    unique_ids P -> unique_ids (dcrg_compile cdnf pre_dnf nm fk gnm gds P) ->
    dcrg_fresh cdnf pre_dnf nm fk gds P = true ->
  forall G : state -> Prop,
    (forall s aid a args t, G s -> lookup_action P aid = Some a -> spec_step false P s a args = Some t -> G t) ->
    (forall s args i a, G s -> In (i, a) (p_actions P) -> Forall (dnf_effect_ok cdnf P s a args) (a_effs a)) ->
    (forall s args i a, G s -> In (i, a) (p_actions P) ->
       existsb (all_hold false (mk_interp P s (zip_params (a_params a) args))) (pre_dnf a) =
       all_hold false (mk_interp P s (zip_params (a_params a) args)) (a_pre a)) ->
    (forall s, G s -> existsb (all_hold false (mk_interp P s [])) gds = all_hold false (mk_interp P s []) (p_goals P)) ->
    stage_sound (dcrg_stage cdnf pre_dnf nm fk gnm gds G P).
Proof. exact dcrg_stage_sound. Qed.
Print Assumptions C06_LA_pipe_dcrg_stage_sound.

Theorem C06_LA_pipe_dcrg_rel_init :
  forall (fk : N) (G : state -> Prop) (P : problem) (s : state),
    G s -> invariants_ok false P s = true -> dcrg_rel fk G P s (with_fk fk s).
Proof. exact dcrg_rel_init. Qed.
Print Assumptions C06_LA_pipe_dcrg_rel_init.

(* CLOSED THEOREM for CompilersPipeline([Grounder(), NegativeConditionsRemover()]) — "pipeline:grounder+negative-conditions" *)
Theorem C06_LA_pipe_ground_ncr_sound :
  forall (smp : expr -> expr) (tuples : N -> list (list value)) (gnm : N -> nat -> N) (P : problem) (G1 : state -> Prop),
    smp_exact_on P G1 smp -> unique_ids P -> unique_ids (ground_compile smp tuples gnm P) ->
    (forall s aid a args t, G1 s -> lookup_action P aid = Some a -> spec_step false P s a args = Some t -> G1 t) ->
    instances_ok smp tuples P ->
  forall (nmap : list (N * N)) (rw smp2 : expr -> expr),
    nmap_ok nmap (ground_compile smp tuples gnm P) = true -> problem_clean nmap (ground_compile smp tuples gnm P) = true ->
    ncr_safe nmap (ground_compile smp tuples gnm P) = true -> rw_ok nmap rw (ground_compile smp tuples gnm P) ->
    smp_exact smp2 ->
  forall (s0 s0' : state) (pi' : pplan), G1 s0 -> neg_rel nmap s0 s0' ->
    valid_plan false (neg_compile nmap rw smp2 (ground_compile smp tuples gnm P)) s0' pi' = true ->
    valid_plan false P s0 (pback (pipeline_back (gn_stages smp tuples gnm G1 nmap rw smp2 P)) pi') = true.
Proof. exact pipe_ground_ncr_sound. Qed.
Print Assumptions C06_LA_pipe_ground_ncr_sound.

Theorem C06_LA_pipe_ground_ncr_back :
  forall (smp : expr -> expr) (tuples : N -> list (list value)) (gnm : N -> nat -> N) (P : problem) (G1 : state -> Prop)
         (nmap : list (N * N)) (rw smp2 : expr -> expr) (pi' : pplan),
    pback (pipeline_back (gn_stages smp tuples gnm G1 nmap rw smp2 P)) pi' =
    gt_map_back (ground_table smp tuples gnm P) pi'.
Proof. exact gn_pback. Qed.
Print Assumptions C06_LA_pipe_ground_ncr_back.

(* "pipeline:usertype+quantifiers+disjunctive" (UsertypeFluentsRemover -> QuantifiersRemover -> DisjunctiveConditionsRemover
   with a disjunctive goal): the three stages FIT ([linked]: problems chain and every stage hands the next one the
   per-step condition it asks for), so the soundness of the stages (C06_LA_pipe_utfr_stage_sound,
   C06_LA_pipe_quant_stage_sound, C06_LA_pipe_dcrg_stage_sound) gives the soundness of the pipeline *)
Theorem C06_LA_pipe_uqd_sound :
  forall (tr smp1 smp : expr -> expr) (G0 G2 : state -> Prop) (cdnf : expr -> list expr)
         (pre_dnf : action -> list (list expr)) (nm : N -> nat -> N) (fk : N) (gnm : nat -> N) (gds : list (list expr))
         (P : problem),
    Forall stage_sound (uqd_stages tr smp1 G0 smp cdnf pre_dnf nm fk gnm gds G2 P) ->
    stage_sound (compose_all (uqd_stages tr smp1 G0 smp cdnf pre_dnf nm fk gnm gds G2 P)
                             (uqd_dst tr smp1 smp cdnf pre_dnf nm fk gnm gds P)).
Proof. exact pipe_uqd_sound. Qed.
Print Assumptions C06_LA_pipe_uqd_sound.

(* ---------------------------------------------------------------- non-vacuity *)
Module LP.
  Definition idsmp (e : expr) : expr := e.
  Lemma idsmp_exact : smp_exact idsmp. Proof. intros e I. reflexivity. Qed.
  Definition sp (l : list expr) : option (list expr) := Some l.
  Lemma sp_ok : simp_pre_ok sp. Proof. intros l I. reflexivity. Qed.
  Definition nm (i : N) (k : nat) : N := (10 + N.of_nat k)%N.
  Definition G (s : state) : Prop := True.

  (* type 0 = {1, 2}; Boolean fluents p/1 (id 0), g/0 (id 1); variable 0 of type 0.
     action 0:  pre  Exists v. not p(v)   eff  forall v. p(v) := true;   g := true when Exists v. v == obj 1
     goal  Forall v. p(v), g.   QuantifiersRemover expands the three quantifiers and the forall effect;
     ConditionalEffectsRemover then splits the action on the (now quantifier-free) condition of the second effect. *)
  Definition v0 : expr := EVar 0%N 0%N.
  Definition pv : expr := EFluent 0%N [v0].
  Definition eff_all : effect :=
    {| e_fl := 0%N; e_args := [v0]; e_val := EBool true; e_cond := EBool true; e_kind := KAssign;
       e_vars := [(0%N, 0%N)]; e_isbool := true |}.
  Definition eff_g : effect :=
    {| e_fl := 1%N; e_args := []; e_val := EBool true; e_cond := EExists [(0%N, 0%N)] (EEquals v0 (EObj 1%N));
       e_kind := KAssign; e_vars := []; e_isbool := true |}.
  Definition act : action :=
    {| a_params := []; a_pre := [EExists [(0%N, 0%N)] (ENot pv)]; a_effs := [eff_all; eff_g] |}.
  Definition Pp : problem :=
    {| p_objs := [(0%N, [1%N; 2%N])]; p_ifun := [];
       p_fluents := [{| fd_id := 0%N; fd_sig := [0%N]; fd_ty := FBool |}; {| fd_id := 1%N; fd_sig := []; fd_ty := FBool |}];
       p_actions := [(0%N, act)]; p_goals := [EForall [(0%N, 0%N)] pv; EFluent 1%N []]; p_invs := [] |}.
  Definition s0 : state := fun f a => Some (VBool false).
  Definition tau (v : N) : N := 0%N.

  Lemma s0_bool : bool_state Pp s0.
  Proof. intros f args _. right. exists false. reflexivity. Qed.

  Lemma targets : plan_targets_total Pp [(0%N, [])].
  Proof.
    intros aid args a [H|[]] EL. inversion H; subst. vm_compute in EL. inversion EL; subst. clear EL H.
    intros s e J He HJ. destruct He as [<-|[<-|[]]].
    - cbn in HJ. destruct HJ as [<-|[<-|[]]]; discriminate.
    - cbn in HJ. destruct HJ as [<-|[]]. discriminate.
  Qed.

  Lemma cond : forall s args i a, G s -> In (i, a) (p_actions (qc_mid idsmp Pp)) ->
    Forall (cond_ok (qc_mid idsmp Pp) s a args) (cond_effs (a_effs a)).
  Proof.
    intros s args i a _ H. vm_compute in H. destruct H as [H|[]]. inversion H; subst. clear H.
    repeat constructor. exists true. split; [reflexivity|]. repeat constructor. discriminate.
  Qed.
End LP.

Example C06_LA_pipe_quant_cer_sound_nonvacuous :
  smp_exact LP.idsmp /\ simp_pre_ok LP.sp /\ unique_ids LP.Pp /\ problem_wf LP.Pp LP.tau = true /\
  unique_ids (qc_dst LP.idsmp LP.sp LP.nm LP.Pp) /\
  (forall s args i a, LP.G s -> In (i, a) (p_actions (qc_mid LP.idsmp LP.Pp)) ->
     Forall (cond_ok (qc_mid LP.idsmp LP.Pp) s a args) (cond_effs (a_effs a))) /\
  bool_state LP.Pp LP.s0 /\
  map fst (p_actions (qc_dst LP.idsmp LP.sp LP.nm LP.Pp)) = [10%N; 11%N] /\
  pback (pipeline_back (qc_stages LP.idsmp LP.sp LP.nm LP.G LP.Pp)) [(11%N, [])] = [(0%N, [])] /\
  plan_targets_total LP.Pp [(0%N, [])] /\
  valid_plan false (qc_dst LP.idsmp LP.sp LP.nm LP.Pp) LP.s0 [(11%N, [])] = true /\
  valid_plan false (qc_dst LP.idsmp LP.sp LP.nm LP.Pp) LP.s0 [(10%N, [])] = false /\
  valid_plan false LP.Pp LP.s0 [(0%N, [])] = true.
Proof.
  split; [exact LP.idsmp_exact|]. split; [exact LP.sp_ok|]. split; [repeat constructor; intros []|].
  split; [vm_compute; reflexivity|]. split; [vm_compute; repeat constructor; cbn; intuition discriminate|].
  split; [exact LP.cond|]. split; [exact LP.s0_bool|]. split; [vm_compute; reflexivity|].
  split; [vm_compute; reflexivity|]. split; [exact LP.targets|]. repeat split; vm_compute; reflexivity.
Qed.

(* a problem with the goal  a or b  (Boolean fluents a = 0, b = 1; actions 0: a := true, 1: b := true); fake fluent 5 *)
Module LQ.
  Definition cd (c : expr) : list expr := [c].
  Definition pd (a : action) : list (list expr) := [a_pre a].
  Definition nm (i : N) (k : nat) : N := (20 + 10 * i + N.of_nat k)%N.
  Definition gnm (k : nat) : N := (40 + N.of_nat k)%N.
  Definition fk : N := 5%N.
  Definition gds : list (list expr) := [[EFluent 0%N []]; [EFluent 1%N []]].
  Definition setf (f : N) : action :=
    {| a_params := []; a_pre := [];
       a_effs := [{| e_fl := f; e_args := []; e_val := EBool true; e_cond := EBool true; e_kind := KAssign;
                     e_vars := []; e_isbool := true |}] |}.
  Definition Pd : problem :=
    {| p_objs := []; p_ifun := [];
       p_fluents := [{| fd_id := 0%N; fd_sig := []; fd_ty := FBool |}; {| fd_id := 1%N; fd_sig := []; fd_ty := FBool |}];
       p_actions := [(0%N, setf 0%N); (1%N, setf 1%N)];
       p_goals := [EOr [EFluent 0%N []; EFluent 1%N []]]; p_invs := [] |}.
  Definition s0 : state := fun f a => if (f =? fk)%N then None else Some (VBool false).
  Definition P' : problem := dcrg_compile cd pd nm fk gnm gds Pd.
  (* G = the states in which a and b hold Booleans: closed under steps, and there "a or b" = "a holds or b holds" *)
  Definition G (s : state) : Prop := (exists x, s 0%N [] = Some (VBool x)) /\ (exists y, s 1%N [] = Some (VBool y)).

  Lemma G_step : forall s aid a args t, G s -> lookup_action Pd aid = Some a -> spec_step false Pd s a args = Some t -> G t.
  Proof.
    intros s aid a args t [[x Hx] [y Hy]] _ ES. rewrite LayerA_base.spec_step_eq in ES.
    destruct (negb _); [discriminate|]. destruct (fired _ _ _) as [acts|]; [|discriminate].
    destruct (negb _); [discriminate|]. destruct (invariants_ok _ _ _); [|discriminate]. inversion ES; subst t. split.
    - unfold spec_succ, spec_fluent. cbn [fst snd]. change (is_bool_fluent Pd 0%N) with true. rewrite Hx.
      destruct (avals (0%N, []) acts), (deltas (0%N, []) acts); cbn; eauto.
    - unfold spec_succ, spec_fluent. cbn [fst snd]. change (is_bool_fluent Pd 1%N) with true. rewrite Hy.
      destruct (avals (1%N, []) acts), (deltas (1%N, []) acts); cbn; eauto.
  Qed.

  Lemma effs : forall s args i a, G s -> In (i, a) (p_actions Pd) -> Forall (dnf_effect_ok cd Pd s a args) (a_effs a).
  Proof.
    intros s args i a _ [H|[H|[]]]; inversion H; subst; repeat constructor; cbn; try discriminate; try reflexivity;
      try (exists true; reflexivity); intros d [<-|[]]; exists true; reflexivity.
  Qed.

  Lemma pre : forall s args i a, G s -> In (i, a) (p_actions Pd) ->
    existsb (all_hold false (mk_interp Pd s (zip_params (a_params a) args))) (pd a) =
    all_hold false (mk_interp Pd s (zip_params (a_params a) args)) (a_pre a).
  Proof. intros s args i a _ _. unfold pd. cbn [existsb]. apply orb_false_r. Qed.

  Lemma goals : forall s, G s ->
    existsb (all_hold false (mk_interp Pd s [])) gds = all_hold false (mk_interp Pd s []) (p_goals Pd).
  Proof. intros s [[x Hx] [y Hy]]. cbn. unfold holds. cbn. rewrite Hx, Hy. destruct x, y; reflexivity. Qed.
End LQ.

Example C06_LA_dcrgoal_sound_nonvacuous :
  unique_ids LQ.Pd /\ unique_ids LQ.P' /\ dcrg_fresh LQ.cd LQ.pd LQ.nm LQ.fk LQ.gds LQ.Pd = true /\
  (forall s args i a, LQ.G s -> In (i, a) (p_actions LQ.Pd) -> Forall (dnf_effect_ok LQ.cd LQ.Pd s a args) (a_effs a)) /\
  (forall s aid a args t, LQ.G s -> lookup_action LQ.Pd aid = Some a -> spec_step false LQ.Pd s a args = Some t -> LQ.G t) /\
  (forall s args i a, LQ.G s -> In (i, a) (p_actions LQ.Pd) ->
     existsb (all_hold false (mk_interp LQ.Pd s (zip_params (a_params a) args))) (LQ.pd a) =
     all_hold false (mk_interp LQ.Pd s (zip_params (a_params a) args)) (a_pre a)) /\
  (forall s, LQ.G s -> existsb (all_hold false (mk_interp LQ.Pd s [])) LQ.gds =
                        all_hold false (mk_interp LQ.Pd s []) (p_goals LQ.Pd)) /\
  LQ.G LQ.s0 /\ agree_off LQ.fk LQ.s0 (with_fk LQ.fk LQ.s0) /\ with_fk LQ.fk LQ.s0 LQ.fk [] = Some (VBool false) /\
  map fst (p_actions LQ.P') = [20%N; 30%N; 40%N; 41%N] /\
  valid_plan false LQ.P' (with_fk LQ.fk LQ.s0) [(30%N, []); (41%N, [])] = true /\
  (* the goal action of the OTHER disjunct is not applicable, and without a goal action the compiled goal fails *)
  valid_plan false LQ.P' (with_fk LQ.fk LQ.s0) [(30%N, []); (40%N, [])] = false /\
  valid_plan false LQ.P' (with_fk LQ.fk LQ.s0) [(30%N, [])] = false /\
  (* a variant after the goal action resets the fake goal *)
  valid_plan false LQ.P' (with_fk LQ.fk LQ.s0) [(30%N, []); (41%N, []); (20%N, [])] = false /\
  pback (dcrg_back LQ.cd LQ.pd LQ.nm LQ.fk LQ.gnm LQ.gds LQ.Pd) [(30%N, []); (41%N, [])] = [(1%N, [])] /\
  valid_plan false LQ.Pd LQ.s0 [(1%N, [])] = true.
Proof.
  split; [repeat constructor; cbn; intuition discriminate|].
  split; [vm_compute; repeat constructor; cbn; intuition discriminate|].
  split; [vm_compute; reflexivity|]. split; [exact LQ.effs|]. split; [exact LQ.G_step|]. split; [exact LQ.pre|].
  split; [exact LQ.goals|]. split; [split; [exists false | exists false]; reflexivity|].
  split; [intros f x Hf; unfold with_fk; apply N.eqb_neq in Hf; rewrite Hf; reflexivity|].
  repeat split; vm_compute; reflexivity.
Qed.

(* ---------------------------------------------------------------- non-vacuity of the round-3/4 theorems *)
(* "pipeline:usertype+quantifiers+disjunctive" on the problem LQ.Pd (goal a or b): ALL THREE premises of
   C06_LA_pipe_uqd_sound / C07_LA_pipe_uqd_certified hold.  The intermediate problems: UsertypeFluentsRemover (no object
   fluent here) rebuilds every effect condition as And(true, true); QuantifiersRemover changes nothing more; the
   disjunctive goal then needs the fake goal fluent. *)
Module LU.
  Definition idf (e : expr) : expr := e.
  Lemma idf_exact : smp_exact idf. Proof. intros e I. reflexivity. Qed.
  Definition P0 : problem := LQ.Pd.
  Definition P1 : problem := utfr_compile idf idf P0.
  Definition P2 : problem := quant_compile idf P1.
  Definition G : state -> Prop := LQ.G.
  Definition tau (v : N) : N := 0%N.

  Lemma G_step P (Hb0 : is_bool_fluent P 0%N = true) (Hb1 : is_bool_fluent P 1%N = true) :
    forall s aid a args t, G s -> lookup_action P aid = Some a -> spec_step false P s a args = Some t -> G t.
  Proof.
    intros s aid a args t [[x Hx] [y Hy]] _ ES. rewrite LayerA_base.spec_step_eq in ES.
    destruct (negb _); [discriminate|]. destruct (fired _ _ _) as [acts|]; [|discriminate].
    destruct (negb _); [discriminate|]. destruct (invariants_ok _ _ _); [|discriminate]. inversion ES; subst t. split.
    - unfold spec_succ, spec_fluent. cbn [fst snd]. rewrite Hb0, Hx.
      destruct (avals (0%N, []) acts), (deltas (0%N, []) acts); cbn; eauto.
    - unfold spec_succ, spec_fluent. cbn [fst snd]. rewrite Hb1, Hy.
      destruct (avals (1%N, []) acts), (deltas (1%N, []) acts); cbn; eauto.
  Qed.

  (* ---- stage 1: UsertypeFluentsRemover *)
  Lemma no_obj f : otype P0 f = None.
  Proof. reflexivity. Qed.

  Lemma utfr_hyps :
    utfr_wf idf idf P0 = true /\ tr_ok idf P0 /\ effects_defined P0 G /\ LayerA_Utfr.one_value P0 G /\ closed P0 G /\
    unique_ids P0.
  Proof.
    split; [vm_compute; reflexivity|]. split.
    { apply tr_ok_id. intros e He. vm_compute in He. destruct He as [<-|[<-|[<-|[]]]]; reflexivity. }
    split.
    { intros s i a args e _ Ha He _. destruct Ha as [Ha|[Ha|[]]]; inversion Ha; subst; destruct He as [<-|[]];
        (split; [exists []; reflexivity|]); (split; [exists true; reflexivity|]); exists (VBool true);
        (split; [reflexivity|]); cbn; exists true; reflexivity. }
    split; [intros s i a args acts f t x v1 v2 _ _ _ Hf; rewrite no_obj in Hf; discriminate|].
    split; [exact (G_step P0 eq_refl eq_refl)|]. repeat constructor; cbn; intuition discriminate.
  Qed.

  (* ---- stage 2: QuantifiersRemover *)
  Lemma quant_hyps : unique_ids P1 /\ problem_wf P1 tau = true /\ no_action_dropped idf P1.
  Proof.
    split; [vm_compute; repeat constructor; cbn; intuition discriminate|]. split; [vm_compute; reflexivity|].
    intros aid a H. vm_compute in H. destruct H as [H|[H|[]]]; inversion H; subst; vm_compute; discriminate.
  Qed.

  (* ---- stage 3: DisjunctiveConditionsRemover with the disjunctive goal *)
  Lemma effs2 : forall s args i a, G s -> In (i, a) (p_actions P2) -> Forall (dnf_effect_ok LQ.cd P2 s a args) (a_effs a).
  Proof.
    intros s args i a _ H. vm_compute in H. destruct H as [H|[H|[]]]; inversion H; subst; repeat constructor; cbn;
      try discriminate; try reflexivity; try (exists true; reflexivity); intros d [<-|[]]; exists true; reflexivity.
  Qed.

  Lemma pre2 : forall s args i a, G s -> In (i, a) (p_actions P2) ->
    existsb (all_hold false (mk_interp P2 s (zip_params (a_params a) args))) (LQ.pd a) =
    all_hold false (mk_interp P2 s (zip_params (a_params a) args)) (a_pre a).
  Proof. intros s args i a _ _. unfold LQ.pd. cbn [existsb]. apply orb_false_r. Qed.

  Lemma goals2 : forall s, G s ->
    existsb (all_hold false (mk_interp P2 s [])) LQ.gds = all_hold false (mk_interp P2 s []) (p_goals P2).
  Proof. intros s [[x Hx] [y Hy]]. cbn. unfold holds. cbn. rewrite Hx, Hy. destruct x, y; reflexivity. Qed.

  Lemma conf2 : forall s args i a d, G s -> In (i, a) (p_actions P2) -> In d (LQ.pd a) ->
    add_effs_ok [] [] (a_effs (dnf_variant LQ.cd a d)) = false ->
    all_hold false (mk_interp P2 s (zip_params (a_params a) args)) d = true -> applicable P2 s a args = false.
  Proof.
    intros s args i a d _ H Hd Hc. vm_compute in H. destruct H as [H|[H|[]]]; inversion H; subst;
      destruct Hd as [<-|[]]; vm_compute in Hc; discriminate.
  Qed.

  Definition stages : list stage := uqd_stages idf idf G idf LQ.cd LQ.pd LQ.nm LQ.fk LQ.gnm LQ.gds G P0.
  Definition P3 : problem := uqd_dst idf idf idf LQ.cd LQ.pd LQ.nm LQ.fk LQ.gnm LQ.gds P0.

  Lemma all_certified : Forall certified stages.
  Proof.
    destruct utfr_hyps as (U1 & U2 & U3 & U4 & U5 & U6). destruct quant_hyps as (Q1 & Q2 & Q3).
    constructor; [exact (utfr_stage_certified idf idf P0 G _ idf_exact U1 U2 U3 U4 U5 U6)|].
    constructor; [exact (quant_stage_certified idf idf_exact P1 tau Q1 Q2 Q3)|].
    constructor; [|constructor].
    apply (dcrg_stage_certified LQ.cd LQ.pd LQ.nm LQ.fk LQ.gnm LQ.gds P2).
    - vm_compute; repeat constructor; cbn; intuition discriminate.
    - vm_compute; repeat constructor; cbn; intuition discriminate.
    - vm_compute; reflexivity.
    - vm_compute; reflexivity.
    - exact (G_step P2 eq_refl eq_refl).
    - exact effs2.
    - exact pre2.
    - exact goals2.
    - exact conf2.
  Qed.
End LU.

Example C06_LA_pipe_uqd_sound_nonvacuous :
  Forall stage_sound LU.stages /\ linked LU.stages LU.P3 /\
  map fst (p_actions LU.P3) = [20%N; 30%N; 40%N; 41%N] /\
  valid_plan false LU.P3 (with_fk LQ.fk LQ.s0) [(30%N, []); (41%N, [])] = true /\
  pback (pipeline_back LU.stages) [(30%N, []); (41%N, [])] = [(1%N, [])] /\
  valid_plan false LU.P0 LQ.s0 [(1%N, [])] = true.
Proof.
  split; [eapply Forall_impl; [|exact LU.all_certified]; intros st H; exact (cs_sound st H)|].
  split; [exact (uqd_linked LU.idf LU.idf LU.idf LU.G LU.G LQ.cd LQ.pd LQ.nm LQ.fk LQ.gnm LQ.gds LU.P0)|].
  repeat split; vm_compute; reflexivity.
Qed.

(* the fake-goal compile as a stage on LQ.Pd itself: every premise of C06_LA_pipe_dcrg_stage_sound /
   C07_LA_pipe_dcrg_stage_certified holds, and the compiled initial state is related to the original one *)
Lemma LQ_conf : forall s args i a d, LQ.G s -> In (i, a) (p_actions LQ.Pd) -> In d (LQ.pd a) ->
  add_effs_ok [] [] (a_effs (dnf_variant LQ.cd a d)) = false ->
  all_hold false (mk_interp LQ.Pd s (zip_params (a_params a) args)) d = true -> applicable LQ.Pd s a args = false.
Proof.
  intros s args i a d _ H Hd Hc. destruct H as [H|[H|[]]]; inversion H; subst;
    destruct Hd as [<-|[]]; vm_compute in Hc; discriminate.
Qed.

Example C06_LA_pipe_dcrg_stage_sound_nonvacuous :
  orig_no_fk LQ.fk LQ.Pd = true /\
  certified (dcrg_stage LQ.cd LQ.pd LQ.nm LQ.fk LQ.gnm LQ.gds LQ.G LQ.Pd) /\
  st_aux (dcrg_stage LQ.cd LQ.pd LQ.nm LQ.fk LQ.gnm LQ.gds LQ.G LQ.Pd) = 1 /\
  dcrg_rel LQ.fk LQ.G LQ.Pd LQ.s0 (with_fk LQ.fk LQ.s0).
Proof.
  split; [vm_compute; reflexivity|]. split; [|split; [reflexivity|]].
  - apply (dcrg_stage_certified LQ.cd LQ.pd LQ.nm LQ.fk LQ.gnm LQ.gds LQ.Pd).
    + repeat constructor; cbn; intuition discriminate.
    + vm_compute; repeat constructor; cbn; intuition discriminate.
    + vm_compute; reflexivity.
    + vm_compute; reflexivity.
    + exact LQ.G_step.
    + exact LQ.effs.
    + exact LQ.pre.
    + exact LQ.goals.
    + exact LQ_conf.
  - apply dcrg_rel_init; [split; [exists false | exists false]; reflexivity | vm_compute; reflexivity].
Qed.

(* BoundedTypesRemover -> ConditionalEffectsRemover on C06.LB.Pi (x bounded in [0, 2]; no conditional effect, so the
   second stage keeps the actions): every hypothesis of C06_LA_pipe_btr_cer_sound holds *)
Module LBC.
  Definition G (s : state) : Prop := True.
  Definition P1 : problem := btr_compile C06.LA.idsmp C06.LB.Pi.
  Definition P2 : problem := cer_compile LP.sp LP.nm P1.
  Lemma cond : forall s args i a, G s -> In (i, a) (p_actions P1) -> Forall (cond_ok P1 s a args) (cond_effs (a_effs a)).
  Proof.
    intros s args i a _ H. vm_compute in H. destruct H as [H|[H|[H|[]]]]; inversion H; subst; constructor.
  Qed.
End LBC.

Example C06_LA_pipe_btr_cer_sound_nonvacuous :
  smp_holds C06.LA.idsmp /\ unique_ids C06.LB.Pi /\ unique_ids LBC.P1 /\ simp_pre_ok LP.sp /\ unique_ids LBC.P2 /\
  (forall s args i a, LBC.G s -> In (i, a) (p_actions LBC.P1) -> Forall (cond_ok LBC.P1 s a args) (cond_effs (a_effs a))) /\
  valid_plan false LBC.P2 C06.LB.si [(2%N, []); (0%N, [])] = true /\
  pback (pipeline_back (bc_stages C06.LA.idsmp LP.sp LP.nm LBC.G C06.LB.Pi)) [(2%N, []); (0%N, [])] = [(2%N, []); (0%N, [])] /\
  valid_plan false C06.LB.Pi C06.LB.si [(2%N, []); (0%N, [])] = true /\
  (* three increases leave the bounds: rejected by both *)
  valid_plan false LBC.P2 C06.LB.si [(2%N, []); (2%N, []); (0%N, [])] = false.
Proof.
  split; [exact C06.LA.idsmp_holds|]. split; [exact C06.LB.uniq|].
  split; [vm_compute; repeat constructor; cbn; intuition discriminate|]. split; [exact LP.sp_ok|].
  split; [vm_compute; repeat constructor; cbn; intuition discriminate|]. split; [exact LBC.cond|].
  repeat split; vm_compute; reflexivity.
Qed.
