(* C36 — Planning states behave like finite maps under any update history.
   Only statements; each is closed by [exact] of a lemma from Proofs/State_proofs.v. *)
From Coq Require Import List ZArith NArith Bool.
Import ListNotations.
Require Import UPV.Model.State UPV.Proofs.State_proofs.

(* every state reachable by constructor / make_child under ANY ancestor limit (1, 2, 20, None, ...) / in-place
   condensation returns, for every fluent, the most recent update along its history, else the root value, else the
   fluent's default; None (= UPStateMissingFluentError) exactly when there is neither *)
Theorem C36_state_is_finite_map :
  forall D s root history, reach D s root history -> forall k, get_value D s k = spec_get D root history k.
Proof. exact reach_refines_map. Qed.
Print Assumptions C36_state_is_finite_map.

Theorem C36_linear_history :
  forall D limit root (history : list dict) k,
    get_value D (fold_left (make_child D limit) history (mk_root D root)) k = spec_get D root history k.
Proof. exact history_refines_map. Qed.
Print Assumptions C36_linear_history.

Theorem C36_missing_raises_iff_neither :
  forall D s root history k, reach D s root history ->
    (get_value D s k = None <-> spec_get D root history k = None).
Proof. exact missing_iff. Qed.
Print Assumptions C36_missing_raises_iff_neither.

Theorem C36_condense_in_place_harmless :
  forall D s k, get_value D (condense D s) k = get_value D s k.
Proof. exact get_value_condense. Qed.
Print Assumptions C36_condense_in_place_harmless.

Theorem C36_child_depends_only_on_father_answers :
  forall D vs f f', (forall k, get_value D f k = get_value D f' k) ->
    forall k, get_value D (Child vs f) k = get_value D (Child vs f') k.
Proof. exact child_father_ext. Qed.
Print Assumptions C36_child_depends_only_on_father_answers.

(* == holds iff both states give every fluent the same value; [h] is Python's hash of an item, arbitrary *)
Theorem C36_eq_iff_same_map :
  forall (h : gf * Z -> Z) D s t, wf D s -> wf D t ->
    (state_eq h D s t = true <-> forall k, get_value D s k = get_value D t k).
Proof. exact state_eq_iff_same_map. Qed.
Print Assumptions C36_eq_iff_same_map.

Theorem C36_same_map_same_hash :
  forall (h : gf * Z -> Z) D s t, wf D s -> wf D t ->
    (forall k, get_value D s k = get_value D t k) -> state_hash h D s = state_hash h D t.
Proof. exact same_map_same_hash. Qed.
Print Assumptions C36_same_map_same_hash.

Theorem C36_reachable_states_wf : forall D s r h, reach D s r h -> wf D s.
Proof. exact reach_wf. Qed.
Print Assumptions C36_reachable_states_wf.

(* non-vacuity: a concrete two-step history with a default-valued update, under limit 1 (condensing) *)
Example C36_nonvacuous :
  let D := [(1%N, 0%Z)] in
  let s := fold_left (make_child D (Some 1)) [[((1%N, 0%N), 5%Z)]; [((1%N, 0%N), 0%Z)]] (mk_root D [((2%N, 0%N), 7%Z)]) in
  get_value D s (1%N, 0%N) = Some 0%Z /\ get_value D s (2%N, 0%N) = Some 7%Z /\ get_value D s (3%N, 0%N) = None
  /\ reach D s [((2%N, 0%N), 7%Z)] [[((1%N, 0%N), 5%Z)]; [((1%N, 0%N), 0%Z)]].
Proof.
  cbv zeta. split; [reflexivity|]. split; [reflexivity|]. split; [reflexivity|].
  cbn [fold_left].
  apply (reach_child _ _ _ _ [[((1%N, 0%N), 5%Z)]]). apply (reach_child _ _ _ _ []). apply reach_root.
Qed.
