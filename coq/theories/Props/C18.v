(* C18 — PDDL write/read round trip preserves problem semantics and plans (validated property).

   The PDDL printer and the two parsers are not modelled.  What is proved, for all problems, metrics, initial states
   and plans, is that the decision procedure [bisim_check] of Compilers/BisimCheck.v is sound: when it accepts the
   pair (original problem P, re-read problem Q) — serialised by the harness with the numbering induced by the writer's
   renaming — then P and Q have the same objects in every type and the same initial state, and every plan over the
   well-typed ground action instances has the same run, the same validity and the same metric value in both, under
   the documented sequential semantics [spec_step false] (C01).  The harness runs the procedure on the real
   writer/reader output of generated problems. *)
From Coq Require Import List ZArith NArith QArith Qcanon Bool.
Import ListNotations.
Require Import UPV.Core.Expr UPV.Core.Eval UPV.Core.Interp UPV.Planning.Problem UPV.Planning.Sem UPV.Planning.SeqValidate.
Require Import UPV.Proofs.Step_proofs UPV.Compilers.BisimCheck UPV.Proofs.BisimCheck_proofs.

(* closed product graph: no bound on the plans *)
Theorem C18_bisim_check_correct :
  forall P Q MP MQ sigsP sigsQ l0P l0Q n cap,
    bisim_check P Q MP MQ sigsP sigsQ l0P l0Q n cap = BClosed ->
    forall plan, Forall (fun i => In i (all_insts P sigsP)) plan ->
      validate_from false P (qm_m MP) (spec_step false P) (st_of l0P) (zq 0) plan =
      validate_from false Q (qm_m MQ) (spec_step false Q) (st_of l0Q) (zq 0) plan /\
      ostate_eq (run P (spec_step false P) (st_of l0P) plan) (run Q (spec_step false Q) (st_of l0Q) plan) /\
      valid_plan false P (st_of l0P) plan = valid_plan false Q (st_of l0Q) plan.
Proof. exact bisim_check_closed_sound. Qed.
Print Assumptions C18_bisim_check_correct.

(* product graph explored to depth b only: plans of length <= b *)
Theorem C18_bisim_check_correct_bounded :
  forall P Q MP MQ sigsP sigsQ l0P l0Q n cap b,
    bisim_check P Q MP MQ sigsP sigsQ l0P l0Q n cap = BBounded b ->
    forall plan, (length plan <= b)%nat -> Forall (fun i => In i (all_insts P sigsP)) plan ->
      validate_from false P (qm_m MP) (spec_step false P) (st_of l0P) (zq 0) plan =
      validate_from false Q (qm_m MQ) (spec_step false Q) (st_of l0Q) (zq 0) plan /\
      ostate_eq (run P (spec_step false P) (st_of l0P) plan) (run Q (spec_step false Q) (st_of l0Q) plan) /\
      valid_plan false P (st_of l0P) plan = valid_plan false Q (st_of l0Q) plan.
Proof. exact bisim_check_bounded_sound. Qed.
Print Assumptions C18_bisim_check_correct_bounded.

(* a check that does not fail also established: same objects per type, the same well-typed ground instances, equal
   initial states, same optimisation direction and metric class *)
Theorem C18_bisim_check_static :
  forall P Q MP MQ sigsP sigsQ l0P l0Q n cap,
    (forall w tr i, bisim_check P Q MP MQ sigsP sigsQ l0P l0Q n cap <> BFail w tr i) ->
    (forall t o, In o (objs_of P t) <-> In o (objs_of Q t)) /\
    (forall i, In i (all_insts P sigsP) <-> In i (all_insts Q sigsP)) /\
    state_eq (st_of l0P) (st_of l0Q) /\
    qm_max MP = qm_max MQ /\ mclass (qm_m MP) = mclass (qm_m MQ).
Proof. exact bisim_check_static. Qed.
Print Assumptions C18_bisim_check_static.

(* the plans quantified over: every action of the signature table applied to objects of its parameter types *)
Theorem C18_ground_instances :
  forall P sigs aid args,
    In (aid, args) (all_insts P sigs) <->
    exists sig, In (aid, sig) sigs /\
                Forall2 (fun t v => exists o, v = VObj o /\ In o (objs_of P t)) sig args.
Proof. exact ground_instances_spec. Qed.
Print Assumptions C18_ground_instances.

(* plan round trip: the comparison used for written/parsed plans is equality of the action instances *)
Theorem C18_plan_eqb_sound : forall a b, plan_eqb a b = true -> a = b.
Proof. exact plan_eqb_eq. Qed.
Print Assumptions C18_plan_eqb_sound.

(* ---------------------------------------------------------------- non-vacuity *)
Definition ex_P : problem :=
  {| p_objs := [(0%N, [0%N; 1%N])]; p_ifun := [];
     p_fluents := [{| fd_id := 0%N; fd_sig := [0%N]; fd_ty := FBool |}; {| fd_id := 1%N; fd_sig := []; fd_ty := FNum None None |}];
     p_actions := [(0%N, {| a_params := [0%N]; a_pre := [ENot (EFluent 0%N [EParam 0%N])];
                            a_effs := [{| e_fl := 0%N; e_args := [EParam 0%N]; e_val := EBool true; e_cond := EBool true;
                                          e_kind := KAssign; e_vars := []; e_isbool := true |};
                                       {| e_fl := 1%N; e_args := []; e_val := EMinus (EFluent 1%N []) (EInt 1); e_cond := EBool true;
                                          e_kind := KAssign; e_vars := []; e_isbool := false |}] |})];
     p_goals := [EForall [(0%N, 0%N)] (EFluent 0%N [EVar 0%N 0%N])]; p_invs := [] |}.
(* the same problem written differently: other parameter id, x - 1 as x + (-1), goal as a conjunction, objects in the
   other order *)
Definition ex_Q : problem :=
  {| p_objs := [(0%N, [1%N; 0%N])]; p_ifun := [];
     p_fluents := [{| fd_id := 1%N; fd_sig := []; fd_ty := FNum None None |}; {| fd_id := 0%N; fd_sig := [0%N]; fd_ty := FBool |}];
     p_actions := [(0%N, {| a_params := [7%N]; a_pre := [ENot (EFluent 0%N [EParam 7%N])];
                            a_effs := [{| e_fl := 1%N; e_args := []; e_val := EPlus [EFluent 1%N []; EInt (-1)]; e_cond := EBool true;
                                          e_kind := KAssign; e_vars := []; e_isbool := false |};
                                       {| e_fl := 0%N; e_args := [EParam 7%N]; e_val := EBool true; e_cond := EBool true;
                                          e_kind := KAssign; e_vars := []; e_isbool := true |}] |})];
     p_goals := [EAnd [EFluent 0%N [EObj 0%N]; EFluent 0%N [EObj 1%N]]]; p_invs := [] |}.
(* the operands of the subtraction swapped *)
Definition ex_Q_bad : problem :=
  {| p_objs := p_objs ex_Q; p_ifun := []; p_fluents := p_fluents ex_Q;
     p_actions := [(0%N, {| a_params := [7%N]; a_pre := [ENot (EFluent 0%N [EParam 7%N])];
                            a_effs := [{| e_fl := 1%N; e_args := []; e_val := EMinus (EInt 1) (EFluent 1%N []); e_cond := EBool true;
                                          e_kind := KAssign; e_vars := []; e_isbool := false |};
                                       {| e_fl := 0%N; e_args := [EParam 7%N]; e_val := EBool true; e_cond := EBool true;
                                          e_kind := KAssign; e_vars := []; e_isbool := true |}] |})];
     p_goals := p_goals ex_Q; p_invs := [] |}.
Definition ex_init : fstate :=
  [(0%N, [VObj 0%N], VBool false); (0%N, [VObj 1%N], VBool false); (1%N, [], VNum (zq 5))].
Definition ex_M : qmetric := {| qm_max := false; qm_m := MFinal (EFluent 1%N []) |}.

Example C18_bisim_check_correct_nonvacuous :
  bisim_check ex_P ex_Q ex_M ex_M [(0%N, [0%N])] [(0%N, [0%N])] ex_init ex_init 6 100 = BClosed /\
  valid_plan false ex_P (st_of ex_init) [(0%N, [VObj 1%N]); (0%N, [VObj 0%N])] = true.
Proof. vm_compute. split; reflexivity. Qed.

Example C18_bisim_check_correct_bounded_nonvacuous :
  bisim_check ex_P ex_Q ex_M ex_M [(0%N, [0%N])] [(0%N, [0%N])] ex_init ex_init 1 100 = BBounded 1.
Proof. vm_compute. reflexivity. Qed.

Example C18_bisim_check_static_nonvacuous :
  forall w tr i, bisim_check ex_P ex_Q ex_M ex_M [(0%N, [0%N])] [(0%N, [0%N])] ex_init ex_init 6 100 <> BFail w tr i.
Proof. intros w tr i. vm_compute. discriminate. Qed.

(* the checker is not trivially accepting: swapped operands are reported with the action instance that shows it *)
Example C18_bisim_check_rejects :
  bisim_check ex_P ex_Q_bad ex_M ex_M [(0%N, [0%N])] [(0%N, [0%N])] ex_init ex_init 6 100 = BFail 5 [] (Some (0%N, [VObj 0%N])).
Proof. vm_compute. reflexivity. Qed.

Example C18_ground_instances_nonvacuous : In (0%N, [VObj 1%N]) (all_insts ex_P [(0%N, [0%N])]).
Proof. vm_compute. tauto. Qed.

Example C18_plan_eqb_sound_nonvacuous : plan_eqb [(0%N, [VObj 1%N])] [(0%N, [VObj 1%N])] = true.
Proof. vm_compute. reflexivity. Qed.
