(* C06, Layer A — TrajectoryConstraintsRemover (part file; statements only, proofs in Proofs/LayerA_Tcr_proofs.v).
   Proved for ALL ground problems / actions / formulas of the fragment:
     * the REGRESSION lemma, the heart of the compiler (every added precondition and every condition of an added
       effect is a regressed formula);
     * the abstract monitor the compilation implements decides the PDDL3 semantics of all five operators.
     * the PLAN-LEVEL verdict equation for problems whose constraints are all `always phi` ([C06_LA_tcr_always_plan]).
     * the PLAN-LEVEL verdict equation for ONE `sometime phi` constraint with its monitoring fluent ([C06_LA_tcr_sometime_plan]).
     * the PLAN-LEVEL verdict equation for ONE `at-most-once phi` constraint ([C06_LA_tcr_amo_plan]).
     * the PLAN-LEVEL verdict equation for ONE `sometime-before phi psi` constraint ([C06_LA_tcr_sb_plan]).
     * the PLAN-LEVEL verdict equation for ONE `sometime-after phi psi` constraint ([C06_LA_tcr_sa_plan]).
   NOT proved (kept as [C06_LA_tcr_plan_goal]): the plan-level verdict equation for several constraints at once, the link
   to SimCheck.valid (needs the
   embedding of the monitor into problems with the extra monitoring fluents). *)
From Coq Require Import List ZArith NArith QArith Qcanon Bool.
Import ListNotations.
Require Import UPV.Core.Expr UPV.Core.Eval UPV.Core.Interp UPV.Planning.Problem UPV.Planning.Sem.
Require Import UPV.Compilers.LayerA_Defs UPV.Compilers.LayerA_Quant UPV.Compilers.SimCheck UPV.Compilers.LayerA_DcrGoal UPV.Compilers.LayerA_Tcr.
Require Import UPV.Proofs.LayerA_base UPV.Proofs.LayerA_Tcr_proofs.
Local Open Scope nat_scope.

(* REGRESSION.  P a problem, a one of its ground actions ([gaction]: no parameters, no forall effects, effect targets are
   fluents applied to object constants, Boolean targets are assigned, e_isbool = the declaration), phi a propositional
   formula over Boolean fluents applied to object constants ([gform], [gbool]) whose fluents have Boolean values in s
   ([gdef]); every effect condition and every value assigned to a Boolean fluent has a Boolean value in s ([reg_ok]: the
   regression And(cond, value) reads the value also when cond is false, so applicability alone is not enough, see
   [C06_LA_tcr_regression_needs_reg_ok]).  If the documented step of a from s is t, then `_regression(phi, a)` has in s
   the value phi has in t (same value and definedness), and phi is defined in t. *)
Theorem C06_LA_tcr_regression :
  forall (P : problem) (s : state) (a : action) (args : list value) (t : state) (phi : expr),
    gaction P a = true -> reg_ok P s a = true -> spec_step false P s a args = Some t ->
    gform phi = true -> gbool P phi = true -> gdef s phi = true ->
    eval false (regress (a_effs a) phi) (mk_interp P s []) = eval false phi (mk_interp P t []) /\
    holds false (mk_interp P s []) (regress (a_effs a) phi) = holds false (mk_interp P t []) phi /\
    isB (mk_interp P t []) phi = true.
Proof. exact regression_step. Qed.
Print Assumptions C06_LA_tcr_regression.

(* what _gamma computes: gamma(literal, a) is true exactly when some effect on a Boolean fluent, on this very fluent
   expression, fires with the polarity of the literal (constant values and f := g alike) *)
Theorem C06_LA_tcr_gamma :
  forall (I : interp) (f : N) (args : list expr) (pos : bool) (effs : list effect),
    Forall (eff_def I) effs ->
    eval false (gamma f args pos effs) I = Some (VBool (existsb (contrib I f args pos) effs)).
Proof. exact gamma_B. Qed.
Print Assumptions C06_LA_tcr_gamma.

(* THE MONITOR.  [mverdict]: refuse in the initial state (always / sometime-before), run the monitoring atom through
   the states ([upd] = the added conditional effects), check [chk] before every step (= the added preconditions, which
   speak about the NEXT state through regression), require the landmark atoms at the end (= the added goal).  On every
   non-empty state sequence this is SimCheck.traj_holds, hence (C06_traj_monitor_decides_pddl3) the PDDL3 semantics. *)
Theorem C06_LA_tcr_monitor_decides :
  forall (T : tsys) (c : expr) (s : state) (r : list state),
    mverdict (sat T) c (s :: r) = traj_holds T (s :: r) c.
Proof. intros T c s r. rewrite traj_holds_th. apply mverdict_spec. Qed.
Print Assumptions C06_LA_tcr_monitor_decides.

(* soundness reading: a sequence the compiled monitor accepts satisfies the constraint *)
Theorem C06_LA_tcr_monitor_sound :
  forall (T : tsys) (c : expr) (s : state) (r : list state),
    mverdict (sat T) c (s :: r) = true -> traj_holds T (s :: r) c = true.
Proof. intros T c s r H. rewrite traj_holds_th, <- mverdict_spec. exact H. Qed.
Print Assumptions C06_LA_tcr_monitor_sound.

(* ---------------------------------------------------------------- non-vacuity / the hypothesis reg_ok is needed *)
Module TcrEx.
  Definition bfd (f : N) : fdecl := {| fd_id := f; fd_sig := []; fd_ty := FBool |}.
  Definition fl0 (f : N) : expr := EFluent f [].
  (* f := g when c *)
  Definition a0 : action :=
    {| a_params := []; a_pre := [];
       a_effs := [{| e_fl := 0%N; e_args := []; e_val := fl0 1; e_cond := fl0 2; e_kind := KAssign; e_vars := [];
                     e_isbool := true |}] |}.
  Definition P0 : problem :=
    {| p_objs := []; p_ifun := []; p_fluents := [bfd 0; bfd 1; bfd 2]; p_actions := [(0%N, a0)]; p_goals := []; p_invs := [] |}.
  (* f false, g true, c true: after a0 f is true *)
  Definition s1 : state := fun f _ => Some (VBool (negb (f =? 0)%N)).
  (* f true, c false, g has no value: a0 is applicable and leaves f true, but And(c, g) has no value *)
  Definition s2 : state := fun f _ => if (f =? 1)%N then None else Some (VBool (f =? 0)%N).
  Definition t1 : option state := spec_step false P0 s1 a0 [].
  Definition t2 : option state := spec_step false P0 s2 a0 [].
  Definition after (o : option state) (phi : expr) : option bool :=
    match o with Some t => Some (holds false (mk_interp P0 t []) phi) | None => None end.
End TcrEx.

Example C06_LA_tcr_regression_nonvacuous :
  gaction TcrEx.P0 TcrEx.a0 = true /\ reg_ok TcrEx.P0 TcrEx.s1 TcrEx.a0 = true /\
  gform (TcrEx.fl0 0) = true /\ gbool TcrEx.P0 (TcrEx.fl0 0) = true /\ gdef TcrEx.s1 (TcrEx.fl0 0) = true /\
  holds false (mk_interp TcrEx.P0 TcrEx.s1 []) (TcrEx.fl0 0) = false /\
  TcrEx.after TcrEx.t1 (TcrEx.fl0 0) = Some true /\
  holds false (mk_interp TcrEx.P0 TcrEx.s1 []) (regress (a_effs TcrEx.a0) (TcrEx.fl0 0)) = true.
Proof. repeat split; vm_compute; reflexivity. Qed.

(* without reg_ok the regression is NOT exact in the strict semantics: a0 is applicable in s2 and f holds afterwards,
   yet the regressed formula (the precondition the compiler adds for `always f`) does not hold in s2, because it reads g *)
Example C06_LA_tcr_regression_needs_reg_ok :
  gaction TcrEx.P0 TcrEx.a0 = true /\ reg_ok TcrEx.P0 TcrEx.s2 TcrEx.a0 = false /\
  gform (TcrEx.fl0 0) = true /\ gbool TcrEx.P0 (TcrEx.fl0 0) = true /\ gdef TcrEx.s2 (TcrEx.fl0 0) = true /\
  TcrEx.after TcrEx.t2 (TcrEx.fl0 0) = Some true /\
  holds false (mk_interp TcrEx.P0 TcrEx.s2 []) (regress (a_effs TcrEx.a0) (TcrEx.fl0 0)) = false.
Proof. repeat split; vm_compute; reflexivity. Qed.

(* OUTSIDE THE FRAGMENT ([gform] requires constant arguments) the regression is NOT exact, and the real compiler shows it:
   `always p(loc)` with an object fluent loc, action `loc := l2` (p(l1) true, p(l2) false, loc = l1).  _gamma only looks at
   effects on BOOLEAN fluents whose fluent expression equals the literal p(loc), so the regressed formula is (equivalent
   to) p(loc) itself: it holds before the action although p(loc) is false after it.  Real code: the compiled problem
   accepts [move], which maps back to a plan that violates the constraint (corpus/c06_tcr_nested_fluent_repro.py). *)
Module TcrNested.
  Definition l1 : N := 0%N.  Definition l2 : N := 1%N.
  Definition floc : N := 0%N.  Definition fp : N := 1%N.
  Definition mv : action :=
    {| a_params := []; a_pre := [];
       a_effs := [{| e_fl := floc; e_args := []; e_val := EObj l2; e_cond := EBool true; e_kind := KAssign; e_vars := [];
                     e_isbool := false |}] |}.
  Definition P0 : problem :=
    {| p_objs := [(0%N, [l1; l2])]; p_ifun := [];
       p_fluents := [{| fd_id := floc; fd_sig := []; fd_ty := FObj 0 |}; {| fd_id := fp; fd_sig := [0%N]; fd_ty := FBool |}];
       p_actions := [(0%N, mv)]; p_goals := []; p_invs := [] |}.
  Definition s0 : state := fun f args =>
    if (f =? floc)%N then Some (VObj l1)
    else match args with [VObj o] => Some (VBool (o =? l1)%N) | _ => None end.
  Definition phi : expr := EFluent fp [EFluent floc []].
  Definition t0 : option state := spec_step false P0 s0 mv [].
  Definition after (o : option state) (e : expr) : option bool :=
    match o with Some t => Some (holds false (mk_interp P0 t []) e) | None => None end.
End TcrNested.

Example C06_LA_tcr_regression_refuted_nested_fluent :
  gaction TcrNested.P0 TcrNested.mv = true /\ reg_ok TcrNested.P0 TcrNested.s0 TcrNested.mv = true /\
  gform TcrNested.phi = false /\
  TcrNested.after TcrNested.t0 TcrNested.phi = Some false /\
  holds false (mk_interp TcrNested.P0 TcrNested.s0 []) (regress (a_effs TcrNested.mv) TcrNested.phi) = true.
Proof. repeat split; vm_compute; reflexivity. Qed.

(* the monitor on a concrete sequence: at-most-once f over f = true, false, true is rejected, over true, true, false accepted *)
Example C06_LA_tcr_monitor_nonvacuous :
  mverdict (fun (s : bool) (_ : expr) => s) (EAtMostOnce (EBool true)) [true; false; true] = false /\
  mverdict (fun (s : bool) (_ : expr) => s) (EAtMostOnce (EBool true)) [true; true; false] = true /\
  mverdict (fun (s : bool) (_ : expr) => s) (ESometimeAfter (EBool true) (EBool true)) [false; true] = true.
Proof. repeat split; reflexivity. Qed.

(* PLAN LEVEL for `always` constraints.  C: a list of `always phi` constraints, phi in the regression fragment
   ([always_only]); P a ground problem ([gproblem]) with unique action names; [smp_exact]: FNode.simplify does not change
   value or definedness; G: a set of states containing s0, closed under the steps of P, on which the regression lemma
   applies ([reg_ok] for every action, [gdef] for every constraint body); the bodies hold in s0 ([AH]: otherwise the
   compiler refuses the problem).  Then the compiled problem - it has NO trajectory constraints; the compiler only
   added `simplify(regress phi a)` to the preconditions of the actions a that touch phi, left out the actions whose
   preconditions became FALSE, and rebuilt the goal - accepts exactly the plans that are executable in P, reach the
   goal, and visit only states satisfying every body ([always_valid], Compilers/LayerA_Tcr.v).  Same plan on both sides
   (the compiler keeps the names of the ground actions).  Soundness (C06) is the direction left-to-right. *)
Theorem C06_LA_tcr_always_plan :
  forall (smp sub0 : expr -> expr) (mon : nat -> N) (C : list expr) (P : problem) (G : state -> Prop),
    smp_exact smp -> unique_ids P -> gproblem P = true -> always_only P C = true ->
    (forall s aid a args t, G s -> lookup_action P aid = Some a -> spec_step false P s a args = Some t -> G t) ->
    (forall s aid a, G s -> lookup_action P aid = Some a -> reg_ok P s a = true) ->
    (forall s phi, G s -> In (EAlways phi) C -> gdef s phi = true) ->
    forall P', tcr_compile smp sub0 mon C P = Some P' ->
    forall s0 pi, G s0 -> AH P C s0 = true ->
      valid_plan false P' s0 pi = always_valid P C s0 pi.
Proof. intros smp sub0 mon C P G H1 H2 H3 H4 H5 H6 H7 P1 H8 s0 pi H9 H10. exact (tcr_always_plan smp sub0 mon C P G H1 H2 H3 H4 H5 H6 H7 P1 H8 s0 pi H9 H10). Qed.
Print Assumptions C06_LA_tcr_always_plan.

Module TcrAlw.
  Definition bfd (f : N) : fdecl := {| fd_id := f; fd_sig := []; fd_ty := FBool |}.
  Definition fl0 (f : N) : expr := EFluent f [].
  Definition setf (f : N) (b : bool) : action :=
    {| a_params := []; a_pre := [];
       a_effs := [{| e_fl := f; e_args := []; e_val := EBool b; e_cond := EBool true; e_kind := KAssign; e_vars := [];
                     e_isbool := true |}] |}.
  (* fluents f (0) and h (1); action 0 switches f off, action 1 reaches the goal h; constraint always f *)
  Definition P0 : problem :=
    {| p_objs := []; p_ifun := []; p_fluents := [bfd 0; bfd 1]; p_actions := [(0%N, setf 0 false); (1%N, setf 1 true)];
       p_goals := [fl0 1]; p_invs := [] |}.
  Definition C0 : list expr := [EAlways (fl0 0)].
  Definition idf (e : expr) : expr := e.
  Definition mon0 (k : nat) : N := 9%N.
  Definition s0 : state := fun f _ => Some (VBool (f =? 0)%N).
  Definition P0' : problem := match tcr_compile idf idf mon0 C0 P0 with Some x => x | None => P0 end.
  Definition G0 (s : state) : Prop := gdef s (fl0 0) = true.
End TcrAlw.

Example C06_LA_tcr_always_plan_nonvacuous :
  (forall pi, valid_plan false TcrAlw.P0' TcrAlw.s0 pi = always_valid TcrAlw.P0 TcrAlw.C0 TcrAlw.s0 pi) /\
  valid_plan false TcrAlw.P0' TcrAlw.s0 [(1%N, [])] = true /\
  valid_plan false TcrAlw.P0' TcrAlw.s0 [(0%N, []); (1%N, [])] = false /\
  valid_plan false TcrAlw.P0 TcrAlw.s0 [(0%N, []); (1%N, [])] = true.
Proof.
  split; [|repeat split; vm_compute; reflexivity].
  intros pi.
  assert (Hact : forall aid a, lookup_action TcrAlw.P0 aid = Some a -> a = TcrAlw.setf 0 false \/ a = TcrAlw.setf 1 true).
  { intros aid a H. unfold lookup_action in H. cbn [TcrAlw.P0 p_actions lookupN] in H.
    destruct (aid =? 0)%N; [inversion H; auto|]. destruct (aid =? 1)%N; [inversion H; auto | discriminate]. }
  apply (C06_LA_tcr_always_plan TcrAlw.idf TcrAlw.idf TcrAlw.mon0 TcrAlw.C0 TcrAlw.P0 TcrAlw.G0).
  - intros e I. reflexivity.
  - unfold unique_ids. cbn. repeat constructor; cbn; intuition discriminate.
  - reflexivity.
  - reflexivity.
  - intros s aid a args t Gs Hlk Hst.
    assert (Hga : gaction TcrAlw.P0 a = true) by (destruct (Hact aid a Hlk) as [-> | ->]; reflexivity).
    assert (Hrg : reg_ok TcrAlw.P0 s a = true) by (destruct (Hact aid a Hlk) as [-> | ->]; reflexivity).
    destruct (regression_step TcrAlw.P0 s a args t (TcrAlw.fl0 0) Hga Hrg Hst eq_refl eq_refl Gs) as (_ & _ & D).
    unfold TcrAlw.G0. unfold isB in D. cbn in D. cbn. exact D.
  - intros s aid a _ Hlk. destruct (Hact aid a Hlk) as [-> | ->]; reflexivity.
  - intros s phi Gs [H|[]]. inversion H; subst. exact Gs.
  - reflexivity.
  - reflexivity.
  - reflexivity.
Qed.

(* PLAN LEVEL for one `sometime phi` constraint.  fk = mon 0 is the monitoring fluent "hold-0".  Hypotheses as in
   C06_LA_tcr_always_plan, plus [tcr_fresh1]: fk is fresh (no action / invariant / bounded-type constraint / goal of P, nor
   phi or a simplified regression of phi, mentions it - decidable; the compiler takes the name without checking).  The
   compiled initial state s0' agrees with s0 off fk and has fk = "phi holds in s0" (this is what [tcr_init] builds, see
   C06_LA_tcr_sometime_init).  Then the compiled problem - no trajectory constraint; one more Boolean fluent; the actions
   that touch phi got the conditional effect `if simplify(regress phi a) then fk := true`; the goal got the conjunct fk -
   accepts exactly the plans that are valid for P and along which phi holds in some visited state ([sometime_seen]).
   Invariant of the proof: compiled and original state agree off fk, and fk = "phi held in some state so far". *)
Theorem C06_LA_tcr_sometime_plan :
  forall (smp sub0 : expr -> expr) (mon : nat -> N) (phi : expr) (P : problem) (G : state -> Prop),
    smp_exact smp -> unique_ids P -> gproblem P = true -> gform phi = true -> gbool P phi = true ->
    tcr_fresh1 smp (mon 0) P phi = true ->
    (forall s aid a args t, G s -> lookup_action P aid = Some a -> spec_step false P s a args = Some t -> G t) ->
    (forall s aid a, G s -> lookup_action P aid = Some a -> reg_ok P s a = true) ->
    (forall s, G s -> gdef s phi = true) ->
    forall P', tcr_compile smp sub0 mon [ESometime phi] P = Some P' ->
    forall s0 s0' pi, G s0 -> agree_off (mon 0) s0 s0' ->
      s0' (mon 0) [] = Some (VBool (holds false (mk_interp P s0 []) phi)) ->
      valid_plan false P' s0' pi = valid_plan false P s0 pi && sometime_seen P phi s0 pi.
Proof.
  intros smp sub0 mon phi P G H1 H2 H3 H4 H5 H6 H7 H8 H9 P1 H10 s0 s0' pi H11 H12 H13.
  exact (tcr_sometime_plan smp sub0 mon phi P G H1 H2 H3 H4 H5 H6 H7 H8 H9 P1 H10 s0 s0' pi H11 H12 H13).
Qed.
Print Assumptions C06_LA_tcr_sometime_plan.

(* the initial state the compiler builds satisfies the two conditions on s0', provided the initial evaluation is exact:
   `phi.substitute(initial_values).simplify()` is TRUE exactly when phi holds in s0 *)
Theorem C06_LA_tcr_sometime_init :
  forall (smp sub0 : expr -> expr) (mon : nat -> N) (phi : expr) (P : problem) (s0 : state),
    is_true (smp (sub0 phi)) = holds false (mk_interp P s0 []) phi ->
    agree_off (mon 0) s0 (tcr_init smp sub0 mon [ESometime phi] s0) /\
    tcr_init smp sub0 mon [ESometime phi] s0 (mon 0) [] = Some (VBool (holds false (mk_interp P s0 []) phi)).
Proof. exact tcr_init_sometime. Qed.
Print Assumptions C06_LA_tcr_sometime_init.

Module TcrSome.
  Definition bfd (f : N) : fdecl := {| fd_id := f; fd_sig := []; fd_ty := FBool |}.
  Definition fl0 (f : N) : expr := EFluent f [].
  Definition setf (f : N) (b : bool) : action :=
    {| a_params := []; a_pre := [];
       a_effs := [{| e_fl := f; e_args := []; e_val := EBool b; e_cond := EBool true; e_kind := KAssign; e_vars := [];
                     e_isbool := true |}] |}.
  (* fluents f (0) and h (1); action 0 switches f on, action 1 reaches the goal h; constraint sometime f; f false initially *)
  Definition P0 : problem :=
    {| p_objs := []; p_ifun := []; p_fluents := [bfd 0; bfd 1]; p_actions := [(0%N, setf 0 true); (1%N, setf 1 true)];
       p_goals := [fl0 1]; p_invs := [] |}.
  Definition idf (e : expr) : expr := e.
  Definition mon0 (k : nat) : N := 9%N.
  Definition s0 : state := fun f _ => Some (VBool false).
  Definition s0' : state := tcr_init idf idf mon0 [ESometime (fl0 0)] s0.
  Definition P0' : problem := match tcr_compile idf idf mon0 [ESometime (fl0 0)] P0 with Some x => x | None => P0 end.
  Definition G0 (s : state) : Prop := gdef s (fl0 0) = true.
End TcrSome.

Example C06_LA_tcr_sometime_plan_nonvacuous :
  (forall pi, valid_plan false TcrSome.P0' TcrSome.s0' pi =
              valid_plan false TcrSome.P0 TcrSome.s0 pi && sometime_seen TcrSome.P0 (TcrSome.fl0 0) TcrSome.s0 pi) /\
  valid_plan false TcrSome.P0 TcrSome.s0 [(1%N, [])] = true /\
  valid_plan false TcrSome.P0' TcrSome.s0' [(1%N, [])] = false /\
  valid_plan false TcrSome.P0' TcrSome.s0' [(0%N, []); (1%N, [])] = true.
Proof.
  split; [|repeat split; vm_compute; reflexivity].
  intros pi.
  assert (Hact : forall aid a, lookup_action TcrSome.P0 aid = Some a -> a = TcrSome.setf 0 true \/ a = TcrSome.setf 1 true).
  { intros aid a H. unfold lookup_action in H. cbn [TcrSome.P0 p_actions lookupN] in H.
    destruct (aid =? 0)%N; [inversion H; auto|]. destruct (aid =? 1)%N; [inversion H; auto | discriminate]. }
  destruct (C06_LA_tcr_sometime_init TcrSome.idf TcrSome.idf TcrSome.mon0 (TcrSome.fl0 0) TcrSome.P0 TcrSome.s0 eq_refl) as [I1 I2].
  apply (C06_LA_tcr_sometime_plan TcrSome.idf TcrSome.idf TcrSome.mon0 (TcrSome.fl0 0) TcrSome.P0 TcrSome.G0).
  - intros e I. reflexivity.
  - unfold unique_ids. cbn. repeat constructor; cbn; intuition discriminate.
  - reflexivity.
  - reflexivity.
  - reflexivity.
  - vm_compute. reflexivity.
  - intros s aid a args t Gs Hlk Hst.
    assert (Hga : gaction TcrSome.P0 a = true) by (destruct (Hact aid a Hlk) as [-> | ->]; reflexivity).
    assert (Hrg : reg_ok TcrSome.P0 s a = true) by (destruct (Hact aid a Hlk) as [-> | ->]; reflexivity).
    destruct (regression_step TcrSome.P0 s a args t (TcrSome.fl0 0) Hga Hrg Hst eq_refl eq_refl Gs) as (_ & _ & D).
    unfold TcrSome.G0. unfold isB in D. cbn in D. cbn. exact D.
  - intros s aid a _ Hlk. destruct (Hact aid a Hlk) as [-> | ->]; reflexivity.
  - intros s Gs. exact Gs.
  - reflexivity.
  - reflexivity.
  - exact I1.
  - exact I2.
Qed.

(* PLAN LEVEL for one `at-most-once phi` constraint (hypotheses as in C06_LA_tcr_sometime_plan; fk = mon 0 is the
   monitoring fluent "seen-phi-0").  The compiled problem - no trajectory constraint; the actions that touch phi got the
   precondition `simplify(Or(Not R, Not fk, phi))` and the effect `if R then fk := true` with R = simplify(regress phi a);
   actions whose preconditions became FALSE are left out; the goal is unchanged - accepts exactly the valid plans of P
   every step s -> t of which passes the at-most-once check "phi false in t, or phi never held up to s, or phi holds in
   s" ([amo_chk], Compilers/LayerA_Tcr.v; by C06_LA_tcr_monitor_decides this check is SimCheck's mon_amo on the visited
   states).  Invariant: the states agree off fk, and fk = "phi held in some state so far". *)
Theorem C06_LA_tcr_amo_plan :
  forall (smp sub0 : expr -> expr) (mon : nat -> N) (phi : expr) (P : problem) (G : state -> Prop),
    smp_exact smp -> unique_ids P -> gproblem P = true -> gform phi = true -> gbool P phi = true ->
    tcr_fresh1 smp (mon 0) P phi = true ->
    (forall s aid a args t, G s -> lookup_action P aid = Some a -> spec_step false P s a args = Some t -> G t) ->
    (forall s aid a, G s -> lookup_action P aid = Some a -> reg_ok P s a = true) ->
    (forall s, G s -> gdef s phi = true) ->
    forall P', tcr_compile smp sub0 mon [EAtMostOnce phi] P = Some P' ->
    forall s0 s0' pi, G s0 -> agree_off (mon 0) s0 s0' ->
      s0' (mon 0) [] = Some (VBool (holds false (mk_interp P s0 []) phi)) ->
      valid_plan false P' s0' pi =
      valid_plan false P s0 pi && amo_chk P phi (holds false (mk_interp P s0 []) phi) s0 pi.
Proof.
  intros smp sub0 mon phi P G H1 H2 H3 H4 H5 H6 H7 H8 H9 P1 H10 s0 s0' pi H11 H12 H13.
  exact (tcr_amo_plan smp sub0 mon phi P G H1 H2 H3 H4 H5 H6 H7 H8 H9 P1 H10 s0 s0' pi H11 H12 H13).
Qed.
Print Assumptions C06_LA_tcr_amo_plan.

(* the initial state the compiler builds satisfies the two conditions on s0' when the initial evaluation is exact *)
Theorem C06_LA_tcr_amo_init :
  forall (smp sub0 : expr -> expr) (mon : nat -> N) (phi : expr) (P : problem) (s0 : state),
    is_true (smp (sub0 phi)) = holds false (mk_interp P s0 []) phi ->
    agree_off (mon 0) s0 (tcr_init smp sub0 mon [EAtMostOnce phi] s0) /\
    tcr_init smp sub0 mon [EAtMostOnce phi] s0 (mon 0) [] = Some (VBool (holds false (mk_interp P s0 []) phi)).
Proof. exact tcr_init_amo. Qed.
Print Assumptions C06_LA_tcr_amo_init.

Module TcrAmo.
  Definition bfd (f : N) : fdecl := {| fd_id := f; fd_sig := []; fd_ty := FBool |}.
  Definition fl0 (f : N) : expr := EFluent f [].
  Definition setf (f : N) (b : bool) : action :=
    {| a_params := []; a_pre := [];
       a_effs := [{| e_fl := f; e_args := []; e_val := EBool b; e_cond := EBool true; e_kind := KAssign; e_vars := [];
                     e_isbool := true |}] |}.
  (* fluents f (0) and h (1); actions 0: f off, 1: f on, 2: goal h; constraint at-most-once f; f true initially *)
  Definition P0 : problem :=
    {| p_objs := []; p_ifun := []; p_fluents := [bfd 0; bfd 1];
       p_actions := [(0%N, setf 0 false); (1%N, setf 0 true); (2%N, setf 1 true)]; p_goals := [fl0 1]; p_invs := [] |}.
  Definition idf (e : expr) : expr := e.
  Definition mon0 (k : nat) : N := 9%N.
  Definition s0 : state := fun f _ => Some (VBool (f =? 0)%N).
  (* sub0: the constraint formula f is TRUE initially *)
  Definition sub (e : expr) : expr := match e with EFluent 0%N [] => EBool true | _ => e end.
  Definition s0' : state := tcr_init idf sub mon0 [EAtMostOnce (fl0 0)] s0.
  Definition P0' : problem := match tcr_compile idf sub mon0 [EAtMostOnce (fl0 0)] P0 with Some x => x | None => P0 end.
  Definition G0 (s : state) : Prop := gdef s (fl0 0) = true.
End TcrAmo.

Example C06_LA_tcr_amo_plan_nonvacuous :
  (forall pi, valid_plan false TcrAmo.P0' TcrAmo.s0' pi =
              valid_plan false TcrAmo.P0 TcrAmo.s0 pi && amo_chk TcrAmo.P0 (TcrAmo.fl0 0) true TcrAmo.s0 pi) /\
  valid_plan false TcrAmo.P0 TcrAmo.s0 [(0%N, []); (1%N, []); (2%N, [])] = true /\
  valid_plan false TcrAmo.P0' TcrAmo.s0' [(0%N, []); (1%N, []); (2%N, [])] = false /\
  valid_plan false TcrAmo.P0' TcrAmo.s0' [(0%N, []); (2%N, [])] = true.
Proof.
  split; [|repeat split; vm_compute; reflexivity].
  intros pi.
  assert (Hact : forall aid a, lookup_action TcrAmo.P0 aid = Some a ->
            a = TcrAmo.setf 0 false \/ a = TcrAmo.setf 0 true \/ a = TcrAmo.setf 1 true).
  { intros aid a H. unfold lookup_action in H. cbn [TcrAmo.P0 p_actions lookupN] in H.
    destruct (aid =? 0)%N; [inversion H; auto|]. destruct (aid =? 1)%N; [inversion H; auto|].
    destruct (aid =? 2)%N; [inversion H; auto | discriminate]. }
  destruct (C06_LA_tcr_amo_init TcrAmo.idf TcrAmo.sub TcrAmo.mon0 (TcrAmo.fl0 0) TcrAmo.P0 TcrAmo.s0 eq_refl) as [I1 I2].
  change true with (holds false (mk_interp TcrAmo.P0 TcrAmo.s0 []) (TcrAmo.fl0 0)) at 1.
  apply (C06_LA_tcr_amo_plan TcrAmo.idf TcrAmo.sub TcrAmo.mon0 (TcrAmo.fl0 0) TcrAmo.P0 TcrAmo.G0).
  - intros e I. reflexivity.
  - unfold unique_ids. cbn. repeat constructor; cbn; intuition discriminate.
  - reflexivity.
  - reflexivity.
  - reflexivity.
  - vm_compute. reflexivity.
  - intros s aid a args t Gs Hlk Hst.
    assert (Hga : gaction TcrAmo.P0 a = true) by (destruct (Hact aid a Hlk) as [-> | [-> | ->]]; reflexivity).
    assert (Hrg : reg_ok TcrAmo.P0 s a = true) by (destruct (Hact aid a Hlk) as [-> | [-> | ->]]; reflexivity).
    destruct (regression_step TcrAmo.P0 s a args t (TcrAmo.fl0 0) Hga Hrg Hst eq_refl eq_refl Gs) as (_ & _ & D).
    unfold TcrAmo.G0. unfold isB in D. cbn in D. cbn. exact D.
  - intros s aid a _ Hlk. destruct (Hact aid a Hlk) as [-> | [-> | ->]]; reflexivity.
  - intros s Gs. exact Gs.
  - reflexivity.
  - reflexivity.
  - exact I1.
  - exact I2.
Qed.

(* PLAN LEVEL for one `sometime-before phi psi` constraint (hypotheses as in C06_LA_tcr_sometime_plan, for phi and psi;
   fk = mon 0 is the monitoring fluent "seen-psi-0"; phi is false in s0 - otherwise the compiler refuses the problem).
   The compiled problem - the actions that touch the constraint got the precondition `simplify(Or(Not R_phi, fk))` and the
   effect `if R_psi then fk := true` - accepts exactly the valid plans of P every step s -> t of which passes the check
   "phi false in t, or psi held in some state up to s" ([sb_chk]; = SimCheck's mon_sb on the visited states).
   Invariants: the states agree off fk, fk = "psi held so far", and phi or psi in the current state imply fk. *)
Theorem C06_LA_tcr_sb_plan :
  forall (smp sub0 : expr -> expr) (mon : nat -> N) (phi psi : expr) (P : problem) (G : state -> Prop),
    smp_exact smp -> unique_ids P -> gproblem P = true ->
    gform phi = true -> gbool P phi = true -> gform psi = true -> gbool P psi = true ->
    tcr_fresh1 smp (mon 0) P phi = true -> tcr_fresh1 smp (mon 0) P psi = true ->
    (forall s aid a args t, G s -> lookup_action P aid = Some a -> spec_step false P s a args = Some t -> G t) ->
    (forall s aid a, G s -> lookup_action P aid = Some a -> reg_ok P s a = true) ->
    (forall s, G s -> gdef s phi = true) -> (forall s, G s -> gdef s psi = true) ->
    forall P', tcr_compile smp sub0 mon [ESometimeBefore phi psi] P = Some P' ->
    forall s0 s0' pi, G s0 -> agree_off (mon 0) s0 s0' ->
      s0' (mon 0) [] = Some (VBool (holds false (mk_interp P s0 []) psi)) ->
      holds false (mk_interp P s0 []) phi = false ->
      valid_plan false P' s0' pi =
      valid_plan false P s0 pi && sb_chk P phi psi (holds false (mk_interp P s0 []) psi) s0 pi.
Proof.
  intros smp sub0 mon phi psi P G H1 H2 H3 H4 H5 H6 H7 H8 H9 H10 H11 H12 H13 P1 H14 s0 s0' pi H15 H16 H17 H18.
  exact (tcr_sb_plan smp sub0 mon phi psi P G H1 H2 H3 H4 H5 H6 H7 H8 H9 H10 H11 H12 H13 P1 H14 s0 s0' pi H15 H16 H17 H18).
Qed.
Print Assumptions C06_LA_tcr_sb_plan.

Module TcrSb.
  Definition bfd (f : N) : fdecl := {| fd_id := f; fd_sig := []; fd_ty := FBool |}.
  Definition fl0 (f : N) : expr := EFluent f [].
  Definition setf (f : N) (b : bool) : action :=
    {| a_params := []; a_pre := [];
       a_effs := [{| e_fl := f; e_args := []; e_val := EBool b; e_cond := EBool true; e_kind := KAssign; e_vars := [];
                     e_isbool := true |}] |}.
  (* fluents f (0), g (1); actions 0: f on, 1: g on; goal f; constraint sometime-before f g; everything false initially *)
  Definition P0 : problem :=
    {| p_objs := []; p_ifun := []; p_fluents := [bfd 0; bfd 1];
       p_actions := [(0%N, setf 0 true); (1%N, setf 1 true)]; p_goals := [fl0 0]; p_invs := [] |}.
  Definition idf (e : expr) : expr := e.
  Definition mon0 (k : nat) : N := 9%N.
  Definition s0 : state := fun f _ => Some (VBool false).
  Definition s0' : state := fun f a => if (f =? 9)%N then Some (VBool false) else s0 f a.
  Definition P0' : problem := match tcr_compile idf idf mon0 [ESometimeBefore (fl0 0) (fl0 1)] P0 with Some x => x | None => P0 end.
  Definition G0 (s : state) : Prop := gdef s (fl0 0) = true /\ gdef s (fl0 1) = true.
End TcrSb.

Example C06_LA_tcr_sb_plan_nonvacuous :
  (forall pi, valid_plan false TcrSb.P0' TcrSb.s0' pi =
              valid_plan false TcrSb.P0 TcrSb.s0 pi && sb_chk TcrSb.P0 (TcrSb.fl0 0) (TcrSb.fl0 1) false TcrSb.s0 pi) /\
  valid_plan false TcrSb.P0 TcrSb.s0 [(0%N, [])] = true /\
  valid_plan false TcrSb.P0' TcrSb.s0' [(0%N, [])] = false /\
  valid_plan false TcrSb.P0' TcrSb.s0' [(1%N, []); (0%N, [])] = true.
Proof.
  split; [|repeat split; vm_compute; reflexivity].
  intros pi.
  assert (Hact : forall aid a, lookup_action TcrSb.P0 aid = Some a -> a = TcrSb.setf 0 true \/ a = TcrSb.setf 1 true).
  { intros aid a H. unfold lookup_action in H. cbn [TcrSb.P0 p_actions lookupN] in H.
    destruct (aid =? 0)%N; [inversion H; auto|]. destruct (aid =? 1)%N; [inversion H; auto | discriminate]. }
  change false with (holds false (mk_interp TcrSb.P0 TcrSb.s0 []) (TcrSb.fl0 1)) at 1.
  apply (C06_LA_tcr_sb_plan TcrSb.idf TcrSb.idf TcrSb.mon0 (TcrSb.fl0 0) (TcrSb.fl0 1) TcrSb.P0 TcrSb.G0).
  - intros e I. reflexivity.
  - unfold unique_ids. cbn. repeat constructor; cbn; intuition discriminate.
  - reflexivity.
  - reflexivity.
  - reflexivity.
  - reflexivity.
  - reflexivity.
  - vm_compute. reflexivity.
  - vm_compute. reflexivity.
  - intros s aid a args t [Gs1 Gs2] Hlk Hst.
    assert (Hga : gaction TcrSb.P0 a = true) by (destruct (Hact aid a Hlk) as [-> | ->]; reflexivity).
    assert (Hrg : reg_ok TcrSb.P0 s a = true) by (destruct (Hact aid a Hlk) as [-> | ->]; reflexivity).
    destruct (regression_step TcrSb.P0 s a args t (TcrSb.fl0 0) Hga Hrg Hst eq_refl eq_refl Gs1) as (_ & _ & D1).
    destruct (regression_step TcrSb.P0 s a args t (TcrSb.fl0 1) Hga Hrg Hst eq_refl eq_refl Gs2) as (_ & _ & D2).
    unfold TcrSb.G0. unfold isB in D1, D2. cbn in D1, D2. cbn. split; assumption.
  - intros s aid a _ Hlk. destruct (Hact aid a Hlk) as [-> | ->]; reflexivity.
  - intros s [Gs _]. exact Gs.
  - intros s [_ Gs]. exact Gs.
  - reflexivity.
  - split; reflexivity.
  - intros f x Hf. unfold TcrSb.s0'. replace (f =? 9)%N with false; [reflexivity|]. symmetry. apply N.eqb_neq. exact Hf.
  - reflexivity.
  - reflexivity.
Qed.

(* PLAN LEVEL for one `sometime-after phi psi` constraint (hypotheses as in C06_LA_tcr_sb_plan; fk = mon 0 is the
   monitoring fluent "hold-0", initially "psi or not phi in s0").  The compiled problem - the actions that touch the
   constraint got the effects `if simplify(And(R_phi, Not R_psi)) then fk := false` and `if R_psi then fk := true`; the goal
   got the conjunct fk - accepts exactly the valid plans of P at whose end no obligation is pending ([sa_bit]: the bit is
   set when psi holds, reset when phi holds without psi, kept otherwise; = SimCheck's mon_sa on the visited states). *)
Theorem C06_LA_tcr_sa_plan :
  forall (smp sub0 : expr -> expr) (mon : nat -> N) (phi psi : expr) (P : problem) (G : state -> Prop),
    smp_exact smp -> unique_ids P -> gproblem P = true ->
    gform phi = true -> gbool P phi = true -> gform psi = true -> gbool P psi = true ->
    tcr_fresh1 smp (mon 0) P phi = true -> tcr_fresh1 smp (mon 0) P psi = true ->
    (forall s aid a args t, G s -> lookup_action P aid = Some a -> spec_step false P s a args = Some t -> G t) ->
    (forall s aid a, G s -> lookup_action P aid = Some a -> reg_ok P s a = true) ->
    (forall s, G s -> gdef s phi = true) -> (forall s, G s -> gdef s psi = true) ->
    forall P', tcr_compile smp sub0 mon [ESometimeAfter phi psi] P = Some P' ->
    forall s0 s0' pi, G s0 -> agree_off (mon 0) s0 s0' ->
      s0' (mon 0) [] = Some (VBool (holds false (mk_interp P s0 []) psi || negb (holds false (mk_interp P s0 []) phi))) ->
      valid_plan false P' s0' pi =
      valid_plan false P s0 pi &&
      sa_bit P phi psi (holds false (mk_interp P s0 []) psi || negb (holds false (mk_interp P s0 []) phi)) s0 pi.
Proof.
  intros smp sub0 mon phi psi P G H1 H2 H3 H4 H5 H6 H7 H8 H9 H10 H11 H12 H13 P1 H14 s0 s0' pi H15 H16 H17.
  exact (tcr_sa_plan smp sub0 mon phi psi P G H1 H2 H3 H4 H5 H6 H7 H8 H9 H10 H11 H12 H13 P1 H14 s0 s0' pi H15 H16 H17).
Qed.
Print Assumptions C06_LA_tcr_sa_plan.

Module TcrSa.
  Definition bfd (f : N) : fdecl := {| fd_id := f; fd_sig := []; fd_ty := FBool |}.
  Definition fl0 (f : N) : expr := EFluent f [].
  Definition setf (f : N) (b : bool) : action :=
    {| a_params := []; a_pre := [];
       a_effs := [{| e_fl := f; e_args := []; e_val := EBool b; e_cond := EBool true; e_kind := KAssign; e_vars := [];
                     e_isbool := true |}] |}.
  (* fluents f (0), g (1), h (2); actions 0: f on, 1: g on, 2: goal h; constraint sometime-after f g; all false initially *)
  Definition P0 : problem :=
    {| p_objs := []; p_ifun := []; p_fluents := [bfd 0; bfd 1; bfd 2];
       p_actions := [(0%N, setf 0 true); (1%N, setf 1 true); (2%N, setf 2 true)]; p_goals := [fl0 2]; p_invs := [] |}.
  Definition idf (e : expr) : expr := e.
  Definition mon0 (k : nat) : N := 9%N.
  Definition s0 : state := fun f _ => Some (VBool false).
  Definition s0' : state := fun f a => if (f =? 9)%N then Some (VBool true) else s0 f a.
  Definition P0' : problem := match tcr_compile idf idf mon0 [ESometimeAfter (fl0 0) (fl0 1)] P0 with Some x => x | None => P0 end.
  Definition G0 (s : state) : Prop := gdef s (fl0 0) = true /\ gdef s (fl0 1) = true.
End TcrSa.

Example C06_LA_tcr_sa_plan_nonvacuous :
  (forall pi, valid_plan false TcrSa.P0' TcrSa.s0' pi =
              valid_plan false TcrSa.P0 TcrSa.s0 pi && sa_bit TcrSa.P0 (TcrSa.fl0 0) (TcrSa.fl0 1) true TcrSa.s0 pi) /\
  valid_plan false TcrSa.P0 TcrSa.s0 [(0%N, []); (2%N, [])] = true /\
  valid_plan false TcrSa.P0' TcrSa.s0' [(0%N, []); (2%N, [])] = false /\
  valid_plan false TcrSa.P0' TcrSa.s0' [(0%N, []); (1%N, []); (2%N, [])] = true.
Proof.
  split; [|repeat split; vm_compute; reflexivity].
  intros pi.
  assert (Hact : forall aid a, lookup_action TcrSa.P0 aid = Some a ->
            a = TcrSa.setf 0 true \/ a = TcrSa.setf 1 true \/ a = TcrSa.setf 2 true).
  { intros aid a H. unfold lookup_action in H. cbn [TcrSa.P0 p_actions lookupN] in H.
    destruct (aid =? 0)%N; [inversion H; auto|]. destruct (aid =? 1)%N; [inversion H; auto|].
    destruct (aid =? 2)%N; [inversion H; auto | discriminate]. }
  change true with (holds false (mk_interp TcrSa.P0 TcrSa.s0 []) (TcrSa.fl0 1) ||
                    negb (holds false (mk_interp TcrSa.P0 TcrSa.s0 []) (TcrSa.fl0 0))) at 1.
  apply (C06_LA_tcr_sa_plan TcrSa.idf TcrSa.idf TcrSa.mon0 (TcrSa.fl0 0) (TcrSa.fl0 1) TcrSa.P0 TcrSa.G0).
  - intros e I. reflexivity.
  - unfold unique_ids. cbn. repeat constructor; cbn; intuition discriminate.
  - reflexivity.
  - reflexivity.
  - reflexivity.
  - reflexivity.
  - reflexivity.
  - vm_compute. reflexivity.
  - vm_compute. reflexivity.
  - intros s aid a args t [Gs1 Gs2] Hlk Hst.
    assert (Hga : gaction TcrSa.P0 a = true) by (destruct (Hact aid a Hlk) as [-> | [-> | ->]]; reflexivity).
    assert (Hrg : reg_ok TcrSa.P0 s a = true) by (destruct (Hact aid a Hlk) as [-> | [-> | ->]]; reflexivity).
    destruct (regression_step TcrSa.P0 s a args t (TcrSa.fl0 0) Hga Hrg Hst eq_refl eq_refl Gs1) as (_ & _ & D1).
    destruct (regression_step TcrSa.P0 s a args t (TcrSa.fl0 1) Hga Hrg Hst eq_refl eq_refl Gs2) as (_ & _ & D2).
    unfold TcrSa.G0. unfold isB in D1, D2. cbn in D1, D2. cbn. split; assumption.
  - intros s aid a _ Hlk. destruct (Hact aid a Hlk) as [-> | [-> | ->]]; reflexivity.
  - intros s [Gs _]. exact Gs.
  - intros s [_ Gs]. exact Gs.
  - reflexivity.
  - split; reflexivity.
  - intros f x Hf. unfold TcrSa.s0'. replace (f =? 9)%N with false; [reflexivity|]. symmetry. apply N.eqb_neq. exact Hf.
  - reflexivity.
Qed.

(* ---------------------------------------------------------------- the open part *)
(* the plan-level statement for the whole compiler (not proved): for a ground problem in the fragment, exact
   simplification, exact evaluation of the initial state, fresh and pairwise different monitoring fluents, and a set G of
   states closed under steps on which reg_ok / gdef hold, the compiled problem (no trajectory constraints) accepts the
   plans the original accepts together with its constraints; a refused problem has no valid plan. *)
Definition C06_LA_tcr_plan_goal : Prop :=
  forall (smp sub0 : expr -> expr) (mon : nat -> N) (C : list expr) (P : problem) (s0 : state) (insts : list inst)
         (G : state -> Prop),
    smp_exact smp ->
    (forall e b, (forall I, eval false e I = Some (VBool b)) -> smp e = EBool b) ->
    (forall e I, gform e = true -> eval false (sub0 e) I = eval false e (mk_interp P s0 [])) ->
    gproblem P = true -> unique_ids P -> NoDup C ->
    (forall c phi, In c C -> In phi (match c with
                                    | EAlways x | ESometime x | EAtMostOnce x => [x]
                                    | ESometimeBefore x y | ESometimeAfter x y => [x; y]
                                    | _ => [EInt 0] end) -> gform phi = true /\ gbool P phi = true /\
                                                             forall s, G s -> gdef s phi = true) ->
    (forall i j, mon i = mon j -> i = j) ->
    (forall k fd, In fd (p_fluents P) -> fd_id fd <> mon k) ->
    G s0 -> (forall s ia t, G s -> In ia (p_actions P) -> forall args, spec_step false P s (snd ia) args = Some t -> G t) ->
    (forall s ia, G s -> In ia (p_actions P) -> reg_ok P s (snd ia) = true) ->
    forall pi,
      match tcr_compile smp sub0 mon C P with
      | Some P' =>
          valid {| ts_prob := P'; ts_init := tcr_init smp sub0 mon C s0; ts_insts := insts; ts_traj := [] |} pi =
          valid {| ts_prob := P; ts_init := s0; ts_insts := insts; ts_traj := C |} pi
      | None => valid {| ts_prob := P; ts_init := s0; ts_insts := insts; ts_traj := C |} pi = false
      end.
