(* C06 — Plans of compiled problems map back to valid plans (compiler soundness).
   Level: translation validation.  The quantifier over plans and states is PROVED here (for any two transition
   systems and any map-back table, a [true] answer of the validator covers every compiled plan up to the bound);
   the quantifier over problems is sampled by harness/props/c06.py, which runs the validator on the output of the real
   compilers.  Only statements; proofs are in Proofs/SimCheck_proofs.v. *)
From Coq Require Import List ZArith NArith QArith Qcanon Bool.
Import ListNotations.
Require Import UPV.Core.Expr UPV.Core.Eval UPV.Core.Interp UPV.Planning.Problem UPV.Planning.Sem.
Require Import UPV.Compilers.SimCheck UPV.Proofs.SimCheck_proofs.
Local Open Scope nat_scope.

(* the validator is sound for every plan of the compiled system up to the explored depth: whatever compiled plan
   over the compiled ground instances is valid (documented sequential semantics, state invariants and bounded types,
   PDDL3 trajectory constraints), its image under the compilation result's map-back is valid for the original *)
Theorem C06_sound_check_correct :
  forall (T T' : tsys) (back : inst -> option inst) (n : nat),
    sound_check T T' back n = true ->
    forall pi', plan_over T' pi' -> length pi' <= n -> valid T' pi' = true -> valid T (map_back back pi') = true.
Proof. exact sound_check_correct. Qed.
Print Assumptions C06_sound_check_correct.

(* ... and exact: a [false] answer comes with a compiled plan that is valid while its image is not *)
Theorem C06_sound_search_witness :
  forall (T T' : tsys) (back : inst -> option inst) (n : nat) (w : plan),
    sound_search T T' back n = Some w ->
    plan_over T' w /\ length w <= n /\ valid T' w = true /\ valid T (map_back back w) = false.
Proof. exact sound_search_witness. Qed.
Print Assumptions C06_sound_search_witness.

(* [valid] is the declarative notion: the initial state satisfies invariants and bounded types, the plan is executable
   step by step under [spec_step false], the goals hold in the last state and every trajectory constraint holds by
   its PDDL3 semantics over the state sequence *)
Theorem C06_valid_iff_declarative :
  forall (T : tsys) (pi : plan), valid T pi = true <-> valid_decl T pi.
Proof. exact valid_iff_decl. Qed.
Print Assumptions C06_valid_iff_declarative.

(* without trajectory constraints it is C01/C03's valid_plan *)
Theorem C06_valid_is_valid_plan :
  forall (T : tsys) (pi : plan), ts_traj T = [] ->
    valid T pi = init_ok T && valid_plan false (ts_prob T) (ts_init T) pi.
Proof. exact valid_no_traj. Qed.
Print Assumptions C06_valid_is_valid_plan.

(* the monitor used by the validator decides the PDDL3 semantics of always / sometime / at-most-once /
   sometime-before / sometime-after over a finite state sequence *)
Theorem C06_traj_monitor_decides_pddl3 :
  forall (T : tsys) (sts : list state) (c : expr), traj_holds T sts c = true <-> traj_sem T sts c.
Proof. exact traj_holds_spec. Qed.
Print Assumptions C06_traj_monitor_decides_pddl3.

(* ---------------------------------------------------------------- non-vacuity *)
Module Ex.
  (* one Boolean fluent 0, initially false; action 0 sets it; goal: fluent 0; constraint: sometime-before f0 (not f0) *)
  Definition set0 : action :=
    {| a_params := []; a_pre := [];
       a_effs := [{| e_fl := 0%N; e_args := []; e_val := EBool true; e_cond := EBool true; e_kind := KAssign;
                     e_vars := []; e_isbool := true |}] |}.
  Definition P0 : problem :=
    {| p_objs := []; p_ifun := []; p_fluents := [{| fd_id := 0%N; fd_sig := []; fd_ty := FBool |}];
       p_actions := [(0%N, set0)]; p_goals := [EFluent 0%N []]; p_invs := [] |}.
  Definition s0 : state := fun f a => if (f =? 0)%N then Some (VBool false) else None.
  Definition T0 : tsys :=
    {| ts_prob := P0; ts_init := s0; ts_insts := [(0%N, [])];
       ts_traj := [ESometimeBefore (EFluent 0%N []) (ENot (EFluent 0%N []))] |}.
  (* a "compiled" copy whose action is called 7 and which has an extra auxiliary action 8 without image *)
  Definition P1 : problem :=
    {| p_objs := []; p_ifun := []; p_fluents := [{| fd_id := 0%N; fd_sig := []; fd_ty := FBool |}];
       p_actions := [(7%N, set0); (8%N, set0)]; p_goals := [EFluent 0%N []]; p_invs := [] |}.
  Definition T1 : tsys := {| ts_prob := P1; ts_init := s0; ts_insts := [(7%N, []); (8%N, [])]; ts_traj := [] |}.
  Definition back (a : inst) : option inst := if (fst a =? 7)%N then Some (0%N, []) else None.
  (* a wrong table: the auxiliary action alone reaches the compiled goal, its image (the empty plan) is not valid *)
End Ex.

Example C06_sound_check_correct_nonvacuous :
  sound_check Ex.T0 Ex.T1 (fun a => Some (0%N, [])) 2 = true /\
  plan_over Ex.T1 [(7%N, [])] /\ valid Ex.T1 [(7%N, [])] = true /\ valid Ex.T0 [(0%N, [])] = true.
Proof. split; [vm_compute; reflexivity|]. split; [repeat constructor|]. split; vm_compute; reflexivity. Qed.

Example C06_sound_search_witness_nonvacuous :
  sound_search Ex.T0 Ex.T1 Ex.back 2 = Some [(8%N, [])].
Proof. vm_compute. reflexivity. Qed.

Example C06_traj_nonvacuous :
  traj_holds Ex.T0 [Ex.s0] (ESometimeBefore (EFluent 0%N []) (ENot (EFluent 0%N []))) = true /\
  traj_holds Ex.T0 [Ex.s0] (ESometime (EFluent 0%N [])) = false.
Proof. split; vm_compute; reflexivity. Qed.
