(* C06 — Plans of compiled problems map back to valid plans (compiler soundness).
   Level: translation validation.  The quantifier over plans and states is PROVED here (for any two transition
   systems and any map-back table, a [true] answer of the validator covers every compiled plan up to the bound);
   the quantifier over problems is sampled by harness/props/c06.py, which runs the validator on the output of the real
   compilers.  Only statements; proofs are in Proofs/SimCheck_proofs.v. *)
From Coq Require Import List ZArith NArith QArith Qcanon Bool.
Import ListNotations.
Require Import UPV.Core.Expr UPV.Core.Eval UPV.Core.Interp UPV.Planning.Problem UPV.Planning.Sem.
Require Import UPV.Compilers.SimCheck UPV.Proofs.SimCheck_proofs.
Local Open Scope nat_scope.

(* the validator is sound for every plan of the compiled system up to the explored depth: whatever compiled plan
   over the compiled ground instances is valid (documented sequential semantics, state invariants and bounded types,
   PDDL3 trajectory constraints), its image under the compilation result's map-back is valid for the original *)
Theorem C06_sound_check_correct :
  forall (T T' : tsys) (back : inst -> option inst) (n : nat),
    sound_check T T' back n = true ->
    forall pi', plan_over T' pi' -> length pi' <= n -> valid T' pi' = true -> valid T (map_back back pi') = true.
Proof. exact sound_check_correct. Qed.
Print Assumptions C06_sound_check_correct.

(* ... and exact: a [false] answer comes with a compiled plan that is valid while its image is not *)
Theorem C06_sound_search_witness :
  forall (T T' : tsys) (back : inst -> option inst) (n : nat) (w : plan),
    sound_search T T' back n = Some w ->
    plan_over T' w /\ length w <= n /\ valid T' w = true /\ valid T (map_back back w) = false.
Proof. exact sound_search_witness. Qed.
Print Assumptions C06_sound_search_witness.

(* [valid] is the declarative notion: the initial state satisfies invariants and bounded types, the plan is executable
   step by step under [spec_step false], the goals hold in the last state and every trajectory constraint holds by
   its PDDL3 semantics over the state sequence *)
Theorem C06_valid_iff_declarative :
  forall (T : tsys) (pi : plan), valid T pi = true <-> valid_decl T pi.
Proof. exact valid_iff_decl. Qed.
Print Assumptions C06_valid_iff_declarative.

(* without trajectory constraints it is C01/C03's valid_plan *)
Theorem C06_valid_is_valid_plan :
  forall (T : tsys) (pi : plan), ts_traj T = [] ->
    valid T pi = init_ok T && valid_plan false (ts_prob T) (ts_init T) pi.
Proof. exact valid_no_traj. Qed.
Print Assumptions C06_valid_is_valid_plan.

(* the monitor used by the validator decides the PDDL3 semantics of always / sometime / at-most-once /
   sometime-before / sometime-after over a finite state sequence *)
Theorem C06_traj_monitor_decides_pddl3 :
  forall (T : tsys) (sts : list state) (c : expr), traj_holds T sts c = true <-> traj_sem T sts c.
Proof. exact traj_holds_spec. Qed.
Print Assumptions C06_traj_monitor_decides_pddl3.

(* ---------------------------------------------------------------- non-vacuity *)
Module Ex.
  (* one Boolean fluent 0, initially false; action 0 sets it; goal: fluent 0; constraint: sometime-before f0 (not f0) *)
  Definition set0 : action :=
    {| a_params := []; a_pre := [];
       a_effs := [{| e_fl := 0%N; e_args := []; e_val := EBool true; e_cond := EBool true; e_kind := KAssign;
                     e_vars := []; e_isbool := true |}] |}.
  Definition P0 : problem :=
    {| p_objs := []; p_ifun := []; p_fluents := [{| fd_id := 0%N; fd_sig := []; fd_ty := FBool |}];
       p_actions := [(0%N, set0)]; p_goals := [EFluent 0%N []]; p_invs := [] |}.
  Definition s0 : state := fun f a => if (f =? 0)%N then Some (VBool false) else None.
  Definition T0 : tsys :=
    {| ts_prob := P0; ts_init := s0; ts_insts := [(0%N, [])];
       ts_traj := [ESometimeBefore (EFluent 0%N []) (ENot (EFluent 0%N []))] |}.
  (* a "compiled" copy whose action is called 7 and which has an extra auxiliary action 8 without image *)
  Definition P1 : problem :=
    {| p_objs := []; p_ifun := []; p_fluents := [{| fd_id := 0%N; fd_sig := []; fd_ty := FBool |}];
       p_actions := [(7%N, set0); (8%N, set0)]; p_goals := [EFluent 0%N []]; p_invs := [] |}.
  Definition T1 : tsys := {| ts_prob := P1; ts_init := s0; ts_insts := [(7%N, []); (8%N, [])]; ts_traj := [] |}.
  Definition back (a : inst) : option inst := if (fst a =? 7)%N then Some (0%N, []) else None.
  (* a wrong table: the auxiliary action alone reaches the compiled goal, its image (the empty plan) is not valid *)
End Ex.

Example C06_sound_check_correct_nonvacuous :
  sound_check Ex.T0 Ex.T1 (fun a => Some (0%N, [])) 2 = true /\
  plan_over Ex.T1 [(7%N, [])] /\ valid Ex.T1 [(7%N, [])] = true /\ valid Ex.T0 [(0%N, [])] = true.
Proof. split; [vm_compute; reflexivity|]. split; [repeat constructor|]. split; vm_compute; reflexivity. Qed.

Example C06_sound_search_witness_nonvacuous :
  sound_search Ex.T0 Ex.T1 Ex.back 2 = Some [(8%N, [])].
Proof. vm_compute. reflexivity. Qed.

Example C06_traj_nonvacuous :
  traj_holds Ex.T0 [Ex.s0] (ESometimeBefore (EFluent 0%N []) (ENot (EFluent 0%N []))) = true /\
  traj_holds Ex.T0 [Ex.s0] (ESometime (EFluent 0%N [])) = false.
Proof. split; vm_compute; reflexivity. Qed.

(* ==========================================================================================================
   LAYER A — individual compilers, modelled in Gallina and proved for ALL problems (of the modelled fragment:
   instantaneous actions, no trajectory constraints other than state invariants).  Models: Compilers/LayerA_*.v;
   proofs: Proofs/LayerA_*_proofs.v; tie to the code: structural correspondence Corr/Corr_LayerA.v evaluated by
   harness/layera.py on the real compilers' output.  External behaviour enters as explicit arguments with explicit
   hypotheses: the Simplifier ([smp], [simp_pre]; C11), fresh names ([nm]; C08), the DNF walker ([cdnf], [pre_dnf]; C12).
   The translation-validation theorems above stay in force for every compiler (including these).
   ========================================================================================================== *)
Require Import UPV.Walkers.Subst UPV.Compilers.Variants UPV.Proofs.Variants_proofs.
Require Import UPV.Compilers.LayerA_Defs UPV.Compilers.LayerA_Quant UPV.Compilers.LayerA_Inv UPV.Compilers.LayerA_Variants.
Require Import UPV.Proofs.LayerA_Quant_proofs UPV.Proofs.LayerA_Inv_proofs UPV.Proofs.LayerA_Variants_proofs.

(* ---------------------------------------------------------------- QuantifiersRemover, expression level.
   [expand] = ExpressionQuantifiersRemover.  Side conditions (decidable, checked per generated case by the harness):
   [wfe tau beta e] = e is buildable by the ExpressionManager ([nf]), the argument of every Not and the body of every
   quantifier is syntactically Boolean ([bpos]; the type checker's guarantee), every occurrence and binder of a variable
   id carries the variable's type tau and the variables of one quantifier are distinct ([vtyped]); [btyped beta I] = the
   fluents declared Boolean hold Booleans.
   Strict quantifiers (the documented reading): same value AND same definedness. *)
Theorem C06_LA_expand_quantifiers_eval :
  forall (tau : N -> N) (beta : N -> bool) (e : expr) (I : interp),
    wfe tau beta e = true -> btyped beta I ->
    eval false (expand (objs I) e) I = eval false e I.
Proof. exact expand_quantifiers_eval. Qed.
Print Assumptions C06_LA_expand_quantifiers_eval.

(* Short-circuit quantifiers (what the evaluator does; And/Or stay strict): the expansion REFINES the original — a value
   of the expansion is the value of the original; an instance that is undefined AFTER a deciding instance makes the
   expansion undefined while the original keeps its value ([LA_expand_sc_not_equal] below). *)
Theorem C06_LA_expand_quantifiers_eval_sc :
  forall (tau : N -> N) (beta : N -> bool) (e : expr) (I : interp) (v : value),
    wfe tau beta e = true -> btyped beta I ->
    eval true (expand (objs I) e) I = Some v -> eval true e I = Some v.
Proof. exact expand_quantifiers_eval_sc. Qed.
Print Assumptions C06_LA_expand_quantifiers_eval_sc.

(* wherever the strict reading of the original is defined, original and expansion agree in both modes *)
Theorem C06_LA_expand_quantifiers_eval_sc_defined :
  forall (tau : N -> N) (beta : N -> bool) (e : expr) (I : interp) (v : value),
    wfe tau beta e = true -> btyped beta I -> eval false e I = Some v ->
    eval true (expand (objs I) e) I = Some v /\ eval true e I = Some v.
Proof. exact expand_quantifiers_eval_sc_defined. Qed.
Print Assumptions C06_LA_expand_quantifiers_eval_sc_defined.

Theorem C06_LA_expand_quantifier_free :
  forall (tau : N -> N) (beta : N -> bool) (ob : N -> list N) (e : expr),
    wfe tau beta e = true -> qf (expand ob e) = true.
Proof. exact expand_quantifier_free. Qed.
Print Assumptions C06_LA_expand_quantifier_free.

Theorem C06_LA_expand_sc_not_equal :
  exists e I, eval true e I = Some (VBool true) /\ eval true (expand (objs I) e) I = None.
Proof. exact expand_sc_not_equal. Qed.
Print Assumptions C06_LA_expand_sc_not_equal.

(* ---------------------------------------------------------------- QuantifiersRemover, problem level.
   [quant_compile smp P]: every precondition / goal / effect condition / effect value / state invariant expanded,
   forall effects expanded into one effect per object tuple, effects whose condition became FALSE dropped, an action
   whose expanded effects conflict left out; the compiled actions keep names and parameters, so a plan maps back to
   itself.  Hypotheses: [smp_exact] (the Simplifier keeps value and definedness; the real one only refines, C11);
   unique action names; [problem_wf] (every expression satisfies [wfe] with beta = the Boolean fluents of P);
   [bool_state] (Boolean fluents hold Booleans initially; preserved by steps); [plan_targets_total] (effect targets are
   defined: needed because a dropped FALSE-conditioned effect no longer evaluates its target). *)
Theorem C06_LA_quant_sound :
  forall (smp : expr -> expr), smp_exact smp ->
  forall (P : problem) (tau : N -> N), unique_ids P -> problem_wf P tau = true ->
  forall (s0 : state) (pi : list (N * list value)), bool_state P s0 -> plan_targets_total P pi ->
    valid_plan false (quant_compile smp P) s0 pi = true -> valid_plan false P s0 pi = true.
Proof. exact quant_sound. Qed.
Print Assumptions C06_LA_quant_sound.

(* the initial state is judged alike (state invariants / bounded types checked by get_initial_state) *)
Theorem C06_LA_quant_init_ok :
  forall (smp : expr -> expr), smp_exact smp ->
  forall (P : problem) (tau : N -> N), problem_wf P tau = true ->
  forall s0 : state, bool_state P s0 ->
    invariants_ok false (quant_compile smp P) s0 = invariants_ok false P s0.
Proof. exact quant_init_ok. Qed.
Print Assumptions C06_LA_quant_init_ok.

(* ---------------------------------------------------------------- StateInvariantsRemover / BoundedTypesRemover.
   The moved constraints M (the state invariants / the bounded-type constraints [bound_invs P]) become a precondition of
   every action and a goal: along s0 -> ... -> sn the original checks M in s1..sn, the compiled problem in
   s0..s(n-1) and sn.  So the verdicts differ EXACTLY by "M holds in the initial state" — soundness needs no hypothesis
   on the initial state, completeness needs exactly that one.  Hypotheses: [smp_holds] (simplification does not change
   whether a condition holds), unique action names, and for the invariants that they do not depend on action
   parameters ([closed_cond]; the bounded-type constraints are closed by construction). *)
Theorem C06_LA_sir_valid_plan :
  forall (smp : expr -> expr), smp_holds smp ->
  forall P : problem, unique_ids P -> Forall (closed_cond P) (p_invs P) ->
  forall (s0 : state) (pi : list (N * list value)),
    valid_plan false (sir_compile smp P) s0 pi =
    all_hold false (mk_interp P s0 []) (p_invs P) && valid_plan false P s0 pi.
Proof. exact sir_valid_plan. Qed.
Print Assumptions C06_LA_sir_valid_plan.

Theorem C06_LA_sir_sound :
  forall (smp : expr -> expr), smp_holds smp ->
  forall P : problem, unique_ids P -> Forall (closed_cond P) (p_invs P) ->
  forall (s0 : state) (pi : list (N * list value)),
    valid_plan false (sir_compile smp P) s0 pi = true -> valid_plan false P s0 pi = true.
Proof. exact sir_sound. Qed.
Print Assumptions C06_LA_sir_sound.

(* together with the check of the initial state the two problems have the SAME valid plans *)
Theorem C06_LA_sir_same_plans :
  forall (smp : expr -> expr), smp_holds smp ->
  forall P : problem, unique_ids P -> Forall (closed_cond P) (p_invs P) ->
  forall (s0 : state) (pi : list (N * list value)),
    invariants_ok false (sir_compile smp P) s0 && valid_plan false (sir_compile smp P) s0 pi =
    invariants_ok false P s0 && valid_plan false P s0 pi.
Proof. exact sir_same_plans. Qed.
Print Assumptions C06_LA_sir_same_plans.

Theorem C06_LA_btr_valid_plan :
  forall (smp : expr -> expr), smp_holds smp ->
  forall P : problem, unique_ids P ->
  forall (s0 : state) (pi : list (N * list value)),
    valid_plan false (btr_compile smp P) s0 pi =
    all_hold false (mk_interp P s0 []) (bound_invs P) && valid_plan false P s0 pi.
Proof. exact btr_valid_plan. Qed.
Print Assumptions C06_LA_btr_valid_plan.

Theorem C06_LA_btr_sound :
  forall (smp : expr -> expr), smp_holds smp ->
  forall P : problem, unique_ids P ->
  forall (s0 : state) (pi : list (N * list value)),
    valid_plan false (btr_compile smp P) s0 pi = true -> valid_plan false P s0 pi = true.
Proof. exact btr_sound. Qed.
Print Assumptions C06_LA_btr_sound.

Theorem C06_LA_btr_same_plans :
  forall (smp : expr -> expr), smp_holds smp ->
  forall P : problem, unique_ids P ->
  forall (s0 : state) (pi : list (N * list value)),
    invariants_ok false (btr_compile smp P) s0 && valid_plan false (btr_compile smp P) s0 pi =
    invariants_ok false P s0 && valid_plan false P s0 pi.
Proof. exact btr_same_plans. Qed.
Print Assumptions C06_LA_btr_same_plans.

(* ---------------------------------------------------------------- ConditionalEffectsRemover (C37's action theorems
   lifted to plans).  [cer_compile simp_pre nm P]: unconditional actions kept, every conditional action replaced by its
   kept variants under fresh names; [vt_map_back (cer_table ...)] renames every step to the action its variant was made
   from.  G = the states on which the hypotheses of the C37 theorems hold (e.g. all fluents defined and typed); it must
   contain the initial state and be closed under the steps of the original problem. *)
Theorem C06_LA_cer_sound :
  forall (simp_pre : list expr -> option (list expr)), simp_pre_ok simp_pre ->
  forall (nm : N -> nat -> N) (P : problem), unique_ids P -> unique_ids (cer_compile simp_pre nm P) ->
  forall G : state -> Prop,
    (forall s aid a args t, G s -> lookup_action P aid = Some a -> spec_step false P s a args = Some t -> G t) ->
    (forall s args i a, G s -> In (i, a) (p_actions P) -> Forall (cond_ok P s a args) (cond_effs (a_effs a))) ->
  forall (s0 : state) (pi' : list (N * list value)), G s0 ->
    valid_plan false (cer_compile simp_pre nm P) s0 pi' = true ->
    valid_plan false P s0 (vt_map_back (cer_table simp_pre nm P) pi') = true.
Proof. exact cer_sound. Qed.
Print Assumptions C06_LA_cer_sound.

(* ---------------------------------------------------------------- DisjunctiveConditionsRemover, for problems whose goals
   need no auxiliary goal action (the DNF of the goals is one conjunction, [goals']).  The fake-goal construction is
   covered at action level by C37_goals_equiv / C37_fake_action_step and at plan level by the validator above. *)
Theorem C06_LA_dcr_sound :
  forall (cdnf : expr -> list expr) (pre_dnf : action -> list (list expr)) (nm : N -> nat -> N)
         (P : problem) (goals' : list expr),
    unique_ids P -> unique_ids (dcr_compile cdnf pre_dnf nm P goals') ->
  forall G : state -> Prop,
    (forall s aid a args t, G s -> lookup_action P aid = Some a -> spec_step false P s a args = Some t -> G t) ->
    (forall s args i a, G s -> In (i, a) (p_actions P) -> Forall (dnf_effect_ok cdnf P s a args) (a_effs a)) ->
    (forall s args i a, G s -> In (i, a) (p_actions P) ->
       existsb (all_hold false (mk_interp P s (zip_params (a_params a) args))) (pre_dnf a) =
       all_hold false (mk_interp P s (zip_params (a_params a) args)) (a_pre a)) ->
    (forall s, G s -> all_hold false (mk_interp P s []) goals' = all_hold false (mk_interp P s []) (p_goals P)) ->
  forall (s0 : state) (pi' : list (N * list value)), G s0 ->
    valid_plan false (dcr_compile cdnf pre_dnf nm P goals') s0 pi' = true ->
    valid_plan false P s0 (vt_map_back (dcr_table cdnf pre_dnf nm P) pi') = true.
Proof. exact dcr_sound. Qed.
Print Assumptions C06_LA_dcr_sound.

(* ---------------------------------------------------------------- non-vacuity of the Layer A theorems *)
Module LA.
  Definition idsmp (e : expr) : expr := e.
  Lemma idsmp_exact : smp_exact idsmp. Proof. intros e I. reflexivity. Qed.
  Lemma idsmp_holds : smp_holds idsmp. Proof. intros e I. reflexivity. Qed.

  (* type 0 with objects 1, 2; Boolean fluents p/1 (id 0), g/0 (id 1); variable 0 of type 0.
     action 0:  pre  Exists v. not p(v)   eff  forall v. p(v) := true;  g := true when Forall v. not p(v)
     goal  Forall v. p(v)      invariant  Exists v. (p(v) or not p(v)) *)
  Definition v0 : expr := EVar 0%N 0%N.
  Definition pv : expr := EFluent 0%N [v0].
  Definition eff_all : effect :=
    {| e_fl := 0%N; e_args := [v0]; e_val := EBool true; e_cond := EBool true; e_kind := KAssign;
       e_vars := [(0%N, 0%N)]; e_isbool := true |}.
  Definition eff_g : effect :=
    {| e_fl := 1%N; e_args := []; e_val := EBool true; e_cond := EForall [(0%N, 0%N)] (ENot pv); e_kind := KAssign;
       e_vars := []; e_isbool := true |}.
  Definition act : action :=
    {| a_params := []; a_pre := [EExists [(0%N, 0%N)] (ENot pv)]; a_effs := [eff_all; eff_g] |}.
  Definition Pq : problem :=
    {| p_objs := [(0%N, [1%N; 2%N])]; p_ifun := [];
       p_fluents := [{| fd_id := 0%N; fd_sig := [0%N]; fd_ty := FBool |}; {| fd_id := 1%N; fd_sig := []; fd_ty := FBool |}];
       p_actions := [(0%N, act)]; p_goals := [EForall [(0%N, 0%N)] pv; EFluent 1%N []];
       p_invs := [EExists [(0%N, 0%N)] (EOr [pv; ENot pv])] |}.
  Definition sq : state := fun f a => Some (VBool false).
  Definition tauq (v : N) : N := 0%N.

  Lemma sq_bool : bool_state Pq sq.
  Proof. intros f args _. right. exists false. reflexivity. Qed.

  Lemma targets : plan_targets_total Pq [(0%N, [])].
  Proof.
    intros aid args a [H|[]] EL. inversion H; subst. vm_compute in EL. inversion EL; subst. clear EL H.
    intros s e J He HJ. destruct He as [<-|[<-|[]]].
    - cbn in HJ. destruct HJ as [<-|[<-|[]]]; discriminate.
    - cbn in HJ. destruct HJ as [<-|[]]. discriminate.
  Qed.
End LA.

Example C06_LA_expand_quantifiers_eval_nonvacuous :
  let e := EForall [(0%N, 0%N)] (ENot LA.pv) in
  let I := mk_interp LA.Pq LA.sq [] in
  wfe LA.tauq (is_bool_fluent LA.Pq) e = true /\ btyped (is_bool_fluent LA.Pq) I /\
  expand (objs I) e = EAnd [ENot (EFluent 0%N [EObj 1%N]); ENot (EFluent 0%N [EObj 2%N])] /\
  eval false e I = Some (VBool true).
Proof.
  cbv zeta. split; [vm_compute; reflexivity|]. split; [|split; vm_compute; reflexivity].
  intros f args _. right. exists false. reflexivity.
Qed.

Example C06_LA_quant_sound_nonvacuous :
  smp_exact LA.idsmp /\ unique_ids LA.Pq /\ problem_wf LA.Pq LA.tauq = true /\ bool_state LA.Pq LA.sq /\
  plan_targets_total LA.Pq [(0%N, [])] /\ no_action_dropped LA.idsmp LA.Pq /\
  valid_plan false (quant_compile LA.idsmp LA.Pq) LA.sq [(0%N, [])] = true /\
  valid_plan false LA.Pq LA.sq [(0%N, [])] = true /\
  qf (EAnd (a_pre (snd (List.hd (0%N, LA.act) (p_actions (quant_compile LA.idsmp LA.Pq)))))) = true.
Proof.
  split; [exact LA.idsmp_exact|]. split; [repeat constructor; intros []|]. split; [vm_compute; reflexivity|].
  split; [exact LA.sq_bool|]. split; [exact LA.targets|].
  split; [intros aid a [H|[]]; inversion H; subst; vm_compute; discriminate|].
  split; [vm_compute; reflexivity|]. split; vm_compute; reflexivity.
Qed.

(* state invariant g (fluent 1) with an action that breaks it and one that does not; bounded fluent x in [0, 2] *)
Module LB.
  Definition setf (f : N) (b : bool) : action :=
    {| a_params := []; a_pre := [];
       a_effs := [{| e_fl := f; e_args := []; e_val := EBool b; e_cond := EBool true; e_kind := KAssign;
                     e_vars := []; e_isbool := true |}] |}.
  Definition inc : action :=
    {| a_params := []; a_pre := [];
       a_effs := [{| e_fl := 2%N; e_args := []; e_val := EInt 1; e_cond := EBool true; e_kind := KInc;
                     e_vars := []; e_isbool := false |}] |}.
  Definition Pi : problem :=
    {| p_objs := []; p_ifun := [];
       p_fluents := [{| fd_id := 0%N; fd_sig := []; fd_ty := FBool |}; {| fd_id := 1%N; fd_sig := []; fd_ty := FBool |};
                     {| fd_id := 2%N; fd_sig := []; fd_ty := FNum (Some (zq 0)) (Some (zq 2)) |}];
       p_actions := [(0%N, setf 0%N true); (1%N, setf 1%N false); (2%N, inc)];
       p_goals := [EFluent 0%N []]; p_invs := [EFluent 1%N []] |}.
  Definition si : state := fun f a => if (f =? 2)%N then Some (VNum (zq 1)) else Some (VBool (f =? 1)%N).
  Lemma closed : Forall (closed_cond Pi) (p_invs Pi).
  Proof. repeat constructor. Qed.
  Lemma uniq : unique_ids Pi.
  Proof. repeat constructor; cbn; intuition discriminate. Qed.
End LB.

Example C06_LA_sir_nonvacuous :
  smp_holds LA.idsmp /\ unique_ids LB.Pi /\ Forall (closed_cond LB.Pi) (p_invs LB.Pi) /\
  valid_plan false (sir_compile LA.idsmp LB.Pi) LB.si [(0%N, [])] = true /\
  valid_plan false LB.Pi LB.si [(0%N, [])] = true /\
  (* the plan that breaks the invariant in its last step is rejected by the compiled GOAL *)
  valid_plan false (sir_compile LA.idsmp LB.Pi) LB.si [(0%N, []); (1%N, [])] = false /\
  p_invs (sir_compile LA.idsmp LB.Pi) = [].
Proof.
  split; [exact LA.idsmp_holds|]. split; [exact LB.uniq|]. split; [exact LB.closed|].
  repeat split; vm_compute; reflexivity.
Qed.

Example C06_LA_btr_nonvacuous :
  smp_holds LA.idsmp /\ unique_ids LB.Pi /\
  valid_plan false (btr_compile LA.idsmp LB.Pi) LB.si [(2%N, []); (0%N, [])] = true /\
  valid_plan false LB.Pi LB.si [(2%N, []); (0%N, [])] = true /\
  (* x = 3 after two increases: rejected by the precondition of the following action *)
  valid_plan false (btr_compile LA.idsmp LB.Pi) LB.si [(2%N, []); (2%N, []); (0%N, [])] = false /\
  valid_plan false LB.Pi LB.si [(2%N, []); (2%N, []); (0%N, [])] = false /\
  bound_invs (btr_compile LA.idsmp LB.Pi) = [].
Proof.
  split; [exact LA.idsmp_holds|]. split; [exact LB.uniq|]. repeat split; vm_compute; reflexivity.
Qed.

(* a conditional effect whose condition is a defined Boolean in every state: g := true when not false *)
Module LC.
  Definition ce : effect :=
    {| e_fl := 1%N; e_args := []; e_val := EBool true; e_cond := ENot (EBool false); e_kind := KAssign;
       e_vars := []; e_isbool := true |}.
  Definition ca : action := {| a_params := []; a_pre := [EFluent 0%N []]; a_effs := [ce] |}.
  Definition Pc : problem :=
    {| p_objs := []; p_ifun := [];
       p_fluents := [{| fd_id := 0%N; fd_sig := []; fd_ty := FBool |}; {| fd_id := 1%N; fd_sig := []; fd_ty := FBool |}];
       p_actions := [(0%N, ca)]; p_goals := [EFluent 1%N []]; p_invs := [] |}.
  Definition sc0 : state := fun f a => Some (VBool (f =? 0)%N).
  Definition sp (l : list expr) : option (list expr) := Some l.
  Lemma sp_ok : simp_pre_ok sp. Proof. intros l I. reflexivity. Qed.
  Definition nm (i : N) (k : nat) : N := (10 + N.of_nat k)%N.
  Definition G (s : state) : Prop := True.
  Lemma cond : forall s args i a, G s -> In (i, a) (p_actions Pc) -> Forall (cond_ok Pc s a args) (cond_effs (a_effs a)).
  Proof.
    intros s args i a _ [H|[]]. inversion H; subst. repeat constructor.
    exists true. split; [reflexivity|]. repeat constructor. discriminate.
  Qed.
End LC.

Example C06_LA_cer_sound_nonvacuous :
  simp_pre_ok LC.sp /\ unique_ids LC.Pc /\ unique_ids (cer_compile LC.sp LC.nm LC.Pc) /\
  (forall s args i a, LC.G s -> In (i, a) (p_actions LC.Pc) -> Forall (cond_ok LC.Pc s a args) (cond_effs (a_effs a))) /\
  map fst (p_actions (cer_compile LC.sp LC.nm LC.Pc)) = [10%N] /\
  valid_plan false (cer_compile LC.sp LC.nm LC.Pc) LC.sc0 [(10%N, [])] = true /\
  vt_map_back (cer_table LC.sp LC.nm LC.Pc) [(10%N, [])] = [(0%N, [])] /\
  valid_plan false LC.Pc LC.sc0 [(0%N, [])] = true.
Proof.
  split; [exact LC.sp_ok|]. split; [repeat constructor; intros []|]. split; [vm_compute; repeat constructor; intros []|].
  split; [exact LC.cond|]. repeat split; vm_compute; reflexivity.
Qed.

(* ---------------------------------------------------------------- Grounder (second Layer A round).
   [ground_compile smp tuples nm P]: for every action i and every parameter tuple of [tuples i] (what
   GrounderHelper.get_possible_parameters enumerates: type-correct values, static-fluent pruning included) the
   parameter-less action [g_action smp a args] — parameters substituted by constants ([Ground.psubst] = the Substituter on
   manager-built expressions, C01_grounded_substitution_is_substituter), target arguments / value / condition of every
   effect and the conjunction of the preconditions simplified, an effect with a FALSE condition dropped, forall variables
   that are no longer free dropped — unless the precondition simplified to FALSE or the ground effects conflict
   syntactically; [gt_map_back] = lift_action_instance.
   Hypotheses: [smp_exact_on P G smp] — the grounder's Simplifier(env, problem) keeps value and definedness on the states
   of G under every variable instance (it folds static fluents to their INITIAL values: G = the states agreeing with the
   initial state on static fluents; the real Simplifier only refines: C11); G contains s0 and is closed under steps;
   unique action names and pairwise different ground names (fix 206e087, C08); [instances_ok]: no forall variable of an
   effect vanishes ([vars_kept], else finding C01-forall-variable-vanishes) and effect targets are defined
   ([g_targets_total], because FALSE-conditioned effects are dropped).
   The key lemma is C01's substitution lemma psubst_eval; the ground action takes EXACTLY the original step: *)
Require Import UPV.Planning.Ground UPV.Compilers.LayerA_Ground UPV.Proofs.LayerA_Ground_proofs.

Theorem C06_LA_ground_step :
  forall (smp : expr -> expr) (tuples : N -> list (list value)) (nm : N -> nat -> N) (P : problem) (G : state -> Prop),
    smp_exact_on P G smp ->
  forall (s : state) (a : action) (args : list value) (g : action),
    G s -> vars_kept smp a args -> g_targets_total P a args -> g_action smp a args = Some g ->
    spec_step false (ground_compile smp tuples nm P) s g [] = spec_step false P s a args.
Proof. exact ground_step. Qed.
Print Assumptions C06_LA_ground_step.

Theorem C06_LA_ground_sound :
  forall (smp : expr -> expr) (tuples : N -> list (list value)) (nm : N -> nat -> N) (P : problem) (G : state -> Prop),
    smp_exact_on P G smp -> unique_ids P -> unique_ids (ground_compile smp tuples nm P) ->
    (forall s aid a args t, G s -> lookup_action P aid = Some a -> spec_step false P s a args = Some t -> G t) ->
    instances_ok smp tuples P ->
  forall (s0 : state) (pi' : list (N * list value)), G s0 ->
    valid_plan false (ground_compile smp tuples nm P) s0 pi' = true ->
    valid_plan false P s0 (gt_map_back (ground_table smp tuples nm P) pi') = true.
Proof. exact ground_sound. Qed.
Print Assumptions C06_LA_ground_sound.

(* ... through the same states: the two runs end in the SAME state for every plan, hence for every prefix *)
Theorem C06_LA_ground_same_states :
  forall (smp : expr -> expr) (tuples : N -> list (list value)) (nm : N -> nat -> N) (P : problem) (G : state -> Prop),
    smp_exact_on P G smp -> unique_ids P -> unique_ids (ground_compile smp tuples nm P) ->
    (forall s aid a args t, G s -> lookup_action P aid = Some a -> spec_step false P s a args = Some t -> G t) ->
    instances_ok smp tuples P ->
  forall (pi' : list (N * list value)) (s t : state), G s ->
    run (ground_compile smp tuples nm P) (spec_step false (ground_compile smp tuples nm P)) s pi' = Some t ->
    run P (spec_step false P) s (gt_map_back (ground_table smp tuples nm P) pi') = Some t.
Proof. exact ground_run_sound. Qed.
Print Assumptions C06_LA_ground_same_states.

(* non-vacuity: type 0 = {1, 2}, Boolean fluent p/1, action 0 (parameter 7): pre not p(x), eff p(x) := true and
   g := true when x == 2 (the condition simplifies per instance in the real grounder; here smp is the identity) *)
Module LG.
  Definition px : expr := EFluent 0%N [EParam 7%N].
  Definition mark : action :=
    {| a_params := [7%N]; a_pre := [ENot px];
       a_effs := [{| e_fl := 0%N; e_args := [EParam 7%N]; e_val := EBool true; e_cond := EBool true; e_kind := KAssign;
                     e_vars := []; e_isbool := true |};
                  {| e_fl := 1%N; e_args := []; e_val := EBool true; e_cond := EEquals (EParam 7%N) (EObj 2%N);
                     e_kind := KAssign; e_vars := []; e_isbool := true |}] |}.
  Definition Pg : problem :=
    {| p_objs := [(0%N, [1%N; 2%N])]; p_ifun := [];
       p_fluents := [{| fd_id := 0%N; fd_sig := [0%N]; fd_ty := FBool |}; {| fd_id := 1%N; fd_sig := []; fd_ty := FBool |}];
       p_actions := [(0%N, mark)]; p_goals := [EFluent 0%N [EObj 1%N]; EFluent 1%N []]; p_invs := [] |}.
  Definition tup (i : N) : list (list value) := [[VObj 1%N]; [VObj 2%N]].
  Definition nm (i : N) (k : nat) : N := (30 + N.of_nat k)%N.
  Definition G (s : state) : Prop := True.
  Definition sg0 : state := fun f a => Some (VBool false).
  Lemma smp_ok : smp_exact_on Pg G LA.idsmp. Proof. intros e s vs J _ _. reflexivity. Qed.
  Lemma inst_ok : instances_ok LA.idsmp tup Pg.
  Proof.
    intros i a args [H|[]] Hargs. inversion H; subst. split.
    - intros e ge [<-|[<-|[]]] Hg; unfold g_effect in Hg; cbn in Hg;
        destruct Hargs as [<-|[<-|[]]]; cbn in Hg; inversion Hg; reflexivity.
    - intros s e J [<-|[<-|[]]] HJ; destruct Hargs as [<-|[<-|[]]]; cbn in HJ; destruct HJ as [<-|[]]; discriminate.
  Qed.
End LG.

Example C06_LA_ground_sound_nonvacuous :
  smp_exact_on LG.Pg LG.G LA.idsmp /\ unique_ids LG.Pg /\ unique_ids (ground_compile LA.idsmp LG.tup LG.nm LG.Pg) /\
  instances_ok LA.idsmp LG.tup LG.Pg /\
  map fst (p_actions (ground_compile LA.idsmp LG.tup LG.nm LG.Pg)) = [30%N; 31%N] /\
  valid_plan false (ground_compile LA.idsmp LG.tup LG.nm LG.Pg) LG.sg0 [(31%N, []); (30%N, [])] = true /\
  gt_map_back (ground_table LA.idsmp LG.tup LG.nm LG.Pg) [(31%N, []); (30%N, [])] = [(0%N, [VObj 2%N]); (0%N, [VObj 1%N])] /\
  valid_plan false LG.Pg LG.sg0 [(0%N, [VObj 2%N]); (0%N, [VObj 1%N])] = true.
Proof.
  split; [exact LG.smp_ok|]. split; [repeat constructor; intros []|].
  split; [vm_compute; repeat constructor; cbn; intuition discriminate|].
  split; [exact LG.inst_ok|]. repeat split; vm_compute; reflexivity.
Qed.

(* ---------------------------------------------------------------- NegativeConditionsRemover (second Layer A round,
   PARTIAL: the model, the effect level and the refutation are proved; the plan-level theorem is not finished and is
   therefore NOT stated — the compiler stays validated by Layer B).  [neg_compile nmap rw smp P]: conditions rewritten by
   [rw] (Nnf + simplify + walk_not, external), every effect on a fluent f with a negation fluent nf mirrored by an effect
   on nf with value simplify(Not(value)), appended after the action's own effects.
   Proved, under "nf = not f" ([nrel_interp]), [rw_ok] (the rewriting is exact on the conditions of P under the
   invariant), [smp_exact], and per effect: it mentions no negation fluent and, when its fluent is negated, it is an
   assignment of a Boolean constant: the compiled action fires EXACTLY the original effect instances followed by their
   mirrors ([macts]). *)
Require Import UPV.Compilers.LayerA_Neg UPV.Proofs.LayerA_Neg_proofs.

Theorem C06_LA_ncr_fired_partial :
  forall (nmap : list (N * N)) (rw smp : expr -> expr) (P : problem),
    rw_ok nmap rw P -> smp_exact smp ->
  forall (I I' : interp) (effs : list effect),
    nrel_interp nmap I I' -> Forall (eff_hyp nmap P) effs ->
    fired false I' (n_effects nmap rw smp effs) =
    match fired false I effs with Some acts => Some (acts ++ macts nmap acts) | None => None end.
Proof. intros nmap rw smp P Hrw Hsmp. exact (n_effects_fired nmap rw smp P Hrw Hsmp). Qed.
Print Assumptions C06_LA_ncr_fired_partial.

(* what the plan-level proof forces: the successor states are related again only if the assignments that fire on one
   ground negated fluent carry ONE value ([ncr_safe]: decidable sufficient condition).  Without it soundness fails:
   f := false; if c then f := true  keeps f true by add-after-delete, and the mirrored pair keeps nf true as well, so
   the compiled plan [a; b] (b needs not f) is valid and its image is not.  The real compiler produces exactly the
   model's compiled problem on this input and the real validator gives VALID / INVALID: it is the recorded finding
   C06-ncr-add-after-delete, not a new defect. *)
Theorem C06_LA_ncr_add_after_delete_refuted :
  exists (nmap : list (N * N)) (P : problem) (s s' : state) (pi : list (N * list value)),
    nmap_ok nmap P = true /\ problem_clean nmap P = true /\ ncr_safe nmap P = false /\ neg_rel nmap s s' /\
    valid_plan false (neg_compile nmap (nrw (ng nmap)) (fun e => e) P) s' pi = true /\
    valid_plan false P s pi = false.
Proof.
  exists NegWitness.nm, NegWitness.Pw, NegWitness.sw, NegWitness.sw', NegWitness.plan. exact ncr_unsafe_witness.
Qed.
Print Assumptions C06_LA_ncr_add_after_delete_refuted.

Definition C06_LA_ncr_sound_goal : Prop :=
  forall (nmap : list (N * N)) (rw smp : expr -> expr) (P : problem),
    nmap_ok nmap P = true -> problem_clean nmap P = true -> ncr_safe nmap P = true -> rw_ok nmap rw P -> smp_exact smp ->
  forall (s s' : state) (pi : list (N * list value)), neg_rel nmap s s' ->
    valid_plan false (neg_compile nmap rw smp P) s' pi = valid_plan false P s pi.
