(* C32 -- Factory engine selection honours every requested requirement.
   Only statements; each is closed by [exact] of a lemma from Proofs/Factory_proofs.v / Factory_gen_proofs.v.
   [T] are the ProblemKind tables, [reg] ANY registry (name -> engine description), [prefs] ANY preference list;
   Gen_Engines.builtin_engines / default_preference_list are the ones regenerated from the source on every run.
   Results: [Found n e] = the class registered as n is returned; [NoSuitable] = UPNoSuitableEngineAvailableException;
   [RaisedKey]/[RaisedAssert] = KeyError/AssertionError (unregistered preference name, missing upgrade function,
   requirement that does not belong to the operation mode). *)
From Coq Require Import List NArith Bool String.
Import ListNotations.
Require Import UPV.Model.Kind UPV.Model.Factory UPV.Proofs.Factory_proofs.
Require Import UPV.Gen.Gen_Kind UPV.Gen.Gen_Engines UPV.Proofs.Factory_gen_proofs.

(* what "supports the problem kind and every requested requirement" means, spelled out *)
Theorem C32_honours_unfolded :
  forall T e r, honours T e r <->
    is_mode e (r_mode r) = true
    /\ le T (r_kind r) (e_supported e) = Ok true
    /\ (forall c, r_compilation r = Some c -> inN c (e_compilations e) = true)
    /\ (forall p, r_plan r = Some p -> inN p (e_plans e) = true)
    /\ (forall g, r_optimality r = Some g -> inN g (e_optimality e) = true)
    /\ (forall g, r_anytime r = Some g -> inN g (e_anytime e) = true).
Proof. exact honours_unfolded. Qed.
Print Assumptions C32_honours_unfolded.

(* the engine returned for a request (no name given) is registered, listed, honours the request, and is the FIRST such
   engine of the preference list *)
Theorem C32_select_sound :
  forall T reg prefs r n e, get_engine_class T reg prefs None r = Found n e ->
    In n prefs /\ lookup n reg = Some e /\ honours T e r
    /\ exists pre post, prefs = pre ++ n :: post /\ forall m, In m pre -> exists e', lookup m reg = Some e' /\ ~ honours T e' r.
Proof. exact get_engine_class_found. Qed.
Print Assumptions C32_select_sound.

(* the no-suitable-engine error is raised only when no engine of the preference list qualifies *)
Theorem C32_select_none :
  forall T reg prefs r, get_engine_class T reg prefs None r = NoSuitable ->
    forall m, In m prefs -> exists e', lookup m reg = Some e' /\ ~ honours T e' r.
Proof. exact get_engine_class_none. Qed.
Print Assumptions C32_select_none.

(* ... and conversely: if evaluating the conditions raises nothing, the loop answers Found or NoSuitable, and Found whenever
   some listed engine qualifies -- so "no engine returned" <=> "no listed engine qualifies" *)
Theorem C32_select_total :
  forall T reg prefs r,
    (forall m, In m prefs -> exists e' b, lookup m reg = Some e' /\ satisfies_conditions T e' r = Ok b /\ report_raises T e' r = false) ->
    (exists n e, first_satisfying T reg prefs r = Found n e) \/ first_satisfying T reg prefs r = NoSuitable.
Proof. exact first_total. Qed.
Print Assumptions C32_select_total.

Theorem C32_select_complete :
  forall T reg prefs r,
    (forall m, In m prefs -> exists e' b, lookup m reg = Some e' /\ satisfies_conditions T e' r = Ok b /\ report_raises T e' r = false) ->
    (exists m e', In m prefs /\ lookup m reg = Some e' /\ honours T e' r) ->
    exists n e, first_satisfying T reg prefs r = Found n e.
Proof. exact first_complete. Qed.
Print Assumptions C32_select_complete.

(* the decision procedure agrees with the specification *)
Theorem C32_conditions_true_iff_honours :
  forall T e r, satisfies_conditions T e r = Ok true -> honours T e r.
Proof. exact satisfies_true_honours. Qed.
Print Assumptions C32_conditions_true_iff_honours.

Theorem C32_conditions_false_not_honours :
  forall T e r, satisfies_conditions T e r = Ok false -> ~ honours T e r.
Proof. exact satisfies_false_not_honours. Qed.
Print Assumptions C32_conditions_false_not_honours.

(* the error-report probe used by the loop is the literal transcription of the report-building code *)
Theorem C32_report_probe_equiv :
  forall T e r, report_raises_spec T e r = report_raises T e r.
Proof. exact report_raises_equiv. Qed.
Print Assumptions C32_report_probe_equiv.

(* selection by name performs no check: exactly the registered class, else the no-requested-engine error *)
Theorem C32_select_by_name :
  forall T reg prefs r n s, get_engine_class T reg prefs (Some n) r = s ->
    match lookup n reg with Some e => s = Found n e | None => s = NoRequested end.
Proof. exact get_engine_class_by_name. Qed.
Print Assumptions C32_select_by_name.

(* in a pipeline requested by compilation kinds, step i was selected for the kind declared by steps < i, is a compiler
   supporting that kind and the i-th compilation kind, and declares the kind handed to step i+1 *)
Theorem C32_pipeline_chain_supported :
  forall T reg prefs cks k0 steps final,
    pipeline T reg prefs None cks k0 = Pipe steps final -> chain T reg prefs k0 steps cks final.
Proof. exact pipeline_chain. Qed.
Print Assumptions C32_pipeline_chain_supported.

Theorem C32_chain_unfolded :
  forall T reg prefs k n e kk steps ck cks final,
    chain T reg prefs k ((n, e, kk) :: steps) (ck :: cks) final ->
    kk = k /\ In n prefs /\ lookup n reg = Some e
    /\ is_mode e COMPILER = true /\ le T k (e_supported e) = Ok true /\ inN ck (e_compilations e) = true
    /\ exists k', run_resulting T (e_resulting e) k = Ok k' /\ chain T reg prefs k' steps cks final.
Proof. exact chain_cons_inv. Qed.
Print Assumptions C32_chain_unfolded.

(* a pipeline request ends in the no-suitable-engine error only at a step for which no listed engine qualifies *)
Theorem C32_pipeline_no_suitable :
  forall T reg prefs cks k0,
    pipeline T reg prefs None cks k0 = PipeFail NoSuitable ->
    exists cks1 ck cks2 done k', cks = cks1 ++ ck :: cks2 /\ chain T reg prefs k0 done cks1 k'
      /\ forall m, In m prefs -> exists e', lookup m reg = Some e' /\ ~ honours T e' (comp_request k' ck).
Proof. exact pipeline_no_suitable. Qed.
Print Assumptions C32_pipeline_no_suitable.

(* the regenerated built-in registry is well formed (checked by computation) *)
Theorem C32_builtin_registry_ok : builtin_registry_ok = true.
Proof. exact gen_builtin_registry_ok. Qed.
Print Assumptions C32_builtin_registry_ok.

(* ---------------------------------------------------------------- non-vacuity over the current source *)
Definition K (l : list N) : kind := {| k_feats := mask_of l; k_ver := Some LATEST_PROBLEM_KIND_VERSION |}.
Definition offline_prefs : list string :=
  filter (fun n => existsb (String.eqb n) (map fst builtin_engines)) default_preference_list.

Example C32_select_nonvacuous :
  get_engine_class gen_tables builtin_engines offline_prefs None
    {| r_mode := PLAN_VALIDATOR; r_kind := K [f_ACTION_BASED; f_CONTINUOUS_TIME]; r_optimality := None; r_compilation := None;
       r_plan := Some pk_TIME_TRIGGERED_PLAN; r_anytime := None |}
  = Found "up_time_triggered_validator"%string E_up_time_triggered_validator
  /\ get_engine_class gen_tables builtin_engines offline_prefs None
       {| r_mode := ONESHOT_PLANNER; r_kind := K [f_ACTION_BASED]; r_optimality := None; r_compilation := None;
          r_plan := None; r_anytime := None |} = NoSuitable.
Proof. vm_compute. split; reflexivity. Qed.

(* (a top-level definition rather than `let … in`: coqchk 8.16 rejects the VM-cast proof term of a let-bound statement) *)
Definition ex_k1 := K [f_ACTION_BASED; f_DISJUNCTIVE_CONDITIONS; f_FLAT_TYPING].
Example C32_pipeline_nonvacuous :
  pipeline gen_tables builtin_engines offline_prefs None [ck_QUANTIFIERS_REMOVING; ck_GROUNDING]
           (K [f_ACTION_BASED; f_EXISTENTIAL_CONDITIONS; f_FLAT_TYPING])
  = Pipe [("up_quantifiers_remover"%string, E_up_quantifiers_remover, K [f_ACTION_BASED; f_EXISTENTIAL_CONDITIONS; f_FLAT_TYPING]);
          ("tarski_grounder"%string, E_tarski_grounder, ex_k1)] ex_k1.
Proof. vm_compute. reflexivity. Qed.

Example C32_pipeline_no_suitable_nonvacuous :
  pipeline gen_tables builtin_engines offline_prefs None [ck_GROUNDING; ck_MA_CENTRALIZATION] (K [f_ACTION_BASED])
  = PipeFail NoSuitable.
Proof. vm_compute. reflexivity. Qed.
