(* C14 — Shared environment walkers are history-independent, even after failures.
   Only statements; each is closed by [exact] of a lemma from Proofs/Dag_proofs.v or Proofs/HashCons_proofs.v.

   Reading guide.  [walk R children f inval fuel w n] is DagWalker.walk (as repaired) on the walker state [w] for the
   root [n]; [f n args = None] means "walk_* raised at node n"; [run_calls R children inval fresh cs] is the walker after
   the history [cs] of calls (each call = its node function, its root, its fuel); [results ...] are the answers of the
   history's calls; [terminated rs] says none of them ran out of fuel (and every call has enough fuel:
   [C14_walk_terminates]).  A result is [ROk value], [RFail (FailAt node)] (the exception raised by that node's
   function) or [RFail (KeyErr node)] (Python's KeyError on a missing memoization entry). *)
From Coq Require Import List NArith Bool.
Import ListNotations.
Require Import UPV.Model.Dag UPV.Proofs.Dag_proofs UPV.Model.HashCons UPV.Proofs.HashCons_proofs.
Open Scope N_scope.

(* walkers that KEEP their memoization (TypeChecker, Simplifier, FreeVarsExtractor, FreeVarsOracle ...): one fixed node
   function [f]; children have smaller ids than their parents (hash-consing).  After ANY history of calls -- each of
   which may have raised at any node -- the next call answers exactly as on a fresh walker: same value, or the same
   exception at the same node. *)
Theorem C14_walk_history_independent :
  forall (R : Type) (children : N -> list N) (f : N -> list R -> option R),
    (forall n c, In c (children n) -> c < n) ->
    forall (cs : list (Dag.call R)) (n : N) (fuel1 fuel2 : nat),
      Forall (fun c => fst (fst c) = f) cs ->
      Forall (fun r => r <> RNoFuel) (results R children false fresh cs) ->
      snd (walk R children f false fuel1 (run_calls R children false fresh cs) n) <> RNoFuel ->
      snd (walk R children f false fuel2 fresh n) <> RNoFuel ->
      snd (walk R children f false fuel1 (run_calls R children false fresh cs) n)
      = snd (walk R children f false fuel2 fresh n).
Proof. exact walk_history_independent. Qed.
Print Assumptions C14_walk_history_independent.

(* ... and that answer is the reference value [eval] of the root, which does not mention the walker (so: never a
   KeyError, never a stale entry), and the stack is empty again afterwards, also when the call raised *)
Theorem C14_walk_is_reference_value :
  forall (R : Type) (children : N -> list N) (f : N -> list R -> option R),
    (forall n c, In c (children n) -> c < n) ->
    forall (cs : list (Dag.call R)) (n : N) (fuel : nat),
      Forall (fun c => fst (fst c) = f) cs ->
      Forall (fun r => r <> RNoFuel) (results R children false fresh cs) ->
      snd (walk R children f false fuel (run_calls R children false fresh cs) n) <> RNoFuel ->
      snd (walk R children f false fuel (run_calls R children false fresh cs) n)
        = to_result R (eval R children f (K n) n) /\
      stack R (fst (walk R children f false fuel (run_calls R children false fresh cs) n)) = [].
Proof. exact walk_is_eval. Qed.
Print Assumptions C14_walk_is_reference_value.

Theorem C14_walk_terminates :
  forall (R : Type) (children : N -> list N) (f : N -> list R -> option R),
    (forall n c, In c (children n) -> c < n) ->
    forall (cs : list (Dag.call R)) (n : N),
      Forall (fun c => fst (fst c) = f) cs ->
      Forall (fun r => r <> RNoFuel) (results R children false fresh cs) ->
      exists fuel, snd (walk R children f false fuel (run_calls R children false fresh cs) n) <> RNoFuel.
Proof. exact history_walk_terminates. Qed.
Print Assumptions C14_walk_terminates.

(* walkers with a one-time cache (Substituter, ExpressionQuantifiersRemover, QuantifierSimplifier, StateEvaluator,
   Dnf): every call may use a DIFFERENT node function (its substitution map, its state) and may raise anywhere; the
   walker is back in its fresh state after every call, so the next call -- result AND resulting state -- is the call on
   a fresh walker *)
Theorem C14_one_time_cache_history_independent :
  forall (R : Type) (children : N -> list N) (cs : list (Dag.call R)) (c : Dag.call R),
    Forall (fun r => r <> RNoFuel) (results R children true fresh cs) ->
    run_call R children true (run_calls R children true fresh cs) c = run_call R children true fresh c.
Proof. exact inval_history_independent. Qed.
Print Assumptions C14_one_time_cache_history_independent.

Theorem C14_one_time_cache_is_fresh_after_every_call :
  forall (R : Type) (children : N -> list N) (cs : list (Dag.call R)),
    Forall (fun r => r <> RNoFuel) (results R children true fresh cs) ->
    run_calls R children true fresh cs = fresh.
Proof. exact inval_history_fresh. Qed.
Print Assumptions C14_one_time_cache_is_fresh_after_every_call.

(* StateEvaluator.evaluate / QuantifierSimplifier.qsimplify: after any history of evaluations, failed ones included
   (missing fluent value ...), the next one answers like a fresh evaluator and never with the AssertionError of
   `assert self._variable_assignments is None` *)
Theorem C14_evaluator_history_independent :
  forall (R : Type) (children : N -> list N) (cs : list (ev_call R)) (c : ev_call R),
    Forall (fun r => r <> EvRes RNoFuel) (ev_results R children fresh_evaluator cs) ->
    ev_step R children (ev_run R children fresh_evaluator cs) c = ev_step R children fresh_evaluator c /\
    snd (ev_step R children (ev_run R children fresh_evaluator cs) c) <> EvAssert.
Proof. exact evaluator_history_independent. Qed.
Print Assumptions C14_evaluator_history_independent.

(* the expression manager (model of C16): the verdict (accepted / which exception) of create_node on a content whose
   children exist is the same after ANY history of constructor calls, failed ones included, as before it: a
   construction that failed its type check leaves nothing that changes a later verdict *)
Theorem C14_create_node_history_independent :
  forall (D : decls) (st : state) (ks : list HashCons.call) (c : content),
    Inv2 D st -> (forall j, In j (snd (fst c)) -> has_id st j) ->
    verdict_of (create_node (typecheck D) (run (typecheck D) (arity D) st ks) c)
    = verdict_of (create_node (typecheck D) st c).
Proof. exact create_node_history_independent. Qed.
Print Assumptions C14_create_node_history_independent.

Theorem C14_manager_invariant :
  forall (D : decls) (ks : list HashCons.call), Inv2 D (run (typecheck D) (arity D) (init (typecheck D)) ks).
Proof. intros D ks. exact (run_inv2 D ks _ (init_inv2 D)). Qed.
Print Assumptions C14_manager_invariant.

(* ---- non-vacuity: node 5 = op(4, 3), 3 = op(1, 2), 7 = op(6); the node function raises at node 2.
   First call: walk 5 raises at 2 with (True, 5) and (True, 3)... pending; second call: the unrelated node 7. ---- *)
Definition exch (n : N) : list N := match n with 5 => [4; 3] | 3 => [1; 2] | 7 => [6] | _ => [] end.
Definition exf (n : N) (args : list N) : option N := if n =? 2 then None else Some (n + fold_right N.add 0 args).

Example C14_nonvacuous :
  let cs := [(exf, 5, 50%nat); (exf, 7, 50%nat); (exf, 4, 50%nat)] in
  results N exch false fresh cs = [RFail (FailAt 2); ROk 13; ROk 4]
  /\ snd (walk N exch exf false 50 (run_calls N exch false fresh cs) 3) = RFail (FailAt 2)
  /\ snd (walk N exch exf false 50 fresh 3) = RFail (FailAt 2)
  /\ stack N (run_calls N exch false fresh cs) = []
  /\ length (memo N (run_calls N exch false fresh cs)) = 3%nat
  /\ (forall n c, In c (exch n) -> c < n).
Proof.
  cbv zeta. repeat split; try (vm_compute; reflexivity).
  intros n c. unfold exch.
  destruct n as [|p]; [intros []|].
  destruct p as [[[|[]|]|[[]|[]|]|]|[[]|[]|]|]; simpl; intros H; try contradiction;
    repeat (destruct H as [<-|H]; [reflexivity|]); try contradiction.
Qed.

Example C14_one_time_nonvacuous :
  let cs := [(exf, 5, 50%nat); (exf, 7, 50%nat)] in
  results N exch true fresh cs = [RFail (FailAt 2); ROk 13] /\ run_calls N exch true fresh cs = fresh.
Proof. cbv zeta. split; vm_compute; reflexivity. Qed.
