(* C07 (compiler completeness), Layer A, part file: NegativeConditionsRemover at plan level.
   The compiled problem keeps action names and parameters: the compiled plan that maps back to an original plan is the
   plan itself.  From the verdict equation of Props/C06_ncr.v (same hypotheses, explained there): every valid plan of
   the original problem is a valid plan of the compiled problem run from the related state (negation fluents hold the
   complements: [neg_rel], what the compiler's initial values establish). *)
From Coq Require Import List ZArith NArith QArith Qcanon Bool.
Import ListNotations.
Require Import UPV.Core.Expr UPV.Core.Eval UPV.Core.Interp UPV.Planning.Problem UPV.Planning.Sem.
Require Import UPV.Compilers.LayerA_Defs UPV.Compilers.LayerA_Quant UPV.Compilers.LayerA_Neg.
Require Import UPV.Proofs.LayerA_Neg_proofs.

Theorem C07_LA_ncr_complete :
  forall (nmap : list (N * N)) (rw smp : expr -> expr) (P : problem),
    nmap_ok nmap P = true -> problem_clean nmap P = true -> ncr_safe nmap P = true -> rw_ok nmap rw P -> smp_exact smp ->
  forall (s s' : state) (pi : list (N * list value)), neg_rel nmap s s' ->
    valid_plan false P s pi = true -> valid_plan false (neg_compile nmap rw smp P) s' pi = true.
Proof. exact neg_complete_safe. Qed.
Print Assumptions C07_LA_ncr_complete.

(* [ncr_safe] weakened to Boolean constants + one value per ground negated fluent *)
Theorem C07_LA_ncr_complete_one_value :
  forall (nmap : list (N * N)) (rw smp : expr -> expr) (P : problem),
    nmap_ok nmap P = true -> problem_clean nmap P = true -> ncr_const nmap P = true -> one_value nmap P ->
    rw_ok nmap rw P -> smp_exact smp ->
  forall (s s' : state) (pi : list (N * list value)), neg_rel nmap s s' ->
    valid_plan false P s pi = true -> valid_plan false (neg_compile nmap rw smp P) s' pi = true.
Proof. exact neg_complete. Qed.
Print Assumptions C07_LA_ncr_complete_one_value.

(* the compiled run visits related states: no original plan is lost AND none is gained *)
Theorem C07_LA_ncr_same_plans :
  forall (nmap : list (N * N)) (rw smp : expr -> expr) (P : problem),
    nmap_ok nmap P = true -> problem_clean nmap P = true -> ncr_safe nmap P = true -> rw_ok nmap rw P -> smp_exact smp ->
  forall (s s' : state) (pi : list (N * list value)), neg_rel nmap s s' ->
    (valid_plan false P s pi = true <-> valid_plan false (neg_compile nmap rw smp P) s' pi = true).
Proof. exact neg_same_plans_safe. Qed.
Print Assumptions C07_LA_ncr_same_plans.

Example C07_LA_ncr_complete_nonvacuous :
  nmap_ok NegEx.nm NegEx.Pe = true /\ problem_clean NegEx.nm NegEx.Pe = true /\ ncr_safe NegEx.nm NegEx.Pe = true /\
  rw_ok NegEx.nm (nrw (ng NegEx.nm)) NegEx.Pe /\ smp_exact NegEx.idf /\ neg_rel NegEx.nm NegEx.se NegEx.se' /\
  valid_plan false NegEx.Pe NegEx.se NegEx.plan = true /\
  valid_plan false NegEx.Pe' NegEx.se' NegEx.plan = true /\
  (* the negation fluent matters: from the unrelated state (not_door false) the compiled problem rejects the plan *)
  valid_plan false NegEx.Pe' NegEx.se NegEx.plan = false.
Proof.
  split; [vm_compute; reflexivity|]. split; [vm_compute; reflexivity|]. split; [vm_compute; reflexivity|].
  split; [exact NegEx.rwok|]. split; [exact NegEx.smpok|]. split; [exact NegEx.rel|].
  repeat split; vm_compute; reflexivity.
Qed.
