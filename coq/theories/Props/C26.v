(* C26 — Time-triggered and STN plan conversions are faithful.
   Only statements; each is closed by [exact] of a lemma from Proofs/StnPlan_proofs.v (which uses C25's
   Proofs/Stn_proofs.v and Stn_termination.v for "consistent as reported by the DeltaSTN").

   Vocabulary (Planning/StnPlan.v, the model of time_triggered_plan._convert_to_stn and stn_plan.STNPlan):
   [step] = one (start, action instance, duration) of the plan reduced to its timings; [mock_step effs conds] = the
   mockup action carrying the problem's timed effects / timed goals; [plan_events eps mock plan] = the events (start,
   end and intermediate timings of every step, shifted by eps at open interval bounds) sorted by time;
   [edges] = the adjacency list of the partial-order plan obtained by deordering the sequentialised events, as pairs
   of positions in that sorted list: ANY list, the theorems only require its pairs to point forward;
   [conv_constraints] = the constraints handed to STNPlan(...); [init_adds] = the DeltaSTN.add calls made by
   STNPlan.__init__; [convert_to_stn fuel ...] = the resulting DeltaSTN (None = the model of _inc_check ran out of
   fuel; C25_terminates: never with [enough_fuel]); [check_stn] = STNPlan.is_consistent(); [plan_constraints s] = what
   STNPlan.get_constraints() reports; [sat_pcon t (a, L, U, b)] = L <= t b - t a <= U; [orig_time plan] = the ORIGINAL
   times (GLOBAL_START 0, GLOBAL_END the makespan, START/END of step k its start / start + duration).

   Hypotheses, all decidable and evaluated by the harness on every generated case:
   [times_nonneg plan]  start times and durations are not negative;
   [gap_ok eps evs]     eps is at most the gap between two consecutive DIFFERENT event times;
   [edges_forward n E]  every edge goes from an earlier to a later position of the sorted event list. *)
From Coq Require Import List ZArith NArith QArith Bool.
Import ListNotations.
Require Import UPV.Model.Stn UPV.Proofs.Stn_proofs UPV.Proofs.Stn_termination.
Require Import UPV.Planning.StnPlan UPV.Proofs.StnPlan_proofs UPV.Proofs.StnPlan_eps.

(* (1) the abstract conversion lemma: for EVERY list of events sorted by time (each event = start of its generating
   step + its skew) and EVERY forward edge list, the original start times and durations satisfy all generated
   constraints: simultaneous events => equality, otherwise lower bound skew + eps, durations [d, d], 0 <= start *)
Theorem C26_stn_of_events_satisfied :
  forall eps effs conds plan evs edges,
    times_nonneg plan = true ->
    (forall e, In e evs -> ev_wf (mock_step effs conds :: plan) e) ->
    sorted_by_time evs = true -> gap_ok eps evs = true -> edges_forward (length evs) edges = true ->
    forall c, In c (flatten (add_edges eps evs edges (base_constraints 0 (mock_step effs conds :: plan) []))) ->
      sat_pcon (orig_time plan) c.
Proof. exact stn_of_events_satisfied. Qed.
Print Assumptions C26_stn_of_events_satisfied.

(* (1') for the event list computed by the model of _convert_to_stn (its sortedness and the event/generator relation
   are proved, not assumed) *)
Theorem C26_original_times_satisfy_conversion :
  forall eps effs conds plan edges,
    times_nonneg plan = true ->
    gap_ok eps (plan_events eps (mock_step effs conds) plan) = true ->
    edges_forward (length (plan_events eps (mock_step effs conds) plan)) edges = true ->
    forall c, In c (flatten (conv_constraints eps (mock_step effs conds) plan edges)) -> sat_pcon (orig_time plan) c.
Proof. exact conv_constraints_satisfied. Qed.
Print Assumptions C26_original_times_satisfy_conversion.

(* (2) a constraint set with a solution is reported consistent by the DeltaSTN built by STNPlan.__init__ (C25) *)
Theorem C26_satisfies_implies_consistent :
  forall fuel cs t s, solution t (init_adds cs) -> stn_plan_init fuel cs = Some s -> check_stn s = true.
Proof. exact satisfies_implies_consistent. Qed.
Print Assumptions C26_satisfies_implies_consistent.

(* the constraints of an STN plan are satisfied exactly by the solutions of its DeltaSTN insertions that keep every
   node between GLOBAL_START and GLOBAL_END *)
Theorem C26_plan_constraints_vs_insertions :
  forall t cs,
    ((forall n, node_ok t n) -> (forall c, In c cs -> sat_pcon t c) -> solution t (init_adds cs)) /\
    (solution t (init_adds cs) -> forall c, In c cs -> sat_pcon t c).
Proof. intros t cs. split; [apply init_adds_solution | apply init_adds_sat]. Qed.
Print Assumptions C26_plan_constraints_vs_insertions.

(* (3) whatever STNPlan.get_constraints() reports is implied by the inserted constraints *)
Theorem C26_reported_constraints_satisfied :
  forall fuel cs s t, stn_plan_init fuel cs = Some s -> check_stn s = true -> solution t (init_adds cs) ->
    forall c, In c (flatten (plan_constraints s)) -> sat_pcon t c.
Proof. intros fuel cs s t H. exact (reported_constraints_sat t s _ (stn_plan_init_inv _ _ _ H)). Qed.
Print Assumptions C26_reported_constraints_satisfied.

(* (4) THE FORWARD DIRECTION: the STN plan obtained from a time-triggered plan exists (no fuel problem), is consistent,
   and the original times satisfy the constraints it was built from, the DeltaSTN insertions, and the constraints it
   reports *)
Theorem C26_forward_conversion :
  forall eps effs conds plan edges,
    times_nonneg plan = true ->
    gap_ok eps (plan_events eps (mock_step effs conds) plan) = true ->
    edges_forward (length (plan_events eps (mock_step effs conds) plan)) edges = true ->
    let cs := flatten (conv_constraints eps (mock_step effs conds) plan edges) in
    (forall c, In c cs -> sat_pcon (orig_time plan) c) /\
    solution (orig_time plan) (init_adds cs) /\
    (exists s, convert_to_stn (enough_fuel (init_adds cs)) eps (mock_step effs conds) plan edges = Some s) /\
    (forall fuel s, convert_to_stn fuel eps (mock_step effs conds) plan edges = Some s ->
       check_stn s = true /\ forall c, In c (flatten (plan_constraints s)) -> sat_pcon (orig_time plan) c).
Proof. exact forward_conversion. Qed.
Print Assumptions C26_forward_conversion.

(* (5) the times read by the back conversion (minus the DeltaSTN distances) satisfy every constraint of the STN plan,
   are non-negative and pointwise least among the non-negative solutions *)
Theorem C26_back_times_least_solution :
  forall fuel cs s, stn_plan_init fuel cs = Some s -> check_stn s = true ->
    (forall c, In c cs -> sat_pcon (model_of s) c) /\ nonneg (model_of s) /\
    (forall t, nonneg t -> solution t (init_adds cs) -> forall x, model_of s x <= t x).
Proof. exact back_times_solve. Qed.
Print Assumptions C26_back_times_least_solution.

(* (6) the gap hypothesis is a THEOREM for the epsilon that _convert_to_stn chooses when problem.epsilon is None
   (a tenth of plan.extract_epsilon(problem), at most 1/1000): every event time is a member of the time set of
   extract_epsilon shifted by 0, +eps or -eps, and different members are at least 10 eps apart.
   [mock_end_ok]: timed effects / goals anchored at GLOBAL_END have a delay <= 0. *)
Theorem C26_default_epsilon_gap_ok :
  forall effs conds plan xe,
    mock_end_ok (mock_step effs conds) = true ->
    extract_epsilon (mock_step effs conds) plan = Some xe ->
    gap_ok (choose_eps None (Some xe)) (plan_events (choose_eps None (Some xe)) (mock_step effs conds) plan) = true.
Proof. exact default_eps_gap_ok. Qed.
Print Assumptions C26_default_epsilon_gap_ok.

(* ... and when extract_epsilon answers None (every time of the plan is 0), for epsilon = 1/1000 *)
Theorem C26_default_epsilon_gap_ok_all_zero :
  forall effs conds plan,
    mock_end_ok (mock_step effs conds) = true ->
    extract_epsilon (mock_step effs conds) plan = None ->
    (forall q, In q (0 :: mock_delays (mock_step effs conds) ++ flat_map step_times plan) -> 0 <= q) ->
    gap_ok (choose_eps None None) (plan_events (choose_eps None None) (mock_step effs conds) plan) = true.
Proof. exact default_eps_gap_ok_none. Qed.
Print Assumptions C26_default_epsilon_gap_ok_all_zero.

(* (7) THE FORWARD DIRECTION FOR THE DEFAULT EPSILON: no hypothesis about epsilon left *)
Theorem C26_forward_conversion_default_epsilon :
  forall effs conds plan edges xe,
    mock_end_ok (mock_step effs conds) = true ->
    extract_epsilon (mock_step effs conds) plan = Some xe ->
    times_nonneg plan = true ->
    let eps := choose_eps None (Some xe) in
    edges_forward (length (plan_events eps (mock_step effs conds) plan)) edges = true ->
    let cs := flatten (conv_constraints eps (mock_step effs conds) plan edges) in
    (forall c, In c cs -> sat_pcon (orig_time plan) c) /\
    solution (orig_time plan) (init_adds cs) /\
    (exists s, convert_to_stn (enough_fuel (init_adds cs)) eps (mock_step effs conds) plan edges = Some s) /\
    (forall fuel s, convert_to_stn fuel eps (mock_step effs conds) plan edges = Some s ->
       check_stn s = true /\ forall c, In c (flatten (plan_constraints s)) -> sat_pcon (orig_time plan) c).
Proof. exact forward_conversion_default_eps. Qed.
Print Assumptions C26_forward_conversion_default_epsilon.

(* THE FULL PROPERTY, for a notion [valid] of plan validity (the reference temporal semantics tt_valid of C05 for a
   fixed problem) and the edges [deorder plan] produced by the deordering: the STN plan is consistent, the original
   times satisfy its constraints, and the re-timed plan is still valid.  The last conjunct is NOT proved: it is
   validated case by case (Coq's tt_valid_b and the real TimeTriggeredPlanValidator on the implementation's
   back-converted plan), and it is false for the current code on the input shapes recorded as open findings
   (notes/C26.md). *)
Definition C26_roundtrip_goal (valid : list step -> Prop) (deorder : list step -> list (nat * nat)) : Prop :=
  forall eps effs conds plan fuel s,
    valid plan ->
    times_nonneg plan = true ->
    gap_ok eps (plan_events eps (mock_step effs conds) plan) = true ->
    edges_forward (length (plan_events eps (mock_step effs conds) plan)) (deorder plan) = true ->
    convert_to_stn fuel eps (mock_step effs conds) plan (deorder plan) = Some s ->
    check_stn s = true /\
    (forall c, In c (flatten (plan_constraints s)) -> sat_pcon (orig_time plan) c) /\
    valid (retime s plan).

(* the proved part: everything but [valid (retime s plan)]; about the re-timed plan it is proved that its times solve
   the STN plan's constraints and are the least non-negative ones *)
Theorem C26_roundtrip_partial :
  forall (deorder : list step -> list (nat * nat)) eps effs conds plan fuel s,
    times_nonneg plan = true ->
    gap_ok eps (plan_events eps (mock_step effs conds) plan) = true ->
    edges_forward (length (plan_events eps (mock_step effs conds) plan)) (deorder plan) = true ->
    convert_to_stn fuel eps (mock_step effs conds) plan (deorder plan) = Some s ->
    check_stn s = true /\
    (forall c, In c (flatten (plan_constraints s)) -> sat_pcon (orig_time plan) c) /\
    (forall c, In c (flatten (conv_constraints eps (mock_step effs conds) plan (deorder plan))) -> sat_pcon (model_of s) c) /\
    nonneg (model_of s) /\
    (forall x, model_of s x <= orig_time plan x).
Proof. exact roundtrip_partial. Qed.
Print Assumptions C26_roundtrip_partial.

(* An explicit problem.epsilon E that the plan respects in the library's own sense (extract_epsilon >= E, the test of
   correct_plan_generation_result) does NOT imply the gap hypothesis: the auxiliary event of an open interval bound sits
   at bound +/- E and may be closer than E to a real event.  The statement one would like ... *)
Definition C26_conformant_epsilon_goal : Prop :=
  forall E xe effs conds plan edges,
    extract_epsilon (mock_step effs conds) plan = Some xe -> E <= xe -> 0 < E ->
    times_nonneg plan = true ->
    edges_forward (length (plan_events E (mock_step effs conds) plan)) edges = true ->
    forall c, In c (flatten (conv_constraints E (mock_step effs conds) plan edges)) -> sat_pcon (orig_time plan) c.

(* ... is false of the faithful model (open finding C26-explicit-epsilon-open-interval; witness found by the harness,
   where the implementation agrees with the model): E = 1/4; B at 0 makes x true; A at 1 for 4 needs x over
   (start, end]; C at 1 + 7/16 reads and writes x.  Events: B, A.start + E = 5/4, C = 23/16, A.end; the deordering
   orders them in a chain; the generated bound  C - A.start >= E + E = 1/2  is violated by 7/16. *)
Theorem C26_conformant_epsilon_refuted : ~ C26_conformant_epsilon_goal.
Proof. exact conformant_epsilon_refuted. Qed.
Print Assumptions C26_conformant_epsilon_refuted.

(* non-vacuity: a durative step with a left-open condition over (start, end] and an effect at its end, an
   instantaneous step simultaneous with that end, a later instantaneous step, a timed effect at 1; edges including a
   pair of simultaneous events *)
Example C26_nonvacuous :
  let eps := 1 # 1000 in
  let effs := [ {| tg_anchor := FromStart; tg_delay := 1 |} ] in
  let a := {| st_start := 0; st_dur := Some 2;
              st_effs := [ {| tg_anchor := FromEnd; tg_delay := 0 |} ];
              st_conds := [ {| iv_lo := {| tg_anchor := FromStart; tg_delay := 0 |};
                               iv_hi := {| tg_anchor := FromEnd; tg_delay := 0 |}; iv_lopen := true; iv_ropen := false |} ]; st_dyn := false |} in
  let b := {| st_start := 2; st_dur := None; st_effs := []; st_conds := []; st_dyn := false |} in
  let c := {| st_start := 3; st_dur := None; st_effs := []; st_conds := []; st_dyn := false |} in
  let plan := [a; b; c] in
  let edges := [(0, 1); (1, 2); (2, 3); (3, 4)]%nat in
  times_nonneg plan = true /\
  length (plan_events eps (mock_step effs []) plan) = 5%nat /\
  gap_ok eps (plan_events eps (mock_step effs []) plan) = true /\
  edges_forward 5 edges = true /\
  exists s, convert_to_stn 100 eps (mock_step effs []) plan edges = Some s /\ check_stn s = true /\
            length (flatten (plan_constraints s)) = 12%nat.
Proof.
  cbv zeta. split; [reflexivity|]. split; [vm_compute; reflexivity|]. split; [vm_compute; reflexivity|].
  split; [reflexivity|]. eexists. split; [vm_compute; reflexivity|]. split; vm_compute; reflexivity.
Qed.

(* non-vacuity of the default-epsilon theorems: the same plan with a timed goal up to GLOBAL_END; extract_epsilon = 1,
   epsilon = 1/1000 *)
Example C26_default_epsilon_nonvacuous :
  let effs := [ {| tg_anchor := FromStart; tg_delay := 1 |} ] in
  let conds := [ {| iv_lo := {| tg_anchor := FromStart; tg_delay := 2 |}; iv_hi := {| tg_anchor := FromEnd; tg_delay := 0 |};
                    iv_lopen := true; iv_ropen := false |} ] in
  let a := {| st_start := 0; st_dur := Some 2;
              st_effs := [ {| tg_anchor := FromEnd; tg_delay := 0 |} ];
              st_conds := [ {| iv_lo := {| tg_anchor := FromStart; tg_delay := 0 |};
                               iv_hi := {| tg_anchor := FromEnd; tg_delay := 0 |}; iv_lopen := true; iv_ropen := false |} ];
              st_dyn := true |} in
  let b := {| st_start := 2; st_dur := None; st_effs := []; st_conds := []; st_dyn := false |} in
  let plan := [a; b] in
  mock_end_ok (mock_step effs conds) = true /\
  extract_epsilon (mock_step effs conds) plan = Some 1 /\
  Qeq_bool (choose_eps None (Some 1)) (1 # 1000) = true /\
  times_nonneg plan = true /\
  length (plan_events (choose_eps None (Some 1)) (mock_step effs conds) plan) = 6%nat.
Proof. cbv zeta. repeat split; vm_compute; reflexivity. Qed.

(* the gap hypothesis is a real restriction: with eps = 1 the same events are too close *)
Example C26_gap_hypothesis_can_fail :
  gap_ok 1 [ {| e_time := 0; e_gen := 1; e_skew := 0 |}; {| e_time := 1 # 2; e_gen := 2; e_skew := 0 |} ] = false.
Proof. reflexivity. Qed.
