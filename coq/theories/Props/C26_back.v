(* C26, part "back": the conversion STN plan -> time-triggered plan (STNPlan.__init__ + _convert_to_time_triggered).
   Only statements; each is closed by [exact] of a lemma from Proofs/StnBack_proofs.v (which uses C25's theorems about
   the DeltaSTN: Proofs/Stn_proofs.v, Stn_termination.v, and the forward direction Proofs/StnPlan_proofs.v).

   Vocabulary (Planning/StnBack.v, Planning/StnPlan.v, Model/Stn.v):
   a constraint [(a, L, U, b) : pcon] of an STN plan means  L <= time b - time a <= U  (None = no bound); nodes are
   0 = GLOBAL_START, 1 = GLOBAL_END, [snode k] = 2+2k = START of action instance k, [enode k] = 3+2k = its END;
   [back_init fuel cs] = the DeltaSTN built by STNPlan(cs), call by call (None = the model of _inc_check ran out of
   fuel; never with [enough_fuel (init_adds cs)]: C26_back_init_terminates); [check_stn s] = is_consistent();
   [back_convert s] = _convert_to_time_triggered: [BackPlan p] = TimeTriggeredPlan(p) with p the list of
   (start, action instance, duration) in order, [BackError] = an exception (AssertionError / TypeError);
   [model_of s] = the earliest schedule (C25: least non-negative solution); [tt_time p ge n] = the time of node n read
   back from the time-triggered plan p (GLOBAL_START 0, GLOBAL_END ge, START = start, END = start + duration);
   [sat_pcon t c] = the time assignment t satisfies c; [init_adds cs] = the difference constraints inserted in the
   DeltaSTN (those of cs and GLOBAL_START <= node <= GLOBAL_END for every node); [init_node cs n] = n is a global node
   or occurs in cs; [mentioned n cs] = n occurs in cs.

   Hypotheses:
   [check_stn s = true]        the STN plan is consistent;
   [starts_present cs = true]  whenever the END of an action instance occurs in a constraint, so does its START
                               (otherwise the implementation raises: C26_back_end_without_start_raises);
   [dur_nonneg_in k cs]        cs contains a constraint START k -> END k with a lower bound >= 0. *)
From Coq Require Import List ZArith NArith QArith Bool.
Import ListNotations.
Require Import UPV.Model.Stn UPV.Proofs.Stn_proofs UPV.Proofs.Stn_termination.
Require Import UPV.Planning.StnPlan UPV.Proofs.StnPlan_proofs UPV.Planning.StnBack UPV.Proofs.StnBack_proofs.

(* (0) STNPlan(cs) always exists in the model (no fuel problem), and its consistency flag is exact (C25) *)
Theorem C26_back_init_terminates :
  forall cs, exists s, back_init (enough_fuel (init_adds cs)) cs = Some s.
Proof. exact back_init_terminates. Qed.
Print Assumptions C26_back_init_terminates.

Theorem C26_back_consistent_iff_solvable :
  forall fuel cs s, back_init fuel cs = Some s -> (check_stn s = true <-> solvable (init_adds cs)).
Proof. exact back_init_consistent_iff. Qed.
Print Assumptions C26_back_consistent_iff_solvable.

(* the calls of STNPlan.__init__ that are not DeltaSTN.add (insert_interval with both bounds None) change nothing while
   the network is consistent: the model of the forward direction (StnPlan.stn_plan_init) builds the same network *)
Theorem C26_back_init_agrees_with_forward_model :
  forall fuel cs s, check_stn s = true -> (back_init fuel cs = Some s <-> stn_plan_init fuel cs = Some s).
Proof. intros fuel cs s Hs. split; intros H; [eapply back_init_sat_eq | eapply back_init_of_plan_init]; eauto. Qed.
Print Assumptions C26_back_init_agrees_with_forward_model.

(* (1) THE BACK DIRECTION.  For every consistent STN plan (every END with its START) the conversion returns a
   time-triggered plan; it is sorted by start, has exactly one entry for each action instance whose START occurs in the
   STN plan; start times are the earliest times (>= 0), the duration is None exactly when the END node occurs in no
   constraint and otherwise END - START of the earliest schedule; the times read back from the plan satisfy EVERY
   constraint of the STN plan; durations are >= 0 for the action instances the STN plan constrains that way; and the
   plan is the earliest one: below every non-negative solution, node by node. *)
Theorem C26_back_times_satisfy_stn :
  forall fuel cs s,
    back_init fuel cs = Some s -> check_stn s = true -> starts_present cs = true ->
    exists plan,
      back_convert s = BackPlan plan /\
      sorted_by_start plan /\
      NoDup (map step_of plan) /\
      (forall k, In k (map step_of plan) <-> mentioned (snode k) cs = true) /\
      (forall st k du, In (st, k, du) plan ->
         st == model_of s (snode k) /\ 0 <= st /\
         match du with
         | Some d => mentioned (enode k) cs = true /\ d == model_of s (enode k) - st
         | None => mentioned (enode k) cs = false
         end) /\
      (forall n, init_node cs n -> tt_time plan (model_of s end_plan) n == model_of s n) /\
      (forall c, In c cs -> sat_pcon (tt_time plan (model_of s end_plan)) c) /\
      (forall st k d, In (st, k, Some d) plan -> dur_nonneg_in k cs -> 0 <= d) /\
      (forall t, nonneg t -> solution t (init_adds cs) ->
         forall n, init_node cs n -> tt_time plan (model_of s end_plan) n <= t n).
Proof.
  intros fuel cs s Hb Hs Hsp. destruct (back_times_satisfy_stn fuel cs s Hb Hs Hsp) as (plan & H1 & [F1 F2 F3 F4 F5] & H3 & H4 & H5).
  exists plan. repeat (split; [assumption|]). assumption.
Qed.
Print Assumptions C26_back_times_satisfy_stn.

(* side conditions are real: without a START -> END lower bound the duration can be negative (the code returns
   TimeTriggeredPlan([(5, a, -5)]) for  GLOBAL_START + 5 <= a.start, GLOBAL_START <= a.end) ... *)
Theorem C26_back_negative_duration_possible :
  exists s, back_init 100 wit_negative = Some s /\ check_stn s = true /\ starts_present wit_negative = true /\
            back_convert s = BackPlan [ (5, 0%N, Some (- (5))) ].
Proof. exact negative_duration_possible. Qed.
Print Assumptions C26_back_negative_duration_possible.

(* ... and an END node without its START node makes the conversion raise *)
Theorem C26_back_end_without_start_raises :
  exists s, back_init 100 [ (0%N, Some 5, None, 3%N) ] = Some s /\ check_stn s = true /\ back_convert s = BackError.
Proof. exact end_without_start_raises. Qed.
Print Assumptions C26_back_end_without_start_raises.

(* (2) INCONSISTENT STN PLANS.  The statement one would like: an inconsistent STN plan is rejected. *)
Definition C26_back_inconsistent_rejected_goal : Prop :=
  forall fuel cs s, back_init fuel cs = Some s -> check_stn s = false -> back_convert s = BackError.

(* It is FALSE of the code as it is: _convert_to_time_triggered never looks at is_consistent() and reads whatever
   distances the DeltaSTN held when it detected the negative cycle.  Witness (the real code returns the same plan):
   a.start + 1 <= b.start, b.start + 1 <= a.start, b.end = b.start + 3  ->  TimeTriggeredPlan([(2, a, None), (3, b, None)])
   (b even loses its duration: constraints after the inconsistency are not recorded). *)
Theorem C26_back_inconsistent_rejected_refuted : ~ C26_back_inconsistent_rejected_goal.
Proof.
  intros G. destruct inconsistent_rejected_refuted as (cs & s & plan & H1 & H2 & H3 & _).
  rewrite (G _ _ _ H1 H2) in H3. discriminate.
Qed.
Print Assumptions C26_back_inconsistent_rejected_refuted.

(* what does hold: an inconsistent STN plan has NO schedule, so whatever plan comes out violates a constraint (for
   every time assignment that keeps the nodes between GLOBAL_START and GLOBAL_END) *)
Theorem C26_back_inconsistent_no_schedule :
  forall fuel cs s, back_init fuel cs = Some s -> check_stn s = false ->
    forall t, (forall n, node_ok t n) -> ~ (forall c, In c cs -> sat_pcon t c).
Proof. exact back_inconsistent_no_schedule. Qed.
Print Assumptions C26_back_inconsistent_no_schedule.

(* (3) BACK AFTER FORWARD.  For a time-triggered plan satisfying the hypotheses of the forward theorem
   (C26_forward_conversion: non-negative times, eps at most the gap between different event times, forward edges), the
   STN plan produced by the forward conversion is consistent, STNPlan.__init__ builds the same network in both models,
   and converting it back returns a time-triggered plan that is sorted by start, has the SAME action instances (one entry
   per position of the original plan, duration None exactly for the instantaneous steps, otherwise the original duration),
   whose times satisfy EVERY constraint the forward conversion generated (orderings, epsilon gaps, simultaneity,
   durations), with every start >= 0 and not later than in the original plan (earliest schedule). *)
Theorem C26_back_forward_roundtrip_partial :
  forall eps effs conds plan edges fuel s,
    times_nonneg plan = true ->
    gap_ok eps (plan_events eps (mock_step effs conds) plan) = true ->
    edges_forward (length (plan_events eps (mock_step effs conds) plan)) edges = true ->
    convert_to_stn fuel eps (mock_step effs conds) plan edges = Some s ->
    let cs := flatten (conv_constraints eps (mock_step effs conds) plan edges) in
    check_stn s = true /\ back_init fuel cs = Some s /\
    exists bp, back_convert s = BackPlan bp /\ sorted_by_start bp /\ same_instances plan bp /\
      (forall c, In c cs -> sat_pcon (tt_time bp (model_of s end_plan)) c) /\
      (forall st k du, In (st, k, du) bp -> 0 <= st /\ st <= orig_time plan (snode k)).
Proof. exact back_forward_roundtrip. Qed.
Print Assumptions C26_back_forward_roundtrip_partial.

(* (4) the plan converted back IS [retime s plan] of Props/C26.v (position by position: same start and duration up
   to Qeq; retime keeps effects and conditions of the step), so the open part of C26_roundtrip_goal,
   [valid (retime s plan)], is exactly the validity of back(forward(plan)) *)
Theorem C26_back_forward_is_retime :
  forall eps effs conds plan edges fuel s bp,
    times_nonneg plan = true ->
    gap_ok eps (plan_events eps (mock_step effs conds) plan) = true ->
    edges_forward (length (plan_events eps (mock_step effs conds) plan)) edges = true ->
    convert_to_stn fuel eps (mock_step effs conds) plan edges = Some s ->
    back_convert s = BackPlan bp ->
    length bp = length plan /\
    forall st k du, In (st, k, du) bp ->
      exists stp', nth_error (retime s plan) (N.to_nat k) = Some stp' /\ st == st_start stp' /\
        match du, st_dur stp' with Some d, Some d' => d == d' | None, None => True | _, _ => False end.
Proof. exact back_forward_is_retime. Qed.
Print Assumptions C26_back_forward_is_retime.

(* THE SEMANTIC COROLLARY, not proved: validity (for a notion [valid] of plan validity, e.g. the reference temporal
   semantics tt_valid of C05 for a fixed problem) of the plan converted back, given validity of the original plan.
   It is FALSE for the current code on the shapes of the open finding C26-span-condition-several-fluents
   (notes/C26.md: a condition over an interval is only read at the interval's bounds, so the earliest schedule may move
   an effect inside the interval); it is validated case by case by harness/props/c26.py (real validator + tt_valid_b). *)
Definition C26_back_forward_valid_goal (valid : list step -> Prop) (deorder : list step -> list (nat * nat)) : Prop :=
  forall eps effs conds plan fuel s,
    valid plan ->
    times_nonneg plan = true ->
    gap_ok eps (plan_events eps (mock_step effs conds) plan) = true ->
    edges_forward (length (plan_events eps (mock_step effs conds) plan)) (deorder plan) = true ->
    convert_to_stn fuel eps (mock_step effs conds) plan (deorder plan) = Some s ->
    exists bp, back_convert s = BackPlan bp /\ valid (retime s plan).

(* non-vacuity of (1): two action instances, a durative one (0: [2, 2], END at most 7 after GLOBAL_START) and an
   instantaneous one (1) at least 1/2 after the END of the first and at least 3 after GLOBAL_START, an unbounded
   constraint; the plan is [(0, 0, 2); (3, 1, None)] *)
Definition C26_back_nonvacuous_cs : list pcon :=
  [ (2%N, Some 2, Some 2, 3%N); (3%N, Some (1 # 2), None, 4%N); (0%N, Some 3, None, 4%N);
    (0%N, None, Some 7, 3%N); (2%N, None, None, 4%N) ].
Example C26_back_nonvacuous :
  exists s, back_init 100 C26_back_nonvacuous_cs = Some s /\ check_stn s = true /\
            starts_present C26_back_nonvacuous_cs = true /\ dur_nonneg_in 0 C26_back_nonvacuous_cs /\
            back_convert s = BackPlan [ (0, 0%N, Some 2); (3, 1%N, None) ].
Proof.
  eexists. split; [vm_compute; reflexivity|]. split; [reflexivity|]. split; [reflexivity|].
  split; [exists 2, (Some 2); split; [left; reflexivity | discriminate]|]. vm_compute. reflexivity.
Qed.

(* non-vacuity of (3)/(4): the plan of C26_nonvacuous (a durative step with a left-open condition and an end effect, two
   instantaneous steps, a timed effect); the plan converted back has the three steps with durations 2 / None / None *)
Definition C26_back_rt_eps : Q := 1 # 1000.
Definition C26_back_rt_effs : list timing := [ {| tg_anchor := FromStart; tg_delay := 1 |} ].
Definition C26_back_rt_plan : list step :=
  [ {| st_start := 0; st_dur := Some 2;
       st_effs := [ {| tg_anchor := FromEnd; tg_delay := 0 |} ];
       st_conds := [ {| iv_lo := {| tg_anchor := FromStart; tg_delay := 0 |};
                        iv_hi := {| tg_anchor := FromEnd; tg_delay := 0 |}; iv_lopen := true; iv_ropen := false |} ]; st_dyn := false |};
    {| st_start := 2; st_dur := None; st_effs := []; st_conds := []; st_dyn := false |};
    {| st_start := 3; st_dur := None; st_effs := []; st_conds := []; st_dyn := false |} ].
Definition C26_back_rt_edges : list (nat * nat) := [(0, 1); (1, 2); (2, 3); (3, 4)]%nat.
Example C26_back_forward_nonvacuous :
  times_nonneg C26_back_rt_plan = true /\
  gap_ok C26_back_rt_eps (plan_events C26_back_rt_eps (mock_step C26_back_rt_effs []) C26_back_rt_plan) = true /\
  edges_forward (length (plan_events C26_back_rt_eps (mock_step C26_back_rt_effs []) C26_back_rt_plan)) C26_back_rt_edges = true /\
  exists s bp, convert_to_stn 100 C26_back_rt_eps (mock_step C26_back_rt_effs []) C26_back_rt_plan C26_back_rt_edges = Some s /\
               back_convert s = BackPlan bp /\ map step_of bp = [0%N; 1%N; 2%N] /\
               map (fun x => match snd x with Some _ => true | None => false end) bp = [true; false; false].
Proof.
  split; [reflexivity|]. split; [vm_compute; reflexivity|]. split; [vm_compute; reflexivity|].
  eexists. eexists. split; [vm_compute; reflexivity|]. split; [vm_compute; reflexivity|]. split; vm_compute; reflexivity.
Qed.
