(* C28, part `whole` - the COMPILER direction: a sequential plan valid for the compiled problem converts back into a
   time-triggered plan that the reference dense-time semantics [tt_valid] (Planning/Temporal.v) accepts for the
   ORIGINAL temporal problem.

   Models: [t2s_action] / [t2s_problem] (Compilers/T2SCompile.v) = TimedToSequential._compile, tied to the real
   compiler by Corr/Corr_C28_whole.v + harness/ext/c28_whole.py; [back_plan] = plan_back_conversion_callable over the
   records of Planning/Temporal.v; [valid_plan] (Planning/Sem.v) and [tt_valid] are the two proved-against validators.

   STATUS
   * [C28_whole_plan_goal]  : the full statement (Definition, NOT proved).  It carries three side conditions that the
     compiler's own supported_kind does not impose, each shown NECESSARY below by a concrete counterexample on the
     faithful model ([..._refuted]); the first two reproduce on the real code (new findings, see notes/C28_whole.md),
     the third is the recorded open finding F28-lifted-alias:
       - no bounded numeric fluent            ([C28_whole_bounded_types_refuted])
       - duration intervals non-empty         ([C28_whole_empty_duration_refuted])
       - no lifted aliasing inside an action  ([C28_whole_lifted_alias_refuted])
   * [C28_whole_plan_partial] : proved for ALL inputs - the parts of [tt_valid] that do not need the step-by-step
     simulation: the converted plan is well formed ([plan_wf], first conjunct of [tt_valid]), has the same action
     instances in the same order, its steps are chained with gap epsilon, pairwise disjoint and ordered (so the
     happenings of the temporal run are start_1, end_1, start_2, end_2, ...), and every chosen duration passes the
     reference duration test [dur_ok] in the state in which the compiled step is applied.
   * [C28_whole_step_no_start_effects], [C28_whole_plan_no_start_read] : proved for ALL inputs - the single-step
     simulation and the WHOLE-PLAN theorem (conclusion [tt_valid]) for the sub-fragment [no_start_fragment] (only
     durative actions, effects only at EndTiming() as unconditional assignments, plain compiler output).
   * missing for the goal (actions WITH start effects, instantaneous actions mixed in): (1) one compiled step from s = start effects then end effects of the durative action from s,
     with the over-all / end conditions true in the intermediate state (needs the semantic substitution lemma
     eval (substitute sigma c) I_s = eval c I_mid for lifted keys), (2) composing the per-step runs into [run_times]
     over [times_of (all_events ..)] using the ordering proved here, (3) goals in the final state. *)
From Coq Require Import List ZArith NArith QArith Qcanon Bool.
Import ListNotations.
Require Import UPV.Core.Expr UPV.Core.Eval UPV.Core.Interp UPV.Planning.Problem UPV.Planning.Sem.
Require Import UPV.Planning.Temporal UPV.Planning.TTValidate UPV.Walkers.Subst UPV.Compilers.T2SCompile.
Require Import UPV.Proofs.Step_proofs UPV.Proofs.Temporal_base UPV.Proofs.Temporal_proofs UPV.Proofs.T2SCompile_proofs.
Local Open Scope Qc_scope.

(* the simplifier preserves the value of every expression in every interpretation (C11 proves a refinement of this
   for the real simplifier under its side conditions; the identity satisfies it) *)
Definition smp_ok (sc : bool) (smp : expr -> expr) : Prop := forall e I, eval sc (smp e) I = eval sc e I.

(* [nonempty_along sc TP P' s pi]: along the compiled plan run from [s], every durative step's duration interval is
   non-empty in the state where the step is applied; [positive_durations tpl]: every chosen duration is > 0 (a durative
   action of duration 0 has its start and end effects at the same instant, applied jointly).
   Both are defined in Proofs/T2SCompile_proofs.v. *)

Definition C28_whole_plan_goal : Prop :=
  forall sc smp (TP : tproblem) (P' : problem) (eps : Qc) (s0 : state) (pi : list (N * list value)) (tpl : tplan),
    smp_ok sc smp ->
    t2s_fragment TP = true ->                                             (* supported_kind + rejections *)
    forallb (fun id => alias_free (snd id)) (tp_dur TP) = true ->         (* side condition 3 *)
    bound_invs (tp_base TP) = [] ->                                       (* side condition 1 *)
    t2s_problem smp TP = Some P' ->
    zq 0 < eps ->
    valid_plan sc P' s0 pi = true ->
    back_plan sc TP P' eps (zq 0) s0 pi = Some tpl ->
    nonempty_along sc TP P' s0 pi ->                                      (* side condition 2 *)
    positive_durations tpl ->
    tt_valid sc TP s0 tpl.

(* ------------------------------------------------------------------ what is proved for all inputs *)
Theorem C28_whole_plan_partial :
  forall sc (TP : tproblem) (P' : problem) (eps : Qc) (s0 : state) (pi : list (N * list value)) (tpl : tplan),
    zq 0 < eps ->
    back_plan sc TP P' eps (zq 0) s0 pi = Some tpl ->
    positive_durations tpl ->
    plan_wf TP tpl = true /\
    seq_of_t tpl = pi /\
    chained_t eps (zq 0) tpl /\
    ForallOrdPairs (fun a b => end_t a < ps_start b) tpl /\
    durs_ok sc TP P' s0 pi tpl.
Proof. exact back_plan_partial. Qed.
Print Assumptions C28_whole_plan_partial.

Theorem C28_whole_duration_accepted :
  forall sc TP s d args dt,
    step_dur sc (tp_base TP) s d args = Some dt ->
    dur_nonempty sc (tp_base TP) s (zip_params (d_params d) args) d = true ->
    dur_ok sc TP s (zip_params (d_params d) args) d dt = true.
Proof. exact step_dur_ok. Qed.
Print Assumptions C28_whole_duration_accepted.

(* ------------------------------------------------------------------ concrete instances *)
Definition idsmp (e : expr) : expr := e.
Definition st0 : timing := {| tm_anchor := AStart; tm_delay := zq 0 |}.
Definition en0 : timing := {| tm_anchor := AEnd; tm_delay := zq 0 |}.
Definition mkeff (f : N) (args : list expr) (v : expr) (k : ekind) (isb : bool) : effect :=
  {| e_fl := f; e_args := args; e_val := v; e_cond := EBool true; e_kind := k; e_vars := []; e_isbool := isb |}.
Definition eps100 : Qc := qc 1 100.
Definition compiled (TP : tproblem) : problem :=
  match t2s_problem idsmp TP with Some P => P | None => tp_base TP end.
Definition converted (TP : tproblem) (s0 : state) (pi : list (N * list value)) : tplan :=
  match back_plan true TP (compiled TP) eps100 (zq 0) s0 pi with Some t => t | None => [] end.

(* --- A (non-vacuity of the goal's hypotheses, and the goal's conclusion on this instance): numeric n, Boolean g;
   a(duration ]2,4]): at start n += 1, over ]start,end] n >= 1, at end n -= 1 and g := true; goal g; n = 0 initially.
   The over-all condition holds only because of the start effect: the compiled precondition is 1 <= n + 1. *)
Definition exn : expr := EFluent 0%N [].
Definition exg : expr := EFluent 1%N [].
Definition exA_d : daction :=
  {| d_params := []; d_lo := EInt 2; d_hi := EInt 4; d_lopen := true; d_ropen := false;
     d_conds := [ ({| ti_lo := st0; ti_hi := en0; ti_lopen := true; ti_ropen := false |}, [ELe (EInt 1) exn]) ];
     d_effs := [ (st0, [mkeff 0 [] (EInt 1) KInc false]);
                 (en0, [mkeff 0 [] (EInt 1) KDec false; mkeff 1 [] (EBool true) KAssign true]) ] |}.
Definition exA_base : problem :=
  {| p_objs := []; p_ifun := [];
     p_fluents := [ {| fd_id := 0%N; fd_sig := []; fd_ty := FNum None None |}; {| fd_id := 1%N; fd_sig := []; fd_ty := FBool |} ];
     p_actions := []; p_goals := [exg]; p_invs := [] |}.
Definition exA_TP : tproblem := {| tp_base := exA_base; tp_dur := [(0%N, exA_d)]; tp_teffs := []; tp_tgoals := [] |}.
Definition exA_s0 : state := fun f _ => match f with 0%N => Some (VNum (zq 0)) | _ => Some (VBool false) end.
Definition exA_pi : list (N * list value) := [(0%N, [])].
Definition exA_act : action :=
  {| a_params := []; a_pre := [ELe (EInt 1) (EPlus [exn; EInt 1])];
     a_effs := [ mkeff 0 [] (EMinus (EPlus [exn; EInt 1]) (EInt 1)) KAssign false; mkeff 1 [] (EBool true) KAssign true ] |}.

Example C28_whole_nonvacuous :
  t2s_fragment exA_TP = true /\ alias_free exA_d = true /\ bound_invs exA_base = [] /\
  t2s_action idsmp exA_d = Some exA_act /\
  t2s_problem idsmp exA_TP = Some (compiled exA_TP) /\
  valid_plan true (compiled exA_TP) exA_s0 exA_pi = true /\
  back_plan true exA_TP (compiled exA_TP) eps100 (zq 0) exA_s0 exA_pi = Some (converted exA_TP exA_s0 exA_pi) /\
  match converted exA_TP exA_s0 exA_pi with          (* one step, at time 0, with the midpoint duration 3 *)
  | [st] => qc_eqb (ps_start st) (zq 0) && match ps_dur st with Some d => qc_eqb d (zq 3) | None => false end
  | _ => false
  end = true /\
  nonempty_along true exA_TP (compiled exA_TP) exA_s0 exA_pi /\
  tt_valid true exA_TP exA_s0 (converted exA_TP exA_s0 exA_pi).
Proof.
  split; [vm_compute; reflexivity|]. split; [vm_compute; reflexivity|]. split; [vm_compute; reflexivity|].
  split; [vm_compute; reflexivity|]. split; [vm_compute; reflexivity|]. split; [vm_compute; reflexivity|].
  split; [vm_compute; reflexivity|]. split; [vm_compute; reflexivity|].
  split; [vm_compute; split; [reflexivity | exact I]|].
  apply (tt_valid_b_spec true exA_TP exA_s0 (converted exA_TP exA_s0 exA_pi)); vm_compute; reflexivity.
Qed.

(* --- B: side condition 1 is necessary.  n : integer[0, 5], n = 4; a(duration 2): at start n += 3, at end n -= 3.
   The compiled action is n := (n + 3) - 3: the compiled plan is valid, the intermediate state n = 7 violates the type. *)
Definition exB_d : daction :=
  {| d_params := []; d_lo := EInt 2; d_hi := EInt 2; d_lopen := false; d_ropen := false; d_conds := [];
     d_effs := [ (st0, [mkeff 0 [] (EInt 3) KInc false]); (en0, [mkeff 0 [] (EInt 3) KDec false]) ] |}.
Definition exB_base : problem :=
  {| p_objs := []; p_ifun := [];
     p_fluents := [ {| fd_id := 0%N; fd_sig := []; fd_ty := FNum (Some (zq 0)) (Some (zq 5)) |} ];
     p_actions := []; p_goals := [ELe (EInt 4) exn]; p_invs := [] |}.
Definition exB_TP : tproblem := {| tp_base := exB_base; tp_dur := [(0%N, exB_d)]; tp_teffs := []; tp_tgoals := [] |}.
Definition exB_s0 : state := fun _ _ => Some (VNum (zq 4)).

Example C28_whole_bounded_types_refuted :
  exists TP s0 pi,
    t2s_fragment TP = true /\ forallb (fun id => alias_free (snd id)) (tp_dur TP) = true /\
    t2s_problem idsmp TP = Some (compiled TP) /\
    invariants_ok true (tp_base TP) s0 = true /\
    valid_plan true (compiled TP) s0 pi = true /\
    back_plan true TP (compiled TP) eps100 (zq 0) s0 pi = Some (converted TP s0 pi) /\
    nonempty_along true TP (compiled TP) s0 pi /\ positive_durations (converted TP s0 pi) /\
    ~ tt_valid true TP s0 (converted TP s0 pi).
Proof.
  exists exB_TP, exB_s0, exA_pi.
  split; [vm_compute; reflexivity|]. split; [vm_compute; reflexivity|]. split; [vm_compute; reflexivity|].
  split; [vm_compute; reflexivity|]. split; [vm_compute; reflexivity|]. split; [vm_compute; reflexivity|].
  split; [vm_compute; split; [reflexivity | exact I]|].
  split.
  - intros st dt Hin Hd. vm_compute in Hin. destruct Hin as [<-|[]]. cbn in Hd. inversion Hd. reflexivity.
  - intros V. apply (tt_valid_b_spec true exB_TP exB_s0 (converted exB_TP exB_s0 exA_pi)) in V;
      [vm_compute in V; discriminate | vm_compute; reflexivity].
Qed.

(* --- C: side condition 2 is necessary.  m = 7, a(duration [m, 5]): at end g := true; goal g.  The compiled action has
   no precondition about the duration bounds; the conversion picks the lower bound 7, outside [7, 5]. *)
Definition exC_d : daction :=
  {| d_params := []; d_lo := exn; d_hi := EInt 5; d_lopen := false; d_ropen := false; d_conds := [];
     d_effs := [ (en0, [mkeff 1 [] (EBool true) KAssign true]) ] |}.
Definition exC_TP : tproblem := {| tp_base := exA_base; tp_dur := [(0%N, exC_d)]; tp_teffs := []; tp_tgoals := [] |}.
Definition exC_s0 : state := fun f _ => match f with 0%N => Some (VNum (zq 7)) | _ => Some (VBool false) end.

Example C28_whole_empty_duration_refuted :
  exists TP s0 pi,
    t2s_fragment TP = true /\ forallb (fun id => alias_free (snd id)) (tp_dur TP) = true /\
    bound_invs (tp_base TP) = [] /\
    t2s_problem idsmp TP = Some (compiled TP) /\
    valid_plan true (compiled TP) s0 pi = true /\
    back_plan true TP (compiled TP) eps100 (zq 0) s0 pi = Some (converted TP s0 pi) /\
    positive_durations (converted TP s0 pi) /\
    ~ tt_valid true TP s0 (converted TP s0 pi).
Proof.
  exists exC_TP, exC_s0, exA_pi.
  split; [vm_compute; reflexivity|]. split; [vm_compute; reflexivity|]. split; [vm_compute; reflexivity|].
  split; [vm_compute; reflexivity|]. split; [vm_compute; reflexivity|]. split; [vm_compute; reflexivity|].
  split.
  - intros st dt Hin Hd. vm_compute in Hin. destruct Hin as [<-|[]]. cbn in Hd. inversion Hd. reflexivity.
  - intros V. apply (tt_valid_b_spec true exC_TP exC_s0 (converted exC_TP exC_s0 exA_pi)) in V;
      [vm_compute in V; discriminate | vm_compute; reflexivity].
Qed.

(* --- D: side condition 3 is necessary (the recorded open finding F28-lifted-alias).  p(x) Boolean over objects 1, 2;
   a(x)(duration 2): at start p(o1) := true, at end p(x) := false; b: precondition p(o1), effect g := true; goal g.
   For x = o1 the compiled action assigns both values (sequentially: true), temporally the end effect wins. *)
Definition exD_d : daction :=
  {| d_params := [0%N]; d_lo := EInt 2; d_hi := EInt 2; d_lopen := false; d_ropen := false; d_conds := [];
     d_effs := [ (st0, [mkeff 0 [EObj 1%N] (EBool true) KAssign true]);
                 (en0, [mkeff 0 [EParam 0%N] (EBool false) KAssign true]) ] |}.
Definition exD_base : problem :=
  {| p_objs := [(0%N, [1%N; 2%N])]; p_ifun := [];
     p_fluents := [ {| fd_id := 0%N; fd_sig := [0%N]; fd_ty := FBool |}; {| fd_id := 1%N; fd_sig := []; fd_ty := FBool |} ];
     p_actions := [ (1%N, {| a_params := []; a_pre := [EFluent 0%N [EObj 1%N]];
                             a_effs := [mkeff 1 [] (EBool true) KAssign true] |}) ];
     p_goals := [exg]; p_invs := [] |}.
Definition exD_TP : tproblem := {| tp_base := exD_base; tp_dur := [(0%N, exD_d)]; tp_teffs := []; tp_tgoals := [] |}.
Definition exD_s0 : state := fun f _ => match f with 0%N => Some (VBool true) | _ => Some (VBool false) end.
Definition exD_pi : list (N * list value) := [(0%N, [VObj 1%N]); (1%N, [])].

Example C28_whole_lifted_alias_refuted :
  exists TP s0 pi,
    t2s_fragment TP = true /\ bound_invs (tp_base TP) = [] /\
    t2s_problem idsmp TP = Some (compiled TP) /\
    valid_plan true (compiled TP) s0 pi = true /\
    back_plan true TP (compiled TP) eps100 (zq 0) s0 pi = Some (converted TP s0 pi) /\
    nonempty_along true TP (compiled TP) s0 pi /\
    forallb (fun id => alias_free (snd id)) (tp_dur TP) = false /\
    ~ tt_valid true TP s0 (converted TP s0 pi).
Proof.
  exists exD_TP, exD_s0, exD_pi.
  split; [vm_compute; reflexivity|]. split; [vm_compute; reflexivity|]. split; [vm_compute; reflexivity|].
  split; [vm_compute; reflexivity|]. split; [vm_compute; reflexivity|].
  split; [vm_compute; repeat split; reflexivity|].
  split; [vm_compute; reflexivity|].
  intros V. apply (tt_valid_b_spec true exD_TP exD_s0 (converted exD_TP exD_s0 exD_pi)) in V;
    [vm_compute in V; discriminate | vm_compute; reflexivity].
Qed.

Example C28_whole_identity_simplifier_ok : forall sc, smp_ok sc idsmp.
Proof. intros sc e I. reflexivity. Qed.

Print Assumptions C28_whole_nonvacuous.
Print Assumptions C28_whole_bounded_types_refuted.
Print Assumptions C28_whole_empty_duration_refuted.
Print Assumptions C28_whole_lifted_alias_refuted.

(* ------------------------------------------------------------------ increment (1): the single-step simulation,
   proved for the sub-fragment WITHOUT start effects ([plain_step]: the durative action has one effect entry, at
   EndTiming(), of unconditional assignments, and the compiler's output on it has the plain form - a computable
   check).  [P'] is the compiled problem ([same_base]: it differs from the original base at most in its actions).
   One compiled step from s_s  =  the durative action executed alone from s_t (= s_s extensionally): every condition
   the compiler keeps holds in s_t, which is the state in force over the whole closed interval [start, end] because
   the action's only happening is at its end; the end event applied alone yields the sequential successor. *)
Theorem C28_whole_step_no_start_effects :
  forall sc smp, smp_ok sc smp ->
  forall (P P' : problem), same_base P P' ->
  forall d a' args (s_s s_t s_s' : state) (x : src) t,
    plain_step smp d a' = true -> a_params a' = d_params d ->
    state_eq s_t s_s -> spec_step sc P' s_s a' args = Some s_s' ->
    exists l, only_end_effs d = Some l /\
      (forall ic c, In ic (d_conds d) -> In c (snd ic) ->
         (is_start0 (ti_lo (fst ic)) && negb (ti_lopen (fst ic)) = true \/ is_end0 (ti_hi (fst ic)) = true) ->
         holds sc (mk_interp P s_t (zip_params (d_params d) args)) c = true) /\
      exists s_t', ref_apply sc P s_t [ {| ev_time := t; ev_src := x; ev_bind := zip_params (d_params d) args;
                                           ev_effs := l |} ] = Some s_t' /\ state_eq s_t' s_s'.
Proof. exact step_no_start_effects. Qed.
Print Assumptions C28_whole_step_no_start_effects.

(* WHOLE-PLAN VALIDITY for the sub-fragment [end_only_fragment] (instantaneous actions, copied unchanged by the
   compiler, mixed with durative actions whose effects are all at EndTiming() as unconditional assignments and whose
   compiled form is plain; Compilers/T2SCompile.v): every sequential plan valid for the compiled problem converts back
   into a time-triggered plan that satisfies the reference dense-time semantics of the original problem.  Hypotheses
   besides the fragment: [smp_ok] (the simplifier preserves evaluation), no bounded numeric fluent, epsilon > 0,
   non-empty duration intervals along the run, positive chosen durations (the [_refuted] examples above show that the
   second and fourth are necessary; a duration 0 puts start and end at one instant). *)
Theorem C28_whole_plan_no_start_read :
  forall sc smp (TP : tproblem) (P' : problem) (eps : Qc) (s0 : state) (pi : list (N * list value)) (tpl : tplan),
    smp_ok sc smp -> end_only_fragment smp TP = true -> bound_invs (tp_base TP) = [] ->
    t2s_problem smp TP = Some P' -> zq 0 < eps ->
    valid_plan sc P' s0 pi = true -> back_plan sc TP P' eps (zq 0) s0 pi = Some tpl ->
    nonempty_along sc TP P' s0 pi -> positive_durations tpl ->
    tt_valid sc TP s0 tpl.
Proof.
  intros sc smp TP P' eps s0 pi tpl OK FR BI CP He.
  exact (plan_end_only sc smp OK TP P' eps FR CP He s0 pi tpl BI).
Qed.
Print Assumptions C28_whole_plan_no_start_read.

(* --- E: non-vacuity of the step theorem: a(duration 2): over [start, end] not g, at end n := 5 *)
Definition exE_d : daction :=
  {| d_params := []; d_lo := EInt 2; d_hi := EInt 2; d_lopen := false; d_ropen := false;
     d_conds := [ ({| ti_lo := st0; ti_hi := en0; ti_lopen := false; ti_ropen := false |}, [ENot exg]) ];
     d_effs := [ (en0, [mkeff 0 [] (EInt 5) KAssign false]) ] |}.
Definition exE_base : problem :=
  {| p_objs := []; p_ifun := [];
     p_fluents := [ {| fd_id := 0%N; fd_sig := []; fd_ty := FNum None None |}; {| fd_id := 1%N; fd_sig := []; fd_ty := FBool |} ];
     p_actions := []; p_goals := [ELe (EInt 5) exn]; p_invs := [] |}.
Definition exE_TP : tproblem := {| tp_base := exE_base; tp_dur := [(0%N, exE_d)]; tp_teffs := []; tp_tgoals := [] |}.
Definition exE_act : action :=
  {| a_params := []; a_pre := [ENot exg]; a_effs := [mkeff 0 [] (EInt 5) KAssign false] |}.

Example C28_whole_step_nonvacuous :
  no_start_fragment idsmp exE_TP = true /\ t2s_action idsmp exE_d = Some exE_act /\
  plain_step idsmp exE_d exE_act = true /\ same_base exE_base (compiled exE_TP) /\
  match spec_step true (compiled exE_TP) exA_s0 exE_act [] with Some _ => true | None => false end = true.
Proof.
  split; [vm_compute; reflexivity|]. split; [vm_compute; reflexivity|]. split; [vm_compute; reflexivity|].
  split; [repeat split; reflexivity | vm_compute; reflexivity].
Qed.
Print Assumptions C28_whole_step_nonvacuous.

(* non-vacuity of C28_whole_plan_no_start_read: all hypotheses hold on instance E with the plan [a] *)
Example C28_whole_plan_no_start_read_nonvacuous :
  end_only_fragment idsmp exE_TP = true /\ bound_invs (tp_base exE_TP) = [] /\
  t2s_problem idsmp exE_TP = Some (compiled exE_TP) /\ zq 0 < eps100 /\
  valid_plan true (compiled exE_TP) exA_s0 exA_pi = true /\
  back_plan true exE_TP (compiled exE_TP) eps100 (zq 0) exA_s0 exA_pi = Some (converted exE_TP exA_s0 exA_pi) /\
  nonempty_along true exE_TP (compiled exE_TP) exA_s0 exA_pi /\ positive_durations (converted exE_TP exA_s0 exA_pi) /\
  tt_valid_b true exE_TP exA_s0 (converted exE_TP exA_s0 exA_pi) = true.
Proof.
  split; [vm_compute; reflexivity|]. split; [vm_compute; reflexivity|]. split; [vm_compute; reflexivity|].
  split; [reflexivity|]. split; [vm_compute; reflexivity|]. split; [vm_compute; reflexivity|].
  split; [vm_compute; split; [reflexivity | exact I]|].
  split; [|vm_compute; reflexivity].
  intros st dt Hin Hd. vm_compute in Hin. destruct Hin as [<-|[]]. cbn in Hd. inversion Hd. reflexivity.
Qed.
Print Assumptions C28_whole_plan_no_start_read_nonvacuous.

(* --- F: an instantaneous action (n := 1) mixed with the durative action of instance E; plan: inst, then a *)
Definition exF_base : problem :=
  {| p_objs := []; p_ifun := [];
     p_fluents := [ {| fd_id := 0%N; fd_sig := []; fd_ty := FNum None None |}; {| fd_id := 1%N; fd_sig := []; fd_ty := FBool |} ];
     p_actions := [ (1%N, {| a_params := []; a_pre := [ENot exg]; a_effs := [mkeff 0 [] (EInt 1) KAssign false] |}) ];
     p_goals := [ELe (EInt 5) exn]; p_invs := [] |}.
Definition exF_TP : tproblem := {| tp_base := exF_base; tp_dur := [(0%N, exE_d)]; tp_teffs := []; tp_tgoals := [] |}.
Definition exF_pi : list (N * list value) := [(1%N, []); (0%N, [])].

Example C28_whole_plan_mixed_nonvacuous :
  end_only_fragment idsmp exF_TP = true /\ no_start_fragment idsmp exF_TP = false /\
  bound_invs (tp_base exF_TP) = [] /\ t2s_problem idsmp exF_TP = Some (compiled exF_TP) /\
  valid_plan true (compiled exF_TP) exA_s0 exF_pi = true /\
  back_plan true exF_TP (compiled exF_TP) eps100 (zq 0) exA_s0 exF_pi = Some (converted exF_TP exA_s0 exF_pi) /\
  nonempty_along true exF_TP (compiled exF_TP) exA_s0 exF_pi /\
  tt_valid_b true exF_TP exA_s0 (converted exF_TP exA_s0 exF_pi) = true.
Proof.
  split; [vm_compute; reflexivity|]. split; [vm_compute; reflexivity|]. split; [vm_compute; reflexivity|].
  split; [vm_compute; reflexivity|]. split; [vm_compute; reflexivity|]. split; [vm_compute; reflexivity|].
  split; [vm_compute; repeat split; reflexivity | vm_compute; reflexivity].
Qed.
Print Assumptions C28_whole_plan_mixed_nonvacuous.

(* ------------------------------------------------------------------ OPEN: start effects that are written but not read.
   [start_not_read_fragment] (Compilers/T2SCompile.v) is the computable sub-fragment; the three statements below are
   what remains to be proved for it (nothing here is used by a theorem). *)
(* (a) evaluation ignores fluent symbols that do not occur - PROVED (the list version of C06_LA_dcrgoal_eval_frame) *)
Theorem C28_whole_eval_ignores_unmentioned :
  forall sc fs e (I J : interp),
    no_sym fs e = true ->
    par J = par I -> var J = var I -> ifun J = ifun I -> objs J = objs I ->
    (forall f a, memN f fs = false -> fl J f a = fl I f a) ->
    eval sc e J = eval sc e I.
Proof. exact eval_ignores_unmentioned. Qed.
Print Assumptions C28_whole_eval_ignores_unmentioned.

(* (b) the two-happening step - PROVED: the compiled step from s_s = the start event, then the end event, applied alone
   from s_t (= s_s extensionally); the start-closed conditions hold in s_t, the end-bounded ones in the intermediate
   state; the final state is the sequential successor *)
Theorem C28_whole_step_start_not_read :
  forall sc smp, smp_ok sc smp -> forall (P P' : problem), same_base P P' ->
  forall d a' args (s_s s_t s_s' : state) (x : src) t1 t2,
    start_not_read_step smp d a' = true -> a_params a' = d_params d ->
    state_eq s_t s_s -> spec_step sc P' s_s a' args = Some s_s' ->
    exists s_mid s_t',
      ref_apply sc P s_t [ {| ev_time := t1; ev_src := x; ev_bind := zip_params (d_params d) args;
                              ev_effs := start_effs d |} ] = Some s_mid /\
      ref_apply sc P s_mid [ {| ev_time := t2; ev_src := x; ev_bind := zip_params (d_params d) args;
                                ev_effs := end_effs d |} ] = Some s_t' /\
      state_eq s_t' s_s' /\
      (forall ic c, In ic (d_conds d) -> In c (snd ic) ->
         (is_start0 (ti_lo (fst ic)) && negb (ti_lopen (fst ic)) = true ->
            holds sc (mk_interp P s_t (zip_params (d_params d) args)) c = true) /\
         (is_end0 (ti_hi (fst ic)) = true -> holds sc (mk_interp P s_mid (zip_params (d_params d) args)) c = true)).
Proof. exact step_start_not_read. Qed.
Print Assumptions C28_whole_step_start_not_read.

(* (c) the plan-level theorem - PROVED for [start_end_fragment] (Proofs/T2SCompile_proofs.v): [t2s_fragment];
   instantaneous actions unrestricted; every durative action has exactly two effect entries, at StartTiming() then at
   EndTiming() ([two_entries]), and satisfies [start_not_read_step] (unconditional start effects on fluent symbols that
   nothing else in the action mentions, unconditional end assignments, plain compiler output).  Each durative step has
   the two happenings start, end; conditions at the start instant are evaluated before the start effects, those over
   ]start, end] in the intermediate state. *)
Theorem C28_whole_plan_start_not_read :
  forall sc smp (TP : tproblem) (P' : problem) (eps : Qc) (s0 : state) (pi : list (N * list value)) (tpl : tplan),
    smp_ok sc smp -> start_end_fragment smp TP = true -> bound_invs (tp_base TP) = [] ->
    t2s_problem smp TP = Some P' -> zq 0 < eps ->
    valid_plan sc P' s0 pi = true -> back_plan sc TP P' eps (zq 0) s0 pi = Some tpl ->
    nonempty_along sc TP P' s0 pi -> positive_durations tpl ->
    tt_valid sc TP s0 tpl.
Proof.
  intros sc smp TP P' eps s0 pi tpl OK FR BI CP He.
  exact (plan_start_not_read sc smp OK TP P' eps FR CP He s0 pi tpl BI).
Qed.
Print Assumptions C28_whole_plan_start_not_read.

(* --- G: non-vacuity: a(duration 2): at start n += 1 (never read), over [start, end] not g, at end g := true; goal g *)
Definition exG_d : daction :=
  {| d_params := []; d_lo := EInt 2; d_hi := EInt 2; d_lopen := false; d_ropen := false;
     d_conds := [ ({| ti_lo := st0; ti_hi := en0; ti_lopen := false; ti_ropen := false |}, [ENot exg]) ];
     d_effs := [ (st0, [mkeff 0 [] (EInt 1) KInc false]); (en0, [mkeff 1 [] (EBool true) KAssign true]) ] |}.
Definition exG_TP : tproblem := {| tp_base := exA_base; tp_dur := [(0%N, exG_d)]; tp_teffs := []; tp_tgoals := [] |}.

Example C28_whole_plan_start_not_read_nonvacuous :
  start_end_fragment idsmp exG_TP = true /\ end_only_fragment idsmp exG_TP = false /\
  bound_invs (tp_base exG_TP) = [] /\ t2s_problem idsmp exG_TP = Some (compiled exG_TP) /\
  valid_plan true (compiled exG_TP) exA_s0 exA_pi = true /\
  back_plan true exG_TP (compiled exG_TP) eps100 (zq 0) exA_s0 exA_pi = Some (converted exG_TP exA_s0 exA_pi) /\
  nonempty_along true exG_TP (compiled exG_TP) exA_s0 exA_pi /\ positive_durations (converted exG_TP exA_s0 exA_pi) /\
  tt_valid_b true exG_TP exA_s0 (converted exG_TP exA_s0 exA_pi) = true.
Proof.
  split; [vm_compute; reflexivity|]. split; [vm_compute; reflexivity|]. split; [vm_compute; reflexivity|].
  split; [vm_compute; reflexivity|]. split; [vm_compute; reflexivity|]. split; [vm_compute; reflexivity|].
  split; [vm_compute; split; [reflexivity | exact I]|].
  split; [|vm_compute; reflexivity].
  intros st dt Hin Hd. vm_compute in Hin. destruct Hin as [<-|[]]. cbn in Hd. inversion Hd. reflexivity.
Qed.
Print Assumptions C28_whole_plan_start_not_read_nonvacuous.
