(* C23 — The model only stores type-correct values.
   Only statements; each is closed by [exact] of a lemma from Proofs/TypedStore_proofs.v.
   Model: Model/TypedStore.v (Problem(initial_defaults), add_fluent, set_initial_value, add_effect / add_increase_effect /
   add_decrease_effect / add_timed_effect of InstantaneousAction, DurativeAction and Problem, ActionInstance;
   [compatible] mirrors is_compatible_type).  [h] is the user-type hierarchy, arbitrary. *)
From Coq Require Import List ZArith NArith QArith Bool.
Import ListNotations.
Require Import UPV.Model.TypedStore UPV.Proofs.TypedStore_proofs.

(* the invariant, over ANY history of model-building calls (accepted or rejected) after ANY accepted constructor call:
   every per-type default, per-fluent default (against the type of ITS fluent), explicit initial value, effect value
   and action-instance parameter is compatible with its target; defaults, initial values and parameters are constants *)
Theorem C23_stored_values_type_correct :
  forall h ds s ops, mk_problem h ds = Some s ->
    let s' := run h s ops in
    (forall t v, In (t, v) (type_defaults s') -> compatible h t (type_of v) && is_constant v = true) /\
    (forall f t v, In (f, t, v) (fluent_defaults s') ->
       In (f, t) (fluents s') /\ compatible h t (type_of v) && is_constant v = true) /\
    (forall k t v, In (k, (t, v)) (init_values s') -> compatible h t (type_of v) && is_constant v = true) /\
    (forall st k t v, In (st, k, t, v) (effects s') -> compatible h t (type_of v) = true) /\
    (forall ps t v, In ps (instances s') -> In (t, v) ps -> compatible h t (type_of v) && is_constant v = true).
Proof. exact store_invariant. Qed.
Print Assumptions C23_stored_values_type_correct.

(* the invariant is preserved by every single call from every well-typed store (e.g. a cloned problem) *)
Theorem C23_every_call_preserves :
  forall h s o, well_typed h s -> well_typed h (fst (step h s o)).
Proof. exact step_well_typed. Qed.
Print Assumptions C23_every_call_preserves.

(* a rejected call leaves the model unchanged *)
Theorem C23_rejected_call_leaves_model_unchanged :
  forall h s o, snd (step h s o) = true -> fst (step h s o) = s.
Proof. exact step_rejected_unchanged. Qed.
Print Assumptions C23_rejected_call_leaves_model_unchanged.

(* Problem(initial_defaults=...) raises exactly when some per-type default is not a compatible constant *)
Theorem C23_constructor_rejects_bad_type_defaults :
  forall h ds, mk_problem h ds = None <->
    exists t v, In (t, v) ds /\ promotable v && is_constant v && compatible h t (type_of v) = false.
Proof. exact mk_problem_rejects. Qed.
Print Assumptions C23_constructor_rejects_bad_type_defaults.

(* calls that would store an incompatible (or, where required, non-constant) value are rejected *)
Theorem C23_bad_default_rejected :
  forall h s f t v, compatible h t (type_of v) && is_constant v = false -> snd (add_fluent h s f t (Some v)) = true.
Proof. exact bad_default_rejected. Qed.
Print Assumptions C23_bad_default_rejected.

Theorem C23_bad_initial_value_rejected :
  forall h s key t ac v, compatible h t (type_of v) && is_constant v = false ->
    snd (set_initial_value h s key t ac v) = true.
Proof. exact bad_initial_value_rejected. Qed.
Print Assumptions C23_bad_initial_value_rejected.

Theorem C23_bad_effect_value_rejected :
  forall h s st k t v cb tk cf, compatible h t (type_of v) = false -> snd (add_effect h s st k t v cb tk cf) = true.
Proof. exact bad_effect_value_rejected. Qed.
Print Assumptions C23_bad_effect_value_rejected.

Theorem C23_bad_parameter_rejected :
  forall h s ps t v, In (t, v) ps -> compatible h t (type_of v) && is_constant v = false ->
    snd (action_instance h s ps) = true.
Proof. exact bad_parameter_rejected. Qed.
Print Assumptions C23_bad_parameter_rejected.

(* ---- non-vacuity ---- *)
Definition nv_h : hier := [(0%N, None); (1%N, Some 0%N)].            (* type 1 is a subtype of type 0 *)
Definition nv_ds : list (ty * val) := [(TBool, VBool false); (TReal None None, VInt 0)].
Definition nv_ops : list op :=
  [ OpAddFluent 1 TBool (Some (VInt 5))                               (* defect 26: rejected *)
  ; OpAddFluent 1 TBool None                                          (* takes the per-type default False *)
  ; OpAddFluent 2 (TInt (Some 0%Z) (Some 10%Z)) (Some (VInt 3))
  ; OpSetInit 7 (TUser 0) true (VObj 4 1)                             (* object of the subtype: accepted *)
  ; OpSetInit 8 (TUser 1) true (VObj 5 0)                             (* object of the supertype: rejected *)
  ; OpSetInit 9 (TReal None None) true (VExpr 3 (TReal None None))    (* non-constant: rejected *)
  ; OpAddEffect SDur EIncrease (TInt (Some 0%Z) (Some 10%Z)) (VExpr 3 (TInt None None)) true true false
  ; OpInstance [(TUser 0, VObj 4 1); (TInt None None, VInt 2)] ].

Example C23_stored_values_type_correct_nonvacuous :
  exists s, mk_problem nv_h nv_ds = Some s /\
    length (fluents (run nv_h s nv_ops)) = 2%nat /\ length (fluent_defaults (run nv_h s nv_ops)) = 2%nat /\
    length (init_values (run nv_h s nv_ops)) = 1%nat /\ length (effects (run nv_h s nv_ops)) = 1%nat /\
    length (instances (run nv_h s nv_ops)) = 1%nat.
Proof. eexists. split; [reflexivity|]. repeat split; reflexivity. Qed.

Example C23_rejected_call_nonvacuous :
  exists s, mk_problem nv_h nv_ds = Some s /\ snd (step nv_h s (OpAddFluent 1 TBool (Some (VInt 5)))) = true
    /\ mk_problem nv_h [(TBool, VInt 5)] = None.
Proof. eexists. split; [reflexivity|]. split; reflexivity. Qed.

Example C23_bad_values_nonvacuous :
  compatible nv_h TBool (type_of (VInt 5)) && is_constant (VInt 5) = false /\
  compatible nv_h (TUser 1) (type_of (VObj 5 0)) = false /\
  compatible nv_h (TReal None None) (type_of (VInt 0)) = true /\
  compatible nv_h (TInt None None) (type_of (VReal 1)) = false /\
  compatible nv_h (TInt (Some 3%Z) None) (type_of (VInt 2)) = false.
Proof. repeat split; reflexivity. Qed.
