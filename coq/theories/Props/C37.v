(* C37 — Multi-agent compilers preserve each agent's action semantics.
   Only statements, about the action splitting of Compilers/Variants.v that MAConditionalEffectsRemover and
   MADisjunctiveConditionsRemover share with their single-agent parents; each is closed by [exact] of a lemma from
   Proofs/Variants_proofs.v.  An agent's action is read in the agent's flattened view (see Variants.v), the step is
   the documented sequential semantics [spec_step false] of Planning/Sem.v, [applicable] = "spec_step is defined",
   and successors are compared extensionally ([ostate_eq]).

   Hypotheses, stated where they are used:
     [cond_ok]       (conditional-effects splitting) every effect condition evaluates to a Boolean in the state, to the
                     same Boolean under every instance of the effect's forall variables, and the effect's target
                     arguments are defined;
     [dnf_effect_ok] (disjunctive splitting) target arguments defined, the condition and the supplied disjuncts
                     evaluate to Booleans, "some disjunct holds iff the condition holds" (DNF equivalence: C12), and an
                     effect split into several copies is an assignment;
     the supplied precondition disjuncts satisfy "some disjunct holds iff the preconditions hold" (C12).
   The multi-agent wrappers around the splitting are validated, not proved (harness/props/c37.py). *)
From Coq Require Import List ZArith NArith QArith Qcanon Bool.
Import ListNotations.
Require Import UPV.Core.Expr UPV.Core.Eval UPV.Core.Interp UPV.Planning.Problem UPV.Planning.Sem.
Require Import UPV.Proofs.Step_proofs UPV.Compilers.Variants UPV.Proofs.Variants_proofs.

(* ------------------------------------------------------------------ conditional-effects remover *)
(* among ALL variants of the powerset, exactly one is applicable wherever the original action is applicable: the
   list of applicable variants is the singleton of the variant selected by the truth values of the conditions *)
Theorem C37_exactly_one_variant :
  forall P s a args, Forall (cond_ok P s a args) (cond_effs (a_effs a)) ->
    applicable P s a args = true ->
    filter (fun v => applicable P s v args) (ce_variants a) = [ce_variant a (the_sel P s a args)].
Proof. exact ce_exactly_one_variant. Qed.
Print Assumptions C37_exactly_one_variant.

Theorem C37_no_variant_when_inapplicable :
  forall P s a args, Forall (cond_ok P s a args) (cond_effs (a_effs a)) ->
    applicable P s a args = false ->
    filter (fun v => applicable P s v args) (ce_variants a) = [].
Proof. exact ce_no_variant_when_inapplicable. Qed.
Print Assumptions C37_no_variant_when_inapplicable.

Theorem C37_variant_same_successor :
  forall P s a args, Forall (cond_ok P s a args) (cond_effs (a_effs a)) ->
    forall sel, In sel (ce_sels a) -> applicable P s (ce_variant a sel) args = true ->
      ostate_eq (spec_step false P s (ce_variant a sel) args) (spec_step false P s a args).
Proof. exact ce_variant_same_successor. Qed.
Print Assumptions C37_variant_same_successor.

Theorem C37_applicable_iff_some_variant :
  forall P s a args, Forall (cond_ok P s a args) (cond_effs (a_effs a)) ->
    (applicable P s a args = true <->
     exists sel, In sel (ce_sels a) /\ applicable P s (ce_variant a sel) args = true).
Proof. exact ce_applicable_iff_some_variant. Qed.
Print Assumptions C37_applicable_iff_some_variant.

(* the variants the code keeps (no UPConflictingEffectsException while adding the effects, at least one effect):
   exactly one applicable wherever the original is applicable and its selected variant is kept ... *)
Theorem C37_kept_exactly_one :
  forall P s a args, Forall (cond_ok P s a args) (cond_effs (a_effs a)) ->
    applicable P s a args = true -> ce_kept a (the_sel P s a args) = true ->
    filter (fun v => applicable P s v args) (ce_kept_variants a) = [ce_variant a (the_sel P s a args)].
Proof. exact ce_kept_exactly_one. Qed.
Print Assumptions C37_kept_exactly_one.

(* ... none otherwise ... *)
Theorem C37_kept_none_when_dropped :
  forall P s a args, Forall (cond_ok P s a args) (cond_effs (a_effs a)) ->
    ce_kept a (the_sel P s a args) = false ->
    filter (fun v => applicable P s v args) (ce_kept_variants a) = [].
Proof. exact ce_kept_none_when_dropped. Qed.
Print Assumptions C37_kept_none_when_dropped.

(* ... and a selected variant dropped for having no effect means that the original step changes nothing *)
Theorem C37_dropped_empty_is_noop :
  forall P s a args, Forall (cond_ok P s a args) (cond_effs (a_effs a)) ->
    a_effs (ce_variant a (the_sel P s a args)) = [] ->
    forall t, spec_step false P s a args = Some t -> state_eq t s.
Proof. exact ce_dropped_empty_is_noop. Qed.
Print Assumptions C37_dropped_empty_is_noop.

(* the simplified preconditions may replace the unsimplified ones wherever they are equivalent in the state *)
Theorem C37_step_reads_preconditions_through_all_hold :
  forall P s a1 a2 args, a_params a1 = a_params a2 -> a_effs a1 = a_effs a2 ->
    all_hold false (mk_interp P s (zip_params (a_params a1) args)) (a_pre a1) =
    all_hold false (mk_interp P s (zip_params (a_params a1) args)) (a_pre a2) ->
    spec_step false P s a1 args = spec_step false P s a2 args.
Proof. exact step_pre_ext. Qed.
Print Assumptions C37_step_reads_preconditions_through_all_hold.

(* ------------------------------------------------------------------ disjunctive-conditions remover *)
Theorem C37_dnf_variant_same_successor :
  forall cdnf P s a args, Forall (dnf_effect_ok cdnf P s a args) (a_effs a) ->
    forall d,
      (all_hold false (mk_interp P s (zip_params (a_params a) args)) d = true ->
       all_hold false (mk_interp P s (zip_params (a_params a) args)) (a_pre a) = true) ->
      applicable P s (dnf_variant cdnf a d) args = true ->
      ostate_eq (spec_step false P s (dnf_variant cdnf a d) args) (spec_step false P s a args).
Proof. exact dnf_variant_same_successor. Qed.
Print Assumptions C37_dnf_variant_same_successor.

Theorem C37_dnf_applicable_iff_some_variant :
  forall cdnf P s a args, Forall (dnf_effect_ok cdnf P s a args) (a_effs a) ->
    forall pre_dnf,
      existsb (all_hold false (mk_interp P s (zip_params (a_params a) args))) pre_dnf =
      all_hold false (mk_interp P s (zip_params (a_params a) args)) (a_pre a) ->
      (applicable P s a args = true <->
       exists d, In d pre_dnf /\ applicable P s (dnf_variant cdnf a d) args = true).
Proof. exact dnf_applicable_iff_some_variant. Qed.
Print Assumptions C37_dnf_applicable_iff_some_variant.

Theorem C37_dnf_dropped_empty_is_noop :
  forall cdnf P s a args, Forall (dnf_effect_ok cdnf P s a args) (a_effs a) ->
    flat_map (split_effect cdnf) (a_effs a) = [] ->
    forall t, spec_step false P s a args = Some t -> state_eq t s.
Proof. exact dnf_dropped_empty_is_noop. Qed.
Print Assumptions C37_dnf_dropped_empty_is_noop.

(* ------------------------------------------------------------------ goals *)
(* original goals hold  <=>  every compiled goal holds (kept as an expression) or has an achiever whose disjunct
   holds (fake goal), given the per-goal DNF equivalences [cgoal_ok] *)
Theorem C37_goals_equiv :
  forall P s gs cs, Forall2 (cgoal_ok P s) gs cs ->
    all_hold false (mk_interp P s []) gs = forallb (cgoal_sat P s) cs.
Proof. exact goals_equiv. Qed.
Print Assumptions C37_goals_equiv.

Theorem C37_fake_goal_achievable :
  forall P s g fk ds, cgoal_ok P s g (CFake fk ds) ->
    (holds false (mk_interp P s []) g = true <->
     exists d, In d ds /\ all_hold false (mk_interp P s []) d = true).
Proof. exact fake_goal_achievable. Qed.
Print Assumptions C37_fake_goal_achievable.

(* an achiever is applicable exactly where its disjunct holds (and the invariants survive); it makes the fake goal
   fluent true and changes nothing else *)
Theorem C37_fake_action_step :
  forall P s fk d,
    ostate_eq (spec_step false P s (fake_action fk d) [])
              (if all_hold false (mk_interp P s []) d && invariants_ok false P (set_true s fk)
               then Some (set_true s fk) else None).
Proof. exact fake_action_step. Qed.
Print Assumptions C37_fake_action_step.
