(* C37 — Multi-agent compilers preserve each agent's action semantics.
   Only statements, about the action splitting of Compilers/Variants.v that MAConditionalEffectsRemover and
   MADisjunctiveConditionsRemover share with their single-agent parents; each is closed by [exact] of a lemma from
   Proofs/Variants_proofs.v.  An agent's action is read in the agent's flattened view (see Variants.v), the step is
   the documented sequential semantics [spec_step false] of Planning/Sem.v, [applicable] = "spec_step is defined",
   and successors are compared extensionally ([ostate_eq]).

   Hypotheses, stated where they are used:
     [cond_ok]       (conditional-effects splitting) every effect condition evaluates to a Boolean in the state, to the
                     same Boolean under every instance of the effect's forall variables, and the effect's target
                     arguments are defined;
     [dnf_effect_ok] (disjunctive splitting) target arguments defined, the condition and the supplied disjuncts
                     evaluate to Booleans, "some disjunct holds iff the condition holds" (DNF equivalence: C12), and an
                     effect split into several copies is an assignment;
     the supplied precondition disjuncts satisfy "some disjunct holds iff the preconditions hold" (C12).
   The multi-agent wrappers around the splitting are validated, not proved (harness/props/c37.py). *)
From Coq Require Import List ZArith NArith QArith Qcanon Bool.
Import ListNotations.
Require Import UPV.Core.Expr UPV.Core.Eval UPV.Core.Interp UPV.Planning.Problem UPV.Planning.Sem.
Require Import UPV.Proofs.Step_proofs UPV.Compilers.Variants UPV.Proofs.Variants_proofs.

(* ------------------------------------------------------------------ conditional-effects remover *)
(* among ALL variants of the powerset, exactly one is applicable wherever the original action is applicable: the
   list of applicable variants is the singleton of the variant selected by the truth values of the conditions *)
Theorem C37_exactly_one_variant :
  forall P s a args, Forall (cond_ok P s a args) (cond_effs (a_effs a)) ->
    applicable P s a args = true ->
    filter (fun v => applicable P s v args) (ce_variants a) = [ce_variant a (the_sel P s a args)].
Proof. exact ce_exactly_one_variant. Qed.
Print Assumptions C37_exactly_one_variant.

Theorem C37_no_variant_when_inapplicable :
  forall P s a args, Forall (cond_ok P s a args) (cond_effs (a_effs a)) ->
    applicable P s a args = false ->
    filter (fun v => applicable P s v args) (ce_variants a) = [].
Proof. exact ce_no_variant_when_inapplicable. Qed.
Print Assumptions C37_no_variant_when_inapplicable.

Theorem C37_variant_same_successor :
  forall P s a args, Forall (cond_ok P s a args) (cond_effs (a_effs a)) ->
    forall sel, In sel (ce_sels a) -> applicable P s (ce_variant a sel) args = true ->
      ostate_eq (spec_step false P s (ce_variant a sel) args) (spec_step false P s a args).
Proof. exact ce_variant_same_successor. Qed.
Print Assumptions C37_variant_same_successor.

Theorem C37_applicable_iff_some_variant :
  forall P s a args, Forall (cond_ok P s a args) (cond_effs (a_effs a)) ->
    (applicable P s a args = true <->
     exists sel, In sel (ce_sels a) /\ applicable P s (ce_variant a sel) args = true).
Proof. exact ce_applicable_iff_some_variant. Qed.
Print Assumptions C37_applicable_iff_some_variant.

(* the variants the code keeps (no UPConflictingEffectsException while adding the effects, at least one effect):
   exactly one applicable wherever the original is applicable and its selected variant is kept ... *)
Theorem C37_kept_exactly_one :
  forall P s a args, Forall (cond_ok P s a args) (cond_effs (a_effs a)) ->
    applicable P s a args = true -> ce_kept a (the_sel P s a args) = true ->
    filter (fun v => applicable P s v args) (ce_kept_variants a) = [ce_variant a (the_sel P s a args)].
Proof. exact ce_kept_exactly_one. Qed.
Print Assumptions C37_kept_exactly_one.

(* ... none otherwise ... *)
Theorem C37_kept_none_when_dropped :
  forall P s a args, Forall (cond_ok P s a args) (cond_effs (a_effs a)) ->
    ce_kept a (the_sel P s a args) = false ->
    filter (fun v => applicable P s v args) (ce_kept_variants a) = [].
Proof. exact ce_kept_none_when_dropped. Qed.
Print Assumptions C37_kept_none_when_dropped.

(* ... and a selected variant dropped for having no effect means that the original step changes nothing *)
Theorem C37_dropped_empty_is_noop :
  forall P s a args, Forall (cond_ok P s a args) (cond_effs (a_effs a)) ->
    a_effs (ce_variant a (the_sel P s a args)) = [] ->
    forall t, spec_step false P s a args = Some t -> state_eq t s.
Proof. exact ce_dropped_empty_is_noop. Qed.
Print Assumptions C37_dropped_empty_is_noop.

(* DESIGN 7 #11 (repaired in 5b09a15, shared by the MA remover): a selected variant left out because one of its
   conditional effects raises UPConflictingEffectsException against another effect loses nothing — the original
   action is not applicable there.  Hypotheses: the effects taking part in the syntactic check have no forall
   variables and target non-Boolean fluents of the problem, and two assigned value expressions that differ
   syntactically (and are not equal constants) evaluate to different values in the state (otherwise the code drops a
   variant although the documented semantics lets the two equal assignments through: the analogue of
   C01-grounding-syntactic-conflict). *)
Theorem C37_conflict_drop_sound :
  forall P s a args, Forall (cond_ok P s a args) (cond_effs (a_effs a)) ->
    let v := ce_variant a (the_sel P s a args) in
    let I := mk_interp P s (zip_params (a_params a) args) in
    add_effs_ok [] [] (a_effs v) = false ->
    (forall e, In e (a_effs v) -> relevant e = true -> e_vars e = [] /\ is_bool_fluent P (e_fl e) = false) ->
    (forall e1 e2, In e1 (a_effs v) -> In e2 (a_effs v) -> same_value (e_val e1) (e_val e2) = false ->
       forall v1 v2, eval false (e_val e1) I = Some v1 -> eval false (e_val e2) I = Some v2 -> v1 <> v2) ->
    applicable P s a args = false.
Proof. exact ce_conflict_drop_sound. Qed.
Print Assumptions C37_conflict_drop_sound.

(* the simplified preconditions may replace the unsimplified ones wherever they are equivalent in the state *)
Theorem C37_step_reads_preconditions_through_all_hold :
  forall P s a1 a2 args, a_params a1 = a_params a2 -> a_effs a1 = a_effs a2 ->
    all_hold false (mk_interp P s (zip_params (a_params a1) args)) (a_pre a1) =
    all_hold false (mk_interp P s (zip_params (a_params a1) args)) (a_pre a2) ->
    spec_step false P s a1 args = spec_step false P s a2 args.
Proof. exact step_pre_ext. Qed.
Print Assumptions C37_step_reads_preconditions_through_all_hold.

(* ------------------------------------------------------------------ disjunctive-conditions remover *)
Theorem C37_dnf_variant_same_successor :
  forall cdnf P s a args, Forall (dnf_effect_ok cdnf P s a args) (a_effs a) ->
    forall d,
      (all_hold false (mk_interp P s (zip_params (a_params a) args)) d = true ->
       all_hold false (mk_interp P s (zip_params (a_params a) args)) (a_pre a) = true) ->
      applicable P s (dnf_variant cdnf a d) args = true ->
      ostate_eq (spec_step false P s (dnf_variant cdnf a d) args) (spec_step false P s a args).
Proof. exact dnf_variant_same_successor. Qed.
Print Assumptions C37_dnf_variant_same_successor.

Theorem C37_dnf_applicable_iff_some_variant :
  forall cdnf P s a args, Forall (dnf_effect_ok cdnf P s a args) (a_effs a) ->
    forall pre_dnf,
      existsb (all_hold false (mk_interp P s (zip_params (a_params a) args))) pre_dnf =
      all_hold false (mk_interp P s (zip_params (a_params a) args)) (a_pre a) ->
      (applicable P s a args = true <->
       exists d, In d pre_dnf /\ applicable P s (dnf_variant cdnf a d) args = true).
Proof. exact dnf_applicable_iff_some_variant. Qed.
Print Assumptions C37_dnf_applicable_iff_some_variant.

Theorem C37_dnf_dropped_empty_is_noop :
  forall cdnf P s a args, Forall (dnf_effect_ok cdnf P s a args) (a_effs a) ->
    flat_map (split_effect cdnf) (a_effs a) = [] ->
    forall t, spec_step false P s a args = Some t -> state_eq t s.
Proof. exact dnf_dropped_empty_is_noop. Qed.
Print Assumptions C37_dnf_dropped_empty_is_noop.

(* a variant left out after UPConflictingEffectsException (faaf4e7): wherever its disjunct holds the original action is
   not applicable (same hypotheses as C37_conflict_drop_sound) *)
Theorem C37_dnf_conflict_drop_sound :
  forall cdnf P s a args d, Forall (dnf_effect_ok cdnf P s a args) (a_effs a) ->
    let v := dnf_variant cdnf a d in
    let I := mk_interp P s (zip_params (a_params a) args) in
    add_effs_ok [] [] (a_effs v) = false ->
    (forall e, In e (a_effs v) -> relevant e = true -> e_vars e = [] /\ is_bool_fluent P (e_fl e) = false) ->
    (forall e1 e2, In e1 (a_effs v) -> In e2 (a_effs v) -> same_value (e_val e1) (e_val e2) = false ->
       forall v1 v2, eval false (e_val e1) I = Some v1 -> eval false (e_val e2) I = Some v2 -> v1 <> v2) ->
    all_hold false I d = true -> (all_hold false I d = true -> all_hold false I (a_pre a) = true) ->
    applicable P s a args = false.
Proof. exact dnf_conflict_drop_sound. Qed.
Print Assumptions C37_dnf_conflict_drop_sound.

(* ------------------------------------------------------------------ goals *)
(* original goals hold  <=>  every compiled goal holds (kept as an expression) or has an achiever whose disjunct
   holds (fake goal), given the per-goal DNF equivalences [cgoal_ok] *)
Theorem C37_goals_equiv :
  forall P s gs cs, Forall2 (cgoal_ok P s) gs cs ->
    all_hold false (mk_interp P s []) gs = forallb (cgoal_sat P s) cs.
Proof. exact goals_equiv. Qed.
Print Assumptions C37_goals_equiv.

Theorem C37_fake_goal_achievable :
  forall P s g fk ds, cgoal_ok P s g (CFake fk ds) ->
    (holds false (mk_interp P s []) g = true <->
     exists d, In d ds /\ all_hold false (mk_interp P s []) d = true).
Proof. exact fake_goal_achievable. Qed.
Print Assumptions C37_fake_goal_achievable.

(* an achiever is applicable exactly where its disjunct holds (and the invariants survive); it makes the fake goal
   fluent true and changes nothing else *)
Theorem C37_fake_action_step :
  forall P s fk d,
    ostate_eq (spec_step false P s (fake_action fk d) [])
              (if all_hold false (mk_interp P s []) d && invariants_ok false P (set_true s fk)
               then Some (set_true s fk) else None).
Proof. exact fake_action_step. Qed.
Print Assumptions C37_fake_action_step.

(* ================================================================== concrete instances *)
Module C37_examples.
  Definition fx := 0%N.  Definition fy := 1%N.  Definition fc := 2%N.  Definition fd := 3%N.  Definition fn := 4%N.
  Definition fk := 5%N.
  Definition bdecl (f : N) : fdecl := {| fd_id := f; fd_sig := []; fd_ty := FBool |}.
  Definition Pb : problem :=
    {| p_objs := []; p_ifun := [];
       p_fluents := [bdecl fx; bdecl fy; bdecl fc; bdecl fd; {| fd_id := fn; fd_sig := []; fd_ty := FNum None None |};
                     bdecl fk];
       p_actions := []; p_goals := []; p_invs := [] |}.
  Definition st (l : list (N * value)) : state := fun f a => match a with [] => lookupN f l | _ => None end.
  Definition fl (f : N) : expr := EFluent f [].
  Definition eff (f : N) (v c : expr) (k : ekind) (isb : bool) : effect :=
    {| e_fl := f; e_args := []; e_val := v; e_cond := c; e_kind := k; e_vars := []; e_isbool := isb |}.

  (* "if x then y := true" and nothing else *)
  Definition a_ce : action :=
    {| a_params := []; a_pre := []; a_effs := [eff fy (EBool true) (fl fx) KAssign true] |}.
  (* the same with an unconditional effect "c := true" *)
  Definition a_ce2 : action :=
    {| a_params := []; a_pre := [ENot (fl fd)];
       a_effs := [eff fy (EBool true) (fl fx) KAssign true; eff fc (EBool true) (EBool true) KAssign true] |}.
  Definition s_x (x d : bool) : state :=
    st [(fx, VBool x); (fy, VBool false); (fc, VBool false); (fd, VBool d); (fn, VNum (zq 0)); (fk, VBool false)].

  Example cond_ok_ce2 x d : Forall (cond_ok Pb (s_x x d) a_ce2 []) (cond_effs (a_effs a_ce2)).
  Proof.
    repeat constructor. exists x. split; [reflexivity|]. repeat constructor. discriminate.
  Qed.
  Example cond_ok_ce x d : Forall (cond_ok Pb (s_x x d) a_ce []) (cond_effs (a_effs a_ce)).
  Proof.
    repeat constructor. exists x. split; [reflexivity|]. repeat constructor. discriminate.
  Qed.

  (* "n += 1 if (c or d)" and the disjunct list [c; d] of the real Dnf walker *)
  Definition a_inc : action :=
    {| a_params := []; a_pre := [];
       a_effs := [eff fn (EInt 1) (EOr [fl fc; fl fd]) KInc false] |}.
  Definition cdnf_cd (c : expr) : list expr := if expr_eqb c (EOr [fl fc; fl fd]) then [fl fc; fl fd] else [c].
  Definition s_cd : state :=
    st [(fx, VBool false); (fy, VBool false); (fc, VBool true); (fd, VBool true); (fn, VNum (zq 0)); (fk, VBool false)].
  (* "y := true if (c or d)", precondition (x or d) with disjuncts [x] and [d] *)
  Definition a_dnf : action :=
    {| a_params := []; a_pre := [EOr [fl fx; fl fd]];
       a_effs := [eff fy (EBool true) (EOr [fl fc; fl fd]) KAssign true] |}.
  Example dnf_ok_a_dnf : Forall (dnf_effect_ok cdnf_cd Pb s_cd a_dnf []) (a_effs a_dnf).
  Proof.
    repeat constructor; try discriminate.
    - exists true. reflexivity.
    - intros d [H|[H|[]]]; subst; exists true; reflexivity.
  Qed.
End C37_examples.
Import C37_examples.

Example C37_exactly_one_variant_nonvacuous :
  Forall (cond_ok Pb (s_x true false) a_ce2 []) (cond_effs (a_effs a_ce2)) /\
  applicable Pb (s_x true false) a_ce2 [] = true /\ ce_kept a_ce2 (the_sel Pb (s_x true false) a_ce2 []) = true /\
  length (ce_variants a_ce2) = 2%nat /\
  In (the_sel Pb (s_x true false) a_ce2 []) (ce_sels a_ce2) /\
  applicable Pb (s_x true false) (ce_variant a_ce2 (the_sel Pb (s_x true false) a_ce2 [])) [] = true.
Proof. split; [apply cond_ok_ce2|]. repeat split; try reflexivity. vm_compute. auto. Qed.

Example C37_no_variant_when_inapplicable_nonvacuous :
  Forall (cond_ok Pb (s_x true true) a_ce2 []) (cond_effs (a_effs a_ce2)) /\
  applicable Pb (s_x true true) a_ce2 [] = false.
Proof. split; [apply cond_ok_ce2 | reflexivity]. Qed.

(* FINDING C37-noop-variant-dropped: where no conditional effect fires the selected variant has no effect and is
   discarded by `if len(new_action.effects) > 0`: the original action is applicable (its step changes nothing,
   C37_dropped_empty_is_noop) and no kept variant is.  The statement "applicable iff some compiled variant is
   applicable" therefore fails for the kept variants exactly on such no-op steps. *)
Definition C37_kept_applicable_iff_some_variant_goal : Prop :=
  forall P s a args, Forall (cond_ok P s a args) (cond_effs (a_effs a)) ->
    (applicable P s a args = true <->
     exists v, In v (ce_kept_variants a) /\ applicable P s v args = true).

Theorem C37_kept_applicable_iff_some_variant_refuted :
  exists P s a args, Forall (cond_ok P s a args) (cond_effs (a_effs a)) /\
    applicable P s a args = true /\
    filter (fun v => applicable P s v args) (ce_kept_variants a) = [] /\
    ce_kept a (the_sel P s a args) = false /\ a_effs (ce_variant a (the_sel P s a args)) = [].
Proof.
  exists Pb, (s_x false false), a_ce, []. split; [apply cond_ok_ce|]. repeat split; reflexivity.
Qed.
Print Assumptions C37_kept_applicable_iff_some_variant_refuted.

(* "n := 1; if c then n := 2" in a state where c holds: the selected variant is dropped for the conflict *)
Example C37_conflict_drop_sound_nonvacuous :
  let a := {| a_params := []; a_pre := [];
              a_effs := [eff fn (EInt 1) (EBool true) KAssign false; eff fn (EInt 2) (fl fc) KAssign false] |} in
  Forall (cond_ok Pb s_cd a []) (cond_effs (a_effs a)) /\
  add_effs_ok [] [] (a_effs (ce_variant a (the_sel Pb s_cd a []))) = false /\
  ce_kept a (the_sel Pb s_cd a []) = false /\ applicable Pb s_cd a [] = false /\
  length (ce_kept_variants a) = 1%nat.
Proof.
  cbv zeta. split; [|repeat split; reflexivity].
  repeat constructor. exists true. split; [reflexivity|]. repeat constructor. discriminate.
Qed.

Example C37_dnf_nonvacuous :
  Forall (dnf_effect_ok cdnf_cd Pb s_cd a_dnf []) (a_effs a_dnf) /\
  existsb (all_hold false (mk_interp Pb s_cd (zip_params (a_params a_dnf) []))) [[fl fx]; [fl fd]] =
    all_hold false (mk_interp Pb s_cd (zip_params (a_params a_dnf) [])) (a_pre a_dnf) /\
  applicable Pb s_cd a_dnf [] = true /\ applicable Pb s_cd (dnf_variant cdnf_cd a_dnf [fl fd]) [] = true /\
  length (a_effs (dnf_variant cdnf_cd a_dnf [fl fd])) = 2%nat.
Proof. split; [apply dnf_ok_a_dnf|]. repeat split; reflexivity. Qed.

(* FINDING (inherits C06-dcr-increase-per-disjunct): without the hypothesis [split_ok] the disjunctive theorem is
   false of the faithful model: "n += 1 if (c or d)" becomes "n += 1 if c; n += 1 if d", and where both hold the variant
   adds 2 *)
Theorem C37_dnf_increase_split_refuted :
  exists cdnf P s a args d,
    (forall e J, In e (a_effs a) -> In J (instances (mk_interp P s (zip_params (a_params a) args)) (e_vars e)) ->
       dnf_cond_ok cdnf J e) /\
    applicable P s a args = true /\ applicable P s (dnf_variant cdnf a d) args = true /\
    (exists t t', spec_step false P s a args = Some t /\ spec_step false P s (dnf_variant cdnf a d) args = Some t' /\
                  t fn [] = Some (VNum (zq 1)) /\ t' fn [] = Some (VNum (zq 2))).
Proof.
  exists cdnf_cd, Pb, s_cd, a_inc, [], []. split; [|split; [reflexivity | split; [reflexivity|]]].
  - intros e J He HJ. simpl in He. destruct He as [He|[]]. subst e. simpl in HJ. destruct HJ as [HJ|[]]. subst J.
    repeat split; try discriminate.
    + exists true. reflexivity.
    + intros d [H|[H|[]]]; subst; exists true; reflexivity.
  - eexists. eexists. split; [reflexivity|]. split; [reflexivity|]. split; reflexivity.
Qed.
Print Assumptions C37_dnf_increase_split_refuted.

Example C37_dnf_dropped_empty_is_noop_nonvacuous :
  let cdnf := fun _ : expr => @nil expr in
  let a := {| a_params := []; a_pre := []; a_effs := [eff fy (EBool true) (EAnd [fl fc; ENot (fl fc)]) KAssign true] |} in
  Forall (dnf_effect_ok cdnf Pb s_cd a []) (a_effs a) /\ flat_map (split_effect cdnf) (a_effs a) = [] /\
  applicable Pb s_cd a [] = true.
Proof.
  cbv zeta. split; [|split; reflexivity].
  repeat constructor; try discriminate.
  - exists false. reflexivity.
  - intros d [].
Qed.

Example C37_goals_nonvacuous :
  let gs := [EOr [fl fx; fl fd]; fl fc] in
  let cs := [CFake fk [[fl fx]; [fl fd]]; CDirect (fl fc)] in
  Forall2 (cgoal_ok Pb s_cd) gs cs /\ all_hold false (mk_interp Pb s_cd []) gs = true /\
  (exists t, spec_step false Pb s_cd (fake_action fk [fl fd]) [] = Some t /\ t fk [] = Some (VBool true)).
Proof.
  cbv zeta. split; [repeat constructor|]. split; [reflexivity|]. eexists. split; reflexivity.
Qed.
