(* C19, part "stmt": the statements of an action body (timed conditions, timed effects) on top of the expression
   codec.  Model/AnmlStmt.v: pr_timing / pr_interval / pr_stmt mirror ANMLWriter._convert_anml_timing,
   _convert_anml_interval, _convert_effect and the condition lines; parse_timing / parse_interval / parse_stmt mirror
   the grammar's interval / timed_expression / conditional_expression / assignment productions and
   ANMLReader._parse_timing, _parse_interval, _parse_assignment, _populate_parsed_action_body (is_global = False). *)
From Coq Require Import List ZArith NArith QArith Qcanon Bool.
Import ListNotations.
Require Import UPV.Core.Expr UPV.Core.Eval UPV.Planning.Problem UPV.Planning.Temporal.
Require Import UPV.Model.AnmlExpr UPV.Proofs.AnmlExpr_proofs UPV.Model.AnmlStmt UPV.Proofs.AnmlStmt_proofs.

(* every timing the reader accepts inside an action (start + d, end - d, d a non-negative rational) is read back
   exactly, in front of any of the tokens that can follow a timing ("," "]" ")") *)
Theorem C19_stmt_timing_roundtrip :
  forall tm rest, timing_ok tm = true -> tstop rest = true -> parse_timing (pr_timing tm ++ rest) = Some (tm, rest).
Proof. exact timing_rt. Qed.
Print Assumptions C19_stmt_timing_roundtrip.

(* all four bracket combinations; an interval of one instant is printed "[ t ]" and read as the Timing t *)
Theorem C19_stmt_interval_roundtrip :
  forall iv rest, interval_ok iv = true ->
  parse_interval (pr_interval iv ++ rest)
  = Some (if timing_eqb (ti_lo iv) (ti_hi iv) then PPoint (ti_lo iv) else PIv iv, rest).
Proof. exact interval_rt. Qed.
Print Assumptions C19_stmt_interval_roundtrip.

(* a timed condition: the interval is read back exactly, the expression as its normal form (C19_expr_roundtrip is the
   inner step).  Hypothesis names_ok: as in Props/C19_expr.v. *)
Theorem C19_stmt_condition_roundtrip :
  forall W R arity, names_ok W R arity ->
  forall iv c, stmt_ok R arity (SCond iv c) = true ->
  parse_stmt R (pr_stmt W (SCond iv c)) = Some (norm_stmt (SCond iv c)).
Proof. intros W R arity HN iv c H. exact (cond_rt W R arity HN iv c H). Qed.
Print Assumptions C19_stmt_condition_roundtrip.

(* a timed effect - assignment, :increase, :decrease; plain, conditional (`when c {...}`), universally quantified
   (`forall (T v){...}`) and both - is read back with the same timing, target, kind and variables; arguments, value
   and condition as their normal forms; under a forall the reader builds the condition And(c, TRUE) (norm_effect).
   Inner steps: the interval theorem for "[ t ]", the expression theorem three times (condition, target, value),
   the quantifier declaration lemmas of the expression layer. *)
Theorem C19_stmt_effect_roundtrip :
  forall W R arity, names_ok W R arity ->
  forall tm e, stmt_ok R arity (SEff tm e) = true ->
  parse_stmt R (pr_stmt W (SEff tm e)) = Some (norm_stmt (SEff tm e)).
Proof. intros W R arity HN tm e H. exact (effect_rt W R arity HN tm e H). Qed.
Print Assumptions C19_stmt_effect_roundtrip.

(* every statement of the fragment *)
Theorem C19_stmt_roundtrip :
  forall W R arity, names_ok W R arity ->
  forall s, stmt_ok R arity s = true -> parse_stmt R (pr_stmt W s) = Some (norm_stmt s).
Proof.
  intros W R arity HN [iv c|tm e|tm e] H;
    [exact (C19_stmt_condition_roundtrip W R arity HN iv c H)|exact (C19_stmt_effect_roundtrip W R arity HN tm e H)
    |discriminate H].
Qed.
Print Assumptions C19_stmt_roundtrip.

(* concrete instances over the naming exW / exR of Props/C19_expr.v (names_ok proved there: ex_names_ok) *)
Definition ex_tm : timing := {| tm_anchor := AEnd; tm_delay := Q2Qc (Qmake (-7) 3) |}.
Definition ex_iv : tinterval :=
  {| ti_lo := {| tm_anchor := AStart; tm_delay := Q2Qc (Qmake 1 2) |}; ti_hi := ex_tm; ti_lopen := true; ti_ropen := false |}.
Definition ex_cond : stmt := SCond ex_iv (EAnd [EFluent 0 []; ENot (EFluent 1 [EObj 5; EParam 2])]).
Definition ex_eff (k : ekind) (c : expr) (vs : list (N * N)) : stmt :=
  SEff ex_tm {| e_fl := 1; e_args := [EObj 5; match vs with [] => EParam 2 | (v, t) :: _ => EVar v t end];
                e_val := EIff (EFluent 0 []) (EBool false); e_cond := c; e_kind := k; e_vars := vs; e_isbool := true |}.
Definition ex_stmts : list stmt :=
  [ ex_cond; ex_eff KAssign (EBool true) []; ex_eff KAssign (ELt (EFluent 2 []) (EInt (-1))) [];
    ex_eff KAssign (EBool true) [(1%N, 7%N)]; ex_eff KAssign (EOr [EFluent 0 []; EFluent 0 []]) [(1%N, 7%N); (2%N, 8%N)];
    SEff {| tm_anchor := AStart; tm_delay := Q2Qc 3 |}
         {| e_fl := 2; e_args := []; e_val := EPlus [EInt 1; EFluent 3 []]; e_cond := EBool true; e_kind := KInc;
            e_vars := []; e_isbool := false |};
    SEff {| tm_anchor := AStart; tm_delay := Q2Qc 0 |}
         {| e_fl := 2; e_args := []; e_val := EReal (Q2Qc (Qmake 5 4)); e_cond := EFluent 0 []; e_kind := KDec;
            e_vars := []; e_isbool := false |} ].
Definition pstmt_same (a b : option pstmt) : bool :=
  match a, b with
  | Some (PCond i c), Some (PCond j d) => expr_eqb c d && timing_eqb (ti_lo i) (ti_lo j) && timing_eqb (ti_hi i) (ti_hi j)
                                          && Bool.eqb (ti_lopen i) (ti_lopen j) && Bool.eqb (ti_ropen i) (ti_ropen j)
  | Some (PEff t e), Some (PEff u f) =>
      timing_eqb t u && (e_fl e =? e_fl f)%N && list_expr_eqb (e_args e) (e_args f) && expr_eqb (e_val e) (e_val f)
      && expr_eqb (e_cond e) (e_cond f) && vars_eqb (e_vars e) (e_vars f) && Bool.eqb (e_isbool e) (e_isbool f)
      && match e_kind e, e_kind f with KAssign, KAssign | KInc, KInc | KDec, KDec => true | _, _ => false end
  | _, _ => false
  end.
Definition ex_all_ok : bool :=
  forallb (fun s => stmt_ok exR ex_arity s && pstmt_same (parse_stmt exR (pr_stmt exW s)) (Some (norm_stmt s))) ex_stmts.
Example C19_stmt_roundtrip_nonvacuous :
  names_ok exW exR ex_arity
  /\ ex_all_ok = true
  /\ parse_stmt exR (pr_stmt exW ex_cond) = Some (norm_stmt ex_cond).
Proof.
  split; [exact ex_names_ok|]. split; [vm_compute; reflexivity|].
  apply (C19_stmt_roundtrip exW exR ex_arity ex_names_ok). vm_compute. reflexivity.
Qed.
Print Assumptions C19_stmt_roundtrip_nonvacuous.
