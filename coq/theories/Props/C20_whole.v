(* C20 (part "whole"): the protobuf round trip of WHOLE messages - actions, the core of a problem, sequential and
   time-triggered plans - composed from the component codecs of Props/C20.v.
   Model: Model/ProtoWhole.v (writer = the enc_ functions, reader + the add_ methods of the model classes = the dec_ functions).
   Every theorem has the form  wf x = true -> dec (enc x) = Some x ;  wf is a boolean that states what every Python
   object of that class satisfies inside its problem, and excludes exactly the shapes of the recorded findings
   (C20-F1 proto3 default collapse, C20-F2 empty sequential plan) - for those a _refuted witness is proved. *)
From Coq Require Import List ZArith NArith QArith Qreduction Bool.
Import ListNotations.
Require Import UPV.Model.ProtoCodec.
Require Import UPV.Corr.Corr_C20.
Require Import UPV.Model.ProtoWhole.
Require Import UPV.Proofs.ProtoWhole_proofs.
Open Scope list_scope.

(* ------------------------------------------------------------------ the dict rebuilding lemma *)
(* Re-adding the flattened content of a dict of lists (setdefault + add) rebuilds the dict: keys pairwise different
   (w.r.t. a reflexive key equality), no empty list, each list is what successive adds produce.
   Instances: DurativeAction.add_condition, TimedCondsEffs._add_effect_instance, Problem.add_timed_goal,
   Problem._add_effect_instance. *)
Theorem C20_dict_rebuild :
  forall (K V : Type) (keq : K -> K -> bool), (forall k, keq k k = true) ->
  forall (add : list V -> V -> list V) (add_ok : list V -> V -> bool),
  (forall pre v, add_ok pre v = true -> add pre v = pre ++ [v]) ->
  forall d, dict_ok keq add_ok d = true -> regroup keq add (flatten d) = d.
Proof. exact (@regroup_flatten). Qed.
Print Assumptions C20_dict_rebuild.

(* ------------------------------------------------------------------ actions *)
(* Hypothesis wf_actionb (see Model/ProtoWhole.v): parameter names distinct (OrderedDict) and parameter types known;
   every expression / effect / timing / interval satisfies the component hypotheses; preconditions are
   duplicate-free and do not contain the constant TRUE (add_precondition drops both); conditions per interval are
   duplicate-free and non-empty, interval keys distinct (dict); effect lists per timing non-empty, timing keys
   distinct. *)
Theorem C20_action_codec :
  forall (user_type : name -> bool) (obj_ty fluent_ty : name -> option ty) (a : action),
  wf_actionb user_type obj_ty fluent_ty a = true ->
  dec_action user_type obj_ty fluent_ty (enc_action a) = Some a.
Proof. exact action_codec. Qed.
Print Assumptions C20_action_codec.

(* ------------------------------------------------------------------ problems *)
(* Hypotheses: wf_problemb (names of types / objects / fluents / actions pairwise different; every father declared
   earlier in user_types and not named ""; problem name not ""; defaults are constants; initial-value keys distinct;
   goals without the constant TRUE; timed goals / timed effects are well-formed dicts; all components satisfy
   their component hypotheses w.r.t. the problem's own symbol tables) and: the stored trajectory constraints are
   fixpoints of the external simplifier [simp] (add_trajectory_constraint stores constraint.simplify()). *)
Theorem C20_problem_codec :
  forall (simp : expr -> expr) (p : problem),
  wf_problemb p = true -> Forall (fun e => simp e = e) (p_traj p) ->
  dec_problem simp (enc_problem p) = Some p.
Proof. exact problem_codec. Qed.
Print Assumptions C20_problem_codec.

(* the order of the type declarations matters only through this lemma: reading the declarations in the writer's
   order (fathers first) rebuilds the list; the father of each type is found among the types read so far *)
Theorem C20_types_codec :
  forall l, types_ok [] l = true -> fold_opt add_type_decl (map enc_user_type l) [] = Some l.
Proof. intros l H. exact (types_phase l [] H). Qed.
Print Assumptions C20_types_codec.

(* ------------------------------------------------------------------ plans *)
(* [action_sig n] = (number of parameters, is durative) of problem.action(n).  Hypothesis: the plan is not empty
   (finding C20-F2), every instance refers to an action of the problem with the right number of constant
   parameters, objects belong to the problem. *)
Theorem C20_seq_plan_codec :
  forall (obj_ty : name -> option ty) (action_sig : name -> option (nat * bool)) (l : list ainst),
  wf_seq_planb obj_ty action_sig l = true ->
  dec_plan obj_ty action_sig (enc_plan (PSeq l)) = Some (PSeq l).
Proof. exact seq_plan_codec. Qed.
Print Assumptions C20_seq_plan_codec.

(* Hypothesis: start times / durations are reduced Fractions; duration None exactly for non-durative actions, a
   non-durative action has no explicit duration 0 (the message only carries start and end). *)
Theorem C20_tt_plan_codec :
  forall (obj_ty : name -> option ty) (action_sig : name -> option (nat * bool)) (l : list (Q * ainst * option Q)),
  wf_tt_planb obj_ty action_sig l = true ->
  dec_plan obj_ty action_sig (enc_plan (PTT l)) = Some (PTT l).
Proof. exact tt_plan_codec. Qed.
Print Assumptions C20_tt_plan_codec.

(* ------------------------------------------------------------------ a concrete problem (non-vacuity) *)
(* identifiers: 1 = T, 2 = T2 (son of T), 3 = o1, 4 = o2, 5 = fluent f(x:T), 6 = fluent n, 7 = act, 8 = dur,
   9 = parameter x, 10 = problem name *)
Definition ex_types : list (name * option name) := [(1%N, None); (2%N, Some 1%N)].
Definition ex_objects : list (name * ty) := [(3%N, TyUser 1%N); (4%N, TyUser 2%N)].
Definition ex_tn : ty := TyInt (Some 0%Z) None.
Definition ex_fluents : list fluent_decl :=
  [ {| fd_name := 5%N; fd_type := TyBool; fd_sig := [(9%N, TyUser 1%N)]; fd_default := Some (EBool false) |};
    {| fd_name := 6%N; fd_type := ex_tn; fd_sig := []; fd_default := Some (EInt 0%Z) |} ].
Definition ex_fx (t : name) : expr := EFluent 5%N TyBool [EParam 9%N (TyUser t)].
Definition ex_fo : expr := EFluent 5%N TyBool [EObj 3%N (TyUser 1%N)].
Definition ex_n : expr := EFluent 6%N ex_tn [].
Definition ex_eff (k : effkind) (f v : expr) : effect :=
  {| ef_kind := k; ef_fluent := f; ef_value := v; ef_cond := EBool true; ef_forall := [] |}.
Definition ex_inst : action :=
  AInst 7%N [(9%N, TyUser 1%N)] [EOp ONot [ex_fx 1%N]; EOp OLe [ex_n; EInt 3%Z]]
        [ex_eff Assign (ex_fx 1%N) (EBool true); ex_eff Increase ex_n (EInt 1%Z)].
Definition ex_tm (k : tpkind) (d : Q) : timing := {| tm_delay := d; tm_tp := {| tp_kind := k; tp_container := None |} |}.
Definition ex_span : tinterval :=
  {| ti_lower := ex_tm Start (0#1); ti_upper := ex_tm End_ (-1#3); ti_lopen := false; ti_ropen := true |}.
Definition ex_dur : action :=
  ADur 8%N [(9%N, TyUser 2%N)]
       {| di_lower := EInt 1%Z; di_upper := EReal (7#2); di_lopen := false; di_ropen := true |}
       [ (ex_span, [ex_fx 2%N; EOp OLt [EInt 0%Z; ex_n]]);
         ({| ti_lower := ex_tm Start (0#1); ti_upper := ex_tm Start (0#1); ti_lopen := false; ti_ropen := false |},
          [EBool true; ex_fx 2%N]) ]
       [ (ex_tm Start (1#2), [ex_eff Assign (ex_fx 2%N) (EBool false)]);
         (ex_tm End_ (0#1), [ex_eff Assign (ex_fx 2%N) (EBool true); ex_eff Decrease ex_n (EReal (1#3))]) ].
Definition ex_gspan : tinterval :=
  {| ti_lower := ex_tm GlobalStart (5#1); ti_upper := ex_tm GlobalEnd (0#1); ti_lopen := true; ti_ropen := false |}.
Definition ex_problem : problem :=
  {| p_name := Some 10%N; p_types := ex_types; p_fluents := ex_fluents; p_objects := ex_objects;
     p_actions := [ex_inst; ex_dur];
     p_init := [(ex_fo, EBool true); (ex_n, EInt 2%Z)];
     p_timed_effects := [(ex_tm GlobalStart (5#2), [ex_eff Assign ex_fo (EBool false)])];
     p_goals := [ex_fo; EOp OLe [ex_n; EInt 9%Z]; ex_fo];
     p_timed_goals := [(ex_gspan, [ex_fo; EOp ONot [ex_fo]])];
     p_metrics := [MActionCosts [(7%N, EInt 2%Z)] (Some (EInt 1%Z)); MMakespan];
     p_traj := [EOp OAlways [ex_fo]];
     p_discrete := false; p_self_overlapping := true; p_epsilon := Some (1#100) |}.
Definition ex_ut := ut_of ex_types.
Definition ex_ot := ot_of ex_objects.
Definition ex_ft := ft_of ex_fluents.

Example C20_action_codec_nonvacuous :
  wf_actionb ex_ut ex_ot ex_ft ex_inst = true /\ wf_actionb ex_ut ex_ot ex_ft ex_dur = true
  /\ dec_action ex_ut ex_ot ex_ft (enc_action ex_dur) = Some ex_dur.
Proof.
  assert (H : wf_actionb ex_ut ex_ot ex_ft ex_dur = true) by (vm_compute; reflexivity).
  split; [vm_compute; reflexivity|]. split; [exact H|]. exact (C20_action_codec _ _ _ _ H).
Qed.

Definition ex_simp (e : expr) : expr := e.
Example C20_problem_codec_nonvacuous :
  wf_problemb ex_problem = true /\ dec_problem ex_simp (enc_problem ex_problem) = Some ex_problem.
Proof.
  assert (H : wf_problemb ex_problem = true) by (vm_compute; reflexivity).
  split; [exact H|]. apply C20_problem_codec; [exact H|].
  repeat constructor.
Qed.

Definition ex_sig (n : name) : option (nat * bool) :=
  if (n =? 7)%N then Some (1%nat, false) else if (n =? 8)%N then Some (1%nat, true) else None.
Definition ex_seq : list ainst := [(7%N, [EObj 3%N (TyUser 1%N)]); (7%N, [EObj 4%N (TyUser 2%N)])].
Definition ex_tt : list (Q * ainst * option Q) :=
  [ (1#2, (7%N, [EObj 3%N (TyUser 1%N)]), None);
    (3#1, (8%N, [EObj 4%N (TyUser 2%N)]), Some (0#1));
    (-7#3, (8%N, [EObj 4%N (TyUser 2%N)]), Some (22#7));
    (3#1, (7%N, [EObj 4%N (TyUser 2%N)]), Some (5#1)) ].

Example C20_seq_plan_codec_nonvacuous :
  wf_seq_planb ex_ot ex_sig ex_seq = true /\ dec_plan ex_ot ex_sig (enc_plan (PSeq ex_seq)) = Some (PSeq ex_seq).
Proof.
  assert (H : wf_seq_planb ex_ot ex_sig ex_seq = true) by (vm_compute; reflexivity).
  split; [exact H | exact (C20_seq_plan_codec _ _ _ H)].
Qed.

Example C20_tt_plan_codec_nonvacuous :
  wf_tt_planb ex_ot ex_sig ex_tt = true /\ dec_plan ex_ot ex_sig (enc_plan (PTT ex_tt)) = Some (PTT ex_tt).
Proof.
  assert (H : wf_tt_planb ex_ot ex_sig ex_tt = true) by (vm_compute; reflexivity).
  split; [exact H | exact (C20_tt_plan_codec _ _ _ H)].
Qed.

(* ------------------------------------------------------------------ the hypotheses are necessary *)
(* C20-F1: a problem named "" is read back with name None *)
Definition ex_problem_noname : problem :=
  {| p_name := Some 0%N; p_types := []; p_fluents := []; p_objects := []; p_actions := []; p_init := [];
     p_timed_effects := []; p_goals := []; p_timed_goals := []; p_metrics := []; p_traj := [];
     p_discrete := false; p_self_overlapping := false; p_epsilon := None |}.
Theorem C20_problem_codec_empty_name_refuted :
  exists p, dec_problem ex_simp (enc_problem p) <> Some p.
Proof. exists ex_problem_noname. vm_compute. discriminate. Qed.
Print Assumptions C20_problem_codec_empty_name_refuted.

(* C20-F1 again: a user type whose father is named "" is read back fatherless *)
Theorem C20_types_codec_empty_father_refuted :
  exists l, fold_opt add_type_decl (map enc_user_type l) [] <> Some l.
Proof. exists [(0%N, None); (1%N, Some 0%N)]. vm_compute. discriminate. Qed.
Print Assumptions C20_types_codec_empty_father_refuted.

(* C20-F2: the empty sequential plan is read back as a time-triggered plan *)
Theorem C20_seq_plan_codec_empty_refuted :
  exists l, dec_plan ex_ot ex_sig (enc_plan (PSeq l)) <> Some (PSeq l).
Proof. exists []. vm_compute. discriminate. Qed.
Print Assumptions C20_seq_plan_codec_empty_refuted.

(* time-triggered plans: a non-durative action with explicit duration 0 comes back with duration None, and a
   durative action with duration None comes back with duration 0 (the message has no "no duration") *)
Definition ex_tt_inst0 : list (Q * ainst * option Q) := [(1#1, (7%N, [EObj 3%N (TyUser 1%N)]), Some (0#1))].
Definition ex_tt_durnone : list (Q * ainst * option Q) := [(1#1, (8%N, [EObj 4%N (TyUser 2%N)]), None)].
Theorem C20_tt_plan_codec_duration_refuted :
  dec_plan ex_ot ex_sig (enc_plan (PTT ex_tt_inst0)) <> Some (PTT ex_tt_inst0)
  /\ dec_plan ex_ot ex_sig (enc_plan (PTT ex_tt_durnone)) <> Some (PTT ex_tt_durnone).
Proof. split; vm_compute; discriminate. Qed.
Print Assumptions C20_tt_plan_codec_duration_refuted.

(* a durative action whose conditions dict holds an empty list (only reachable through the private
   _set_conditions) loses that key: the non-emptiness clause of dict_ok is necessary *)
Definition ex_dur_emptykey : action :=
  ADur 8%N [] {| di_lower := EInt 1%Z; di_upper := EInt 1%Z; di_lopen := false; di_ropen := false |}
       [(ex_span, [])] [].
Theorem C20_action_codec_empty_condition_list_refuted :
  dec_action ex_ut ex_ot ex_ft (enc_action ex_dur_emptykey) <> Some ex_dur_emptykey.
Proof. vm_compute. discriminate. Qed.
Print Assumptions C20_action_codec_empty_condition_list_refuted.
