(* C27 — Deordering a valid sequential plan keeps every linearisation valid.
   [deorder] (Planning/Deorder.v) models SequentialPlan._to_partial_order_plan: read / write sets of every action
   instance (after quantifier and forall-effect expansion, under the instance's parameter binding), the
   last_modifier / all_required loop, None for the UPUsageError on nested fluents.  networkx's transitive reduction is
   "any edge list G' in which every edge of the loop's graph is a path".  [topological G pl pl'] is what
   PartialOrderPlan.all_sequential_plans enumerates.  Validity is the documented sequential semantics
   [spec_step false] of C01 (strict evaluation); the general theorem holds for both evaluator modes.
   Hypotheses (DESIGN.md 6.00): instances are pairwise distinct; every state invariant / bounded-type constraint reads
   at most one ground fluent ([inv_local], decidable; true in particular without invariants and bounded types) and
   holds initially.  With an invariant over two fluents the statement is false for the algorithm as written
   (C27_hypothesis_needed_multi_fluent_invariant). *)
From Coq Require Import List ZArith NArith QArith Qcanon Bool Relations Permutation.
Import ListNotations.
Require Import UPV.Core.Expr UPV.Core.Eval UPV.Core.Interp UPV.Planning.Problem UPV.Planning.Sem UPV.Planning.Deorder.
Require Import UPV.Proofs.Step_proofs UPV.Proofs.Deorder_proofs.

(* every topological ordering of the deordered plan is a valid plan that reaches the same final state *)
Theorem deorder_all_linearizations :
  forall P s0 pl G,
    valid_plan false P s0 pl = true -> NoDup pl ->
    inv_local false P = true -> invariants_ok false P s0 = true ->
    deorder false P pl = Some G ->
    forall pl', topological G pl pl' ->
      valid_plan false P s0 pl' = true /\
      exists fin fin', run P (spec_step false P) s0 pl = Some fin /\ run P (spec_step false P) s0 pl' = Some fin' /\
                       state_eq fin' fin.
Proof.
  intros P s0 pl G HV ND HL HI HD pl' HT.
  apply (deorder_all_linearizations_gen false P s0 pl G HV ND HL HI HD G pl'); [|exact HT].
  intros x y H. apply t_step. exact H.
Qed.
Print Assumptions deorder_all_linearizations.

(* the same for the graph the implementation returns (any graph in which the loop's edges are paths, e.g. the
   transitive reduction) and for both evaluator modes *)
Theorem deorder_all_linearizations_any_reduction :
  forall sc P s0 pl G,
    valid_plan sc P s0 pl = true -> NoDup pl ->
    inv_local sc P = true -> invariants_ok sc P s0 = true ->
    deorder sc P pl = Some G ->
    forall G' pl', (forall x y, In (x, y) G -> reach G' x y) -> topological G' pl pl' ->
      valid_plan sc P s0 pl' = true /\
      exists fin fin', run P (spec_step sc P) s0 pl = Some fin /\ run P (spec_step sc P) s0 pl' = Some fin' /\
                       state_eq fin' fin.
Proof. exact deorder_all_linearizations_gen. Qed.
Print Assumptions deorder_all_linearizations_any_reduction.

(* without state invariants and bounded types no further hypothesis is needed *)
Theorem deorder_all_linearizations_no_invariants :
  forall P s0 pl G,
    valid_plan false P s0 pl = true -> NoDup pl -> no_invariants P = true ->
    deorder false P pl = Some G ->
    forall pl', topological G pl pl' ->
      valid_plan false P s0 pl' = true /\
      exists fin fin', run P (spec_step false P) s0 pl = Some fin /\ run P (spec_step false P) s0 pl' = Some fin' /\
                       state_eq fin' fin.
Proof.
  intros P s0 pl G HV ND HN HD pl' HT. destruct (no_invariants_local false P HN) as [HL HI].
  exact (deorder_all_linearizations P s0 pl G HV ND HL (HI s0) HD pl' HT).
Qed.
Print Assumptions deorder_all_linearizations_no_invariants.

(* the partial order keeps the original relative order of every two instances where one writes a ground fluent that
   the other reads or writes *)
Theorem deorder_keeps_conflicting_order :
  forall sc P pl G, NoDup pl -> deorder sc P pl = Some G ->
    forall x y, before pl x y -> conflict sc P x y = true -> reach G x y.
Proof. exact deorder_keeps_conflicting_order_proof. Qed.
Print Assumptions deorder_keeps_conflicting_order.

(* ... hence so does every linearisation of any graph with the same paths *)
Theorem linearizations_keep_conflicting_order :
  forall sc P pl G, NoDup pl -> deorder sc P pl = Some G ->
    forall G' pl', (forall x y, In (x, y) G -> reach G' x y) -> topological G' pl pl' ->
    forall x y, before pl x y -> conflict sc P x y = true -> before pl' x y.
Proof.
  intros sc P pl G ND HD G' pl' HG [HP HT] x y Hb HC.
  apply (topo_respects_reach G' pl' (Permutation_NoDup HP ND) HT).
  apply (reach_sub G G' HG). exact (deorder_keeps_conflicting_order_proof sc P pl G ND HD x y Hb HC).
Qed.
Print Assumptions linearizations_keep_conflicting_order.

(* the graph only orders forward: the sequential plan is one of its linearisations *)
Theorem deorder_original_is_linearization :
  forall sc P pl G, deorder sc P pl = Some G -> topological G pl pl.
Proof. exact deorder_original_topological. Qed.
Print Assumptions deorder_original_is_linearization.

(* core lemmas, restated: frame ... *)
Theorem C27_frame :
  forall sc s s' e I, nf e I = true ->
    (forall f vs, In (f, vs) (reads sc e I) -> s f vs = s' f vs) ->
    eval sc e (set_fl I s) = eval sc e (set_fl I s').
Proof. exact eval_frame. Qed.
Print Assumptions C27_frame.

(* ... a step modifies only its write set ... *)
Theorem C27_writes_overapproximate :
  forall sc P s a args s1, act_nf P a args = true ->
    spec_step sc P s a args = Some s1 ->
    forall f vs, ~ In (f, vs) (act_writes sc P a args) -> s1 f vs = s f vs.
Proof.
  intros sc P s a args s1 HN HS f vs Hn. rewrite spec_step_core in HS.
  destruct (step_core sc P s a args) as [acts|] eqn:E; [|discriminate]. cbv zeta in HS.
  destruct (invariants_ok sc P (spec_succ P s acts)); [|discriminate]. inversion HS; subst.
  exact (spec_succ_outside sc P s a args acts f vs HN E Hn).
Qed.
Print Assumptions C27_writes_overapproximate.

(* ... and adjacent independent steps commute *)
Theorem C27_commute :
  forall sc P s s1 s2 a argsA b argsB,
    act_nf P a argsA = true -> act_nf P b argsB = true ->
    (forall k, In k (act_writes sc P a argsA) -> ~ In k (act_reads sc P b argsB)) ->
    (forall k, In k (act_writes sc P b argsB) -> ~ In k (act_reads sc P a argsA)) ->
    inv_local sc P = true -> invariants_ok sc P s = true ->
    spec_step sc P s a argsA = Some s1 -> spec_step sc P s1 b argsB = Some s2 ->
    exists s1' s2', spec_step sc P s b argsB = Some s1' /\ spec_step sc P s1' a argsA = Some s2' /\ state_eq s2' s2.
Proof. exact commute_steps. Qed.
Print Assumptions C27_commute.

(* ------------------------------------------------------------------ non-vacuity and the limit of the statement *)
Definition bf (i : N) : fdecl := {| fd_id := i; fd_sig := []; fd_ty := FBool |}.
Definition set_true (i : N) (pre : list expr) : action :=
  {| a_params := []; a_pre := pre;
     a_effs := [{| e_fl := i; e_args := []; e_val := EBool true; e_cond := EBool true; e_kind := KAssign;
                   e_vars := []; e_isbool := true |}] |}.
Definition set_false (i : N) : action :=
  {| a_params := []; a_pre := [];
     a_effs := [{| e_fl := i; e_args := []; e_val := EBool false; e_cond := EBool true; e_kind := KAssign;
                   e_vars := []; e_isbool := true |}] |}.

(* p := true ; q := true ; (needs p and q) r := true *)
Definition exP : problem :=
  {| p_objs := []; p_ifun := []; p_fluents := [bf 0; bf 1; bf 2];
     p_actions := [(0%N, set_true 0 []); (1%N, set_true 1 []); (2%N, set_true 2 [EFluent 0%N []; EFluent 1%N []])];
     p_goals := [EFluent 2%N []]; p_invs := [] |}.
Definition exS0 : state := fun _ _ => Some (VBool false).
Definition exPlan : list inst := [(0%N, []); (1%N, []); (2%N, [])].
Definition exPlan' : list inst := [(1%N, []); (0%N, []); (2%N, [])].
Definition exG : list (inst * inst) := [((0%N, []), (2%N, [])); ((1%N, []), (2%N, []))].

Lemma exPlan_nodup : NoDup exPlan.
Proof. repeat constructor; simpl; intuition discriminate. Qed.

Lemma exPlan'_topological : topological exG exPlan exPlan'.
Proof.
  split; [apply perm_swap|]. intros x y [H|[H|[]]]; inversion H; subst.
  - exists [(1%N, [])], [], []. reflexivity.
  - exists [], [(0%N, [])], []. reflexivity.
Qed.

Example deorder_all_linearizations_nonvacuous :
  valid_plan false exP exS0 exPlan = true /\ NoDup exPlan /\ inv_local false exP = true /\
  invariants_ok false exP exS0 = true /\ no_invariants exP = true /\ deorder false exP exPlan = Some exG /\
  topological exG exPlan exPlan' /\ exPlan' <> exPlan /\ valid_plan false exP exS0 exPlan' = true.
Proof.
  repeat split; try (vm_compute; reflexivity); try exact exPlan_nodup; try apply exPlan'_topological; try discriminate.
Qed.

Example deorder_keeps_conflicting_order_nonvacuous :
  NoDup exPlan /\ deorder false exP exPlan = Some exG /\ before exPlan (0%N, []) (2%N, []) /\
  conflict false exP (0%N, []) (2%N, []) = true /\ reach exG (0%N, []) (2%N, []).
Proof.
  repeat split; try (vm_compute; reflexivity); try exact exPlan_nodup.
  - exists [], [(1%N, [])], []. reflexivity.
  - apply t_step. left. reflexivity.
Qed.

(* With a state invariant over two ground fluents the algorithm (which looks at conditions and effects only) leaves
   two instances unordered although only one order respects the invariant: invariant a \/ b, initially a, not b;
   plan  b := true ; a := false.  This is why [inv_local] is a hypothesis. *)
Definition cxP : problem :=
  {| p_objs := []; p_ifun := []; p_fluents := [bf 0; bf 1];
     p_actions := [(0%N, set_true 1 []); (1%N, set_false 0)];
     p_goals := [EFluent 1%N []]; p_invs := [EOr [EFluent 0%N []; EFluent 1%N []]] |}.
Definition cxS0 : state := fun f _ => Some (VBool (f =? 0)%N).

Theorem C27_hypothesis_needed_multi_fluent_invariant :
  exists P s0 pl G pl',
    valid_plan false P s0 pl = true /\ NoDup pl /\ invariants_ok false P s0 = true /\ inv_local false P = false /\
    deorder false P pl = Some G /\ topological G pl pl' /\ valid_plan false P s0 pl' = false.
Proof.
  exists cxP, cxS0, [(0%N, []); (1%N, [])], [], [(1%N, []); (0%N, [])].
  repeat split; try (vm_compute; reflexivity).
  - repeat constructor; simpl; intuition discriminate.
  - apply perm_swap.
  - intros x y [].
Qed.
Print Assumptions C27_hypothesis_needed_multi_fluent_invariant.
