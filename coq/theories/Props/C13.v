(* C13 — Substitution replaces exactly the free occurrences of its keys.
   Only statements; each is closed by [exact] of a lemma from Proofs/Subst_proofs.v.
   Model of the code: Walkers/Subst.v part 1 ([substitute_call], [substitute], [walk], [filter_map], [compat_ty]).
   Specification: Walkers/Subst.v part 2 ([topdown_replace], [capture_free], [nf], [updated]).
   [nf e]: e is an expression the ExpressionManager's constructors can build (no Not directly under Not, And/Or/Plus/
   Times have >= 2 arguments); [nf] is closed under the constructors and under substitution (C13_result_nf). *)
From Coq Require Import List ZArith NArith QArith Qcanon Bool.
Import ListNotations.
Require Import UPV.Core.Expr UPV.Core.Eval UPV.Core.Interp UPV.Walkers.Subst UPV.Proofs.Subst_proofs.

(* ---- 1. the result is the top-down replacement of the maximal key occurrences ---- *)
Theorem C13_subst_spec :
  forall (s : smap) (e : expr), nf e = true -> substitute s e = topdown_replace s e.
Proof. exact subst_spec. Qed.
Print Assumptions C13_subst_spec.

(* the same for a whole call with a type-compatible map (any number of entries, any walker state before) *)
Theorem C13_call_spec :
  forall (st : wstate) (t : tmap) (e : expr),
    nf e = true -> forallb entry_ok t = true ->
    snd (substitute_call st t e) = Done (topdown_replace (untyped t) e).
Proof. exact call_spec. Qed.
Print Assumptions C13_call_spec.

(* the code's dictionary look-up and quantifier filter are the specification's "occurrence of a key" and
   "key containing a variable bound by the quantifier" *)
Theorem C13_lookup_is_occurrence : forall s e, lookup s e = assoc s e.
Proof. exact lookup_assoc. Qed.
Print Assumptions C13_lookup_is_occurrence.

Theorem C13_filter_is_drop_bound : forall s vs, filter_map s vs = drop_bound s vs.
Proof. exact filter_map_drop. Qed.
Print Assumptions C13_filter_is_drop_bound.

Theorem C13_result_nf :
  forall e s, (forall k v, In (k, v) s -> nf v = true) -> nf e = true -> nf (topdown_replace s e) = true.
Proof. exact nf_topdown_replace. Qed.
Print Assumptions C13_result_nf.

(* ---- 2. consequently the result evaluates like the original ----
   [sc] selects strict or short-circuit quantifier evaluation (Core/Eval.v); the theorem holds for both.
   Hypotheses: capture-freedom (DESIGN.md, "Hypothesis made explicit"), key and value have the same value in I,
   and a replacement of the form Not(y) has a Boolean-or-undefined y in I (the manager turns Not(Not y) into y; this
   is what well-typedness of the replacement gives under an interpretation that respects types). *)
Theorem C13_subst_eval :
  forall (sc : bool) (s : smap) (e : expr) (I : interp),
    nf e = true ->
    capture_free s e = true ->
    (forall k v, In (k, v) s -> eval sc k I = eval sc v I) ->
    (forall k y, In (k, ENot y) s -> bool_or_undef (eval sc y I)) ->
    eval sc (substitute s e) I = eval sc e I.
Proof. exact subst_eval. Qed.
Print Assumptions C13_subst_eval.

(* the form used inside quantifiers: I0 is where keys and values agree, J is I0 with the variables in B re-bound,
   no key of the (already filtered) map mentions B, values inserted below do not mention what is bound there *)
Theorem C13_subst_eval_under_binders :
  forall (sc : bool) (s0 : smap) (I0 : interp),
    (forall k v, In (k, v) s0 -> eval sc k I0 = eval sc v I0) ->
    (forall k y, In (k, ENot y) s0 -> bool_or_undef (eval sc y I0)) ->
    forall e B s J,
      nf e = true -> incl s s0 -> same_but B I0 J ->
      (forall k v, In (k, v) s -> disjointN (free_vars k) B = true) ->
      cfree B s e = true ->
      eval sc (topdown_replace s e) J = eval sc e J.
Proof. exact tr_eval. Qed.
Print Assumptions C13_subst_eval_under_binders.

(* evaluation only depends on the free variables (used for the previous theorem; also shows [free_vars] is right) *)
Theorem C13_eval_coincidence :
  forall sc e I J, same_static I J ->
    (forall x, In x (free_vars e) -> var J x = var I x) -> eval sc e J = eval sc e I.
Proof. exact eval_coincide. Qed.
Print Assumptions C13_eval_coincidence.

(* leaf keys (parameters, variables, ground fluent expressions), pairwise different, replacements and result not
   reading any key: the result in I evaluates like the original in I updated by the map *)
Theorem C13_subst_eval_updated :
  forall (sc : bool) (s : smap) (e : expr) (I : interp),
    nf e = true -> capture_free s e = true -> keys_ok s = true ->
    (forall k v, In (k, v) s -> unread s v = true) ->
    unread s (substitute s e) = true ->
    (forall k y, In (k, ENot y) s -> bool_or_undef (eval sc y I)) ->
    eval sc (substitute s e) I = eval sc e (updated sc s I).
Proof. exact subst_eval_updated. Qed.
Print Assumptions C13_subst_eval_updated.

Theorem C13_subst_eval_in_updated :
  forall (sc : bool) (s : smap) (e : expr) (I : interp),
    nf e = true -> capture_free s e = true -> keys_ok s = true ->
    (forall k v, In (k, v) s -> unread s v = true) ->
    (forall k y, In (k, ENot y) s -> bool_or_undef (eval sc y I)) ->
    eval sc (substitute s e) (updated sc s I) = eval sc e (updated sc s I).
Proof. exact subst_eval_in_updated. Qed.
Print Assumptions C13_subst_eval_in_updated.

(* the updated interpretation gives every key the value of its replacement *)
Theorem C13_updated_gives_keys_their_values :
  forall sc I s, keys_ok s = true ->
    forall k v, In (k, v) s -> eval sc k (updated sc s I) = eval sc v I.
Proof. exact updated_gives_keys. Qed.
Print Assumptions C13_updated_gives_keys_their_values.

(* ---- 3. a map with incompatible types is rejected before anything changes ---- *)
Theorem C13_rejects_first :
  forall (st : wstate) (t : tmap) (e : expr),
    forallb entry_ok t = false ->
    exists i, first_bad t = Some i /\ substitute_call st t e = (st, TypeErr i).
Proof. exact subst_rejects_first. Qed.
Print Assumptions C13_rejects_first.

Theorem C13_rejected_entry_is_first_incompatible :
  forall t i, first_bad t = Some i ->
    (exists x, nth_error t i = Some x /\ entry_ok x = false) /\ forallb entry_ok (firstn i t) = true.
Proof. exact first_bad_some. Qed.
Print Assumptions C13_rejected_entry_is_first_incompatible.

Theorem C13_accepts_compatible :
  forall st t e, forallb entry_ok t = true ->
    substitute_call st t e = (match t with [] => st | _ => [] end, Done (substitute (untyped t) e)).
Proof. exact subst_accepts. Qed.
Print Assumptions C13_accepts_compatible.

(* the re-check done by the fresh walker of a quantifier body (a sub-map) cannot raise *)
Theorem C13_recheck_passes :
  forall t t', forallb entry_ok t = true -> incl t' t -> first_bad t' = None.
Proof. exact recheck_passes. Qed.
Print Assumptions C13_recheck_passes.

(* ============================================ non-vacuity ============================================ *)
Module Ex.
  (* fluents: 0 = b0 (Boolean, no argument), 1 = b1(x : T0); variable 1 : T0; objects 0, 1 of type 0 *)
  Definition b0 := EFluent 0%N [].
  Definition b1 (a : expr) := EFluent 1%N [a].
  Definition x := EVar 1%N 0%N.
  Definition e := EAnd [b0; EExists [(1%N, 0%N)] (EOr [b1 x; b0])].
  (* b0 is replaced everywhere; b1(x) is a key too but mentions x, which the quantifier binds *)
  Definition s : smap := [(b0, ENot (b1 (EObj 0%N))); (b1 x, EBool true)].
  Definition F : finterp :=
    {| f_fl := [(0%N, [], VBool true); (1%N, [VObj 0%N], VBool false); (1%N, [VObj 1%N], VBool true)];
       f_par := []; f_var := [(1%N, VObj 1%N)]; f_ifun := []; f_objs := [(0%N, [0%N; 1%N])] |}.
  Definition I := to_interp F.
  Definition r := EAnd [ENot (b1 (EObj 0%N)); EExists [(1%N, 0%N)] (EOr [b1 x; ENot (b1 (EObj 0%N))])].
End Ex.

Example C13_subst_spec_nonvacuous :
  nf Ex.e = true /\ substitute Ex.s Ex.e = Ex.r /\ topdown_replace Ex.s Ex.e = Ex.r /\ Ex.r <> Ex.e.
Proof. repeat split; try reflexivity. discriminate. Qed.

Example C13_subst_eval_nonvacuous :
  nf Ex.e = true /\ capture_free Ex.s Ex.e = true /\
  (forall k v, In (k, v) Ex.s -> eval false k Ex.I = eval false v Ex.I) /\
  (forall k y, In (k, ENot y) Ex.s -> bool_or_undef (eval false y Ex.I)) /\
  eval false Ex.e Ex.I = Some (VBool true).
Proof.
  split; [reflexivity|]. split; [reflexivity|]. split; [|split].
  - intros k v [H|[H|[]]]; inversion H; subst; vm_compute; reflexivity.
  - intros k y [H|[H|[]]]; inversion H; subst. right. exists false. vm_compute. reflexivity.
  - vm_compute. reflexivity.
Qed.

Example C13_subst_eval_updated_nonvacuous :
  let s := [(Ex.b0, ENot (Ex.b1 (EObj 0%N))); (EVar 2%N 0%N, EObj 1%N)] in
  let e := EAnd [Ex.b0; EExists [(1%N, 0%N)] (EOr [EEquals Ex.x (EVar 2%N 0%N); Ex.b0])] in
  nf e = true /\ capture_free s e = true /\ keys_ok s = true /\
  (forall k v, In (k, v) s -> unread s v = true) /\ unread s (substitute s e) = true /\
  (forall k y, In (k, ENot y) s -> bool_or_undef (eval false y Ex.I)) /\
  eval false (substitute s e) Ex.I = Some (VBool true) /\ eval false e Ex.I = None.
Proof.
  cbv zeta. repeat split; try reflexivity.
  - intros k v [H|[H|[]]]; inversion H; subst; reflexivity.
  - intros k y [H|[H|[]]]; inversion H; subst. right. exists false. vm_compute. reflexivity.
Qed.

Example C13_rejects_first_nonvacuous :
  let t : tmap := [(Ex.b0, EBool true, TyBool, TyBool);
                   (EParam 0%N, EObj 0%N, TyUser 1%N [1%N; 0%N], TyUser 0%N [0%N]);       (* T1 key, T0 value *)
                   (EParam 1%N, EInt 7%Z, TyBool, TyInt (Some (qc 7 1)) (Some (qc 7 1)))] in
  forallb entry_ok t = false /\ substitute_call [] t Ex.e = ([], TypeErr 1).
Proof. cbv zeta. split; vm_compute; reflexivity. Qed.

(* ---- the hypotheses of C13_subst_eval are needed (these are facts about the specification, not defects) ---- *)
(* capture: the value mentions x and is inserted under Exists x *)
Example C13_capture_changes_value :
  let s := [(Ex.b0, Ex.b1 Ex.x)] in
  let e := EExists [(1%N, 0%N)] Ex.b0 in
  let F := {| f_fl := [(0%N, [], VBool true); (1%N, [VObj 0%N], VBool false); (1%N, [VObj 1%N], VBool true)];
              f_par := []; f_var := [(1%N, VObj 1%N)]; f_ifun := []; f_objs := [(0%N, [0%N])] |} in
  nf e = true /\ capture_free s e = false /\
  (forall k v, In (k, v) s -> eval false k (to_interp F) = eval false v (to_interp F)) /\
  substitute s e = topdown_replace s e /\
  eval false (substitute s e) (to_interp F) = Some (VBool false) /\ eval false e (to_interp F) = Some (VBool true).
Proof.
  cbv zeta. repeat split; try reflexivity.
  intros k v [H|[]]; inversion H; subst; vm_compute; reflexivity.
Qed.

(* Not(Not y) collapses: with an interpretation that gives the "Boolean" y a number, Not(k) is undefined but y is not *)
Example C13_double_negation_needs_boolean :
  let s := [(Ex.b0, ENot (EParam 0%N))] in
  let e := ENot Ex.b0 in
  let F := {| f_fl := []; f_par := [(0%N, VNum (qc 3 1))]; f_var := []; f_ifun := []; f_objs := [] |} in
  nf e = true /\ capture_free s e = true /\
  (forall k v, In (k, v) s -> eval false k (to_interp F) = eval false v (to_interp F)) /\
  substitute s e = EParam 0%N /\
  eval false (substitute s e) (to_interp F) = Some (VNum (qc 3 1)) /\ eval false e (to_interp F) = None.
Proof.
  cbv zeta. repeat split; try reflexivity.
  intros k v [H|[]]; inversion H; subst; vm_compute; reflexivity.
Qed.
