(* C30 — stub, replaced below *)
From Coq Require Import List ZArith NArith Bool.
Import ListNotations.
Require Import UPV.Model.Belief.
Theorem C30_stub : True. Proof. exact I. Qed.
Print Assumptions C30_stub.
