(* C30 — KS0 conformant-to-classical compilation is sound and complete.
   The translation itself is validated per instance (harness/props/c30.py + Corr/Corr_C30.v); the theorems below are
   what makes that validation meaningful: the belief-space semantics over the shared sequential semantics
   [spec_step false], the exhaustiveness of the checkers that Coq runs on the compiler's output, and the soundness of
   the dominated-state reduction for the literal-level model of _get_relevance_relation /
   _reduce_possible_initial_states_to_basis.  Only statements; proofs are in Proofs/Belief_proofs.v. *)
From Coq Require Import List ZArith NArith Bool.
Import ListNotations.
Require Import UPV.Core.Expr UPV.Core.Eval UPV.Core.Interp UPV.Planning.Problem UPV.Planning.Sem.
Require Import UPV.Proofs.Step_proofs UPV.Model.Belief UPV.Proofs.Belief_proofs.

(* a plan passes the conformance check iff, from EVERY possible initial state, it is executable and ends in a goal
   state (valid_plan of the shared planning semantics, strict reading) *)
Theorem C30_conformant_check_correct :
  forall P inits pi,
    conformant_check P inits pi = true <-> forall s, In s inits -> valid_plan false P s pi = true.
Proof. exact conformant_check_correct. Qed.
Print Assumptions C30_conformant_check_correct.

(* the belief-space search is exhaustive up to its depth: the answer "no" means that no plan over the ground instances
   of length <= n is conformant (None = a key outside K, excluded) *)
Theorem C30_exists_conformant_plan_complete :
  forall K P insts inits n,
    exists_conformant_plan K P insts inits n = Some false ->
    forall pi, plan_over insts pi -> length pi <= n -> conformant_check P (map fst_of inits) pi = false.
Proof. exact exists_conformant_plan_complete. Qed.
Print Assumptions C30_exists_conformant_plan_complete.

(* ... and the answer "yes" is witnessed by a conformant plan within the bound *)
Theorem C30_exists_conformant_plan_sound :
  forall K P insts inits n,
    exists_conformant_plan K P insts inits n = Some true ->
    exists pi, plan_over insts pi /\ length pi <= n /\ conformant_check P (map fst_of inits) pi = true.
Proof. exact exists_conformant_plan_sound. Qed.
Print Assumptions C30_exists_conformant_plan_sound.

(* soundness validator: when [sound_check] accepts a compiled problem CP with plan-back table [back], every valid plan
   of CP of length <= n maps back to a plan that is conformant for the original problem P and the possible initial
   states [inits] *)
Theorem C30_sound_check_correct :
  forall KC CP KO P back cacts c0 inits n,
    sound_check KC CP KO P back cacts c0 inits n = true ->
    forall pi, plan_over cacts pi -> length pi <= n -> valid_plan false CP (fst_of c0) pi = true ->
               conformant_check P (map fst_of inits) (map_back back pi) = true.
Proof. exact sound_check_correct. Qed.
Print Assumptions C30_sound_check_correct.

(* ... and for plans of EVERY length when the explored product graph is closed *)
Theorem C30_sound_check_closed_correct :
  forall KC CP KO P back cacts c0 inits n,
    sound_check_closed KC CP KO P back cacts c0 inits n = true ->
    forall pi, plan_over cacts pi -> valid_plan false CP (fst_of c0) pi = true ->
               conformant_check P (map fst_of inits) (map_back back pi) = true.
Proof. exact sound_check_closed_correct. Qed.
Print Assumptions C30_sound_check_closed_correct.

(* completeness validator, negative side: "the compiled problem is unsolvable" is exact *)
Theorem C30_unsolvable_closed_correct :
  forall K P acts c0 n,
    unsolvable_closed K P acts c0 n = true ->
    forall pi, plan_over acts pi -> valid_plan false P (fst_of c0) pi = false.
Proof. exact unsolvable_closed_correct. Qed.
Print Assumptions C30_unsolvable_closed_correct.

(* the relation computed by the model of _get_relevance_relation is reflexive, contains "condition -> target" for
   every effect rule, is transitive and closed under the complement rule (None = out of fuel, excluded) *)
Theorem C30_relevance_ok :
  forall NP fuel R, relevance NP fuel = Some R -> rel_ok NP R.
Proof. exact relevance_ok. Qed.
Print Assumptions C30_relevance_ok.

(* the literal-level semantics used for the prepared (ground, DNF-normalised) problem IS the shared planning semantics
   of its rendering as a [problem]: literals as preconditions, effects "fluent := constant if conjunction of literals" *)
Theorem C30_prepared_semantics :
  forall NP, nwf NP = true -> forall pi s t,
    state_eq t (embed_state s) -> valid_plan false (embed NP) t (embed_plan pi) = nvalid NP s pi.
Proof. exact embed_valid. Qed.
Print Assumptions C30_prepared_semantics.

(* basis reduction: for the model of _reduce_possible_initial_states_to_basis (with the relation computed by the model
   of _get_relevance_relation), a plan is conformant for the kept states iff it is conformant for ALL possible initial
   states, in the shared semantics [spec_step false] — so dropping dominated states changes neither "this (mapped-back)
   plan is conformant" nor "a conformant plan exists" *)
Theorem C30_basis_reduction_sound :
  forall NP fuel R S0,
    nwf NP = true -> relevance NP fuel = Some R ->
    forall pi, conformant_check (embed NP) (map embed_state (reduce_to_basis NP R S0)) (embed_plan pi)
               = conformant_check (embed NP) (map embed_state S0) (embed_plan pi).
Proof. exact basis_reduction_sound. Qed.
Print Assumptions C30_basis_reduction_sound.

Theorem C30_basis_reduction_same_answer :
  forall NP fuel R S0,
    nwf NP = true -> relevance NP fuel = Some R ->
    ((exists pi, nconformant NP (reduce_to_basis NP R S0) pi = true) <-> (exists pi, nconformant NP S0 pi = true)).
Proof. exact basis_reduction_exists. Qed.
Print Assumptions C30_basis_reduction_same_answer.

(* ------------------------------------------------------------------ non-vacuity *)
(* one Boolean fluent g (id 0); action 0 sets it; goal g *)
Definition ex_g : expr := EFluent 0%N [].
Definition ex_P (acts : list (N * action)) : problem :=
  {| p_objs := []; p_ifun := []; p_fluents := [{| fd_id := 0%N; fd_sig := []; fd_ty := FBool |}];
     p_actions := acts; p_goals := [ex_g]; p_invs := [] |}.
Definition ex_set : action :=
  {| a_params := []; a_pre := [];
     a_effs := [{| e_fl := 0%N; e_args := []; e_val := EBool true; e_cond := EBool true; e_kind := KAssign;
                   e_vars := []; e_isbool := true |}] |}.
Definition ex_K : list gfl := [(0%N, [])].
Definition ex_false : fstate := [(0%N, [], VBool false)].

Example C30_exists_conformant_plan_complete_nonvacuous :
  exists_conformant_plan ex_K (ex_P []) [] [ex_false] 2 = Some false.
Proof. vm_compute. reflexivity. Qed.

Example C30_exists_conformant_plan_sound_nonvacuous :
  exists_conformant_plan ex_K (ex_P [(0%N, ex_set)]) [(0%N, [])] [ex_false] 2 = Some true.
Proof. vm_compute. reflexivity. Qed.

Example C30_sound_check_correct_nonvacuous :
  let back := [((0%N, []), Some (0%N, []))] in
  sound_check_closed ex_K (ex_P [(0%N, ex_set)]) ex_K (ex_P [(0%N, ex_set)]) back [(0%N, [])] ex_false [ex_false; ex_false] 2 = true
  /\ sound_check ex_K (ex_P [(0%N, ex_set)]) ex_K (ex_P [(0%N, ex_set)]) back [(0%N, [])] ex_false [ex_false; ex_false] 2 = true
  /\ valid_plan false (ex_P [(0%N, ex_set)]) (fst_of ex_false) [(0%N, [])] = true.
Proof. vm_compute. auto. Qed.

Example C30_unsolvable_closed_correct_nonvacuous :
  unsolvable_closed ex_K (ex_P []) [] ex_false 2 = true.
Proof. vm_compute. reflexivity. Qed.

(* atoms 0, 1; one action with the rule 0 -> 1; goal 1.  The state {0, 1} is dominated by {0} and by {} *)
Definition ex_NP : nprob :=
  {| np_atoms := [0%N; 1%N];
     np_acts := [{| na_pre := []; na_rules := [{| r_cond := [(0%N, true)]; r_tgt := (1%N, true) |}] |}];
     np_goal := [(1%N, true)] |}.

Example C30_basis_reduction_sound_nonvacuous :
  nwf ex_NP = true /\
  exists R, relevance ex_NP 17 = Some R /\
            basis_indices ex_NP R (map ns_of [[0%N; 1%N]; [0%N]; []]) = [2] /\
            (* the one-step plan fails from {} — with all three states and with the kept one alone *)
            conformant_check (embed ex_NP) (map embed_state (map ns_of [[0%N; 1%N]; [0%N]; []])) (embed_plan [0]) = false /\
            conformant_check (embed ex_NP) (map embed_state (reduce_to_basis ex_NP R (map ns_of [[0%N; 1%N]; [0%N]; []]))) (embed_plan [0]) = false /\
            (* without {} the kept state is {0}, and the plan is conformant for both sets *)
            basis_indices ex_NP R (map ns_of [[0%N; 1%N]; [0%N]]) = [1] /\
            conformant_check (embed ex_NP) (map embed_state (map ns_of [[0%N; 1%N]; [0%N]])) (embed_plan [0]) = true /\
            conformant_check (embed ex_NP) (map embed_state (reduce_to_basis ex_NP R (map ns_of [[0%N; 1%N]; [0%N]]))) (embed_plan [0]) = true.
Proof. split; [vm_compute; reflexivity|]. eexists. repeat (split; [vm_compute; reflexivity|]). vm_compute; reflexivity. Qed.

Example C30_prepared_semantics_nonvacuous :
  nwf ex_NP = true /\ valid_plan false (embed ex_NP) (embed_state (ns_of [0%N])) (embed_plan [0]) = true.
Proof. split; vm_compute; reflexivity. Qed.
