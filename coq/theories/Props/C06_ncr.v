(* C06 (compiler soundness), Layer A, part file: NegativeConditionsRemover at plan level.
   Model: Compilers/LayerA_Neg.v ([neg_compile] mirrors NegativeConditionsRemover._compile, InstantaneousAction branch,
   goals, state invariants, fluent declarations); proofs: Proofs/LayerA_Neg_proofs.v.
   The compiled problem keeps the action names and parameters, so the map-back of a plan is the plan itself.  The two
   problems run on DIFFERENT states: the compiled state also holds the negation fluents; [neg_rel nmap s s'] says that s'
   agrees with s on every fluent that is not a negation fluent and that every negation fluent holds the complement of
   its fluent (what the compiler's initial values establish).

   Hypotheses (each one is needed; see notes/C06_ncr.md for the experiments on the real compiler):
     nmap_ok        the negation fluents are fresh (no declared fluent of P, no key of the mapping is one), pairwise
                    different, only declared Boolean fluents are negated                       [decidable]
     problem_clean  no expression of P mentions a negation fluent (they are fresh names)       [decidable]
     ncr_safe       within one action all effects on one negated fluent symbol are assignments of one Boolean constant
                    [decidable]; it is only used through its two consequences
         ncr_const  an effect on a negated fluent is an assignment of a Boolean constant       [decidable]
         one_value  the effect instances that fire on ONE GROUND negated fluent carry one value [semantic]
                    (without it: finding C06-ncr-add-after-delete, C06_LA_ncr_add_after_delete_refuted in Props/C06.v)
     rw_ok          remove_negative_fluents is exact on the conditions of P under the invariant (Nnf: C12, Simplifier:
                    C11, walk_not on a fluent: [nrw_exact])
     smp_exact      FNode.simplify keeps value and definedness (C11; the real one only refines)  *)
From Coq Require Import List ZArith NArith QArith Qcanon Bool.
Import ListNotations.
Require Import UPV.Core.Expr UPV.Core.Eval UPV.Core.Interp UPV.Planning.Problem UPV.Planning.Sem.
Require Import UPV.Compilers.LayerA_Defs UPV.Compilers.LayerA_Quant UPV.Compilers.LayerA_Neg.
Require Import UPV.Proofs.LayerA_Neg_proofs.

(* the statement of C06_LA_ncr_sound_goal (Props/C06.v): for EVERY plan the compiled problem, run from the related
   state, gives the verdict of the original problem (soundness is the direction compiled = true -> original = true) *)
Theorem C06_LA_ncr_sound :
  forall (nmap : list (N * N)) (rw smp : expr -> expr) (P : problem),
    nmap_ok nmap P = true -> problem_clean nmap P = true -> ncr_safe nmap P = true -> rw_ok nmap rw P -> smp_exact smp ->
  forall (s s' : state) (pi : list (N * list value)), neg_rel nmap s s' ->
    valid_plan false (neg_compile nmap rw smp P) s' pi = valid_plan false P s pi.
Proof. exact neg_valid_plan_safe. Qed.
Print Assumptions C06_LA_ncr_sound.

(* the same equation with [ncr_safe] weakened to what the proof uses: Boolean constants + one value per ground fluent
   (covers `at(x) := false; at(y) := true` whenever the preconditions force x <> y) *)
Theorem C06_LA_ncr_sound_one_value :
  forall (nmap : list (N * N)) (rw smp : expr -> expr) (P : problem),
    nmap_ok nmap P = true -> problem_clean nmap P = true -> ncr_const nmap P = true -> one_value nmap P ->
    rw_ok nmap rw P -> smp_exact smp ->
  forall (s s' : state) (pi : list (N * list value)), neg_rel nmap s s' ->
    valid_plan false (neg_compile nmap rw smp P) s' pi = valid_plan false P s pi.
Proof. exact neg_valid_plan. Qed.
Print Assumptions C06_LA_ncr_sound_one_value.

(* step level: the compiled action of the same name is applicable exactly when the original one is, and the successor
   states are related again (the invariant "nf = not f" is preserved) *)
Theorem C06_LA_ncr_step :
  forall (nmap : list (N * N)) (rw smp : expr -> expr) (P : problem),
    nmap_ok nmap P = true -> problem_clean nmap P = true -> ncr_safe nmap P = true -> rw_ok nmap rw P -> smp_exact smp ->
  forall (s s' : state) (aid : N) (a : action) (args : list value),
    neg_rel nmap s s' -> lookup_action P aid = Some a ->
    lookup_action (neg_compile nmap rw smp P) aid = Some (n_action nmap rw smp a) /\
    match spec_step false P s a args,
          spec_step false (neg_compile nmap rw smp P) s' (n_action nmap rw smp a) args with
    | Some t, Some t' => neg_rel nmap t t'
    | None, None => True
    | _, _ => False
    end.
Proof. exact neg_step_safe. Qed.
Print Assumptions C06_LA_ncr_step.

(* ... hence whole runs end in related states (or fail together) *)
Theorem C06_LA_ncr_related_runs :
  forall (nmap : list (N * N)) (rw smp : expr -> expr) (P : problem),
    nmap_ok nmap P = true -> problem_clean nmap P = true -> ncr_safe nmap P = true -> rw_ok nmap rw P -> smp_exact smp ->
  forall (pi : list (N * list value)) (s s' : state), neg_rel nmap s s' ->
    match run P (spec_step false P) s pi,
          run (neg_compile nmap rw smp P) (spec_step false (neg_compile nmap rw smp P)) s' pi with
    | Some t, Some t' => neg_rel nmap t t'
    | None, None => True
    | _, _ => False
    end.
Proof. exact neg_run_safe. Qed.
Print Assumptions C06_LA_ncr_related_runs.

(* [rw_ok] is not an empty promise: the reference rewriting nrw (`not f(args)` |-> nf(args), And / Or rebuilt) is exact
   on every expression whose negations sit directly on fluents *)
Theorem C06_LA_ncr_rw_reference_exact :
  forall (nmap : list (N * N)) (P : problem),
    forallb (nrw_dom nmap) (conds_of P) = true -> rw_ok nmap (nrw (ng nmap)) P.
Proof. exact rw_ok_nrw. Qed.
Print Assumptions C06_LA_ncr_rw_reference_exact.

(* non-vacuity: door / inside (NegEx): every hypothesis holds, the compiler really adds the negation fluent and the
   mirrored effect, the plan open; enter; close is valid on both sides and the plan enter is invalid on both sides *)
Example C06_LA_ncr_sound_nonvacuous :
  nmap_ok NegEx.nm NegEx.Pe = true /\ problem_clean NegEx.nm NegEx.Pe = true /\ ncr_safe NegEx.nm NegEx.Pe = true /\
  rw_ok NegEx.nm (nrw (ng NegEx.nm)) NegEx.Pe /\ smp_exact NegEx.idf /\ neg_rel NegEx.nm NegEx.se NegEx.se' /\
  map fd_id (p_fluents NegEx.Pe') = [0%N; 5%N; 1%N] /\
  option_map (fun a => (a_pre a, map e_fl (a_effs a))) (lookup_action NegEx.Pe' 0%N) = Some ([EFluent 5%N []], [0%N; 5%N]) /\
  p_goals NegEx.Pe' = [EFluent 1%N []; EFluent 5%N []] /\
  valid_plan false NegEx.Pe' NegEx.se' NegEx.plan = true /\ valid_plan false NegEx.Pe NegEx.se NegEx.plan = true /\
  valid_plan false NegEx.Pe' NegEx.se' [(1%N, [])] = false /\ valid_plan false NegEx.Pe NegEx.se [(1%N, [])] = false.
Proof.
  split; [vm_compute; reflexivity|]. split; [vm_compute; reflexivity|]. split; [vm_compute; reflexivity|].
  split; [exact NegEx.rwok|]. split; [exact NegEx.smpok|]. split; [exact NegEx.rel|].
  repeat split; vm_compute; reflexivity.
Qed.

Example C06_LA_ncr_sound_one_value_nonvacuous :
  ncr_const NegEx.nm NegEx.Pe = true /\ one_value NegEx.nm NegEx.Pe.
Proof. split; [vm_compute; reflexivity | apply ncr_safe_one_value; vm_compute; reflexivity]. Qed.

Example C06_LA_ncr_step_nonvacuous :
  lookup_action NegEx.Pe 0%N = Some NegEx.a_open /\
  (exists t t', spec_step false NegEx.Pe NegEx.se NegEx.a_open [] = Some t /\
                spec_step false NegEx.Pe' NegEx.se' (n_action NegEx.nm (nrw (ng NegEx.nm)) NegEx.idf NegEx.a_open) [] = Some t' /\
                t 0%N [] = Some (VBool true) /\ t' 5%N [] = Some (VBool false)).
Proof.
  split; [reflexivity|].
  eexists. eexists. split; [vm_compute; reflexivity|]. split; [vm_compute; reflexivity|]. split; vm_compute; reflexivity.
Qed.
