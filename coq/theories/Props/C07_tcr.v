(* C07, Layer A — TrajectoryConstraintsRemover (part file; statements only, proofs in Proofs/LayerA_Tcr_proofs.v).
   Completeness readings of the regression lemma and of the monitor theorem of Props/C06_tcr.v: the preconditions the
   compiler adds never block a step after which the constraint formula holds, and the compiled monitor accepts every
   state sequence that satisfies the constraint. *)
From Coq Require Import List ZArith NArith QArith Qcanon Bool.
Import ListNotations.
Require Import UPV.Core.Expr UPV.Core.Eval UPV.Core.Interp UPV.Planning.Problem UPV.Planning.Sem.
Require Import UPV.Compilers.LayerA_Defs UPV.Compilers.LayerA_Quant UPV.Compilers.SimCheck UPV.Compilers.LayerA_DcrGoal UPV.Compilers.LayerA_Tcr.
Require Import UPV.Proofs.LayerA_Tcr_proofs.
Local Open Scope nat_scope.

(* hypotheses as in C06_LA_tcr_regression; if phi holds after the step, the regressed formula (the precondition added for
   `always phi`, the condition of the effect that sets the atom of `sometime phi`) holds before it *)
Theorem C07_LA_tcr_regression_complete :
  forall (P : problem) (s : state) (a : action) (args : list value) (t : state) (phi : expr),
    gaction P a = true -> reg_ok P s a = true -> spec_step false P s a args = Some t ->
    gform phi = true -> gbool P phi = true -> gdef s phi = true ->
    holds false (mk_interp P t []) phi = true ->
    holds false (mk_interp P s []) (regress (a_effs a) phi) = true.
Proof.
  intros P s a args t phi H1 H2 H3 H4 H5 H6 H7.
  destruct (regression_step P s a args t phi H1 H2 H3 H4 H5 H6) as (_ & E & _). rewrite E. exact H7.
Qed.
Print Assumptions C07_LA_tcr_regression_complete.

(* ... and when phi does not hold afterwards the regressed formula is FALSE (defined), so its negation - used in the
   preconditions of at-most-once / sometime-before and in the effect condition of sometime-after - holds *)
Theorem C07_LA_tcr_regression_complete_neg :
  forall (P : problem) (s : state) (a : action) (args : list value) (t : state) (phi : expr),
    gaction P a = true -> reg_ok P s a = true -> spec_step false P s a args = Some t ->
    gform phi = true -> gbool P phi = true -> gdef s phi = true ->
    holds false (mk_interp P t []) phi = false ->
    eval false (regress (a_effs a) phi) (mk_interp P s []) = Some (VBool false).
Proof.
  intros P s a args t phi H1 H2 H3 H4 H5 H6 H7.
  destruct (regression_step P s a args t phi H1 H2 H3 H4 H5 H6) as (E & _ & D). rewrite E.
  unfold isB in D. unfold holds in H7. destruct (eval false phi (mk_interp P t [])) as [[[|]| |]|]; try discriminate; reflexivity.
Qed.
Print Assumptions C07_LA_tcr_regression_complete_neg.

Theorem C07_LA_tcr_monitor_complete :
  forall (T : tsys) (c : expr) (s : state) (r : list state),
    traj_holds T (s :: r) c = true -> mverdict (sat T) c (s :: r) = true.
Proof. intros T c s r H. rewrite mverdict_spec, <- traj_holds_th. exact H. Qed.
Print Assumptions C07_LA_tcr_monitor_complete.

Example C07_LA_tcr_monitor_nonvacuous :
  mverdict (fun (s : bool) (_ : expr) => s) (ESometimeBefore (EBool true) (EBool true)) [false; true] = false /\
  mverdict (fun (s : bool) (_ : expr) => negb s) (ESometime (EBool true)) [true; false] = true.
Proof. split; reflexivity. Qed.

(* PLAN LEVEL for `always` constraints, completeness direction (hypotheses as in C06_LA_tcr_always_plan, Props/C06_tcr.v):
   a plan that is executable in the original problem, reaches the goal and visits only states satisfying every always
   body is - unchanged - a valid plan of the compiled problem; in particular no action such a plan uses was left out *)
Theorem C07_LA_tcr_always_plan :
  forall (smp sub0 : expr -> expr) (mon : nat -> N) (C : list expr) (P : problem) (G : state -> Prop),
    smp_exact smp -> unique_ids P -> gproblem P = true -> always_only P C = true ->
    (forall s aid a args t, G s -> lookup_action P aid = Some a -> spec_step false P s a args = Some t -> G t) ->
    (forall s aid a, G s -> lookup_action P aid = Some a -> reg_ok P s a = true) ->
    (forall s phi, G s -> In (EAlways phi) C -> gdef s phi = true) ->
    forall P', tcr_compile smp sub0 mon C P = Some P' ->
    forall s0 pi, G s0 -> AH P C s0 = true ->
      always_valid P C s0 pi = true -> valid_plan false P' s0 pi = true.
Proof.
  intros smp sub0 mon C P G H1 H2 H3 H4 H5 H6 H7 P1 H8 s0 pi H9 H10 H11.
  rewrite (tcr_always_plan smp sub0 mon C P G H1 H2 H3 H4 H5 H6 H7 P1 H8 s0 pi H9 H10). exact H11.
Qed.
Print Assumptions C07_LA_tcr_always_plan.
(* non-vacuity: Example C06_LA_tcr_always_plan_nonvacuous (Props/C06_tcr.v) instantiates every hypothesis *)

(* PLAN LEVEL for one `sometime phi`, completeness direction (hypotheses as in C06_LA_tcr_sometime_plan, Props/C06_tcr.v):
   a valid plan of the original problem along which phi holds in some visited state is - unchanged - a valid plan of
   the compiled problem (the monitoring fluent is true at the end) *)
Theorem C07_LA_tcr_sometime_plan :
  forall (smp sub0 : expr -> expr) (mon : nat -> N) (phi : expr) (P : problem) (G : state -> Prop),
    smp_exact smp -> unique_ids P -> gproblem P = true -> gform phi = true -> gbool P phi = true ->
    tcr_fresh1 smp (mon 0) P phi = true ->
    (forall s aid a args t, G s -> lookup_action P aid = Some a -> spec_step false P s a args = Some t -> G t) ->
    (forall s aid a, G s -> lookup_action P aid = Some a -> reg_ok P s a = true) ->
    (forall s, G s -> gdef s phi = true) ->
    forall P', tcr_compile smp sub0 mon [ESometime phi] P = Some P' ->
    forall s0 s0' pi, G s0 -> agree_off (mon 0) s0 s0' ->
      s0' (mon 0) [] = Some (VBool (holds false (mk_interp P s0 []) phi)) ->
      valid_plan false P s0 pi = true -> sometime_seen P phi s0 pi = true -> valid_plan false P' s0' pi = true.
Proof.
  intros smp sub0 mon phi P G H1 H2 H3 H4 H5 H6 H7 H8 H9 P1 H10 s0 s0' pi H11 H12 H13 H14 H15.
  rewrite (tcr_sometime_plan smp sub0 mon phi P G H1 H2 H3 H4 H5 H6 H7 H8 H9 P1 H10 s0 s0' pi H11 H12 H13), H14, H15. reflexivity.
Qed.
Print Assumptions C07_LA_tcr_sometime_plan.
(* non-vacuity: Example C06_LA_tcr_sometime_plan_nonvacuous (Props/C06_tcr.v) instantiates every hypothesis *)

(* PLAN LEVEL for one `at-most-once phi`, completeness direction (hypotheses as in C06_LA_tcr_amo_plan, Props/C06_tcr.v):
   a valid plan of the original problem every step of which passes the at-most-once check is - unchanged - a valid plan
   of the compiled problem (no added precondition blocks it, no action it uses was left out) *)
Theorem C07_LA_tcr_amo_plan :
  forall (smp sub0 : expr -> expr) (mon : nat -> N) (phi : expr) (P : problem) (G : state -> Prop),
    smp_exact smp -> unique_ids P -> gproblem P = true -> gform phi = true -> gbool P phi = true ->
    tcr_fresh1 smp (mon 0) P phi = true ->
    (forall s aid a args t, G s -> lookup_action P aid = Some a -> spec_step false P s a args = Some t -> G t) ->
    (forall s aid a, G s -> lookup_action P aid = Some a -> reg_ok P s a = true) ->
    (forall s, G s -> gdef s phi = true) ->
    forall P', tcr_compile smp sub0 mon [EAtMostOnce phi] P = Some P' ->
    forall s0 s0' pi, G s0 -> agree_off (mon 0) s0 s0' ->
      s0' (mon 0) [] = Some (VBool (holds false (mk_interp P s0 []) phi)) ->
      valid_plan false P s0 pi = true -> amo_chk P phi (holds false (mk_interp P s0 []) phi) s0 pi = true ->
      valid_plan false P' s0' pi = true.
Proof.
  intros smp sub0 mon phi P G H1 H2 H3 H4 H5 H6 H7 H8 H9 P1 H10 s0 s0' pi H11 H12 H13 H14 H15.
  rewrite (tcr_amo_plan smp sub0 mon phi P G H1 H2 H3 H4 H5 H6 H7 H8 H9 P1 H10 s0 s0' pi H11 H12 H13), H14, H15. reflexivity.
Qed.
Print Assumptions C07_LA_tcr_amo_plan.
(* non-vacuity: Example C06_LA_tcr_amo_plan_nonvacuous (Props/C06_tcr.v) instantiates every hypothesis *)

(* PLAN LEVEL for one `sometime-before phi psi`, completeness direction (hypotheses as in C06_LA_tcr_sb_plan) *)
Theorem C07_LA_tcr_sb_plan :
  forall (smp sub0 : expr -> expr) (mon : nat -> N) (phi psi : expr) (P : problem) (G : state -> Prop),
    smp_exact smp -> unique_ids P -> gproblem P = true ->
    gform phi = true -> gbool P phi = true -> gform psi = true -> gbool P psi = true ->
    tcr_fresh1 smp (mon 0) P phi = true -> tcr_fresh1 smp (mon 0) P psi = true ->
    (forall s aid a args t, G s -> lookup_action P aid = Some a -> spec_step false P s a args = Some t -> G t) ->
    (forall s aid a, G s -> lookup_action P aid = Some a -> reg_ok P s a = true) ->
    (forall s, G s -> gdef s phi = true) -> (forall s, G s -> gdef s psi = true) ->
    forall P', tcr_compile smp sub0 mon [ESometimeBefore phi psi] P = Some P' ->
    forall s0 s0' pi, G s0 -> agree_off (mon 0) s0 s0' ->
      s0' (mon 0) [] = Some (VBool (holds false (mk_interp P s0 []) psi)) ->
      holds false (mk_interp P s0 []) phi = false ->
      valid_plan false P s0 pi = true -> sb_chk P phi psi (holds false (mk_interp P s0 []) psi) s0 pi = true ->
      valid_plan false P' s0' pi = true.
Proof.
  intros smp sub0 mon phi psi P G H1 H2 H3 H4 H5 H6 H7 H8 H9 H10 H11 H12 H13 P1 H14 s0 s0' pi H15 H16 H17 H18 H19 H20.
  rewrite (tcr_sb_plan smp sub0 mon phi psi P G H1 H2 H3 H4 H5 H6 H7 H8 H9 H10 H11 H12 H13 P1 H14 s0 s0' pi H15 H16 H17 H18), H19, H20.
  reflexivity.
Qed.
Print Assumptions C07_LA_tcr_sb_plan.
(* non-vacuity: Example C06_LA_tcr_sb_plan_nonvacuous (Props/C06_tcr.v) instantiates every hypothesis *)

(* PLAN LEVEL for one `sometime-after phi psi`, completeness direction (hypotheses as in C06_LA_tcr_sa_plan) *)
Theorem C07_LA_tcr_sa_plan :
  forall (smp sub0 : expr -> expr) (mon : nat -> N) (phi psi : expr) (P : problem) (G : state -> Prop),
    smp_exact smp -> unique_ids P -> gproblem P = true ->
    gform phi = true -> gbool P phi = true -> gform psi = true -> gbool P psi = true ->
    tcr_fresh1 smp (mon 0) P phi = true -> tcr_fresh1 smp (mon 0) P psi = true ->
    (forall s aid a args t, G s -> lookup_action P aid = Some a -> spec_step false P s a args = Some t -> G t) ->
    (forall s aid a, G s -> lookup_action P aid = Some a -> reg_ok P s a = true) ->
    (forall s, G s -> gdef s phi = true) -> (forall s, G s -> gdef s psi = true) ->
    forall P', tcr_compile smp sub0 mon [ESometimeAfter phi psi] P = Some P' ->
    forall s0 s0' pi, G s0 -> agree_off (mon 0) s0 s0' ->
      s0' (mon 0) [] = Some (VBool (holds false (mk_interp P s0 []) psi || negb (holds false (mk_interp P s0 []) phi))) ->
      valid_plan false P s0 pi = true ->
      sa_bit P phi psi (holds false (mk_interp P s0 []) psi || negb (holds false (mk_interp P s0 []) phi)) s0 pi = true ->
      valid_plan false P' s0' pi = true.
Proof.
  intros smp sub0 mon phi psi P G H1 H2 H3 H4 H5 H6 H7 H8 H9 H10 H11 H12 H13 P1 H14 s0 s0' pi H15 H16 H17 H18 H19.
  rewrite (tcr_sa_plan smp sub0 mon phi psi P G H1 H2 H3 H4 H5 H6 H7 H8 H9 H10 H11 H12 H13 P1 H14 s0 s0' pi H15 H16 H17), H18, H19.
  reflexivity.
Qed.
Print Assumptions C07_LA_tcr_sa_plan.
(* non-vacuity: Example C06_LA_tcr_sa_plan_nonvacuous (Props/C06_tcr.v) instantiates every hypothesis *)
