(* C17 — Linearity and monotonicity analysis is sound.
   Only statements; each is closed by [exact] of a lemma from Proofs/Linear_proofs.v.
   Model: Walkers/Linear.v (LinearChecker after the repair 9cac267 of walk_div), using Walkers/TypeInfer.v for the
   sign of fluent-free factors and divisors.  get_fluents here is the walk on the simplified expression. *)
From Coq Require Import List ZArith NArith QArith Qcanon Bool.
Import ListNotations.
Require Import UPV.Core.Expr UPV.Core.Eval UPV.Core.Interp UPV.Walkers.TypeInfer UPV.Walkers.Linear UPV.Proofs.Linear_proofs.

(* If an arithmetic expression (numeric constants, parameters, ground fluent expressions, + - * /) is reported linear
   and the ground fluent f(os) is reported among the positive and not among the negative fluents, then the value is
   non-decreasing in f(os): for any two interpretations that respect the declared types, agree on everything except
   f(os), give f(os) values vk <= vk', and on which the expression is defined. *)
Theorem C17_linear_mono_pos :
  forall G sc e pos neg f os,
  get_fluents G e = Some (true, pos, neg) -> arith e = true ->
  In (gfluent f os) pos -> ~ In (gfluent f os) neg ->
  forall I J, respects G I -> respects G J -> agree_except f os I J ->
  forall vk vk', eval sc (gfluent f os) I = Some (VNum vk) -> eval sc (gfluent f os) J = Some (VNum vk') -> (vk <= vk')%Qc ->
  forall v v', eval sc e I = Some (VNum v) -> eval sc e J = Some (VNum v') -> (v <= v')%Qc.
Proof. exact linear_mono_pos_thm. Qed.
Print Assumptions C17_linear_mono_pos.

Theorem C17_linear_mono_neg :
  forall G sc e pos neg f os,
  get_fluents G e = Some (true, pos, neg) -> arith e = true ->
  In (gfluent f os) neg -> ~ In (gfluent f os) pos ->
  forall I J, respects G I -> respects G J -> agree_except f os I J ->
  forall vk vk', eval sc (gfluent f os) I = Some (VNum vk) -> eval sc (gfluent f os) J = Some (VNum vk') -> (vk <= vk')%Qc ->
  forall v v', eval sc e I = Some (VNum v) -> eval sc e J = Some (VNum v') -> (v' <= v)%Qc.
Proof. exact linear_mono_neg_thm. Qed.
Print Assumptions C17_linear_mono_neg.

(* a fluent reported in neither set does not influence the value *)
Theorem C17_linear_independent :
  forall G sc e pos neg f os,
  get_fluents G e = Some (true, pos, neg) -> arith e = true ->
  ~ In (gfluent f os) pos -> ~ In (gfluent f os) neg ->
  forall I J, respects G I -> respects G J -> agree_except f os I J ->
  forall vk vk', eval sc (gfluent f os) I = Some (VNum vk) -> eval sc (gfluent f os) J = Some (VNum vk') -> (vk <= vk')%Qc ->
  forall v v', eval sc e I = Some (VNum v) -> eval sc e J = Some (VNum v') -> v = v'.
Proof. exact linear_independent_thm. Qed.
Print Assumptions C17_linear_independent.

(* a product with (at least) two factors in which a fluent occurs is never reported linear *)
Theorem C17_times_two_fluent_factors_nonlinear :
  forall G l r, lin G (ETimes l) = Some r -> (2 <= length (filter has_fluent l))%nat -> r = (false, [], []).
Proof. exact times_two_fluent_factors_nonlinear_thm. Qed.
Print Assumptions C17_times_two_fluent_factors_nonlinear.

(* a quotient whose divisor contains a fluent is never reported linear *)
Theorem C17_div_fluent_divisor_nonlinear :
  forall G a b r, lin G (EDiv a b) = Some r -> has_fluent b = true -> r = (false, [], []).
Proof. exact div_fluent_divisor_nonlinear_thm. Qed.
Print Assumptions C17_div_fluent_divisor_nonlinear.

(* an expression in which a fluent occurs is never reported linear with both sets empty *)
Theorem C17_fluent_dependence_reported :
  forall G e r, has_fluent e = true -> lin G e = Some r ->
  r_lin r = false \/ r_pos r <> [] \/ r_neg r <> [].
Proof. exact fluent_dependence_reported_thm. Qed.
Print Assumptions C17_fluent_dependence_reported.

(* ---- non-vacuity: x / p with x : int[0,10], p : int[-5,-1] is reported decreasing in x, and it is ---- *)
Definition ex_G : tenv :=
  {| g_fl := [(0%N, ([], TInt (Some 0%Z) (Some 10%Z))); (1%N, ([], TInt (Some 0%Z) (Some 10%Z)))];
     g_par := [(0%N, TInt (Some (-5)%Z) (Some (-1)%Z))]; g_var := []; g_obj := []; g_ifun := []; g_father := [] |}.
Definition ex_I (x : Z) : interp :=
  {| fl := fun f vs => match vs with
                       | [] => if (f =? 0)%N then Some (VNum (zq x)) else if (f =? 1)%N then Some (VNum (zq 3)) else None
                       | _ => None
                       end;
     par := fun p => if (p =? 0)%N then Some (VNum (zq (-2))) else None;
     var := fun _ => None; ifun := fun _ _ => None; objs := fun _ => [] |}.
Definition ex_e : expr := EDiv (EFluent 0%N []) (EParam 0%N).

Lemma ex_respects x : (0 <= x <= 10)%Z -> respects ex_G (ex_I x).
Proof.
  intros Hx. constructor; simpl.
  - intros f sg t vs v H E. destruct vs; [|discriminate]. destruct (f =? 0)%N eqn:F0.
    + inversion H; subst. inversion E; subst. simpl. exists x. split; [reflexivity|]. exact Hx.
    + destruct (f =? 1)%N eqn:F1; [|discriminate]. inversion H; subst. inversion E; subst. simpl.
      exists 3%Z. split; [reflexivity|]. split; discriminate.
  - intros p t v H E. destruct (p =? 0)%N; [|discriminate]. inversion H; subst. inversion E; subst. simpl.
    exists (-2)%Z. split; [reflexivity|]. split; discriminate.
  - intros; discriminate.
  - intros; discriminate.
Qed.

Lemma ex_agree : agree_except 0%N [] (ex_I 2) (ex_I 5).
Proof.
  constructor; simpl; try reflexivity.
  intros g vs Hd. destruct vs as [|v vs]; [|reflexivity].
  destruct Hd as [Hg|Hv]; [|exfalso; apply Hv; reflexivity].
  destruct (g =? 0)%N eqn:E; [apply N.eqb_eq in E; contradiction | reflexivity].
Qed.

Example C17_linear_mono_nonvacuous :
  match get_fluents ex_G ex_e with
  | Some (b, pos, neg) => b && set_eqb pos [] && set_eqb neg [gfluent 0%N []]
  | None => false
  end = true /\
  arith ex_e = true /\ respects ex_G (ex_I 2) /\ respects ex_G (ex_I 5) /\ agree_except 0%N [] (ex_I 2) (ex_I 5) /\
  ovalue_eqb (eval false ex_e (ex_I 2)) (Some (VNum (qc (-1) 1))) = true /\
  ovalue_eqb (eval false ex_e (ex_I 5)) (Some (VNum (qc (-5) 2))) = true.
Proof.
  split; [vm_compute; reflexivity|]. split; [reflexivity|].
  split; [apply ex_respects; split; discriminate|]. split; [apply ex_respects; split; discriminate|].
  split; [exact ex_agree|]. split; vm_compute; reflexivity.
Qed.

Example C17_nonlinear_nonvacuous :
  lin ex_G (ETimes [EFluent 0%N []; EFluent 1%N []]) = Some (false, [], []) /\
  lin ex_G (EDiv (EParam 0%N) (EFluent 1%N [])) = Some (false, [], []) /\
  (2 <= length (filter has_fluent [EFluent 0%N []; EFluent 1%N []]))%nat.
Proof. split; [vm_compute; reflexivity|]. split; [vm_compute; reflexivity|]. simpl. apply le_n. Qed.
