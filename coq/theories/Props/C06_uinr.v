(* C06 (compiler soundness), Layer A, part file: UndefinedInitialNumericRemover.
   Model: Compilers/LayerA_Uinr.v ([uinr_compile] mirrors UndefinedInitialNumericRemover._compile: _compile_actions for
   InstantaneousAction, _compile_goals, the companion fluent declarations); proofs: Proofs/LayerA_Uinr_proofs.v.
   The compiled problem keeps action names and parameters (replace_action with the name-preserving dictionary): the
   map-back of a plan is the plan itself.  The two problems run on DIFFERENT states: the original state leaves some
   numeric fluents without value (None), the compiled state is total and carries the companions;
   [uinr_rel umap s s'] = on untracked fluents s' = s; for a tracked fluent f with companion d: if s f args has a value,
   s' has the same and s' d args = true, otherwise s' d args = false (s' f args is then the injected default and is
   never looked at).  [uinr_init] builds such a state ([C06_LA_uinr_init_related]).

   Hypotheses (all decidable, [uinr_ok umap P] is their conjunction):
     umap_ok     the companions are fresh, pairwise different names, a tracked fluent is not a companion, tracked fluents
                 are declared without bounds (a bounded fluent without value violates its bound constraint in the model
                 of the documented semantics; the injected default need not)
     action_ok   no companion is mentioned; no tracked fluent is read inside a quantifier; effect target arguments do
                 not read tracked fluents; the value of a conditional effect reads no tracked fluent and a conditional
                 effect on a tracked fluent is an assignment; an effect with forall variables (outside the compiler's
                 supported kind) touches no tracked fluent
                 -> without it: C07_LA_uinr_conditional_read_refuted, C07_LA_uinr_conditional_increase_refuted
                 (the former C06_LA_uinr_conditional_assignment_refuted was repaired in /repo: c019d78)
     goals uq    as for preconditions;   state invariants mention no tracked fluent (the compiler does not touch
                 trajectory constraints; they are outside its supported kind anyway).
   No Simplifier hypothesis: the compiler calls none. *)
From Coq Require Import List ZArith NArith QArith Qcanon Bool.
Import ListNotations.
Require Import UPV.Core.Expr UPV.Core.Eval UPV.Core.Interp UPV.Planning.Problem UPV.Planning.Sem.
Require Import UPV.Compilers.LayerA_Defs UPV.Compilers.LayerA_Quant UPV.Compilers.LayerA_Uinr.
Require Import UPV.Proofs.LayerA_Uinr_proofs.

(* expression level: with all guards of e true the compiled value IS the original value; with one guard false the
   original is undefined.  Holds wherever the read sits (under negation, inside arithmetic, in fluent arguments, in
   disjunctions) except under quantifiers, because evaluation is strict. *)
Theorem C06_LA_uinr_eval_guarded :
  forall (umap : list (N * N)) (e : expr) (I I' : interp), urel_interp umap I I' -> uq umap e = true ->
    (guards_hold umap I' (reads umap e) = true -> eval false e I' = eval false e I) /\
    (guards_hold umap I' (reads umap e) = false -> eval false e I = None).
Proof. exact eval_guarded. Qed.
Print Assumptions C06_LA_uinr_eval_guarded.

(* condition level: `e and guards(e)` in the compiled state holds exactly when `e` holds in the original state *)
Theorem C06_LA_uinr_condition :
  forall (umap : list (N * N)) (e : expr) (I I' : interp), urel_interp umap I I' -> uq umap e = true ->
    holds false I' e && guards_hold umap I' (reads umap e) = holds false I e.
Proof. exact guarded_cond. Qed.
Print Assumptions C06_LA_uinr_condition.

(* step level: the compiled action is executable exactly when the original is, and the successors are related again *)
Theorem C06_LA_uinr_step :
  forall (umap : list (N * N)) (P : problem), umap_ok umap P = true ->
  forall (s s' : state) (a : action) (args : list value),
    uinr_rel umap s s' -> action_ok umap a = true -> forallb (upure umap) (p_invs P) = true ->
    orel umap (spec_step false P s a args) (spec_step false (uinr_compile umap P) s' (u_action umap a) args).
Proof. exact uinr_step. Qed.
Print Assumptions C06_LA_uinr_step.

(* plan level: the same verdict for EVERY plan *)
Theorem C06_LA_uinr_valid_plan :
  forall (umap : list (N * N)) (P : problem), uinr_ok umap P = true ->
  forall (s s' : state) (pi : list (N * list value)), uinr_rel umap s s' ->
    valid_plan false (uinr_compile umap P) s' pi = valid_plan false P s pi.
Proof. exact uinr_valid_plan. Qed.
Print Assumptions C06_LA_uinr_valid_plan.

Theorem C06_LA_uinr_sound :
  forall (umap : list (N * N)) (P : problem), uinr_ok umap P = true ->
  forall (s s' : state) (pi : list (N * list value)), uinr_rel umap s s' ->
    valid_plan false (uinr_compile umap P) s' pi = true -> valid_plan false P s pi = true.
Proof. exact uinr_sound. Qed.
Print Assumptions C06_LA_uinr_sound.

(* the initial state the compiler builds (defaults + companions) is related to the original initial state *)
Theorem C06_LA_uinr_init_related :
  forall (umap : list (N * N)) (dflt : N -> Qc) (P : problem) (s : state),
    umap_ok umap P = true -> uinr_rel umap s (uinr_init umap dflt s).
Proof. exact uinr_init_rel. Qed.
Print Assumptions C06_LA_uinr_init_related.

(* `a: if c then x := 5`, `b: pre x = 5, g := true`, x without value: before fix c019d78 the compiled a set
   is_value_defined_x although the assignment did not fire ([a; b] valid compiled, invalid originally: the former
   C06_LA_uinr_conditional_assignment_refuted, confirmed on the real code).  After the fix the tracker effect carries the
   condition, the restriction "a conditional effect does not target a tracked fluent" is dropped from [action_ok] (what
   remains: its value reads no tracked fluent and it is an assignment), and this problem is an instance of
   C06_LA_uinr_valid_plan: *)
Example C06_LA_uinr_conditional_assignment :
  uinr_ok UinrW.um UinrW.P1 = true /\
  uinr_rel UinrW.um UinrW.s0 (uinr_init UinrW.um UinrW.dflt UinrW.s0) /\
  valid_plan false (uinr_compile UinrW.um UinrW.P1) (uinr_init UinrW.um UinrW.dflt UinrW.s0) UinrW.plan1 = false /\
  valid_plan false UinrW.P1 UinrW.s0 UinrW.plan1 = false /\
  valid_plan false (uinr_compile UinrW.um UinrW.P1) (uinr_init UinrW.um UinrW.dflt UinrW.s0c) UinrW.plan1 = true /\
  valid_plan false UinrW.P1 UinrW.s0c UinrW.plan1 = true.
Proof. exact uinr_cond_assign_ok. Qed.
Print Assumptions C06_LA_uinr_conditional_assignment.

Example C06_LA_uinr_nonvacuous :
  uinr_ok UinrW.um UinrW.P3 = true /\
  uinr_rel UinrW.um UinrW.s0 (uinr_init UinrW.um UinrW.dflt UinrW.s0) /\
  valid_plan false UinrW.P3 UinrW.s0 UinrW.plan3 = true /\
  valid_plan false (uinr_compile UinrW.um UinrW.P3) (uinr_init UinrW.um UinrW.dflt UinrW.s0) UinrW.plan3 = true /\
  valid_plan false UinrW.P3 UinrW.s0 UinrW.plan3bad = false /\
  valid_plan false (uinr_compile UinrW.um UinrW.P3) (uinr_init UinrW.um UinrW.dflt UinrW.s0) UinrW.plan3bad = false.
Proof. exact uinr_nonvacuous. Qed.
Print Assumptions C06_LA_uinr_nonvacuous.
