(* C12 (part "dispatch") -- REGENERATED-FROM-SOURCE tie of the Nnf / Dnf (Walkers/NnfDnf.v) model(s) to the Python walkers.

   coq/theories/Gen/Gen_Walkers.v is rewritten by tools/gen_walkers.py from the CURRENT source (ast only, fail closed):
   the OperatorKind members and, for every walker class, the table operator -> defining class "." method that
   MetaNodeTypeHandler + Walker.__init__ build (decorators, walk_<operator> naming convention and inheritance resolved).
   coq/theories/Model/WalkerTables.v holds what the hand-written models assume, entry by entry, each with the Gallina
   branch that models the handler.  The theorems below are EQUALITIES BETWEEN CLOSED FINITE TABLES (string literals),
   so `vm_compute; reflexivity` is a complete proof and not a bounded check: nothing is quantified except, in
   C12_operators_covered, the expression e, which is handled by case analysis on its constructor.
   They fail to compile when a handler is re-mapped, dropped (an inherited one applies), when a @handles list changes,
   or when OperatorKind gets a member that Core/Expr.v neither models nor lists as unmodelled. *)
From Coq Require Import List String Bool Permutation.
Import ListNotations.
Require Import UPV.Core.Expr UPV.Model.WalkerTables UPV.Gen.Gen_Walkers.
Local Open Scope string_scope.

(* Dnf.functions: walk_and / walk_or / walk_all as in [dnf_walk] *)
Theorem C12_dispatch_as_modelled :
  lookup "Dnf" Gen_Walkers.dispatch = Some expected_dnf.
Proof. vm_compute; reflexivity. Qed.
Print Assumptions C12_dispatch_as_modelled.

(* Nnf is not a Walker: the if/elif chain applied to a node popped for the first time, as in [nnf_pol] *)
Theorem C12_nnf_expand_as_modelled :
  lookup "Nnf.expand" Gen_Walkers.dispatch = Some expected_nnf_expand.
Proof. vm_compute; reflexivity. Qed.
Print Assumptions C12_nnf_expand_as_modelled.

(* the if/elif chain applied when the children of an And/Or have been solved ([andp] / [orp]) *)
Theorem C12_nnf_rebuild_as_modelled :
  lookup "Nnf.rebuild" Gen_Walkers.dispatch = Some expected_nnf_rebuild.
Proof. vm_compute; reflexivity. Qed.
Print Assumptions C12_nnf_rebuild_as_modelled.

(* the handlers build what the model says they build: the sorted sets of ExpressionManager constructors (manager.X), helper
   methods (self.x) and <Class>.super calls occurring in each handler body are the expected ones *)
Theorem C12_handler_shapes_as_modelled :
  shapes_for (map fst expected_shapes_nnf_dnf) Gen_Walkers.handler_shapes = expect_shapes expected_shapes_nnf_dnf.
Proof. vm_compute; reflexivity. Qed.
Print Assumptions C12_handler_shapes_as_modelled.

(* Walkers/NnfDnf.v re-models five handlers of the Simplifier that Dnf.walk_and calls through Simplifier.simplify
   (simp_and = walk_and, neg_of = walk_not, simp_atom = walk_le / walk_lt / walk_equals): they are still the handlers of
   these operators *)
Theorem C12_simplifier_handlers_as_modelled :
  match lookup "Simplifier" Gen_Walkers.dispatch with
  | Some t => map (fun o => (o, lookup o t)) ["AND"; "NOT"; "LE"; "LT"; "EQUALS"]
  | None => []
  end
  = [ ("AND", Some "Simplifier.walk_and"); ("NOT", Some "Simplifier.walk_not"); ("LE", Some "Simplifier.walk_le")
    ; ("LT", Some "Simplifier.walk_lt"); ("EQUALS", Some "Simplifier.walk_equals") ].
Proof. vm_compute; reflexivity. Qed.
Print Assumptions C12_simplifier_handlers_as_modelled.

(* The OperatorKind members of the current source are exactly (up to order) the operators Core/Expr.v has a constructor
   for plus the explicitly listed unmodelled ones; and EVERY expression of the IR carries an operator that exists in the
   source and that the tables of Dnf, Nnf.expand, Nnf.rebuild send to a handler other than Walker.walk_error. *)
Theorem C12_operators_covered :
  Permutation Gen_Walkers.operator_kinds (modelled_operators ++ unmodelled_operators) /\
  forall e : expr,
    In (op_of e) Gen_Walkers.operator_kinds /\
    handled Gen_Walkers.dispatch "Dnf" e = true /\
    handled Gen_Walkers.dispatch "Nnf.expand" e = true /\
    handled Gen_Walkers.dispatch "Nnf.rebuild" e = true.
Proof.
  split.
  - apply covers_sound; vm_compute; reflexivity.
  - intro e. split.
    + eapply Permutation_in.
      * apply Permutation_sym, covers_sound; vm_compute; reflexivity.
      * apply in_or_app; left; apply op_of_modelled.
    + destruct e; vm_compute; repeat split; reflexivity.
Qed.
Print Assumptions C12_operators_covered.
