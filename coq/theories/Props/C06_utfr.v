(* C06 (compilers are sound), Layer A part — UsertypeFluentsRemover.  Statements only; proofs in
   Proofs/LayerA_Utfr_proofs.v, the model in Compilers/LayerA_Utfr.v.

   [utfr_compile tr smp P]: every fluent o(x) : T of user type becomes the Boolean fluent o(x, u) of the same name;
   conditions go through the walker [tr] (external: UsertypeFluentsWalker.remove_usertype_fluents_from_condition,
   final simplify() included); an effect o(x) := v becomes, for every object u of T, the pair
   o(x,u) := TRUE if cond and test_u / o(x,u) := FALSE if cond and not test_u (one effect when test_u simplifies to a
   constant; effects whose condition simplifies to FALSE are left out; a Boolean effect with a non-constant value is
   split likewise); an action whose converted effects conflict syntactically is left out.  The map back of a plan is
   the plan itself (replace_action: same names, same parameters).

   Hypotheses of the plan-level theorems, for a set G of states that contains the initial state:
     smp_exact smp        FNode.simplify() keeps value and definedness (the real one only refines: C11)
     utfr_wf tr smp P     decidable: every effect lies in the modelled (flat) fragment [eff_flat] (no forall variables,
                          the value of an object assignment is an object fluent of the same type applied to
                          fluent-free arguments or an expression without object fluents), no action is left out, an
                          object fluent is not also declared with another type (unique fluent names)
     tr_ok tr P           the walker is exact on the conditions of P under the encoding invariant [urel_interp] (for
                          interpretations over the problem's objects); PROVED for the reference walker [utr] on the flat
                          fragment: C06_LA_utfr_reference_walker_ok, and the *_reference theorems below need no [tr_ok]
     effects_defined P G  in the states of G, for action instances whose preconditions hold, target arguments,
                          condition and value of every effect are defined and well typed (the compiled conditions are
                          strict conjunctions `cond and test`)
     one_value P G        THE hypothesis excluding the recorded unsound shape C06-utfr-masked-object-conflict: the
                          assignments that fire on one ground object fluent in one step carry one value
     closed P G           G is closed under the steps of P;   unique_ids P   action names are unique
   and two initial states related by [utfr_rel] ([enc_state]: the compiled initial values; C06_LA_utfr_init_related). *)
From Coq Require Import List ZArith NArith QArith Qcanon Bool.
Import ListNotations.
Require Import UPV.Core.Expr UPV.Core.Eval UPV.Core.Interp UPV.Planning.Problem UPV.Planning.Sem.
Require Import UPV.Compilers.Variants UPV.Compilers.LayerA_Defs UPV.Compilers.LayerA_Quant UPV.Compilers.LayerA_Utfr.
Require Import UPV.Proofs.Variants_proofs UPV.Proofs.LayerA_Utfr_proofs.

(* soundness: a plan valid for the compiled problem is valid for the original one (it is its own map-back) *)
Theorem C06_LA_utfr_sound :
  forall (tr smp : expr -> expr) (P : problem) (G : state -> Prop),
    smp_exact smp -> utfr_wf tr smp P = true -> tr_ok tr P -> effects_defined P G -> one_value P G -> closed P G ->
    unique_ids P ->
  forall (s s' : state) (pi : list (N * list value)), G s -> utfr_rel P s s' ->
    valid_plan false (utfr_compile tr smp P) s' pi = true -> valid_plan false P s pi = true.
Proof. exact u_sound. Qed.
Print Assumptions C06_LA_utfr_sound.

(* ... through related states: both runs fail together, or end in states related by the encoding *)
Theorem C06_LA_utfr_same_runs :
  forall (tr smp : expr -> expr) (P : problem) (G : state -> Prop),
    smp_exact smp -> utfr_wf tr smp P = true -> tr_ok tr P -> effects_defined P G -> one_value P G -> closed P G ->
    unique_ids P ->
  forall (pi : list (N * list value)) (s s' : state), G s -> utfr_rel P s s' ->
    match run P (spec_step false P) s pi,
          run (utfr_compile tr smp P) (spec_step false (utfr_compile tr smp P)) s' pi with
    | Some t, Some t' => utfr_rel P t t'
    | None, None => True
    | _, _ => False
    end.
Proof. exact u_run. Qed.
Print Assumptions C06_LA_utfr_same_runs.

(* the effect level: the converted effects of an action fire exactly the Boolean images [img] of the original fired
   effect instances, and neither side has an undefined evaluation *)
Theorem C06_LA_utfr_effects_fired :
  forall (tr smp : expr -> expr) (P : problem), smp_exact smp ->
  forall (I I' : interp) (effs : list effect),
    urel_interp (otype P) I I' -> objs I = objs_of P ->
    (forall e, In e effs -> eff_flat P e = true /\ eff_defined P I e /\
                            eval false (tr (e_cond e)) I' = eval false (e_cond e) I) ->
    has_err (eres_of I effs) = false /\ has_err (eres_of I' (u_effects tr smp P effs)) = false /\
    acts_of (eres_of I' (u_effects tr smp P effs)) = flat_map (img P) (acts_of (eres_of I effs)).
Proof. exact u_effects_res. Qed.
Print Assumptions C06_LA_utfr_effects_fired.

(* the expression level, for expressions that mention no object fluent (rebuilt unchanged by the walker) *)
Theorem C06_LA_utfr_clean_eval :
  forall (ot : N -> option N) (sc : bool) (e : expr) (I I' : interp),
    urel_interp ot I I' -> uclean ot e = true -> eval sc e I' = eval sc e I.
Proof. exact eval_uclean. Qed.
Print Assumptions C06_LA_utfr_clean_eval.

(* the compiled initial values are related to the original ones *)
Theorem C06_LA_utfr_init_related :
  forall (P : problem) (s : state),
    (forall f t a, otype P f = Some t ->
       match s f a with Some (VObj c) => In c (objs_of P t) | Some _ => False | None => True end) ->
    utfr_rel P s (enc_state P s).
Proof. exact enc_rel. Qed.
Print Assumptions C06_LA_utfr_init_related.

(* the expression level, reference walker: [utr] (walk_fluent_exp + walk_equals on the flat fragment: an object fluent
   read only as a side of an equality, with objects / parameters / variables as arguments; Boolean structure and
   quantifiers rebuilt; everything without object fluents unchanged) has the value AND the definedness of the original
   under the encoding invariant, provided the type of every object fluent has an object ([fv] = the fresh variable of a
   read) *)
Theorem C06_LA_utfr_walker_flat :
  forall (ot : N -> option N) (fv : N -> N) (e : expr) (I I' : interp),
    urel_interp ot I I' -> (forall f t, ot f = Some t -> objs I t <> []) -> flat ot fv e = true ->
    eval false (utr ot fv e) I' = eval false e I.
Proof. exact utr_exact_interp. Qed.
Print Assumptions C06_LA_utfr_walker_flat.

(* ... hence the hypothesis [tr_ok] of the plan-level theorems holds for the reference walker followed by simplify() *)
Theorem C06_LA_utfr_reference_walker_ok :
  forall (smp : expr -> expr) (P : problem) (fv : N -> N),
    smp_exact smp -> conds_flat P fv = true -> types_inhabited P = true ->
    tr_ok (fun e => smp (utr (otype P) fv e)) P.
Proof. exact utr_tr_ok. Qed.
Print Assumptions C06_LA_utfr_reference_walker_ok.

(* soundness with the walker MODEL in place of the abstract walker: [tr_ok] is replaced by the decidable conditions
   [conds_flat] (every condition of P in the flat fragment) and [types_inhabited] *)
Theorem C06_LA_utfr_sound_reference :
  forall (smp : expr -> expr) (fv : N -> N) (P : problem) (G : state -> Prop),
    smp_exact smp -> conds_flat P fv = true -> types_inhabited P = true ->
    utfr_wf (fun e => smp (utr (otype P) fv e)) smp P = true ->
    effects_defined P G -> one_value P G -> closed P G -> unique_ids P ->
  forall (s s' : state) (pi : list (N * list value)), G s -> utfr_rel P s s' ->
    valid_plan false (utfr_compile (fun e => smp (utr (otype P) fv e)) smp P) s' pi = true ->
    valid_plan false P s pi = true.
Proof. exact u_sound_reference. Qed.
Print Assumptions C06_LA_utfr_sound_reference.

(* non-vacuity with an object READ: o(x : T) : T, action(x): pre o(x) == 1, eff o(x) := 2, g := true; goals g, o(1) == 2.
   The compiled precondition is the walker's Exists; the plans [a(1)] and [a(2); a(1)] are valid on the compiled
   problem, [a(1); a(1)] is not *)
Example C06_LA_utfr_sound_reference_nonvacuous :
  smp_exact UtfrWitness.idf /\ conds_flat UtfrRef.Pr UtfrRef.fvr = true /\ types_inhabited UtfrRef.Pr = true /\
  utfr_wf UtfrRef.trr UtfrWitness.idf UtfrRef.Pr = true /\
  effects_defined UtfrRef.Pr UtfrRef.Gr /\ one_value UtfrRef.Pr UtfrRef.Gr /\ closed UtfrRef.Pr UtfrRef.Gr /\
  unique_ids UtfrRef.Pr /\ UtfrRef.Gr UtfrRef.sr /\
  utfr_rel UtfrRef.Pr UtfrRef.sr (enc_state UtfrRef.Pr UtfrRef.sr) /\
  valid_plan false UtfrRef.Pr UtfrRef.sr UtfrRef.planr = true /\
  valid_plan false UtfrRef.Pr' (enc_state UtfrRef.Pr UtfrRef.sr) UtfrRef.planr = true /\
  valid_plan false UtfrRef.Pr' (enc_state UtfrRef.Pr UtfrRef.sr) [(0%N, [VObj 2%N]); (0%N, [VObj 1%N])] = true /\
  valid_plan false UtfrRef.Pr' (enc_state UtfrRef.Pr UtfrRef.sr) [(0%N, [VObj 1%N]); (0%N, [VObj 1%N])] = false /\
  map (fun ia => a_pre (snd ia)) (p_actions UtfrRef.Pr') =
    [[EExists [(100%N, 0%N)]
        (EAnd [EEquals (EVar 100%N 0%N) (EObj 1%N); EFluent 0%N [EParam 7%N; EVar 100%N 0%N]])]].
Proof. exact utfr_reference_nonvacuous. Qed.

(* without [one_value] soundness fails inside the model:  o := a; if b then o := c  makes the original step fail
   (two different values), while the encodings o(a) := true, o(c) := false, if b then o(a) := false, if b then
   o(c) := true only meet as add-after-delete: the compiled plan is valid, its image is not.  The real compiler and the
   real validator behave in the same way: it is the recorded finding C06-utfr-masked-object-conflict. *)
Theorem C06_LA_utfr_masked_conflict_refuted :
  exists (P : problem) (s : state) (pi : list (N * list value)),
    utfr_wf (fun e => e) (fun e => e) P = true /\ obj_assigned_once P = false /\
    utfr_rel P s (enc_state P s) /\
    valid_plan false (utfr_compile (fun e => e) (fun e => e) P) (enc_state P s) pi = true /\
    valid_plan false P s pi = false.
Proof.
  exists UtfrWitness.Pw, UtfrWitness.sw, UtfrWitness.plan. exact utfr_masked_conflict_witness.
Qed.
Print Assumptions C06_LA_utfr_masked_conflict_refuted.

(* non-vacuity: type 0 = {1, 2}; object fluents o (0), q (3) of type 0, Boolean fluents g (1), b (2); one action with
   precondition b and effects  if b then o := q;  g := true;  goal g.  All hypotheses hold (G: b is Boolean, q holds an
   object of type 0), the plan is valid on both sides and the compiled action has 5 effects. *)
Example C06_LA_utfr_sound_nonvacuous :
  smp_exact UtfrWitness.idf /\ utfr_wf UtfrWitness.idf UtfrWitness.idf UtfrWitness.Pn = true /\
  tr_ok UtfrWitness.idf UtfrWitness.Pn /\ effects_defined UtfrWitness.Pn UtfrWitness.Gn /\
  one_value UtfrWitness.Pn UtfrWitness.Gn /\ closed UtfrWitness.Pn UtfrWitness.Gn /\ unique_ids UtfrWitness.Pn /\
  UtfrWitness.Gn UtfrWitness.sn /\
  utfr_rel UtfrWitness.Pn UtfrWitness.sn (enc_state UtfrWitness.Pn UtfrWitness.sn) /\
  valid_plan false UtfrWitness.Pn UtfrWitness.sn UtfrWitness.plan = true /\
  valid_plan false (utfr_compile UtfrWitness.idf UtfrWitness.idf UtfrWitness.Pn)
             (enc_state UtfrWitness.Pn UtfrWitness.sn) UtfrWitness.plan = true /\
  length (a_effs (snd (hd (0%N, UtfrWitness.an)
                          (p_actions (utfr_compile UtfrWitness.idf UtfrWitness.idf UtfrWitness.Pn))))) = 5%nat.
Proof. exact utfr_nonvacuous. Qed.
