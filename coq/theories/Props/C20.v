(* C20 — Protobuf round trip is lossless: component codecs.
   Only statements; each is closed by [exact] of a lemma from Proofs/ProtoCodec_proofs.v.
   Every theorem has the form  decode (encode x) = Some x  for ALL x satisfying a well-formedness condition that every
   Python object of that class satisfies inside its problem (Fractions are reduced; the types, objects, fluents and
   actions an expression mentions belong to the problem and have the recorded type).  [user_type], [obj_ty],
   [fluent_ty], [has_action] are the problem's symbol tables (arbitrary functions in the theorems).
   Whole messages (problems, plans, results) are validated by harness/props/c20.py, not proved. *)
From Coq Require Import List ZArith NArith QArith Qreduction Bool.
Import ListNotations.
Require Import UPV.Model.ProtoCodec UPV.Proofs.ProtoCodec_proofs.
Open Scope list_scope.

(* ---- numeric types: all four combinations of finite / infinite bounds ([lo], [hi] range over [option]) ---- *)
Theorem C20_int_type_codec :
  forall user_type (lo hi : option Z),
    convert_type_str user_type (proto_type (TyInt lo hi)) = Some (TyInt lo hi).
Proof. exact int_type_codec. Qed.
Print Assumptions C20_int_type_codec.

Theorem C20_real_type_codec :
  forall user_type (lo hi : option Q),
    match lo with Some q => canonQ q | None => True end ->
    match hi with Some q => canonQ q | None => True end ->
    convert_type_str user_type (proto_type (TyReal lo hi)) = Some (TyReal lo hi).
Proof. exact real_type_codec. Qed.
Print Assumptions C20_real_type_codec.

Theorem C20_type_codec :
  forall user_type t, wf_tyb user_type t = true -> convert_type_str user_type (proto_type t) = Some t.
Proof. exact type_codec. Qed.
Print Assumptions C20_type_codec.

Theorem C20_type_decl_codec :
  forall user_type t father,
    match t with TyReal lo hi => wf_boundb lo && wf_boundb hi | _ => true end = true ->
    wf_fatherb user_type t father = true ->
    dec_type_decl user_type (enc_type_decl t father) = Some (t, father).
Proof. exact type_decl_codec. Qed.
Print Assumptions C20_type_decl_codec.

(* ---- numeric constants: any integer, any reduced rational (negative ones included) ---- *)
Theorem C20_number_codec_int :
  forall user_type obj_ty fluent_ty (z : Z),
    dec_expr user_type obj_ty fluent_ty (enc_int z) = Some (EInt z).
Proof. exact int_const_codec. Qed.
Print Assumptions C20_number_codec_int.

Theorem C20_number_codec_real :
  forall q : Q, canonQ q -> dec_real (enc_real q) = Some q.
Proof. exact real_codec. Qed.
Print Assumptions C20_number_codec_real.

Theorem C20_number_codec_real_constant :
  forall user_type obj_ty fluent_ty (q : Q), canonQ q ->
    dec_expr user_type obj_ty fluent_ty (enc_real_expr q) = Some (EReal q).
Proof. exact real_const_codec. Qed.
Print Assumptions C20_number_codec_real_constant.

(* ---- expressions: tree induction over Expression{atom|list, kind, type} ---- *)
Theorem C20_expr_codec :
  forall user_type obj_ty fluent_ty e,
    wf_exprb user_type obj_ty fluent_ty e = true ->
    dec_expr user_type obj_ty fluent_ty (enc_expr e) = Some e.
Proof. exact expr_codec. Qed.
Print Assumptions C20_expr_codec.

(* ---- timepoints (all four kinds, with or without container), timings, intervals (open/closed on both sides) ---- *)
Theorem C20_timepoint_codec :
  forall tp, wf_timepointb tp = true -> dec_timepoint (enc_timepoint tp) = Some tp.
Proof. exact timepoint_codec. Qed.
Print Assumptions C20_timepoint_codec.

Theorem C20_timing_codec :
  forall t, wf_timingb t = true -> dec_timing (enc_timing t) = Some t.
Proof. exact timing_codec. Qed.
Print Assumptions C20_timing_codec.

Theorem C20_interval_codec :
  forall i, wf_tintervalb i = true -> dec_tinterval (enc_tinterval i) = Some i.
Proof. exact tinterval_codec. Qed.
Print Assumptions C20_interval_codec.

Theorem C20_duration_interval_codec :
  forall user_type obj_ty fluent_ty i,
    wf_dintervalb user_type obj_ty fluent_ty i = true ->
    dec_dinterval user_type obj_ty fluent_ty (enc_dinterval i) = Some i.
Proof. exact dinterval_codec. Qed.
Print Assumptions C20_duration_interval_codec.

(* ---- effects (assign / increase / decrease, condition, forall variables), timed effects, conditions ---- *)
Theorem C20_effect_codec :
  forall user_type obj_ty fluent_ty e,
    wf_effectb user_type obj_ty fluent_ty e = true ->
    dec_effect user_type obj_ty fluent_ty (enc_effect e) = Some e.
Proof. exact effect_codec. Qed.
Print Assumptions C20_effect_codec.

Theorem C20_timed_effect_codec :
  forall user_type obj_ty fluent_ty ot e,
    wf_effectb user_type obj_ty fluent_ty e = true -> wf_opt wf_timingb ot = true ->
    dec_timed_effect user_type obj_ty fluent_ty (enc_timed_effect ot e) = Some (ot, e).
Proof. exact timed_effect_codec. Qed.
Print Assumptions C20_timed_effect_codec.

Theorem C20_condition_codec :
  forall user_type obj_ty fluent_ty span c,
    wf_exprb user_type obj_ty fluent_ty c = true -> wf_opt wf_tintervalb span = true ->
    dec_condition user_type obj_ty fluent_ty (enc_condition span c) = Some (span, c).
Proof. exact condition_codec. Qed.
Print Assumptions C20_condition_codec.

(* ---- quality metrics ---- *)
Theorem C20_metric_codec :
  forall user_type obj_ty fluent_ty has_action m,
    wf_metricb user_type obj_ty fluent_ty has_action m = true ->
    dec_metric user_type obj_ty fluent_ty has_action (enc_metric m) = Some m.
Proof. exact metric_codec. Qed.
Print Assumptions C20_metric_codec.

(* ---- the hypothesis of C20_timepoint_codec is necessary: the model of the CURRENT code loses an empty-string
        container written through the Timepoint message (open finding C20-F1, proto3 default collapse) ---- *)
Theorem C20_timepoint_codec_without_wf_refuted :
  exists tp, dec_timepoint (enc_timepoint tp) <> Some tp.
Proof. exact timepoint_codec_refuted. Qed.
Print Assumptions C20_timepoint_codec_without_wf_refuted.

(* ------------------------------------------------------------------ non-vacuity *)
Definition ex_ut (n : name) : bool := (n =? 1)%N.                                   (* user type 1 *)
Definition ex_obj (n : name) : option ty := if (n =? 2)%N then Some (TyUser 1%N) else None.   (* object 2 : type 1 *)
Definition ex_fl (n : name) : option ty :=
  if (n =? 3)%N then Some (TyReal (Some (Qmake 0 1)) None) else None.              (* fluent 3 : real[0, inf] *)
Definition ex_act (n : name) : bool := (n =? 4)%N.

(* the former defect #24: a real type bounded on one side only *)
Example C20_real_type_codec_nonvacuous :
  canonQ (Qmake (-7) 2)
  /\ proto_type (TyReal (Some (Qmake (-7) 2)) None) = SRealB (TFrac (Qmake (-7) 2)) TInf
  /\ convert_type_str ex_ut (SRealB (TFrac (Qmake (-7) 2)) TInf) = Some (TyReal (Some (Qmake (-7) 2)) None)
  /\ convert_type_str ex_ut (proto_type (TyReal None (Some (Qmake 0 1)))) = Some (TyReal None (Some (Qmake 0 1))).
Proof. repeat split; vm_compute; reflexivity. Qed.

Example C20_type_codec_nonvacuous :
  wf_tyb ex_ut (TyUser 1%N) = true /\ wf_tyb ex_ut (TyReal (Some (Qmake 1 3)) (Some (Qmake 5 2))) = true
  /\ wf_tyb ex_ut (TyReal (Some (Qmake 2 4)) None) = false.
Proof. repeat split; vm_compute; reflexivity. Qed.

Example C20_type_decl_codec_nonvacuous :
  wf_fatherb ex_ut (TyUser 5%N) (Some 1%N) = true
  /\ dec_type_decl ex_ut (enc_type_decl (TyUser 5%N) (Some 1%N)) = Some (TyUser 5%N, Some 1%N)
  /\ dec_type_decl ex_ut (enc_type_decl (TyInt None None) None) = Some (TyInt None None, None).
Proof. repeat split; vm_compute; reflexivity. Qed.

Example C20_number_codec_real_nonvacuous :
  canonQ (Qmake (-123456789012345678) 7) /\ dec_real (enc_real (Qmake (-123456789012345678) 7)) = Some (Qmake (-123456789012345678) 7).
Proof. split; vm_compute; reflexivity. Qed.

(* forall v - T . (f(o) + 1/3 <= start(c) + 5/2)  with an object, a bounded real fluent, a quantifier and a timing *)
Definition ex_expr : expr :=
  EQuant QForall [(6%N, TyUser 1%N)]
    (EOp OLe [EOp OPlus [EFluent 3%N (TyReal (Some (Qmake 0 1)) None) [EObj 2%N (TyUser 1%N); EVar 6%N (TyUser 1%N)];
                         EReal (Qmake 1 3)];
              ETiming {| tm_delay := Qmake 5 2; tm_tp := {| tp_kind := Start; tp_container := Some 7%N |} |}]).

Example C20_expr_codec_nonvacuous :
  wf_exprb ex_ut ex_obj ex_fl ex_expr = true /\ dec_expr ex_ut ex_obj ex_fl (enc_expr ex_expr) = Some ex_expr.
Proof. split; vm_compute; reflexivity. Qed.

Definition ex_timing : timing :=
  {| tm_delay := Qmake (-1) 3; tm_tp := {| tp_kind := End_; tp_container := Some 7%N |} |}.
Definition ex_interval : tinterval :=
  {| ti_lower := {| tm_delay := Qmake 0 1; tm_tp := {| tp_kind := GlobalStart; tp_container := None |} |};
     ti_upper := ex_timing; ti_lopen := true; ti_ropen := false |}.

Example C20_timepoint_codec_nonvacuous :
  wf_timepointb {| tp_kind := GlobalEnd; tp_container := None |} = true
  /\ wf_timepointb {| tp_kind := Start; tp_container := Some 7%N |} = true.
Proof. split; reflexivity. Qed.

Example C20_timing_codec_nonvacuous :
  wf_timingb ex_timing = true /\ dec_timing (enc_timing ex_timing) = Some ex_timing.
Proof. split; vm_compute; reflexivity. Qed.

Example C20_interval_codec_nonvacuous :
  wf_tintervalb ex_interval = true /\ dec_tinterval (enc_tinterval ex_interval) = Some ex_interval.
Proof. split; vm_compute; reflexivity. Qed.

Example C20_duration_interval_codec_nonvacuous :
  wf_dintervalb ex_ut ex_obj ex_fl {| di_lower := EReal (Qmake 1 3); di_upper := EInt 5; di_lopen := true; di_ropen := true |} = true.
Proof. vm_compute; reflexivity. Qed.

Definition ex_effect : effect :=
  {| ef_kind := Decrease;
     ef_fluent := EFluent 3%N (TyReal (Some (Qmake 0 1)) None) [EVar 6%N (TyUser 1%N)];
     ef_value := EReal (Qmake 7 2);
     ef_cond := EOp ONot [EOp OEquals [EVar 6%N (TyUser 1%N); EObj 2%N (TyUser 1%N)]];
     ef_forall := [(6%N, TyUser 1%N)] |}.

Example C20_effect_codec_nonvacuous :
  wf_effectb ex_ut ex_obj ex_fl ex_effect = true /\ dec_effect ex_ut ex_obj ex_fl (enc_effect ex_effect) = Some ex_effect.
Proof. split; vm_compute; reflexivity. Qed.

Example C20_timed_effect_codec_nonvacuous :
  wf_effectb ex_ut ex_obj ex_fl ex_effect = true /\ wf_opt wf_timingb (Some ex_timing) = true.
Proof. split; vm_compute; reflexivity. Qed.

Example C20_condition_codec_nonvacuous :
  wf_exprb ex_ut ex_obj ex_fl ex_expr = true /\ wf_opt wf_tintervalb (Some ex_interval) = true.
Proof. split; vm_compute; reflexivity. Qed.

Example C20_metric_codec_nonvacuous :
  wf_metricb ex_ut ex_obj ex_fl ex_act (MActionCosts [(4%N, EInt 3)] (Some (EReal (Qmake 1 2)))) = true
  /\ wf_metricb ex_ut ex_obj ex_fl ex_act (MOversub [(ex_expr, Qmake (-5) 3)]) = true
  /\ wf_metricb ex_ut ex_obj ex_fl ex_act (MTemporalOversub [(ex_interval, ex_expr, Qmake 9 1)]) = true
  /\ dec_metric ex_ut ex_obj ex_fl ex_act (enc_metric (MTemporalOversub [(ex_interval, ex_expr, Qmake 9 1)]))
     = Some (MTemporalOversub [(ex_interval, ex_expr, Qmake 9 1)]).
Proof. repeat split; vm_compute; reflexivity. Qed.
