(* placeholder, replaced below *)
From Coq Require Import List.
Theorem C05_placeholder : True.
Proof. exact I. Qed.
Print Assumptions C05_placeholder.
