(* C05 — Time-triggered validation matches the reference temporal semantics.

   [tt_validate] (Planning/TTValidate.v) models TimeTriggeredPlanValidator._validate with _apply_effects, _apply_effect,
   _states_in_interval, _instantiate_timing/_interval, on the repaired code (5249d13 011fe6a bec5108 74b68a3 e93aea2).
   [tt_valid] (Planning/Temporal.v) is the reference semantics: dense time (Qc); events of one instant applied jointly
   to the state in force before the instant; "the state in force at instant u" = the state produced by the last
   happening strictly before u; a condition must hold at every instant of its (possibly open) interval; durations in
   the (possibly open) duration interval whose bounds are evaluated in the state in force at the start; timed
   effects are events, timed goals / state invariants / bounded types are conditions; goals in the final state.

   Reading fixed for "conflicting assignments" (notes/C05.md): at one instant, per ground fluent, (i) two different
   sources (plan steps; the problem's timed effects) assigning it conflict, (ii) the assignments of one source
   combine as in C01, (iii) assignment + increase/decrease conflict; increases/decreases accumulate.

   Side conditions of the composed theorem, both Boolean functions of (problem, plan):
     [plan_times_ok]  start times >= 0 and no effect of a step is scheduled before the step starts (end - d with
                      d > duration), timed effects not before 0;
     [intervals_ok]   no condition interval is empty (start + d .. end - d' crossing over, or a single instant with an
                      open end) or starts before 0.
   [plan_typed_t]: every fired effect instance is well typed (Boolean fluents are only assigned Booleans). *)
From Coq Require Import List ZArith NArith QArith Qcanon Bool.
Import ListNotations.
Require Import UPV.Core.Expr UPV.Core.Eval UPV.Core.Interp UPV.Planning.Problem UPV.Planning.Sem.
Require Import UPV.Planning.Temporal UPV.Planning.TTValidate.
Require Import UPV.Proofs.Step_proofs UPV.Proofs.Temporal_base UPV.Proofs.Temporal_dense UPV.Proofs.Temporal_joint
               UPV.Proofs.Temporal_run UPV.Proofs.Temporal_proofs.
Local Open Scope Qc_scope.

(* 1. _states_in_interval returns exactly the trace entries in force at some instant of the interval, for left-open
      and left-closed intervals, with or without upper bound, whatever the openness of the upper end (dense time) *)
Theorem C05_states_in_interval_exact :
  forall (tr : trace) (iv : ainterval),
    NoDup (keys tr) -> In minus1 (keys tr) -> zq 0 <= ai_lo iv -> iv_nonempty iv = true ->
    forall x s,
      In (x, s) (states_in_interval tr (ai_lo iv) (ai_hi iv) (ai_lopen iv)) <->
      In (x, s) tr /\ exists u, in_iv iv u /\ in_force tr x u.
Proof. exact states_in_interval_exact. Qed.
Print Assumptions C05_states_in_interval_exact.

(* 2. all the effects of one instant are applied together to the pre-state: the loop of _apply_effects succeeds
      exactly when the joint application has no conflict and then produces the jointly specified successor *)
Theorem C05_apply_effects_joint :
  forall P s (l : list tagged), forallb (wt_aeff P) (map snd l) = true ->
    match tt_loop P s ([], []) l with
    | Some (upd, _) => joint_ok P s l = true /\ forall f args, apply_upd s upd f args = joint_succ P s l f args
    | None => joint_ok P s l = false
    end.
Proof. exact apply_effects_joint. Qed.
Print Assumptions C05_apply_effects_joint.

(* 2b. what a conflict is *)
Theorem C05_joint_conflict_iff :
  forall P s (l : list tagged) k,
    joint_fluent P s l k = CFail <->
    (exists x y, In x (assigners k l) /\ In y (assigners k l) /\ x <> y) \/
    (avals k (map snd l) <> [] /\ deltas k (map snd l) <> []) \/
    (is_bool_fluent P (fst k) = false /\ deltas k (map snd l) = [] /\
       exists a b, In a (avals k (map snd l)) /\ In b (avals k (map snd l)) /\ a <> b) \/
    (avals k (map snd l) = [] /\ deltas k (map snd l) <> [] /\ ~ base_num (s (fst k) (snd k)) (deltas k (map snd l))).
Proof. exact joint_conflict_iff. Qed.
Print Assumptions C05_joint_conflict_iff.

(* 3. the duration constraint: open/closed bounds, evaluated in the state in which the constraint is checked ... *)
Theorem C05_duration_check :
  forall sc TP s bind d dur, holds_in sc TP s bind (dur_expr d dur) = dur_ok sc TP s bind d dur.
Proof. exact duration_check. Qed.
Print Assumptions C05_duration_check.

(* 4. ... and a condition at an instant t (duration constraint, precondition, at-start/at-end/intermediate condition)
      is evaluated in the state produced by the last happening strictly before t: before the effects of t *)
Theorem C05_conditions_before_effects :
  forall sc TP (s0 : state) (tr : trace) (t : Qc) bind e,
    asc_from minus1 (keys tr) -> zq 0 <= t ->
    check_cond sc TP ((minus1, s0) :: tr) {| tc_iv := point_interval t; tc_bind := bind; tc_expr := e |} =
    holds_in sc TP (state_at s0 tr t) bind e.
Proof. exact conditions_before_effects. Qed.
Print Assumptions C05_conditions_before_effects.

(* 5. the composed theorem *)
Theorem C05_tt_validate_correct :
  forall sc TP (s0 : state) (pi : tplan),
    supported_plan TP pi = true -> plan_typed_t sc TP pi ->
    (tt_validate sc TP s0 pi = VALID <-> tt_valid sc TP s0 pi).
Proof. exact tt_validate_correct. Qed.
Print Assumptions C05_tt_validate_correct.

(* 6. the model always terminates with a verdict *)
Theorem C05_tt_validate_total :
  forall sc TP (s0 : state) (pi : tplan),
    plan_times_ok TP pi = true -> plan_typed_t sc TP pi -> tt_validate sc TP s0 pi <> OUT_OF_FUEL.
Proof. exact tt_validate_total. Qed.
Print Assumptions C05_tt_validate_total.

(* 7. the executable reference used as the oracle (sample instants) decides the dense-time definition *)
Theorem C05_reference_executable :
  forall sc TP (s0 : state) (pi : tplan),
    plan_times_ok TP pi = true -> (tt_valid_b sc TP s0 pi = true <-> tt_valid sc TP s0 pi).
Proof. exact tt_valid_b_spec. Qed.
Print Assumptions C05_reference_executable.

(* ---------------- non-vacuity: a durative action with a left-open intermediate condition, an instantaneous action
   that makes the condition true strictly inside the interval, coinciding end effects *)
Definition ex_f : expr := EFluent 0%N [].
Definition ex_TP : tproblem :=
  {| tp_base := {| p_objs := []; p_ifun := [];
                   p_fluents := [ {| fd_id := 0%N; fd_sig := []; fd_ty := FBool |}; {| fd_id := 1%N; fd_sig := []; fd_ty := FBool |} ];
                   p_actions := [ (1%N, {| a_params := []; a_pre := [];
                                           a_effs := [ {| e_fl := 0%N; e_args := []; e_val := EBool true; e_cond := EBool true;
                                                          e_kind := KAssign; e_vars := []; e_isbool := true |} ] |}) ];
                   p_goals := [EFluent 1%N []]; p_invs := [] |};
     tp_dur := [ (0%N, {| d_params := []; d_lo := EInt 10; d_hi := EInt 10; d_lopen := false; d_ropen := false;
                          d_conds := [ ({| ti_lo := {| tm_anchor := AStart; tm_delay := zq 2 |};
                                           ti_hi := {| tm_anchor := AEnd; tm_delay := zq (-1) |};
                                           ti_lopen := true; ti_ropen := false |}, [ex_f]) ];
                          d_effs := [ ({| tm_anchor := AEnd; tm_delay := zq 0 |},
                                       [ {| e_fl := 1%N; e_args := []; e_val := EBool true; e_cond := EBool true;
                                            e_kind := KAssign; e_vars := []; e_isbool := true |} ]) ] |}) ];
     tp_teffs := []; tp_tgoals := [] |}.
Definition ex_s0 : state := fun f _ => Some (VBool false).
Definition ex_plan (t : Z) : tplan :=
  [ {| ps_start := zq 0; ps_act := 0%N; ps_args := []; ps_dur := Some (zq 10) |};
    {| ps_start := zq t; ps_act := 1%N; ps_args := []; ps_dur := None |} ].

(* the condition over (start+2, end-1] fails when f becomes true only at 5 (DESIGN.md #10, repaired), holds when
   f becomes true at 2 (the lower bound is excluded) *)
Example C05_nonvacuous :
  supported_plan ex_TP (ex_plan 5) = true /\ supported_plan ex_TP (ex_plan 2) = true /\
  tt_validate true ex_TP ex_s0 (ex_plan 5) = INVALID /\ tt_valid_b true ex_TP ex_s0 (ex_plan 5) = false /\
  tt_validate true ex_TP ex_s0 (ex_plan 2) = VALID /\ tt_valid_b true ex_TP ex_s0 (ex_plan 2) = true.
Proof. vm_compute. repeat split; reflexivity. Qed.
