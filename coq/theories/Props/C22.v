(* C22 - Problem cloning yields an equal, independent copy that accepts the same edits.
   Only statements; each is closed by [exact] of a lemma from Proofs/Clone_fields.v or Proofs/Clone_proofs.v.

   Reading of the model (Model/Clone.v): [h] is a heap of Python containers, [p] a Problem object (the addresses of its
   containers), [wf h p] says its containers are distinct existing cells, [abs h p] is the problem's content read through
   its attributes, [clone_world h p] is the heap after `c = p.clone()`, [wrun] performs API calls on the original
   (SOrig) or the clone (SClone) by in-place mutation, [prun] is the pure semantics of a call sequence on a content. *)
From Coq Require Import List NArith Bool.
From Coq Require Import String.
Import ListNotations.
Require Import UPV.Model.Clone UPV.Proofs.Clone_proofs UPV.Gen.Gen_Clone UPV.Proofs.Clone_fields.

(* ---- T: the regenerated attribute tables (Problem, ContingentProblem, HierarchicalProblem, MultiAgentProblem and its
        MAEnvironment, SchedulingProblem, Agent, the action / event / process classes) *)
Theorem C22_clone_copies_every_field :
  forall cf, In cf Gen_Clone.all_fields -> Gen_Clone.covered cf = true.
Proof. exact clone_copies_every_field. Qed.
Print Assumptions C22_clone_copies_every_field.

Theorem C22_clone_writes_only_initialised_fields :
  forall cf, In cf Gen_Clone.cloned_fields -> In cf Gen_Clone.all_fields.
Proof. exact cloned_fields_declared. Qed.
Print Assumptions C22_clone_writes_only_initialised_fields.

(* copies are as deep as the attribute is nested: e.g. DurativeAction._continuous_effects : Dict[TimeInterval, List[Effect]]
   needs a new dict, new lists and cloned effects (a shallow dict.copy() would share the lists between original and
   clone); the shallower copies that remain are the justified `shallow_accepted` rows, one of which is the open HTN finding *)
Theorem C22_nested_fields_copied_deeply :
  forall r, In r Gen_Clone.required_depth -> Gen_Clone.deep_enough r = true.
Proof. exact nested_fields_copied_deeply. Qed.
Print Assumptions C22_nested_fields_copied_deeply.

(* the behavioural model below has exactly the attributes that Problem.clone() writes ... *)
Theorem C22_model_attributes_are_the_cloned_ones :
  forall f, In f (Gen_Clone.cloned_of "Problem"%string) <->
            In f (Fields.scal_fields ++ Fields.flat_fields ++ Fields.nest_fields).
Proof. exact model_fields_match. Qed.
Print Assumptions C22_model_attributes_are_the_cloned_ones.

(* ... and the contingent / hierarchical clone() write all of them too (they reuse Problem._clone_to) *)
Theorem C22_subclasses_reuse_problem_clone :
  forall f, In f (Gen_Clone.cloned_of "Problem"%string) ->
    In f (Gen_Clone.cloned_of "ContingentProblem"%string) /\ In f (Gen_Clone.cloned_of "HierarchicalProblem"%string).
Proof. exact subclasses_clone_problem_fields. Qed.
Print Assumptions C22_subclasses_reuse_problem_clone.

(* ---- clone() returns an equal problem of the same kind, does not touch the original, shares no container *)
Theorem C22_clone_equal :
  forall h p, wf h p ->
    let w := clone_world h p in
    abs (w_heap w) (w_c w) = abs h p /\ abs (w_heap w) (w_p w) = abs h p /\
    wf (w_heap w) (w_p w) /\ wf (w_heap w) (w_c w) /\
    disjoint (footprint (w_heap w) (w_p w)) (footprint (w_heap w) (w_c w)).
Proof. exact clone_equal. Qed.
Print Assumptions C22_clone_equal.

(* == (Problem.__eq__) and kind are functions of the content; == is reflexive whatever kind / initial_values compute *)
Theorem C22_eq_reflexive :
  forall (kind : pstate -> N) (initial_values : pstate -> list (N * N)) s, peq kind initial_values s s = true.
Proof. exact peq_refl. Qed.
Print Assumptions C22_eq_reflexive.

(* ---- every interleaving of calls on the two problems: each evolves as if it were alone (content and outcomes), and
        both stay well-formed, so the statement applies again to any problem reached this way *)
Theorem C22_simulation :
  forall h p tr, wf h p ->
    let r := wrun (clone_world h p) tr in
    abs (w_heap (fst r)) (w_p (fst r)) = fst (prun (abs h p) (proj SOrig tr)) /\
    abs (w_heap (fst r)) (w_c (fst r)) = fst (prun (abs h p) (proj SClone tr)) /\
    proj_out SOrig tr (snd r) = snd (prun (abs h p) (proj SOrig tr)) /\
    proj_out SClone tr (snd r) = snd (prun (abs h p) (proj SClone tr)) /\
    wf (w_heap (fst r)) (w_p (fst r)) /\ wf (w_heap (fst r)) (w_c (fst r)).
Proof. exact clone_simulation. Qed.
Print Assumptions C22_simulation.

(* ---- the same operations on both: each succeeds on the clone iff it succeeds on the original (same outcome, even the
        same exception), and the two have the same content afterwards (hence ==, same kind) *)
Theorem C22_same_outcomes_and_stay_equal :
  forall h p ops, wf h p ->
    let r := wrun (clone_world h p) (both ops) in
    proj_out SClone (both ops) (snd r) = proj_out SOrig (both ops) (snd r) /\
    proj_out SOrig (both ops) (snd r) = snd (prun (abs h p) ops) /\
    abs (w_heap (fst r)) (w_c (fst r)) = abs (w_heap (fst r)) (w_p (fst r)) /\
    abs (w_heap (fst r)) (w_p (fst r)) = fst (prun (abs h p) ops).
Proof. exact clone_same_outcomes. Qed.
Print Assumptions C22_same_outcomes_and_stay_equal.

(* ---- operations on one never change the other: two histories that agree on the calls made on one side give that side
        the same outcomes and the same content, whatever was done to the other side *)
Theorem C22_independent :
  forall h p tr1 tr2 sd, wf h p -> proj sd tr1 = proj sd tr2 ->
    let r1 := wrun (clone_world h p) tr1 in
    let r2 := wrun (clone_world h p) tr2 in
    proj_out sd tr1 (snd r1) = proj_out sd tr2 (snd r2) /\
    match sd with
    | SOrig => abs (w_heap (fst r1)) (w_p (fst r1)) = abs (w_heap (fst r2)) (w_p (fst r2))
    | SClone => abs (w_heap (fst r1)) (w_c (fst r1)) = abs (w_heap (fst r2)) (w_c (fst r2))
    end.
Proof. exact clone_independent. Qed.
Print Assumptions C22_independent.

(* ---- OPEN FINDINGS, proved on the faithful model (see notes/C22.md, KNOWN_FINDINGS.json) *)

(* C22-HTN-METHODS-ALIAS-ACTIONS: HierarchicalProblem.clone copies the _methods dict but shares the Method objects, whose
   subtasks reference the ORIGINAL's Action objects: a successful add_effect on an action of the original changes what the
   clone's methods look like.  Independence is false for hierarchical problems with an action used as a subtask. *)
Theorem C22_htn_methods_alias_original_actions_refuted :
  exists h hp o,
    wf h (h_prob hp) /\
    let (h1, hc) := hclone_htn h hp in
    let '(h2, _, out) := hstep h1 (h_prob hp) o in
    out = Ok /\ methods_view h2 (h_methods hc) <> methods_view h1 (h_methods hc).
Proof. exact htn_methods_alias_original_actions. Qed.
Print Assumptions C22_htn_methods_alias_original_actions_refuted.

(* C22-MA-SHARED-ACTION-UNSHARED: the hypothesis [wf] (no container reachable twice) cannot be dropped: an original in
   which one action object sits in two action lists (one Action added to two agents) and its clone, given the same
   add_effect, end up different although every call succeeded on both. *)
Theorem C22_aliased_original_refuted :
  exists h p ops,
    ~ NoDup (footprint h p) /\
    let r := wrun (clone_world h p) (both ops) in
    snd r = [Ok; Ok] /\
    abs (w_heap (fst r)) (w_c (fst r)) <> abs (w_heap (fst r)) (w_p (fst r)).
Proof. exact aliased_original_diverges. Qed.
Print Assumptions C22_aliased_original_refuted.

(* ---- non-vacuity: a problem with a timed increase on fluent 7 at timing 5 (the shape of defect #25).  After cloning,
        a conflicting timed assignment is rejected by BOTH (Fail 2 = UPConflictingEffectsException), a fresh goal is
        accepted by both, and an edit of the clone only is invisible in the original. *)
Definition ex_state : pstate :=
  {| s_scal := [1; 0; 0; 0]%N;
     s_flat := [CList []; CList []; CList [(7, 3)%N]; CDict [(7, 0)%N]; CDict []; CDict []; CList []; CList [];
                CList []; CList []; CList []; CDict []];
     s_nest := [ [(20%N, CAct {| a_static := 30; a_sim := []; a_effs := [(0%N, [])]; a_asg := [(0%N, [])];
                                 a_incdec := [(0%N, [])]; a_ceffs := [] |})];
                 [(5%N, CList [(40, 0)%N])]; []; [(5%N, CDict [])]; [(5%N, CList [(7, 0)%N])] ] |}.
Definition ex_assign : op :=
  {| o_pre := None; o_body := OTimedEffect 5 {| e_id := 41; e_fl := 7; e_val := 50; e_kind := EAssign; e_skip := false |} |}.
Definition ex_goal : op := {| o_pre := None; o_body := OAddGoal 60 false |}.

Example C22_nonvacuous :
  let (h, p) := load ex_state in
  wf h p /\ abs h p = ex_state /\
  (let r := wrun (clone_world h p) (both [ex_assign; ex_goal]) in
   snd r = [Fail 2; Fail 2; Ok; Ok]
   /\ lst (flat (abs (w_heap (fst r)) (w_c (fst r))) F_GOALS) = [(60, 0)%N]) /\
  (let r := wrun (clone_world h p) [(SClone, ex_goal)] in
   lst (flat (abs (w_heap (fst r)) (w_p (fst r))) F_GOALS) = []
   /\ lst (flat (abs (w_heap (fst r)) (w_c (fst r))) F_GOALS) = [(60, 0)%N]).
Proof.
  vm_compute load. split; [apply wfb_wf; vm_compute; reflexivity|]. vm_compute. repeat split; reflexivity.
Qed.

(* one instance of the hypotheses of each theorem above (all by computation on the same problem) *)
Example C22_clone_copies_every_field_nonvacuous : In ("Problem", "_fluents_inc_dec")%string Gen_Clone.all_fields.
Proof. apply mem_pair_In. vm_compute. reflexivity. Qed.
Example C22_clone_writes_only_initialised_fields_nonvacuous : In ("Problem", "_fluents_inc_dec")%string Gen_Clone.cloned_fields.
Proof. apply mem_pair_In. vm_compute. reflexivity. Qed.
Example C22_nested_fields_copied_deeply_nonvacuous :
  In ("DurativeAction", "_continuous_effects", 3)%string Gen_Clone.required_depth
  /\ In ("Problem", "_timed_goals", 2)%string Gen_Clone.required_depth.
Proof. split; apply mem_triple_In; vm_compute; reflexivity. Qed.
Example C22_subclasses_reuse_problem_clone_nonvacuous : In "_trajectory_constraints"%string (Gen_Clone.cloned_of "Problem"%string).
Proof. apply mem_str_In. vm_compute. reflexivity. Qed.
Example C22_clone_equal_nonvacuous : wf (fst (load ex_state)) (snd (load ex_state)).
Proof. apply wfb_wf. vm_compute. reflexivity. Qed.
Example C22_simulation_nonvacuous :
  wf (fst (load ex_state)) (snd (load ex_state)) /\
  snd (wrun (clone_world (fst (load ex_state)) (snd (load ex_state))) [(SClone, ex_assign); (SOrig, ex_goal); (SOrig, ex_assign)])
  = [Fail 2; Ok; Fail 2].
Proof. split; [apply wfb_wf; vm_compute; reflexivity | vm_compute; reflexivity]. Qed.
Example C22_same_outcomes_and_stay_equal_nonvacuous : wf (fst (load ex_state)) (snd (load ex_state)).
Proof. exact C22_clone_equal_nonvacuous. Qed.
Example C22_independent_nonvacuous :
  wf (fst (load ex_state)) (snd (load ex_state)) /\
  proj SOrig [(SClone, ex_assign); (SOrig, ex_goal)] = proj SOrig [(SOrig, ex_goal); (SClone, ex_goal); (SClone, ex_goal)].
Proof. split; [exact C22_clone_equal_nonvacuous | reflexivity]. Qed.
