(* C29 — Durative-to-processes plan conversions are mutually inverse.
   Only statements; each is closed by [exact] of a lemma from Proofs/DA2P_proofs.v.
   Model: Model/DA2P.v ([forward] = _forward_plan_to_plan, [back] = _back_plan_to_plan; None = a Python exception).
   Time and durations are exact rationals in reduced form (Python Fractions), so "the same start time and duration"
   is syntactic equality. *)
From Coq Require Import List ZArith NArith QArith Bool Permutation.
Import ListNotations.
Require Import UPV.Model.DA2P UPV.Proofs.DA2P_proofs.
Open Scope Q_scope.

(* For every problem and EVERY time-triggered plan whose instances are instantaneous or fixed-duration actions carrying
   the duration their action prescribes for the actual parameters ([wf_fixed_entry]; any start times: equal, unordered,
   the same instance twice, overlapping): both conversions succeed and back (forward pi) contains exactly the timed
   instances of pi — same action, parameters, start time and duration, with multiplicity. *)
Theorem C29_back_forward_same_timed_instances :
  forall P pi, Forall (wf_fixed_entry P) pi ->
    exists pi' pi'', forward P pi = Some pi' /\ back P pi' = Some pi'' /\ Permutation pi'' pi.
Proof. exact back_forward_fixed_perm. Qed.
Print Assumptions C29_back_forward_same_timed_instances.

(* The order of the result is NOT the order of pi (TimeTriggeredPlan.__eq__ compares lists in order, so the plans are in
   general not `==`): it is pi stably sorted by start time and then grouped by (action, parameters) in order of first
   occurrence. *)
Theorem C29_back_forward_exact_order :
  forall P pi, Forall (wf_fixed_entry P) pi ->
    exists pi', forward P pi = Some pi' /\ back P pi' = Some (regroup (sort_t pi)).
Proof. exact back_forward_fixed. Qed.
Print Assumptions C29_back_forward_exact_order.

(* ... which is just pi sorted by start time when no ground action occurs twice *)
Theorem C29_distinct_instances_come_back_sorted :
  forall pi, NoDup (map key_of pi) -> regroup (sort_t pi) = sort_t pi.
Proof. exact regroup_sorted_distinct. Qed.
Print Assumptions C29_distinct_instances_come_back_sorted.

Theorem C29_sort_is_sorted_permutation :
  forall pi : list oentry, sorted_t (sort_t pi) /\ Permutation (sort_t pi) pi.
Proof. exact sort_t_sorted_perm. Qed.
Print Assumptions C29_sort_is_sorted_permutation.

(* The forward plan keeps every instance's start action at the instance's start time, in plan order. *)
Theorem C29_forward_keeps_start_times :
  forall P pi pi', forward P pi = Some pi' -> filter is_start pi' = map cstart pi.
Proof. exact forward_starts. Qed.
Print Assumptions C29_forward_keeps_start_times.

(* Fixed-duration actions have no end ACTION: their compiled end is the event a_end, triggered by the process clock;
   the forward plan consists of the start actions only. *)
Theorem C29_fixed_plans_have_no_end_action :
  forall P pi pi', Forall (wf_fixed_entry P) pi -> forward P pi = Some pi' ->
    pi' = map cstart pi /\ forallb is_start pi' = true.
Proof. exact forward_fixed_no_end_action. Qed.
Print Assumptions C29_fixed_plans_have_no_end_action.

(* Every compiled end action that the forward plan contains (they exist for variable-duration actions: a_first_end at the
   earliest from-end timing end+delta, delta <= 0) lies inside its action's duration: strictly after the start, not after
   the end, exactly at start + duration + delta. *)
Theorem C29_end_action_inside_duration :
  forall P pi pi', forward P pi = Some pi' ->
  forall te a ps x, In (te, (CFirstEnd a, ps), x) pi' ->
  exists t dur delta, In (t, (a, ps), Some dur) pi /\ kind_of P a = Some (KVar delta)
                      /\ te == t + (dur + delta) /\ t < te /\ te <= t + dur.
Proof. exact forward_end_sound. Qed.
Print Assumptions C29_end_action_inside_duration.

(* and every variable-duration instance gets one *)
Theorem C29_every_variable_instance_gets_its_end_action :
  forall P pi pi', forward P pi = Some pi' ->
  forall t a ps dur delta, In (t, (a, ps), Some dur) pi -> kind_of P a = Some (KVar delta) ->
  exists te, In (te, (CFirstEnd a, ps), None) pi' /\ te == t + (dur + delta) /\ t < te /\ te <= t + dur.
Proof. exact forward_end_complete. Qed.
Print Assumptions C29_every_variable_instance_gets_its_end_action.

(* a single variable-duration instance also round-trips (the duration is recovered from the end action's time) *)
Theorem C29_single_variable_instance_round_trips :
  forall P t a ps dur delta, kind_of P a = Some (KVar delta) -> 0 < dur + delta -> delta <= 0 ->
  exists pi', forward P [(t, (a, ps), Some dur)] = Some pi' /\ back P pi' = Some [(t, (a, ps), Some (Qred dur))].
Proof. exact back_forward_single_var. Qed.
Print Assumptions C29_single_variable_instance_round_trips.

(* ---------------------------------------------------------------- non-vacuity *)
Definition exP : problem :=
  {| p_acts := [(0%N, KInst);
                (1%N, KFixed (DPlus (DTimes (DParam 1) (DStatic 7%N [0%nat])) (DConst 1)));
                (2%N, KVar (-1#1));
                (3%N, KFixed (DConst (7#2)))];
     p_statics := [((7%N, [PObj 1%N]), 3#1)] |}.
Definition exPi : list oentry :=
  [ (3#1, (1%N, [PObj 1%N; PInt 2%Z]), Some (7#1));
    (1#3, (0%N, [PObj 0%N]), None);
    (3#1, (3%N, []), Some (7#2));
    (0#1, (1%N, [PObj 1%N; PInt 2%Z]), Some (7#1));
    (1#3, (3%N, []), Some (7#2)) ].

Example C29_back_forward_nonvacuous :
  Forall (wf_fixed_entry exP) exPi /\
  option_map (fun f => back exP f) (forward exP exPi)
  = Some (Some [ (0#1, (1%N, [PObj 1%N; PInt 2%Z]), Some (7#1)); (3#1, (1%N, [PObj 1%N; PInt 2%Z]), Some (7#1));
                 (1#3, (0%N, [PObj 0%N]), None);
                 (1#3, (3%N, []), Some (7#2)); (3#1, (3%N, []), Some (7#2)) ]).
Proof.
  split; [|vm_compute; reflexivity].
  repeat constructor; unfold wf_fixed_entry; simpl; try (eexists; split; vm_compute; reflexivity).
Qed.

Example C29_distinct_nonvacuous :
  NoDup (map key_of [ (3#1, (1%N, [PObj 1%N; PInt 2%Z]), Some (7#1)); (1#3, (0%N, [PObj 0%N]), @None Q) ]).
Proof. repeat constructor; simpl; intuition discriminate. Qed.

Definition exVar : list oentry := [ (2#1, (2%N, [PObj 0%N]), Some (3#1)); (2#1, (0%N, [PObj 0%N]), None) ].
Example C29_end_inside_nonvacuous :
  forward exP exVar = Some [ (2#1, (CStart 2%N, [PObj 0%N]), None); (4#1, (CFirstEnd 2%N, [PObj 0%N]), None);
                             (2#1, (CStart 0%N, [PObj 0%N]), None) ]
  /\ kind_of exP 2%N = Some (KVar (-1#1)) /\ 0 < (3#1) + (-1#1) /\ (-1#1) <= 0.
Proof. split; [vm_compute; reflexivity|]. split; [reflexivity|]. split; reflexivity || (intro; discriminate). Qed.

(* outside the property's scope (variable durations): with two overlapping instances of the same ground action the
   second end action pops the instance that was just completed and `assert duration is None` fails in
   _back_plan_to_plan — the round trip is not even defined there (the compiled problem forbids such self-overlap) *)
Example C29_scope_variable_crossing_instances :
  let pi := [ (0#1, (2%N, [PObj 0%N]), Some (5#1)); (1#1, (2%N, [PObj 0%N]), Some (10#1)) ] in
  option_map (fun f => back exP f) (forward exP pi)
  = Some None.
Proof. vm_compute. reflexivity. Qed.
