(* C07 — Compilers preserve solvability and every original plan (completeness).
   Level: translation validation (see Props/C06.v).  Reading fixed in DESIGN.md 6.00: "maps back to the same sequence
   of action instances" is modulo original steps that leave every ground fluent unchanged ([sub_noop]): groundings
   and variants without effects are documented to be discarded.  The length bound is |pi| + k, k the number of
   auxiliary compiled steps (k = 1 for compilations that add a final goal-achieving action, else 0).
   Only statements; proofs are in Proofs/SimCheck_proofs.v. *)
From Coq Require Import List ZArith NArith QArith Qcanon Bool.
Import ListNotations.
Require Import UPV.Core.Expr UPV.Core.Eval UPV.Core.Interp UPV.Planning.Problem UPV.Planning.Sem.
Require Import UPV.Compilers.SimCheck UPV.Proofs.SimCheck_proofs.
Require UPV.Props.C06.
Local Open Scope nat_scope.

Theorem C07_complete_check_correct :
  forall (T T' : tsys) (back : inst -> option inst) (k n : nat),
    complete_check T T' back k n = true ->
    forall pi, plan_over T pi -> length pi <= n -> valid T pi = true ->
      exists pi', plan_over T' pi' /\ length pi' <= length pi + k /\ valid T' pi' = true /\
                  sub_noop T (ts_init T) pi (map_back back pi').
Proof. exact complete_check_correct. Qed.
Print Assumptions C07_complete_check_correct.

(* a [false] answer names a valid plan of the original problem (for which the exhaustive propagation of compiled
   configurations found no accepting one) *)
Theorem C07_complete_search_witness :
  forall (T T' : tsys) (back : inst -> option inst) (k n : nat) (w : plan),
    complete_search T T' back k n = Some w -> plan_over T w /\ length w <= n /\ valid T w = true.
Proof. exact complete_search_witness. Qed.
Print Assumptions C07_complete_search_witness.

(* unsolvable compiled problem => unsolvable original problem, up to the bound: contrapositive of the above *)
Theorem C07_unsolvable_transfers :
  forall (T T' : tsys) (back : inst -> option inst) (k n : nat),
    complete_check T T' back k n = true ->
    (forall pi', plan_over T' pi' -> valid T' pi' = false) ->
    forall pi, plan_over T pi -> length pi <= n -> valid T pi = false.
Proof. exact unsolvable_transfers. Qed.
Print Assumptions C07_unsolvable_transfers.

Import C06.Ex.

(* non-vacuity: the original plan [0] has the compiled counterpart [7]; with the goal-achieving step 8 made
   auxiliary and one auxiliary step allowed the check still passes; dropping action 7 from the compiled alphabet
   makes it fail with the witness [0] *)
Example C07_complete_check_correct_nonvacuous :
  complete_check T0 T1 back 1 2 = true /\ plan_over T0 [(0%N, [])] /\ valid T0 [(0%N, [])] = true.
Proof. split; [vm_compute; reflexivity|]. split; [repeat constructor | vm_compute; reflexivity]. Qed.

Example C07_complete_search_witness_nonvacuous :
  complete_search T0 {| ts_prob := P1; ts_init := s0; ts_insts := [(8%N, [])]; ts_traj := [] |} back 0 2
  = Some [(0%N, [])].
Proof. vm_compute. reflexivity. Qed.

(* ==========================================================================================================
   LAYER A — completeness of individual compilers, proved for ALL problems of the modelled fragment (see the
   Layer A block of Props/C06.v for the models, the hypotheses and the external parameters).
   ========================================================================================================== *)
Require Import UPV.Walkers.Subst UPV.Compilers.Variants UPV.Proofs.Variants_proofs.
Require Import UPV.Compilers.LayerA_Defs UPV.Compilers.LayerA_Quant UPV.Compilers.LayerA_Inv UPV.Compilers.LayerA_Variants.
Require Import UPV.Proofs.LayerA_Quant_proofs UPV.Proofs.LayerA_Inv_proofs UPV.Proofs.LayerA_Variants_proofs.

(* QuantifiersRemover: every valid plan of the original problem is, unchanged, a valid plan of the compiled problem,
   provided no action was left out for conflicting expanded effects ([no_action_dropped]; such an action can only be
   applied where its conflicting effects agree at run time — the convention of C01-grounding-syntactic-conflict). *)
Theorem C07_LA_quant_complete :
  forall (smp : expr -> expr), smp_exact smp ->
  forall (P : problem) (tau : N -> N), unique_ids P -> problem_wf P tau = true ->
  forall (s0 : state) (pi : list (N * list value)),
    no_action_dropped smp P -> bool_state P s0 -> plan_targets_total P pi ->
    valid_plan false P s0 pi = true -> valid_plan false (quant_compile smp P) s0 pi = true.
Proof. exact quant_complete. Qed.
Print Assumptions C07_LA_quant_complete.

(* StateInvariantsRemover / BoundedTypesRemover: the one hypothesis on the initial state is that the moved constraints
   hold in it (which get_initial_state checks for the original problem anyway) *)
Theorem C07_LA_sir_complete :
  forall (smp : expr -> expr), smp_holds smp ->
  forall P : problem, unique_ids P -> Forall (closed_cond P) (p_invs P) ->
  forall (s0 : state) (pi : list (N * list value)),
    all_hold false (mk_interp P s0 []) (p_invs P) = true ->
    valid_plan false P s0 pi = true -> valid_plan false (sir_compile smp P) s0 pi = true.
Proof. exact sir_complete. Qed.
Print Assumptions C07_LA_sir_complete.

Theorem C07_LA_btr_complete :
  forall (smp : expr -> expr), smp_holds smp ->
  forall P : problem, unique_ids P ->
  forall (s0 : state) (pi : list (N * list value)),
    all_hold false (mk_interp P s0 []) (bound_invs P) = true ->
    valid_plan false P s0 pi = true -> valid_plan false (btr_compile smp P) s0 pi = true.
Proof. exact btr_complete. Qed.
Print Assumptions C07_LA_btr_complete.

(* ConditionalEffectsRemover: every valid original plan has a compiled plan, not longer, that maps back to it modulo
   steps that leave the state unchanged ([sub_noop_eq]: the variant without effects is discarded — finding
   C37-noop-variant-dropped is exactly why "modulo" is needed).  The last hypothesis says that a variant dropped for
   conflicting effects loses nothing; C37_conflict_drop_sound proves it when syntactically different assigned values
   differ at run time (otherwise: finding C07-cer-syntactic-conflict-variant-dropped). *)
Theorem C07_LA_cer_complete :
  forall (simp_pre : list expr -> option (list expr)), simp_pre_ok simp_pre ->
  forall (nm : N -> nat -> N) (P : problem), unique_ids (cer_compile simp_pre nm P) ->
  forall G : state -> Prop,
    (forall s aid a args t, G s -> lookup_action P aid = Some a -> spec_step false P s a args = Some t -> G t) ->
    (forall s args i a, G s -> In (i, a) (p_actions P) -> Forall (cond_ok P s a args) (cond_effs (a_effs a))) ->
    (forall s args i a, G s -> In (i, a) (p_actions P) ->
       add_effs_ok [] [] (a_effs (ce_variant a (the_sel P s a args))) = false -> applicable P s a args = false) ->
  forall (s0 : state) (pi : list (N * list value)), G s0 -> valid_plan false P s0 pi = true ->
    exists pi', valid_plan false (cer_compile simp_pre nm P) s0 pi' = true /\ length pi' <= length pi /\
                sub_noop_eq P s0 pi (vt_map_back (cer_table simp_pre nm P) pi').
Proof. exact cer_complete. Qed.
Print Assumptions C07_LA_cer_complete.

(* DisjunctiveConditionsRemover without auxiliary goal action (bound k = 0; the fake-goal case, bound k + 1, is
   validated per instance by complete_check above and proved at action level in C37_goals_equiv /
   C37_fake_goal_achievable) *)
Theorem C07_LA_dcr_complete :
  forall (cdnf : expr -> list expr) (pre_dnf : action -> list (list expr)) (nm : N -> nat -> N)
         (P : problem) (goals' : list expr),
    unique_ids (dcr_compile cdnf pre_dnf nm P goals') ->
  forall G : state -> Prop,
    (forall s aid a args t, G s -> lookup_action P aid = Some a -> spec_step false P s a args = Some t -> G t) ->
    (forall s args i a, G s -> In (i, a) (p_actions P) -> Forall (dnf_effect_ok cdnf P s a args) (a_effs a)) ->
    (forall s args i a, G s -> In (i, a) (p_actions P) ->
       existsb (all_hold false (mk_interp P s (zip_params (a_params a) args))) (pre_dnf a) =
       all_hold false (mk_interp P s (zip_params (a_params a) args)) (a_pre a)) ->
    (forall s, G s -> all_hold false (mk_interp P s []) goals' = all_hold false (mk_interp P s []) (p_goals P)) ->
    (forall s args i a d, G s -> In (i, a) (p_actions P) -> In d (pre_dnf a) ->
       add_effs_ok [] [] (a_effs (dnf_variant cdnf a d)) = false ->
       all_hold false (mk_interp P s (zip_params (a_params a) args)) d = true -> applicable P s a args = false) ->
  forall (s0 : state) (pi : list (N * list value)), G s0 -> valid_plan false P s0 pi = true ->
    exists pi', valid_plan false (dcr_compile cdnf pre_dnf nm P goals') s0 pi' = true /\ length pi' <= length pi /\
                sub_noop_eq P s0 pi (vt_map_back (dcr_table cdnf pre_dnf nm P) pi').
Proof. exact dcr_complete. Qed.
Print Assumptions C07_LA_dcr_complete.

(* ---------------------------------------------------------------- non-vacuity (instances of Props/C06.v) *)
Example C07_LA_quant_complete_nonvacuous :
  no_action_dropped C06.LA.idsmp C06.LA.Pq /\ valid_plan false C06.LA.Pq C06.LA.sq [(0%N, [])] = true /\
  valid_plan false (quant_compile C06.LA.idsmp C06.LA.Pq) C06.LA.sq [(0%N, [])] = true.
Proof.
  split; [intros aid a [H|[]]; inversion H; subst; vm_compute; discriminate|]. split; vm_compute; reflexivity.
Qed.

Example C07_LA_sir_btr_complete_nonvacuous :
  all_hold false (mk_interp C06.LB.Pi C06.LB.si []) (p_invs C06.LB.Pi) = true /\
  all_hold false (mk_interp C06.LB.Pi C06.LB.si []) (bound_invs C06.LB.Pi) = true /\
  valid_plan false C06.LB.Pi C06.LB.si [(2%N, []); (0%N, [])] = true /\
  valid_plan false (sir_compile C06.LA.idsmp C06.LB.Pi) C06.LB.si [(2%N, []); (0%N, [])] = true /\
  valid_plan false (btr_compile C06.LA.idsmp C06.LB.Pi) C06.LB.si [(2%N, []); (0%N, [])] = true /\
  (* the hypothesis on the initial state is needed: with x = 3 initially the ORIGINAL accepts the empty-effect plan
     that never touches x only if the initial check is left to get_initial_state *)
  (let s3 : state := fun f a => if (f =? 2)%N then Some (VNum (zq 3)) else Some (VBool true) in
   valid_plan false C06.LB.Pi s3 [] = true /\ valid_plan false (btr_compile C06.LA.idsmp C06.LB.Pi) s3 [] = false).
Proof. repeat split; vm_compute; reflexivity. Qed.

(* a valid original plan of the conditional problem, and a DNF reading of the same problem *)
Module LD.
  Definition cd (c : expr) : list expr := [c].
  Definition pd (a : action) : list (list expr) := [a_pre a].
  Definition nm (i : N) (k : nat) : N := (20 + N.of_nat k)%N.
  Definition G (s : state) : Prop := True.
  Definition Pd : problem :=
    {| p_objs := []; p_ifun := [];
       p_fluents := p_fluents C06.LB.Pi; p_actions := [(0%N, C06.LB.setf 0%N true)];
       p_goals := [EFluent 0%N []]; p_invs := [] |}.
End LD.

Example C07_LA_cer_complete_nonvacuous :
  valid_plan false C06.LC.Pc C06.LC.sc0 [(0%N, [])] = true /\
  valid_plan false (cer_compile C06.LC.sp C06.LC.nm C06.LC.Pc) C06.LC.sc0 [(10%N, [])] = true /\
  sub_noop_eq C06.LC.Pc C06.LC.sc0 [(0%N, [])] (vt_map_back (cer_table C06.LC.sp C06.LC.nm C06.LC.Pc) [(10%N, [])]).
Proof.
  split; [vm_compute; reflexivity|]. split; [vm_compute; reflexivity|].
  change (vt_map_back (cer_table C06.LC.sp C06.LC.nm C06.LC.Pc) [(10%N, [])]) with [(0%N, @nil value)].
  eapply sne_keep; [reflexivity | reflexivity | constructor].
Qed.

Example C07_LA_dcr_complete_nonvacuous :
  unique_ids (dcr_compile LD.cd LD.pd LD.nm LD.Pd (p_goals LD.Pd)) /\
  map fst (p_actions (dcr_compile LD.cd LD.pd LD.nm LD.Pd (p_goals LD.Pd))) = [20%N] /\
  valid_plan false LD.Pd C06.LB.si [(0%N, [])] = true /\
  valid_plan false (dcr_compile LD.cd LD.pd LD.nm LD.Pd (p_goals LD.Pd)) C06.LB.si [(20%N, [])] = true /\
  vt_map_back (dcr_table LD.cd LD.pd LD.nm LD.Pd) [(20%N, [])] = [(0%N, [])].
Proof. split; [vm_compute; repeat constructor; intros []|]. repeat split; vm_compute; reflexivity. Qed.

(* ---------------------------------------------------------------- Grounder (second Layer A round; model and hypotheses:
   Props/C06.v).  Every valid plan of the original problem whose steps use parameter tuples the grounder enumerates
   ([plan_in_tuples]: type-correct and not pruned by the static-fluent analysis) is the image under lift_action_instance of
   a valid plan of the ground problem — same length, same states, no step lost (the code keeps effect-less ground
   actions of instantaneous actions).  An instance without ground action is inapplicable: FALSE precondition
   ([ground_pre_none], proved) or syntactically conflicting ground effects (hypothesis, = conclusion of
   C37_conflict_drop_sound; it fails exactly in the findings C01-grounding-syntactic-conflict /
   C07-grounder-syntactic-conflict-action-dropped).  That a pruned tuple is never needed is NOT proved here (the
   initial state is not part of [problem]); it stays validated (graph_family of compcheck). *)
Require Import UPV.Planning.Ground UPV.Compilers.LayerA_Ground UPV.Proofs.LayerA_Ground_proofs.

Theorem C07_LA_ground_complete :
  forall (smp : expr -> expr) (tuples : N -> list (list value)) (nm : N -> nat -> N) (P : problem) (G : state -> Prop),
    smp_exact_on P G smp -> unique_ids (ground_compile smp tuples nm P) ->
    (forall s aid a args t, G s -> lookup_action P aid = Some a -> spec_step false P s a args = Some t -> G t) ->
    instances_ok smp tuples P ->
    (forall s i a args, G s -> In (i, a) (p_actions P) -> In args (tuples i) ->
       add_effs_ok [] [] (g_effects smp (zip_params (a_params a) args) (a_effs a)) = false ->
       spec_step false P s a args = None) ->
  forall (s0 : state) (pi : list (N * list value)), G s0 -> plan_in_tuples tuples pi ->
    valid_plan false P s0 pi = true ->
    exists pi', valid_plan false (ground_compile smp tuples nm P) s0 pi' = true /\
                gt_map_back (ground_table smp tuples nm P) pi' = pi.
Proof. exact ground_complete. Qed.
Print Assumptions C07_LA_ground_complete.

Example C07_LA_ground_complete_nonvacuous :
  plan_in_tuples C06.LG.tup [(0%N, [VObj 2%N]); (0%N, [VObj 1%N])] /\
  valid_plan false C06.LG.Pg C06.LG.sg0 [(0%N, [VObj 2%N]); (0%N, [VObj 1%N])] = true /\
  valid_plan false (ground_compile C06.LA.idsmp C06.LG.tup C06.LG.nm C06.LG.Pg) C06.LG.sg0 [(31%N, []); (30%N, [])] = true /\
  gt_map_back (ground_table C06.LA.idsmp C06.LG.tup C06.LG.nm C06.LG.Pg) [(31%N, []); (30%N, [])] =
    [(0%N, [VObj 2%N]); (0%N, [VObj 1%N])].
Proof.
  split; [intros i args [H|[H|[]]]; inversion H; subst; cbn; auto|]. repeat split; vm_compute; reflexivity.
Qed.
