(* C07 — Compilers preserve solvability and every original plan (completeness).
   Level: translation validation (see Props/C06.v).  Reading fixed in DESIGN.md 6.00: "maps back to the same sequence
   of action instances" is modulo original steps that leave every ground fluent unchanged ([sub_noop]): groundings
   and variants without effects are documented to be discarded.  The length bound is |pi| + k, k the number of
   auxiliary compiled steps (k = 1 for compilations that add a final goal-achieving action, else 0).
   Only statements; proofs are in Proofs/SimCheck_proofs.v. *)
From Coq Require Import List ZArith NArith QArith Qcanon Bool.
Import ListNotations.
Require Import UPV.Core.Expr UPV.Core.Eval UPV.Core.Interp UPV.Planning.Problem UPV.Planning.Sem.
Require Import UPV.Compilers.SimCheck UPV.Proofs.SimCheck_proofs.
Require UPV.Props.C06.
Local Open Scope nat_scope.

Theorem C07_complete_check_correct :
  forall (T T' : tsys) (back : inst -> option inst) (k n : nat),
    complete_check T T' back k n = true ->
    forall pi, plan_over T pi -> length pi <= n -> valid T pi = true ->
      exists pi', plan_over T' pi' /\ length pi' <= length pi + k /\ valid T' pi' = true /\
                  sub_noop T (ts_init T) pi (map_back back pi').
Proof. exact complete_check_correct. Qed.
Print Assumptions C07_complete_check_correct.

(* a [false] answer names a valid plan of the original problem (for which the exhaustive propagation of compiled
   configurations found no accepting one) *)
Theorem C07_complete_search_witness :
  forall (T T' : tsys) (back : inst -> option inst) (k n : nat) (w : plan),
    complete_search T T' back k n = Some w -> plan_over T w /\ length w <= n /\ valid T w = true.
Proof. exact complete_search_witness. Qed.
Print Assumptions C07_complete_search_witness.

(* unsolvable compiled problem => unsolvable original problem, up to the bound: contrapositive of the above *)
Theorem C07_unsolvable_transfers :
  forall (T T' : tsys) (back : inst -> option inst) (k n : nat),
    complete_check T T' back k n = true ->
    (forall pi', plan_over T' pi' -> valid T' pi' = false) ->
    forall pi, plan_over T pi -> length pi <= n -> valid T pi = false.
Proof. exact unsolvable_transfers. Qed.
Print Assumptions C07_unsolvable_transfers.

Import C06.Ex.

(* non-vacuity: the original plan [0] has the compiled counterpart [7]; with the goal-achieving step 8 made
   auxiliary and one auxiliary step allowed the check still passes; dropping action 7 from the compiled alphabet
   makes it fail with the witness [0] *)
Example C07_complete_check_correct_nonvacuous :
  complete_check T0 T1 back 1 2 = true /\ plan_over T0 [(0%N, [])] /\ valid T0 [(0%N, [])] = true.
Proof. split; [vm_compute; reflexivity|]. split; [repeat constructor | vm_compute; reflexivity]. Qed.

Example C07_complete_search_witness_nonvacuous :
  complete_search T0 {| ts_prob := P1; ts_init := s0; ts_insts := [(8%N, [])]; ts_traj := [] |} back 0 2
  = Some [(0%N, [])].
Proof. vm_compute. reflexivity. Qed.
