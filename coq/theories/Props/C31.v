(* C31 — Meta-engines return only valid plans and truthful statuses.
   Only statements; each is closed by [exact] of a lemma from Proofs/Oversub_proofs.v / Proofs/IFPlanner_proofs.v.
   The underlying planner is a universally quantified function (a Section Variable in the proofs), assumed to return
   only valid plans and to be complete.  Models: Model/Oversub.v (OversubscriptionPlanner._solve),
   Model/IFPlanner.v (InterpretedFunctionsPlanner._solve). *)
From Coq Require Import List ZArith NArith QArith Qcanon Bool Arith.
Import ListNotations.
Require Import UPV.Core.Expr UPV.Core.Eval UPV.Planning.Problem UPV.Planning.Sem UPV.Planning.SeqValidate.
Require Import UPV.Model.Oversub UPV.Model.IFPlanner UPV.Proofs.Oversub_proofs UPV.Proofs.IFPlanner_proofs.
Local Open Scope nat_scope.

(* ------------------------------------------------------------------ oversubscription
   [exec p] = final state of plan p, None when p is not executable from the initial state: the REACHABLE STATES are the
   s with exec p = Some s for some plan p.  [hard s]: the hard goals hold in s.  [truth s]: truth value of every soft
   goal in s (None when some soft goal has no truth value in s: the gain is then undefined).  The engine is asked, for
   a subset m of the soft goals, for a plan that reaches a hard-goal state in which exactly the soft goals of m hold
   ([valid_sub]).  When the meta engine answers SOLVED_OPTIMALLY, its plan reaches a hard-goal state whose gain is
   maximal among all reachable hard-goal states. *)
Theorem oversub_optimal :
  forall (plan state : Type) (exec : plan -> option state) (hard : state -> bool) (truth : state -> option mask)
         (ws : list Qc) (planner : mask -> status * option plan),
    let valid_hard := fun p => match exec p with Some s => hard s | None => false end in
    let achieved := fun p => match exec p with Some s => truth s | None => None end in
    let gain_of := fun s => option_map (weight ws) (truth s) in
    (forall s a, truth s = Some a -> length a = length ws) ->
    (* the engine returns only valid plans *)
    (forall m st pl, planner m = (st, pl) -> positive st = true ->
       exists p, pl = Some p /\ valid_sub plan valid_hard achieved m p = true) ->
    (* the engine is complete *)
    (forall m, (exists p, valid_sub plan valid_hard achieved m p = true) -> positive (fst (planner m)) = true) ->
    forall pl, oversub_solve plan planner ws = (SolvedOpt, pl) ->
    exists p s w, pl = Some p /\ exec p = Some s /\ hard s = true /\ gain_of s = Some w /\
      forall p' s' w', exec p' = Some s' -> hard s' = true -> gain_of s' = Some w' -> (w' <= w)%Qc.
Proof. exact oversub_optimal_states. Qed.
Print Assumptions oversub_optimal.

(* the same over the planning semantics of Planning/Sem.v: the derived problem of a subset is P with the goals
   g / Not(g) appended ([with_soft]); validity is [valid_plan]; the gain is the sequential validator's
   oversubscription value of the final state ([final_gain] = SeqValidate.gains there) *)
Theorem oversub_optimal_planning :
  forall (sc : bool) (P : problem) (s0 : state) (gs : list (expr * Qc))
         (engine : problem -> status * option (list (N * list value))),
    (forall Q st pl, engine Q = (st, pl) -> positive st = true -> exists p, pl = Some p /\ valid_plan sc Q s0 p = true) ->
    (forall Q, (exists p, valid_plan sc Q s0 p = true) -> positive (fst (engine Q)) = true) ->
    forall pl, oversub_solve _ (fun m => engine (with_soft P (map fst gs) m)) (map snd gs) = (SolvedOpt, pl) ->
    exists p w, pl = Some p /\ valid_plan sc P s0 p = true /\ final_gain sc P s0 gs p = Some w /\
      forall p' w', valid_plan sc P s0 p' = true -> final_gain sc P s0 gs p' = Some w' -> (w' <= w)%Qc.
Proof. exact oversub_optimal_planning_lemma. Qed.
Print Assumptions oversub_optimal_planning.

(* truthful statuses: any positive answer carries a plan valid for the hard goals with a defined gain;
   UNSOLVABLE_PROVEN means that no reachable hard-goal state has a defined gain *)
Theorem oversub_positive_sound :
  forall (plan state : Type) (exec : plan -> option state) (hard : state -> bool) (truth : state -> option mask)
         (ws : list Qc) (planner : mask -> status * option plan),
    let valid_hard := fun p => match exec p with Some s => hard s | None => false end in
    let achieved := fun p => match exec p with Some s => truth s | None => None end in
    (forall m st pl, planner m = (st, pl) -> positive st = true ->
       exists p, pl = Some p /\ valid_sub plan valid_hard achieved m p = true) ->
    forall st pl, oversub_solve plan planner ws = (st, pl) -> positive st = true ->
    exists p s w, pl = Some p /\ exec p = Some s /\ hard s = true /\ option_map (weight ws) (truth s) = Some w.
Proof. exact oversub_positive_states. Qed.
Print Assumptions oversub_positive_sound.

Theorem oversub_unsolvable_truthful :
  forall (plan state : Type) (exec : plan -> option state) (hard : state -> bool) (truth : state -> option mask)
         (ws : list Qc) (planner : mask -> status * option plan),
    let valid_hard := fun p => match exec p with Some s => hard s | None => false end in
    let achieved := fun p => match exec p with Some s => truth s | None => None end in
    (forall s a, truth s = Some a -> length a = length ws) ->
    (forall m, (exists p, valid_sub plan valid_hard achieved m p = true) -> positive (fst (planner m)) = true) ->
    forall pl, oversub_solve plan planner ws = (UnsolvProven, pl) ->
    forall p' s', exec p' = Some s' -> hard s' = true -> option_map (weight ws) (truth s') = None.
Proof. exact oversub_unsolvable_states. Qed.
Print Assumptions oversub_unsolvable_truthful.

(* ------------------------------------------------------------------ interpreted-functions planner
   [planner k]: the engine's answer for the problem compiled with knowledge k, plan mapped back;
   [validate p]: verdict of the validator on the ORIGINAL problem and the function values it computed. *)
Theorem ifplanner_sound :
  forall (plan K Obs : Type) (planner : K -> status * option plan) (validate : plan -> bool * Obs)
         (update : K -> Obs -> K) (size : K -> nat) (fuel : nat) (k : K) (st : status) (p : plan),
    ifp_loop plan K Obs planner validate update size fuel k = Returned st (Some p) ->
    fst (validate p) = true /\ positive st = true.
Proof. exact ifp_sound_any. Qed.
Print Assumptions ifplanner_sound.

(* completeness of the refinement loop, under the two stated hypotheses:
   (relaxation) with consistent knowledge the compiled problem is a relaxation of the original: every original valid
                plan is a compiled valid plan;
   (growth)     knowledge strictly grows (and stays consistent) on a failed validation, and there are at most
                [bound] function applications to learn. *)
Theorem ifplanner_complete :
  forall (plan K Obs : Type) (planner : K -> status * option plan) (validate : plan -> bool * Obs)
         (update : K -> Obs -> K) (size : K -> nat)
         (valid : plan -> bool) (validC : K -> plan -> bool) (consistent : K -> Prop) (bound : nat),
    (forall p, fst (validate p) = valid p) ->
    (forall k st pl, planner k = (st, pl) -> positive st = true -> exists p, pl = Some p /\ validC k p = true) ->
    (forall k, (exists p, validC k p = true) -> positive (fst (planner k)) = true) ->
    (forall k p, consistent k -> valid p = true -> validC k p = true) ->
    (forall k p, consistent k -> validC k p = true -> valid p = false ->
       consistent (update k (snd (validate p))) /\ size k < size (update k (snd (validate p)))) ->
    (forall k, consistent k -> size k <= bound) ->
    forall k0, consistent k0 ->
    forall fuel, bound < fuel ->
    (exists p, valid p = true) ->
    exists st p, ifp_loop plan K Obs planner validate update size fuel k0 = Returned st (Some p) /\
                 positive st = true /\ valid p = true.
Proof. exact ifp_complete_lemma. Qed.
Print Assumptions ifplanner_complete.

(* under the same hypotheses the loop always terminates with a result (no internal error, no failed assertion), and
   an answer without a plan is truthful: the original problem has no valid plan *)
Theorem ifplanner_negative_truthful :
  forall (plan K Obs : Type) (planner : K -> status * option plan) (validate : plan -> bool * Obs)
         (update : K -> Obs -> K) (size : K -> nat)
         (valid : plan -> bool) (validC : K -> plan -> bool) (consistent : K -> Prop) (bound : nat),
    (forall p, fst (validate p) = valid p) ->
    (forall k st pl, planner k = (st, pl) -> positive st = true -> exists p, pl = Some p /\ validC k p = true) ->
    (forall k, (exists p, validC k p = true) -> positive (fst (planner k)) = true) ->
    (forall k p, consistent k -> valid p = true -> validC k p = true) ->
    (forall k p, consistent k -> validC k p = true -> valid p = false ->
       consistent (update k (snd (validate p))) /\ size k < size (update k (snd (validate p)))) ->
    (forall k, consistent k -> size k <= bound) ->
    forall k0, consistent k0 ->
    forall fuel st, bound < fuel ->
    ifp_loop plan K Obs planner validate update size fuel k0 = Returned st None -> forall p, valid p = false.
Proof. exact ifp_negative_truthful. Qed.
Print Assumptions ifplanner_negative_truthful.

Theorem ifplanner_terminates :
  forall (plan K Obs : Type) (planner : K -> status * option plan) (validate : plan -> bool * Obs)
         (update : K -> Obs -> K) (size : K -> nat)
         (valid : plan -> bool) (validC : K -> plan -> bool) (consistent : K -> Prop) (bound : nat),
    (forall p, fst (validate p) = valid p) ->
    (forall k st pl, planner k = (st, pl) -> positive st = true -> exists p, pl = Some p /\ validC k p = true) ->
    (forall k, (exists p, validC k p = true) -> positive (fst (planner k)) = true) ->
    (forall k p, consistent k -> valid p = true -> validC k p = true) ->
    (forall k p, consistent k -> validC k p = true -> valid p = false ->
       consistent (update k (snd (validate p))) /\ size k < size (update k (snd (validate p)))) ->
    (forall k, consistent k -> size k <= bound) ->
    forall k0, consistent k0 ->
    forall fuel, bound < fuel ->
    exists st pl, ifp_loop plan K Obs planner validate update size fuel k0 = Returned st pl.
Proof. exact ifp_terminates_lemma. Qed.
Print Assumptions ifplanner_terminates.

(* The relaxation hypothesis cannot be dropped, and the current InterpretedFunctionsRemover does not always satisfy
   it (open findings C31-IF-EFFECT-CONDITION-READS-UNKNOWN, C31-IF-BOUNDED-STALE-VALUE: harness corpus problems
   "effect-condition-reads-unknown", "bounded-stale-value"): with a sound and complete engine, a validator that is
   exact and growing knowledge, the loop answers UNSOLVABLE_PROVEN on a solvable problem as soon as the compiled problem
   is not a relaxation.  So "finds a plan whenever the problem is solvable" is refuted for the loop alone. *)
Theorem ifplanner_complete_without_relaxation_refuted :
  exists (planner : nat -> status * option nat) (validate : nat -> bool * unit) (update : nat -> unit -> nat)
         (size : nat -> nat) (valid : nat -> bool) (validC : nat -> nat -> bool),
    (forall p, fst (validate p) = valid p) /\
    (forall k st pl, planner k = (st, pl) -> positive st = true -> exists p, pl = Some p /\ validC k p = true) /\
    (forall k, (exists p, validC k p = true) -> positive (fst (planner k)) = true) /\
    (forall k p, validC k p = true -> valid p = false -> size k < size (update k (snd (validate p)))) /\
    (exists p, valid p = true) /\
    forall fuel, ifp_loop nat nat unit planner validate update size (S fuel) 0 = Returned UnsolvProven None.
Proof. exact ifp_complete_needs_relaxation. Qed.
Print Assumptions ifplanner_complete_without_relaxation_refuted.

(* ------------------------------------------------------------------ non-vacuity *)
(* two soft goals with gains 2 and -1; three reachable states; the heaviest subset {0} is unachievable, so the answer
   is the plan for {0,1} with gain 1 *)
Definition nv_truth (s : nat) : option mask :=
  Some (match s with 0 => [false; false] | 1 => [true; true] | _ => [false; true] end).
Definition nv_planner (m : mask) : status * option nat :=
  if mask_eqb m [false; false] then (SolvedSat, Some 0)
  else if mask_eqb m [true; true] then (SolvedSat, Some 1)
  else if mask_eqb m [false; true] then (SolvedSat, Some 2)
  else (UnsolvProven, None).

Example oversub_optimal_nonvacuous :
  let ws := [zq 2; zq (-1)] in
  let valid_hard := fun p : nat => match Some p with Some s => true | None => false end in
  let achieved := fun p : nat => match Some p with Some s => nv_truth s | None => None end in
  (forall s a, nv_truth s = Some a -> length a = length ws) /\
  (forall m st pl, nv_planner m = (st, pl) -> positive st = true ->
     exists p, pl = Some p /\ valid_sub nat valid_hard achieved m p = true) /\
  (forall m, (exists p, valid_sub nat valid_hard achieved m p = true) -> positive (fst (nv_planner m)) = true) /\
  oversub_solve nat nv_planner ws = (SolvedOpt, Some 1).
Proof.
  cbv zeta. split; [|split; [|split]].
  - intros s a H. unfold nv_truth in H. inversion H. destruct s as [|[|s]]; reflexivity.
  - intros m st pl H Hpos. unfold nv_planner in H.
    destruct (mask_eqb m [false; false]) eqn:E0.
    { apply mask_eqb_eq in E0. subst. inversion H. exists 0. split; reflexivity. }
    destruct (mask_eqb m [true; true]) eqn:E1.
    { apply mask_eqb_eq in E1. subst. inversion H. exists 1. split; reflexivity. }
    destruct (mask_eqb m [false; true]) eqn:E2.
    { apply mask_eqb_eq in E2. subst. inversion H. exists 2. split; reflexivity. }
    inversion H; subst. discriminate.
  - intros m [p Hp]. unfold nv_planner.
    destruct p as [|[|p]]; unfold valid_sub, nv_truth in Hp; cbv beta iota in Hp; cbn [andb] in Hp;
      apply mask_eqb_eq in Hp; subst; reflexivity.
  - vm_compute. reflexivity.
Qed.

Example oversub_optimal_planning_nonvacuous :
  (* one Boolean fluent 0, one action 0 setting it; soft goal "fluent 0" with gain 3/2: the engine below is an
     exact table for the two derived problems *)
  let P := {| p_objs := []; p_ifun := []; p_fluents := [{| fd_id := 0%N; fd_sig := []; fd_ty := FBool |}];
              p_actions := [(0%N, {| a_params := []; a_pre := [];
                                     a_effs := [{| e_fl := 0%N; e_args := []; e_val := EBool true; e_cond := EBool true;
                                                   e_kind := KAssign; e_vars := []; e_isbool := true |}] |})];
              p_goals := []; p_invs := [] |} in
  let s0 : state := fun f a => Some (VBool false) in
  let gs := [(EFluent 0%N [], Q2Qc (3 # 2))] in
  final_gain false P s0 gs [(0%N, [])] = Some (Q2Qc (3 # 2)) /\
  valid_plan false (with_soft P (map fst gs) [true]) s0 [(0%N, [])] = true /\
  valid_plan false (with_soft P (map fst gs) [true]) s0 [] = false.
Proof. cbv zeta. repeat split; vm_compute; reflexivity. Qed.

(* knowledge = number of learnt values (at most 2); plans 0 and 1 are refuted by learning, plan 2 is valid *)
Example ifplanner_complete_nonvacuous :
  let planner := fun k : nat => (SolvedSat, Some (if k <? 2 then k else 2)) in
  let validate := fun p : nat => (p =? 2, tt) in
  let update := fun (k : nat) (_ : unit) => S k in
  let size := fun k : nat => k in
  let valid := fun p : nat => p =? 2 in
  let validC := fun (k p : nat) => (p =? 2) || ((k <=? p) && (p <? 2)) in
  let consistent := fun k : nat => k <= 2 in
  (forall p, fst (validate p) = valid p) /\
  (forall k st pl, planner k = (st, pl) -> positive st = true -> exists p, pl = Some p /\ validC k p = true) /\
  (forall k, (exists p, validC k p = true) -> positive (fst (planner k)) = true) /\
  (forall k p, consistent k -> valid p = true -> validC k p = true) /\
  (forall k p, consistent k -> validC k p = true -> valid p = false ->
     consistent (update k (snd (validate p))) /\ size k < size (update k (snd (validate p)))) /\
  (forall k, consistent k -> size k <= 2) /\ consistent 0 /\ (exists p, valid p = true) /\
  ifp_loop nat nat unit planner validate update size 3 0 = Returned SolvedSat (Some 2).
Proof.
  cbv zeta. repeat split; auto.
  - intros k st pl H _. inversion H; subst. eexists. split; [reflexivity|].
    destruct (k <? 2) eqn:E; [|reflexivity].
    rewrite E. rewrite Nat.leb_refl. simpl. apply orb_true_r.
  - intros k p _ H. rewrite H. reflexivity.
  - apply orb_true_iff in H0. destruct H0 as [H0|H0]; [congruence|].
    apply andb_true_iff in H0. destruct H0 as [H2 H3]. apply Nat.leb_le in H2. apply Nat.ltb_lt in H3.
    apply Nat.le_lt_trans with (m := p); auto.
  - exists 2. reflexivity.
Qed.
