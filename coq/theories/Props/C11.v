From Coq Require Import List ZArith NArith Bool.
Import ListNotations.
Require Import UPV.Core.Expr UPV.Core.Eval UPV.Walkers.Simplify UPV.Proofs.Simplify_proofs.

Theorem C11_tmp : forall c, walk_not (ENot (ENot c)) = ENot c.
Proof. exact walk_not_involutive_on_not. Qed.
Print Assumptions C11_tmp.
