(* C11 — Simplification preserves the meaning of expressions.
   Only statements; each is closed by [exact] of a lemma from Proofs/Simplify_proofs.v.

   Model: Walkers/Simplify.v ([simplify G e : option expr]; None = the model's bound on nested re-simplifications was
   hit, which the theorems exclude and the correspondence never observes).  G = user-type table, static-fluent initial
   values, interpreted-function table.  Semantics: Core/Eval.v, strict quantifiers ([eval false]).

   Reading of "same value" (DESIGN.md, C11): refinement on defined values — rewrites such as 0*t -> 0, t == t -> true,
   a or not a -> true make the result defined where the original was not.
   Side conditions of soundness (all needed, see notes/C11.md):
     cfg_consts G       the tables contain constants only (initial values are constants),
     env_ok G tau QT I  I gives static fluents / interpreted functions their table values, respects the declared user
                        types (objects of unrelated types are distinct), and quantified types (QT) have an object
                        (without this last clause the CODE deviates: C11_unused_quantifier_empty_type_refuted below),
     wfx tau QT S e     variables are annotated with their type tau, no quantifier rebinds a variable in scope, bound
                        variables of one quantifier are distinct, fluent arguments contain no quantifier
                        (= FNode.substitute is capture-free where walk_exists uses it). *)
From Coq Require Import List ZArith NArith QArith Qcanon Bool Lia.
Import ListNotations.
Require Import UPV.Core.Expr UPV.Core.Eval UPV.Walkers.Simplify UPV.Proofs.Simplify_proofs.

Theorem C11_simplify_sound :
  forall G tau QT S e e' I v,
    cfg_consts G -> wfx tau QT S e = true -> env_ok G tau QT I ->
    simplify G e = Some e' -> eval false e I = Some v -> eval false e' I = Some v.
Proof. exact simplify_sound. Qed.
Print Assumptions C11_simplify_sound.

Theorem C11_simplify_no_new_free_vars :
  forall G e e', cfg_consts G -> simplify G e = Some e' -> incl (free_vars e') (free_vars e).
Proof. exact simplify_no_new_free_vars. Qed.
Print Assumptions C11_simplify_no_new_free_vars.

Theorem C11_simplify_idempotent :
  forall G e e', cfg_consts G -> simplify G e = Some e' -> simplify G e' = Some e'.
Proof. exact simplify_idempotent. Qed.
Print Assumptions C11_simplify_idempotent.

(* the side condition on expressions is itself preserved: the three theorems apply again to the output *)
Theorem C11_simplify_preserves_side_conditions :
  forall G tau QT S e e', cfg_consts G -> wfx tau QT S e = true -> simplify G e = Some e' -> wfx tau QT S e' = true.
Proof. exact simplify_preserves_wfx. Qed.
Print Assumptions C11_simplify_preserves_side_conditions.

(* soundness does not depend on the re-simplification bound of the model *)
Theorem C11_simp_sound_any_fuel :
  forall G tau QT S n e I v,
    cfg_consts G -> wfx tau QT S e = true -> env_ok G tau QT I ->
    eval false e I = Some v -> eval false (simp G n e) I = Some v.
Proof. exact simp_sound_any_fuel. Qed.
Print Assumptions C11_simp_sound_any_fuel.

(* where the implementation raises (walk_div on a divisor that simplifies to the constant 0: ZeroDivisionError /
   AssertionError) the expression has no value under any admissible interpretation *)
Theorem C11_raises_only_without_value :
  forall G tau QT strict S n e I,
    cfg_consts G -> wfx tau QT S e = true -> env_ok G tau QT I -> raises G strict n e = true -> eval false e I = None.
Proof. exact raises_only_without_value. Qed.
Print Assumptions C11_raises_only_without_value.

(* ---------------------------------------------------------------- non-vacuity: a world with one user type (0) and two
   objects, a Boolean fluent 0 true exactly on object 0;  Exists v. (f(v) and v == o0)  |->  f(o0) *)
Definition G0 : cfg :=
  {| obj_ty := fun o => if (o <? 2)%N then Some 0%N else None;
     par_ty := fun _ => None; fl_ty := fun _ => None; if_ty := fun _ => None; anc := fun _ => [];
     empty_ty := fun _ => false;
     stat := fun _ _ => None; itab := fun _ _ => None |}.
Definition I0 : interp :=
  {| fl := fun f args => match f, args with 0%N, [VObj o] => Some (VBool (o =? 0)%N) | _, _ => None end;
     par := fun _ => None; var := fun _ => None; ifun := fun _ _ => None;
     objs := fun t => if (t =? 0)%N then [0%N; 1%N] else [] |}.
Definition e0 : expr := EExists [(7%N, 0%N)] (EAnd [EFluent 0 [EVar 7 0]; EEquals (EVar 7 0) (EObj 0)]).

Lemma G0_consts : cfg_consts G0.
Proof. split; intros f a c H; discriminate H. Qed.

Lemma I0_ok : env_ok G0 (fun _ => 0%N) (fun t => (t =? 0)%N) I0.
Proof.
  constructor; simpl; try (intros; discriminate).
  - intros o ty H. destruct (o <? 2)%N eqn:E; [|discriminate]. inversion H; subst. apply N.ltb_lt in E. simpl.
    destruct (N.eq_dec o 0); [left; auto|right; left; lia].
  - intros a b o H. unfold compat in H. simpl in H. rewrite orb_false_r in H. apply N.eqb_eq in H. subst. auto.
  - intros a b o Ha Hb. destruct (a =? 0)%N eqn:Ea; [|destruct Ha]. destruct (b =? 0)%N eqn:Eb; [|destruct Hb].
    apply N.eqb_eq in Ea, Eb. subst. left. reflexivity.
  - intros ty H. rewrite H. discriminate.
Qed.

Example C11_simplify_sound_nonvacuous :
  cfg_consts G0 /\ wfx (fun _ => 0%N) (fun t => (t =? 0)%N) [] e0 = true /\ env_ok G0 (fun _ => 0%N) (fun t => (t =? 0)%N) I0 /\
  simplify G0 e0 = Some (EFluent 0 [EObj 0]) /\ eval false e0 I0 = Some (VBool true) /\
  eval false (EFluent 0 [EObj 0]) I0 = Some (VBool true).
Proof. split; [exact G0_consts|]. split; [reflexivity|]. split; [exact I0_ok|]. repeat split; vm_compute; reflexivity. Qed.

Example C11_simplify_no_new_free_vars_nonvacuous :
  cfg_consts G0 /\ simplify G0 (EAnd [EFluent 0 [EVar 3 0]; EOr [EFluent 0 [EVar 4 0]; EBool true]]) = Some (EFluent 0 [EVar 3 0]).
Proof. split; [exact G0_consts|vm_compute; reflexivity]. Qed.

Example C11_simplify_idempotent_nonvacuous :
  cfg_consts G0 /\
  simplify G0 (EMinus (EPlus [EParam 1; EInt 1]) (EInt (-3))) = Some (EPlus [EParam 1; EInt 4]) /\
  simplify G0 (EPlus [EParam 1; EInt 4]) = Some (EPlus [EParam 1; EInt 4]) /\
  simplify G0 e0 = Some (EFluent 0 [EObj 0]).
Proof. split; [exact G0_consts|]. repeat split; vm_compute; reflexivity. Qed.

Example C11_raises_nonvacuous :
  raises G0 true 3 (ELe (EDiv (EInt 3) (EMinus (EInt 2) (EInt 2))) (EInt 1)) = true /\
  eval false (ELe (EDiv (EInt 3) (EMinus (EInt 2) (EInt 2))) (EInt 1)) I0 = None.
Proof. split; vm_compute; reflexivity. Qed.

(* ---------------------------------------------------------------- finding C11-empty-type-unused-quantifier
   The hypothesis "quantified types have an object" of C11_simplify_sound cannot be dropped for the problem-less simplifier
   (e.simplify(): empty_ty = fun _ => false): user type 5 has no object, fluent 1 is false;
   Forall v:5. f1  is vacuously true but simplifies to f1 (false);  Exists v:5. not f1  is false but simplifies to not f1 (true).
   Simplifier(env, problem) knows the objects ([empty_ty G 5 = true], fix commit 43bc1e9) and keeps the quantifier. *)
Definition I5 : interp :=
  {| fl := fun f args => match f, args with 1%N, [] => Some (VBool false) | _, _ => None end;
     par := fun _ => None; var := fun _ => None; ifun := fun _ _ => None;
     objs := fun t => if (t =? 0)%N then [0%N; 1%N] else [] |}.
Definition G5 : cfg :=
  {| obj_ty := obj_ty G0; par_ty := par_ty G0; fl_ty := fl_ty G0; if_ty := if_ty G0; anc := anc G0;
     empty_ty := fun t => (t =? 5)%N; stat := stat G0; itab := itab G0 |}.

Theorem C11_unused_quantifier_empty_type_refuted :
  exists G tau e1 e1' e2 e2' I,
    cfg_consts G /\ (forall t, empty_ty G t = false) /\
    wfx tau (fun _ => true) [] e1 = true /\ wfx tau (fun _ => true) [] e2 = true /\ objs I 5%N = [] /\
    simplify G e1 = Some e1' /\ eval false e1 I = Some (VBool true) /\ eval false e1' I = Some (VBool false) /\
    simplify G e2 = Some e2' /\ eval false e2 I = Some (VBool false) /\ eval false e2' I = Some (VBool true).
Proof.
  exists G0, (fun _ => 5%N), (EForall [(9%N, 5%N)] (EFluent 1 [])), (EFluent 1 []),
         (EExists [(9%N, 5%N)] (ENot (EFluent 1 []))), (ENot (EFluent 1 [])), I5.
  split; [exact G0_consts|]. split; [reflexivity|]. repeat split; vm_compute; reflexivity.
Qed.
Print Assumptions C11_unused_quantifier_empty_type_refuted.

(* with the problem's objects known, the unused variable over the empty type is kept and the value is preserved *)
Example C11_problem_aware_keeps_empty_quantifier :
  simplify G5 (EForall [(9%N, 5%N)] (EFluent 1 [])) = Some (EForall [(9%N, 5%N)] (EFluent 1 [])) /\
  eval false (EForall [(9%N, 5%N)] (EFluent 1 [])) I5 = Some (VBool true).
Proof. split; vm_compute; reflexivity. Qed.
