(* C09, part (ii) on the Layer A fragment:   kind(compile(P)) <= resulting_problem_kind(kind(P))
   PROVED, for ALL problems of the Layer A record (Planning/Problem.v) and the Gallina models of the compilers that
   harness/layera.py ties to the real compilers, for the 13 features [la_covered] that the record determines, for
     QuantifiersRemover (LayerA_Quant.quant_compile)          ConditionalEffectsRemover (LayerA_Variants.cer_compile)
     StateInvariantsRemover (LayerA_Inv.sir_compile)           BoundedTypesRemover (LayerA_Inv.btr_compile)
     DisjunctiveConditionsRemover (LayerA_Variants.dcr_compile; under hypotheses on the external DNF tables that the
     real walker is KNOWN to violate in places: see the comment there)
     NegativeConditionsRemover (LayerA_Neg.neg_compile; under a feature-level hypothesis on the external rewriting of a
     single condition, likewise known to fail for Iff / Implies)
     Grounder (LayerA_Ground.ground_compile; declared kind = input kind).
   "kind" is KindOf's [kind_model] (C10's mirror of Problem.kind) of the embedded problem, [la_kind ax P], for EVERY
   auxiliary typing information [ax]/[ax'] of the original / compiled problem; the declared kind is the regenerated
   program of Gen/Gen_Engines.v run by Model/Factory.run_resulting.

   Per compiler:   *_removed   the features the compiler exists to remove are absent from the compiled kind;
                   *_partial   every covered feature of the compiled kind is in the declared kind
                               (_partial: 13 of the features; the full statement is C09_LA_declared_overapproximates_goal).
   External behaviour = Section variables of the models, with syntactic hypotheses:
     smp_ok smp            FNode.simplify introduces none of Or / Implies / Exists / Forall / Equals / interpreted function;
     keeps_op smp op_NOT   ... nor Not.  This one is FALSE of the real Simplifier (Implies(a,false) |-> Not(a)); it is asked
                           only for the clause NEGATIVE_CONDITIONS, and C09_LA_quantifiers_remover_negative_refuted shows the
                           clause fails without it — the REAL QuantifiersRemover shows the same (finding, notes/C09_la.md);
     simp_pre_keeps        check_and_simplify_preconditions introduces none of the six operators.
   Only statements; proofs in Proofs/LayerA_Kind_proofs.v. *)
From Coq Require Import List ZArith NArith QArith Qcanon Bool String.
Import ListNotations.
Require Import UPV.Core.Expr UPV.Model.Kind UPV.Model.Factory UPV.Gen.Gen_Kind UPV.Gen.Gen_Engines.
Require Import UPV.Model.KindOf.
Require Import UPV.Core.Eval UPV.Core.Interp UPV.Planning.Problem UPV.Model.KindBridge.
Require Import UPV.Compilers.Variants UPV.Compilers.LayerA_Defs UPV.Compilers.LayerA_Quant.
Require Import UPV.Compilers.LayerA_Variants UPV.Compilers.LayerA_Inv UPV.Compilers.LayerA_Neg.
Require Import UPV.Planning.Ground UPV.Compilers.LayerA_Ground.
Require Import UPV.Proofs.LayerA_Kind_proofs.

(* the full statement for a Layer A compiler model: ALL features, not only the covered ones (not proved) *)
Definition C09_LA_declared_overapproximates_goal (e : engine) (compile : problem -> problem) : Prop :=
  forall ax ax' P k d,
    (forall f, In f (la_kind ax P) -> mem f (k_feats k) = true) ->
    run_resulting gen_tables (e_resulting e) k = Ok d ->
    forall f, In f (la_kind ax' (compile P)) -> mem f (k_feats d) = true.

(* ------------------------------------------------------------------ the bridge *)
(* on the covered features the kind function on the Layer A record is KindOf's kind_model of the embedded problem *)
Theorem C09_LA_bridge : forall ax P, filter covered (la_kind ax P) = la_feats P.
Proof. exact bridge. Qed.
Print Assumptions C09_LA_bridge.

Theorem C09_LA_bridge_in : forall ax P f, In f la_covered -> (In f (la_kind ax P) <-> In f (la_feats P)).
Proof. exact bridge_in. Qed.
Print Assumptions C09_LA_bridge_in.

(* ------------------------------------------------------------------ QuantifiersRemover *)
Theorem C09_LA_quantifiers_remover_removed :
  forall smp ax P, keeps_op smp op_EXISTS -> keeps_op smp op_FORALL ->
    forall f, In f [f_EXISTENTIAL_CONDITIONS; f_UNIVERSAL_CONDITIONS; f_FORALL_EFFECTS] ->
              ~ In f (la_kind ax (quant_compile smp P)).
Proof. exact qr_removed_model. Qed.
Print Assumptions C09_LA_quantifiers_remover_removed.

Theorem C09_LA_quantifiers_remover_partial :
  forall smp ax ax' P k d,
    smp_ok smp -> (forall f, In f (la_kind ax P) -> mem f (k_feats k) = true) ->
    run_resulting gen_tables (e_resulting E_up_quantifiers_remover) k = Ok d ->
    forall f, In f la_covered -> In f (la_kind ax' (quant_compile smp P)) ->
              (f = f_NEGATIVE_CONDITIONS -> keeps_op smp op_NOT) -> mem f (k_feats d) = true.
Proof. exact qr_kind_model. Qed.
Print Assumptions C09_LA_quantifiers_remover_partial.

(* ------------------------------------------------------------------ ConditionalEffectsRemover *)
Theorem C09_LA_conditional_effects_remover_removed :
  forall simp_pre nm ax P, ~ In f_CONDITIONAL_EFFECTS (la_kind ax (cer_compile simp_pre nm P)).
Proof. exact cer_removed_model. Qed.
Print Assumptions C09_LA_conditional_effects_remover_removed.

Theorem C09_LA_conditional_effects_remover_partial :
  forall simp_pre nm ax ax' P k d,
    (forall o, In o six_ops -> simp_pre_keeps simp_pre o) ->
    (forall f, In f (la_kind ax P) -> mem f (k_feats k) = true) ->
    run_resulting gen_tables (e_resulting E_up_conditional_effects_remover) k = Ok d ->
    forall f, In f la_covered -> In f (la_kind ax' (cer_compile simp_pre nm P)) -> mem f (k_feats d) = true.
Proof. exact cer_kind_model. Qed.
Print Assumptions C09_LA_conditional_effects_remover_partial.

(* ------------------------------------------------------------------ StateInvariantsRemover *)
Theorem C09_LA_state_invariants_remover_removed :
  forall smp ax P, ~ In f_STATE_INVARIANTS (la_kind ax (sir_compile smp P)).
Proof. exact sir_removed_model. Qed.
Print Assumptions C09_LA_state_invariants_remover_removed.

Theorem C09_LA_state_invariants_remover_partial :
  forall smp ax ax' P k d,
    smp_ok smp -> (forall f, In f (la_kind ax P) -> mem f (k_feats k) = true) ->
    run_resulting gen_tables (e_resulting E_up_state_invariants_remover) k = Ok d ->
    forall f, In f la_covered -> In f (la_kind ax' (sir_compile smp P)) ->
              (f = f_NEGATIVE_CONDITIONS -> keeps_op smp op_NOT) -> mem f (k_feats d) = true.
Proof. exact sir_kind_model. Qed.
Print Assumptions C09_LA_state_invariants_remover_partial.

(* ------------------------------------------------------------------ BoundedTypesRemover *)
Theorem C09_LA_bounded_types_remover_removed :
  forall smp ax P, ~ In f_BOUNDED_TYPES (la_kind ax (btr_compile smp P)).
Proof. exact btr_removed_model. Qed.
Print Assumptions C09_LA_bounded_types_remover_removed.

Theorem C09_LA_bounded_types_remover_partial :
  forall smp ax ax' P k d,
    smp_ok smp -> (forall f, In f (la_kind ax P) -> mem f (k_feats k) = true) ->
    run_resulting gen_tables (e_resulting E_up_bounded_types_remover) k = Ok d ->
    forall f, In f la_covered -> In f (la_kind ax' (btr_compile smp P)) ->
              (f = f_NEGATIVE_CONDITIONS -> keeps_op smp op_NOT) -> mem f (k_feats d) = true.
Proof. exact btr_kind_model. Qed.
Print Assumptions C09_LA_bounded_types_remover_partial.


(* ------------------------------------------------------------------ DisjunctiveConditionsRemover *)
(* the compiler does not support STATE_INVARIANTS (see the Example below): p_invs P = [].  The DNF tables are external;
   [dnf_nodisj]: the literals of a DNF contain no Or / Implies (FALSE of the real walker for disjunctions under
   quantifiers: open finding C09 up_disjunctive_conditions_remover / DISJUNCTIVE_CONDITIONS); [dnf_keeps] for the
   operators interpreted function / Exists / Forall / Equals.  NEGATIVE_CONDITIONS is excluded from the conclusion: the
   DNF of Implies / Iff contains Not (open finding up_disjunctive_conditions_remover / NEGATIVE_CONDITIONS). *)
Theorem C09_LA_disjunctive_conditions_remover_removed :
  forall cdnf pre_dnf nm ax P goals',
    p_invs P = [] -> dnf_nodisj cdnf pre_dnf goals' P op_OR -> dnf_nodisj cdnf pre_dnf goals' P op_IMPLIES ->
    ~ In f_DISJUNCTIVE_CONDITIONS (la_kind ax (dcr_compile cdnf pre_dnf nm P goals')).
Proof. exact dcr_removed_model. Qed.
Print Assumptions C09_LA_disjunctive_conditions_remover_removed.

Theorem C09_LA_disjunctive_conditions_remover_partial :
  forall cdnf pre_dnf nm ax ax' P goals' k d,
    p_invs P = [] -> (forall o, In o dcr_ops -> dnf_keeps cdnf pre_dnf goals' P o) ->
    (forall f, In f (la_kind ax P) -> mem f (k_feats k) = true) ->
    run_resulting gen_tables (e_resulting E_up_disjunctive_conditions_remover) k = Ok d ->
    forall f, In f la_covered -> In f (la_kind ax' (dcr_compile cdnf pre_dnf nm P goals')) ->
              f <> f_NEGATIVE_CONDITIONS -> f <> f_DISJUNCTIVE_CONDITIONS -> mem f (k_feats d) = true.
Proof. exact dcr_kind_model. Qed.
Print Assumptions C09_LA_disjunctive_conditions_remover_partial.


(* ------------------------------------------------------------------ NegativeConditionsRemover *)
(* The rewriting of one condition (NegativeFluentRemover.remove_negative_fluents: Nnf, simplify, walk_not) is external;
   [rw_feats_ok rw c]: the rewritten condition has no Not, and each of its other features is a feature of c, except
   DISJUNCTIVE_CONDITIONS when c has a negation and an equality.  The real walker violates this for Iff / Implies
   (NNF builds Or: open finding C09 up_negative_conditions_remover / DISJUNCTIVE_CONDITIONS).  What the theorems add: the
   ASSEMBLY of the compiled problem (negation fluents, mirrored effects with value simplify(Not(v)), add_precondition,
   the invariants simplified again) introduces no covered feature that the declared kind lacks. *)
Theorem C09_LA_negative_conditions_remover_removed :
  forall nmap rw smp ax P,
    (forall c, In c (la_conds P) -> rw_feats_ok rw c) ->
    (forall i, In i (p_invs P) -> rw_feats_ok (fun e => smp (rw e)) i) ->
    ~ In f_NEGATIVE_CONDITIONS (la_kind ax (neg_compile nmap rw smp P)).
Proof. exact ncr_removed_model. Qed.
Print Assumptions C09_LA_negative_conditions_remover_removed.

Theorem C09_LA_negative_conditions_remover_partial :
  forall nmap rw smp ax ax' P k d,
    (forall c, In c (la_conds P) -> rw_feats_ok rw c) ->
    (forall i, In i (p_invs P) -> rw_feats_ok (fun e => smp (rw e)) i) ->
    (forall f, In f (la_kind ax P) -> mem f (k_feats k) = true) ->
    run_resulting gen_tables (e_resulting E_up_negative_conditions_remover) k = Ok d ->
    forall f, In f la_covered -> In f (la_kind ax' (neg_compile nmap rw smp P)) -> mem f (k_feats d) = true.
Proof. exact ncr_kind_model. Qed.
Print Assumptions C09_LA_negative_conditions_remover_partial.


(* ------------------------------------------------------------------ Grounder *)
(* declared kind = the input kind (empty program).  [smp] is the grounder's Simplifier(env, problem); extra hypothesis: it
   leaves the constant TRUE alone (the model simplifies the condition of an unconditional effect too). *)
Theorem C09_LA_grounder_partial :
  forall smp tuples nm ax ax' P k d,
    smp (EBool true) = EBool true -> smp_ok smp -> (forall f, In f (la_kind ax P) -> mem f (k_feats k) = true) ->
    run_resulting gen_tables (e_resulting E_up_grounder) k = Ok d ->
    forall f, In f la_covered -> In f (la_kind ax' (ground_compile smp tuples nm P)) ->
              (f = f_NEGATIVE_CONDITIONS -> keeps_op smp op_NOT) -> mem f (k_feats d) = true.
Proof. exact grd_kind_model. Qed.
Print Assumptions C09_LA_grounder_partial.

(* ================================================================== non-vacuity, and the refuted clause *)
(* (top-level definitions, no `let ... in` in statements proved by vm_compute) *)
Definition ax0 : aux :=
  {| ax_father := fun _ => false; ax_isint := fun _ => true; ax_par := fun _ => TUser 0 false; ax_lin := fun _ => true;
     ax_vcls := fun _ => CBool; ax_rhs := fun _ => []; ax_objtys := [TUser 0 false; TUser 0 false];
     ax_default := fun _ => true; ax_inits := fun _ => 0%N; ax_size := fun _ => 1%N; ax_missing := fun _ => 1%N |}.
Definition kind_of_feats (l : list feature) : kind :=
  {| k_feats := mask_of l; k_ver := Some LATEST_PROBLEM_KIND_VERSION |}.
Definition declared (e : engine) (k : kind) : kind :=
  match run_resulting gen_tables (e_resulting e) k with Ok d => d | _ => k end.
Definition idsmp (e : expr) : expr := e.
Definition fb (f : N) (sig : list N) : fdecl := {| fd_id := f; fd_sig := sig; fd_ty := FBool |}.
Definition assign (f : N) (v c : expr) : effect :=
  {| e_fl := f; e_args := []; e_val := v; e_cond := c; e_kind := KAssign; e_vars := []; e_isbool := true |}.

(* ---- QuantifiersRemover: `exists v:T. p(v)` over two objects becomes Or(p(o0), p(o1)); DISJUNCTIVE_CONDITIONS is new
   and declared *)
Definition exQ : problem :=
  {| p_objs := [(0%N, [0%N; 1%N])]; p_ifun := []; p_fluents := [fb 0 []; fb 1 [0%N]];
     p_actions := [(0%N, {| a_params := []; a_pre := [EExists [(0%N, 0%N)] (EFluent 1 [EVar 0 0])];
                            a_effs := [assign 0 (EBool true) (EBool true)] |})];
     p_goals := [EFluent 0 []]; p_invs := [] |}.
Definition exQ_k : kind := kind_of_feats (la_kind ax0 exQ).
Definition exQ_d : kind := declared E_up_quantifiers_remover exQ_k.

Example C09_LA_quantifiers_remover_nonvacuous :
  smp_ok idsmp /\ keeps_op idsmp op_NOT /\ keeps_op idsmp op_EXISTS /\ keeps_op idsmp op_FORALL
  /\ Forall (fun f => mem f (k_feats exQ_k) = true) (la_kind ax0 exQ)
  /\ run_resulting gen_tables (e_resulting E_up_quantifiers_remover) exQ_k = Ok exQ_d
  /\ In f_EXISTENTIAL_CONDITIONS (la_kind ax0 exQ)
  /\ ~ In f_DISJUNCTIVE_CONDITIONS (la_kind ax0 exQ)
  /\ In f_DISJUNCTIVE_CONDITIONS (la_kind ax0 (quant_compile idsmp exQ))
  /\ mem f_DISJUNCTIVE_CONDITIONS (k_feats exQ_d) = true.
Proof.
  split; [exact id_smp_ok|]. do 3 (split; [exact (id_keeps _)|]).
  split; [vm_compute; repeat constructor|]. split; [vm_compute; reflexivity|].
  split; [vm_compute; tauto|]. split; [vm_compute; intuition discriminate|].
  split; [vm_compute; tauto|vm_compute; reflexivity].
Qed.

(* ---- the clause NEGATIVE_CONDITIONS of QuantifiersRemover FAILS without `keeps_op smp op_NOT`:
   the effect condition Implies(x, exists v:T. p(v)) over a type T without objects expands to Implies(x, false), which the
   simplifier rewrites to Not(x).  The input kind has no NEGATIVE_CONDITIONS, the declared kind neither, the compiled
   problem has.  (Same behaviour of the real compiler: harness/c09_la.py --repro-qr-neg.) *)
Definition exN : problem :=
  {| p_objs := [(0%N, [])]; p_ifun := []; p_fluents := [fb 0 []; fb 1 []; fb 2 [0%N]];
     p_actions := [(0%N, {| a_params := []; a_pre := [];
                            a_effs := [assign 1 (EBool true)
                                         (EImplies (EFluent 0 []) (EExists [(0%N, 0%N)] (EFluent 2 [EVar 0 0])))] |})];
     p_goals := [EFluent 1 []]; p_invs := [] |}.
Definition exN_k : kind := kind_of_feats (la_kind ax0 exN).
Definition exN_d : kind := declared E_up_quantifiers_remover exN_k.

Theorem C09_LA_quantifiers_remover_negative_refuted :
  exists smp ax P k d,
    smp_ok smp /\ Forall (fun f => mem f (k_feats k) = true) (la_kind ax P)
    /\ run_resulting gen_tables (e_resulting E_up_quantifiers_remover) k = Ok d
    /\ In f_NEGATIVE_CONDITIONS (la_kind ax (quant_compile smp P))
    /\ mem f_NEGATIVE_CONDITIONS (k_feats d) = false.
Proof.
  exists smp_implies_false, ax0, exN, exN_k, exN_d.
  split; [exact smp_implies_false_ok|].
  split; [vm_compute; repeat constructor|]. split; [vm_compute; reflexivity|].
  split; [vm_compute; tauto|vm_compute; reflexivity].
Qed.
Print Assumptions C09_LA_quantifiers_remover_negative_refuted.

(* ---- ConditionalEffectsRemover: [z := true; if x then y := true] splits into a variant with precondition x and one with
   Not(x); NEGATIVE_CONDITIONS is new and declared, CONDITIONAL_EFFECTS is gone *)
Definition exC : problem :=
  {| p_objs := []; p_ifun := []; p_fluents := [fb 0 []; fb 1 []; fb 2 []];
     p_actions := [(0%N, {| a_params := []; a_pre := [];
                            a_effs := [assign 2 (EBool true) (EBool true); assign 1 (EBool true) (EFluent 0 [])] |})];
     p_goals := [EFluent 1 []]; p_invs := [] |}.
Definition exC_k : kind := kind_of_feats (la_kind ax0 exC).
Definition exC_d : kind := declared E_up_conditional_effects_remover exC_k.
Definition some_pre (l : list expr) : option (list expr) := Some l.
Definition ex_nm (i : N) (k : nat) : N := (i + N.of_nat k)%N.

Example C09_LA_conditional_effects_remover_nonvacuous :
  (forall o, In o six_ops -> simp_pre_keeps some_pre o)
  /\ Forall (fun f => mem f (k_feats exC_k) = true) (la_kind ax0 exC)
  /\ run_resulting gen_tables (e_resulting E_up_conditional_effects_remover) exC_k = Ok exC_d
  /\ In f_CONDITIONAL_EFFECTS (la_kind ax0 exC)
  /\ ~ In f_NEGATIVE_CONDITIONS (la_kind ax0 exC)
  /\ In f_NEGATIVE_CONDITIONS (la_kind ax0 (cer_compile some_pre ex_nm exC))
  /\ List.length (p_actions (cer_compile some_pre ex_nm exC)) = 2%nat
  /\ mem f_NEGATIVE_CONDITIONS (k_feats exC_d) = true.
Proof.
  split; [intros o _; exact (some_simp_pre_keeps o)|].
  split; [vm_compute; repeat constructor|]. split; [vm_compute; reflexivity|].
  split; [vm_compute; tauto|]. split; [vm_compute; intuition discriminate|].
  split; [vm_compute; tauto|]. split; vm_compute; reflexivity.
Qed.

(* ---- StateInvariantsRemover: the invariant Or(x, y) becomes a precondition and a goal; STATE_INVARIANTS is gone,
   DISJUNCTIVE_CONDITIONS stays and is declared *)
Definition exS : problem :=
  {| p_objs := []; p_ifun := []; p_fluents := [fb 0 []; fb 1 []];
     p_actions := [(0%N, {| a_params := []; a_pre := []; a_effs := [assign 1 (EBool true) (EBool true)] |})];
     p_goals := [EFluent 1 []]; p_invs := [EOr [EFluent 0 []; EFluent 1 []]] |}.
Definition exS_k : kind := kind_of_feats (la_kind ax0 exS).
Definition exS_d : kind := declared E_up_state_invariants_remover exS_k.

Example C09_LA_state_invariants_remover_nonvacuous :
  smp_ok idsmp /\ keeps_op idsmp op_NOT
  /\ Forall (fun f => mem f (k_feats exS_k) = true) (la_kind ax0 exS)
  /\ run_resulting gen_tables (e_resulting E_up_state_invariants_remover) exS_k = Ok exS_d
  /\ In f_STATE_INVARIANTS (la_kind ax0 exS)
  /\ In f_DISJUNCTIVE_CONDITIONS (la_kind ax0 (sir_compile idsmp exS))
  /\ a_pre (snd (hd (0%N, {| a_params := []; a_pre := []; a_effs := [] |}) (p_actions (sir_compile idsmp exS))))
     = [EOr [EFluent 0 []; EFluent 1 []]]
  /\ mem f_DISJUNCTIVE_CONDITIONS (k_feats exS_d) = true /\ mem f_STATE_INVARIANTS (k_feats exS_d) = false.
Proof.
  split; [exact id_smp_ok|]. split; [exact (id_keeps _)|].
  split; [vm_compute; repeat constructor|]. split; [vm_compute; reflexivity|].
  split; [vm_compute; tauto|]. split; [vm_compute; tauto|]. split; [vm_compute; reflexivity|].
  split; vm_compute; reflexivity.
Qed.

(* ---- BoundedTypesRemover: n in [0, 5] with `n += 1`; BOUNDED_TYPES is gone, the bound checks 0 <= n, n <= 5 become
   preconditions (no relevant operator), INCREASE_EFFECTS stays and is declared *)
Definition exB : problem :=
  {| p_objs := []; p_ifun := [];
     p_fluents := [{| fd_id := 0%N; fd_sig := []; fd_ty := FNum (Some (qc 0 1)) (Some (qc 5 1)) |}];
     p_actions := [(0%N, {| a_params := []; a_pre := [];
                            a_effs := [{| e_fl := 0%N; e_args := []; e_val := EInt 1; e_cond := EBool true; e_kind := KInc;
                                          e_vars := []; e_isbool := false |}] |})];
     p_goals := [ELe (EInt 3) (EFluent 0 [])]; p_invs := [] |}.
Definition exB_k : kind := kind_of_feats (la_kind ax0 exB).
Definition exB_d : kind := declared E_up_bounded_types_remover exB_k.

Example C09_LA_bounded_types_remover_nonvacuous :
  smp_ok idsmp /\ keeps_op idsmp op_NOT
  /\ Forall (fun f => mem f (k_feats exB_k) = true) (la_kind ax0 exB)
  /\ run_resulting gen_tables (e_resulting E_up_bounded_types_remover) exB_k = Ok exB_d
  /\ In f_BOUNDED_TYPES (la_kind ax0 exB)
  /\ In f_INCREASE_EFFECTS (la_kind ax0 (btr_compile idsmp exB))
  /\ List.length (a_pre (snd (hd (0%N, {| a_params := []; a_pre := []; a_effs := [] |}) (p_actions (btr_compile idsmp exB)))))
     = 2%nat
  /\ mem f_INCREASE_EFFECTS (k_feats exB_d) = true /\ mem f_BOUNDED_TYPES (k_feats exB_d) = false.
Proof.
  split; [exact id_smp_ok|]. split; [exact (id_keeps _)|].
  split; [vm_compute; repeat constructor|]. split; [vm_compute; reflexivity|].
  split; [vm_compute; tauto|]. split; [vm_compute; tauto|]. split; [vm_compute; reflexivity|].
  split; vm_compute; reflexivity.
Qed.

(* ---- DisjunctiveConditionsRemover: the precondition Or(x, y) gives two variants with preconditions [x] and [y] *)
Definition exD : problem :=
  {| p_objs := []; p_ifun := []; p_fluents := [fb 0 []; fb 1 []; fb 2 []];
     p_actions := [(0%N, {| a_params := []; a_pre := [EOr [EFluent 0 []; EFluent 1 []]];
                            a_effs := [assign 2 (EBool true) (EBool true)] |})];
     p_goals := [EFluent 2 []]; p_invs := [] |}.
Definition exD_cdnf (c : expr) : list expr := [].
Definition exD_pre (a : action) : list (list expr) := [[EFluent 0 []]; [EFluent 1 []]].
Definition exD_goals : list expr := [EFluent 2 []].
Definition exD_k : kind := kind_of_feats (la_kind ax0 exD).
Definition exD_d : kind := declared E_up_disjunctive_conditions_remover exD_k.

Example C09_LA_disjunctive_conditions_remover_nonvacuous :
  p_invs exD = []
  /\ dnf_nodisj exD_cdnf exD_pre exD_goals exD op_OR /\ dnf_nodisj exD_cdnf exD_pre exD_goals exD op_IMPLIES
  /\ (forall o, In o dcr_ops -> dnf_keeps exD_cdnf exD_pre exD_goals exD o)
  /\ Forall (fun f => mem f (k_feats exD_k) = true) (la_kind ax0 exD)
  /\ run_resulting gen_tables (e_resulting E_up_disjunctive_conditions_remover) exD_k = Ok exD_d
  /\ In f_DISJUNCTIVE_CONDITIONS (la_kind ax0 exD)
  /\ List.length (p_actions (dcr_compile exD_cdnf exD_pre ex_nm exD exD_goals)) = 2%nat
  /\ mem f_DISJUNCTIVE_CONDITIONS (k_feats exD_d) = false
  /\ mem f_STATE_INVARIANTS (k_feats (e_supported E_up_disjunctive_conditions_remover)) = false.
Proof.
  split; [reflexivity|].
  assert (exD_lits : forall o, o <> 6%N -> forall (a : action) d l, In d (exD_pre a) -> In l d -> ~ In o (ops_of l)).
  { intros o N6 a d l Hd Hl I. simpl in Hd. destruct Hd as [<-|[<-|[]]]; destruct Hl as [<-|[]]; simpl in I;
      destruct I as [E|[]]; apply N6; symmetry; exact E. }
  assert (G : forall o, o <> 6%N -> forall g', In g' exD_goals -> ~ In o (ops_of g')).
  { intros o N6 g' [<-|[]] I. simpl in I. destruct I as [E|[]]. apply N6. symmetry. exact E. }
  split; [constructor; [intros c d []| intros a d l _; apply exD_lits; discriminate | apply G; discriminate]|].
  split; [constructor; [intros c d []| intros a d l _; apply exD_lits; discriminate | apply G; discriminate]|].
  split.
  { intros o Ho. assert (N6 : o <> 6%N) by (unfold dcr_ops in Ho; simpl in Ho; intuition (subst; discriminate)).
    constructor; [intros c d []| |].
    - intros a d l Hd Hl I. exfalso. exact (exD_lits o N6 a d l Hd Hl I).
    - intros g' Hg I. exfalso. exact (G o N6 g' Hg I). }
  split; [vm_compute; repeat constructor|]. split; [vm_compute; reflexivity|].
  split; [vm_compute; tauto|]. split; [vm_compute; reflexivity|]. split; vm_compute; reflexivity.
Qed.

(* ---- NegativeConditionsRemover: the precondition Not(x) becomes the negation fluent 5; NEGATIVE_CONDITIONS is gone *)
Definition exNg : problem :=
  {| p_objs := []; p_ifun := []; p_fluents := [fb 0 []; fb 1 []];
     p_actions := [(0%N, {| a_params := []; a_pre := [ENot (EFluent 0 [])];
                            a_effs := [assign 1 (EBool true) (EBool true); assign 0 (EBool true) (EBool true)] |})];
     p_goals := [EFluent 1 []]; p_invs := [] |}.
Definition exNg_map : list (N * N) := [(0%N, 5%N)].
Definition exNg_rw : expr -> expr := nrw (ng exNg_map).
Definition exNg_k : kind := kind_of_feats (la_kind ax0 exNg).
Definition exNg_d : kind := declared E_up_negative_conditions_remover exNg_k.

Example C09_LA_negative_conditions_remover_nonvacuous :
  (forall c, In c (la_conds exNg) -> rw_feats_ok exNg_rw c)
  /\ (forall i, In i (p_invs exNg) -> rw_feats_ok (fun e => idsmp (exNg_rw e)) i)
  /\ Forall (fun f => mem f (k_feats exNg_k) = true) (la_kind ax0 exNg)
  /\ run_resulting gen_tables (e_resulting E_up_negative_conditions_remover) exNg_k = Ok exNg_d
  /\ In f_NEGATIVE_CONDITIONS (la_kind ax0 exNg)
  /\ a_pre (snd (hd (0%N, {| a_params := []; a_pre := []; a_effs := [] |})
                    (p_actions (neg_compile exNg_map exNg_rw idsmp exNg)))) = [EFluent 5 []]
  /\ List.length (a_effs (snd (hd (0%N, {| a_params := []; a_pre := []; a_effs := [] |})
                                  (p_actions (neg_compile exNg_map exNg_rw idsmp exNg))))) = 3%nat
  /\ List.length (p_fluents (neg_compile exNg_map exNg_rw idsmp exNg)) = 3%nat
  /\ mem f_NEGATIVE_CONDITIONS (k_feats exNg_d) = false.
Proof.
  split.
  { intros c Hc f Hf. vm_compute in Hc. destruct Hc as [<-|[<-|[<-|[<-|[]]]]]; vm_compute in Hf; destruct Hf. }
  split; [intros i []|].
  split; [vm_compute; repeat constructor|]. split; [vm_compute; reflexivity|].
  split; [vm_compute; tauto|]. split; [vm_compute; reflexivity|]. split; [vm_compute; reflexivity|].
  split; vm_compute; reflexivity.
Qed.

(* ---- Grounder: a(p) with precondition Not(q(p)) has two ground instances; NEGATIVE_CONDITIONS stays and is declared *)
Definition exG : problem :=
  {| p_objs := [(0%N, [0%N; 1%N])]; p_ifun := []; p_fluents := [fb 0 []; fb 1 [0%N]];
     p_actions := [(0%N, {| a_params := [0%N]; a_pre := [ENot (EFluent 1 [EParam 0])];
                            a_effs := [assign 0 (EBool true) (EBool true)] |})];
     p_goals := [EFluent 0 []]; p_invs := [] |}.
Definition exG_tuples (i : N) : list (list value) := [[VObj 0]; [VObj 1]].
Definition exG_k : kind := kind_of_feats (la_kind ax0 exG).
Definition exG_d : kind := declared E_up_grounder exG_k.

Example C09_LA_grounder_nonvacuous :
  idsmp (EBool true) = EBool true /\ smp_ok idsmp /\ keeps_op idsmp op_NOT
  /\ Forall (fun f => mem f (k_feats exG_k) = true) (la_kind ax0 exG)
  /\ run_resulting gen_tables (e_resulting E_up_grounder) exG_k = Ok exG_d
  /\ map (fun ia => a_pre (snd ia)) (p_actions (ground_compile idsmp exG_tuples ex_nm exG))
     = [[ENot (EFluent 1 [EObj 0])]; [ENot (EFluent 1 [EObj 1])]]
  /\ In f_NEGATIVE_CONDITIONS (la_kind ax0 (ground_compile idsmp exG_tuples ex_nm exG))
  /\ mem f_NEGATIVE_CONDITIONS (k_feats exG_d) = true.
Proof.
  split; [reflexivity|]. split; [exact id_smp_ok|]. split; [exact (id_keeps _)|].
  split; [vm_compute; repeat constructor|]. split; [vm_compute; reflexivity|].
  split; [vm_compute; reflexivity|]. split; [vm_compute; tauto|vm_compute; reflexivity].
Qed.
