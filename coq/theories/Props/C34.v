(* C34 — HTN task-network ordering extraction is exact.
   Only statements; each is closed by [exact] of a lemma from Proofs/Htn_proofs.v.
   Vocabulary (Model/Htn.v): [is_precedence c a b] = c is the constraint end(a) < start(b) (zero delays);
   [all_precedences cs precs] = the temporal constraints cs are, one by one, the precedences precs;
   [linear_extension tasks precs L] = L lists every subtask exactly once and a comes before b for every (a,b) in precs;
   [between_subtasks tasks precs] = both ends of every precedence are subtasks of the network. *)
From Coq Require Import List ZArith NArith QArith Bool.
Import ListNotations.
Require Import UPV.Model.Htn UPV.Proofs.Htn_proofs.

(* partial_order returns exactly those precedences (as the same list, hence in particular as the same set of pairs),
   for ANY number of subtasks and any finite list of precedences, totally ordered or not *)
Theorem C34_partial_order_exact :
  forall tasks cs precs, all_precedences cs precs -> partial_order tasks cs = Some precs.
Proof. exact partial_order_exact. Qed.
Print Assumptions C34_partial_order_exact.

(* the reading fixed in DESIGN 6.00: equality as sets of pairs *)
Theorem C34_partial_order_exact_set :
  forall tasks cs precs, all_precedences cs precs ->
    exists r, partial_order tasks cs = Some r /\ forall p, In p r <-> In p precs.
Proof. exact partial_order_exact_set. Qed.
Print Assumptions C34_partial_order_exact_set.

(* total_order returns L iff L is the one and only linear ordering of all subtasks respecting the precedences *)
Theorem C34_total_order_unique_extension :
  forall tasks cs precs, all_precedences cs precs -> between_subtasks tasks precs ->
    forall L, total_order tasks cs = Some L <->
              (linear_extension tasks precs L /\ forall L', linear_extension tasks precs L' -> L' = L).
Proof. exact total_order_unique_extension. Qed.
Print Assumptions C34_total_order_unique_extension.

(* ... and returns None iff there is no such unique ordering (none at all: cyclic; or more than one) *)
Theorem C34_total_order_none :
  forall tasks cs precs, all_precedences cs precs -> between_subtasks tasks precs ->
    (total_order tasks cs = None <->
     ~ exists L, linear_extension tasks precs L /\ forall L', linear_extension tasks precs L' -> L' = L).
Proof. exact total_order_none_iff. Qed.
Print Assumptions C34_total_order_none.

(* any temporal constraint of another kind (non-strict, delayed, start/start, global timepoint, non-timing operand,
   non-LT node ...) anywhere in the network: neither order is reported *)
Theorem C34_non_precedence_reports_neither :
  forall tasks cs c, In c cs -> not_a_precedence c ->
    partial_order tasks cs = None /\ total_order tasks cs = None.
Proof. exact non_precedence_reports_neither. Qed.
Print Assumptions C34_non_precedence_reports_neither.

(* non-vacuity: three subtasks, the precedences 0<2, 0<1, 1<2 (a total order given with a redundant pair) *)
Example C34_nonvacuous :
  let tasks := [0; 1; 2]%N in
  let cs := [mkprec 0 2; mkprec 0 1; mkprec 1 2]%N in
  let precs := [(0, 2); (0, 1); (1, 2)]%N in
  all_precedences cs precs /\ between_subtasks tasks precs /\
  total_order tasks cs = Some [0; 1; 2]%N /\ partial_order tasks cs = Some precs /\
  total_order [0; 1; 2]%N [mkprec 0 1; mkprec 0 2]%N = None /\
  not_a_precedence (CLt (ETiming {| t_kind := KEnd; t_cont := Some 0%N; t_delay := 3 |})
                        (ETiming {| t_kind := KStart; t_cont := Some 1%N; t_delay := 0 |})) /\
  not_a_precedence COther.
Proof.
  cbv zeta. split; [repeat constructor; apply mkprec_is_precedence|]. split.
  { intros a b H. simpl in H. repeat (destruct H as [H|H]; [inversion H; subst; simpl; tauto|]). destruct H. }
  split; [vm_compute; reflexivity|]. split; [vm_compute; reflexivity|]. split; [vm_compute; reflexivity|].
  split; apply prec_of_none; reflexivity.
Qed.
