(* placeholder: theorems follow *)
Require Import UPV.Model.KindOf.
