(* C10 — Problem kind reports every feature the problem uses.
   Only statements; each is closed by [exact] of a lemma from Proofs/KindOf_proofs.v.

   [spec_features] (Model/KindOf.v, module Spec) is the independent syntactic extractor: one clause per feature of the
   documentation table of problem kinds — typing (flat / hierarchical), fluent types (int / real / object), fluent and
   action parameter types, numeric bounds, negative / disjunctive (Or, Implies) / equality / existential / universal
   conditions (and interpreted functions in conditions), conditional / forall / increase / decrease / continuous
   effects, static and non-static fluents in Boolean / numeric / object assignments and in durations (with duration
   types and inequalities, interpreted functions in durations), timed effects and goals, processes and events, state
   invariants and trajectory constraints, every quality metric with the action-cost and oversubscription sub-features,
   undefined symbolic / numeric initial values.  [kind_model] mirrors Problem._kind_factory / _KindFactory (after the two
   repairs of notes/C10.md).  ALL 56 clauses are proved (no _partial). *)
From Coq Require Import List ZArith NArith Bool.
Import ListNotations.
Require Import UPV.Core.Expr UPV.Model.Kind UPV.Gen.Gen_Kind UPV.Model.KindOf UPV.Proofs.KindOf_proofs.

Theorem kind_covers_features : forall P, wf P -> incl (spec_features P) (kind_model P).
Proof. exact covers. Qed.
Print Assumptions kind_covers_features.

(* "Hence an engine whose supported kind contains the computed kind has declared support for everything in the problem" *)
Theorem supported_kind_covers_features :
  forall P supported, wf P -> incl (kind_model P) supported -> incl (spec_features P) supported.
Proof. exact covers_supported. Qed.
Print Assumptions supported_kind_covers_features.

(* the two notions of "static fluent" agree on declared fluents: never written (documentation) = member of the set
   computed by Problem._get_static_and_unused_fluents *)
Theorem static_fluents_agree :
  forall P f, M.declared P f = true -> M.static P f = Spec.static P f.
Proof. exact static_agree. Qed.
Print Assumptions static_fluents_agree.

(* OperatorsExtractor / FreeVarsExtractor find exactly what a search of all sub-expressions finds *)
Theorem extractors_complete :
  forall e, (forall p, mentions p e = true -> exists x, p x = true /\ In (tag x) (ops_of e))
            /\ (forall f, mentions (is_fluent_sym f) e = true <-> In f (fluents_of e)).
Proof. exact extractors_spec. Qed.
Print Assumptions extractors_complete.

(* non-vacuity: a process whose precondition `not b(o)` is the only negation (the position the implementation missed),
   a real fluent read by that precondition only besides a duration, a durative action with a bounded int parameter and
   a static fluent in its duration, an object-valued assignment from a fluent, an undefined initial value *)
Definition ex_cond (e : expr) : cexpr := {| ce := e; ce_lin := true |}.
Definition ex_problem : problem_desc :=
  let T := TUser 0 true in
  {| p_fluents :=
       [ {| fd_id := 0; fd_ty := TBool; fd_sig := [T]; fd_default := true; fd_inits := 0; fd_size := 2; fd_missing := 2 |}
       ; {| fd_id := 1; fd_ty := TReal false false; fd_sig := []; fd_default := true; fd_inits := 0; fd_size := 1; fd_missing := 1 |}
       ; {| fd_id := 2; fd_ty := TReal true false; fd_sig := []; fd_default := true; fd_inits := 0; fd_size := 1; fd_missing := 1 |}
       ; {| fd_id := 3; fd_ty := T; fd_sig := []; fd_default := false; fd_inits := 0; fd_size := 1; fd_missing := 1 |}
       ; {| fd_id := 4; fd_ty := T; fd_sig := []; fd_default := true; fd_inits := 0; fd_size := 1; fd_missing := 1 |} ];
     p_objtys := [T; T];
     p_actions :=
       [ ADur {| da_params := [TInt true true];
                 da_lo := {| de := EFluent 2 []; de_cls := CReal |}; da_hi := {| de := EFluent 2 []; de_cls := CReal |};
                 da_conds := [];
                 da_effs := [ ({| tm_end := true; tm_sgn := 0 |},
                               {| ef_fl := 3; ef_args := []; ef_val := EFluent 4 []; ef_vcls := CUser; ef_tcls := CUser;
                                  ef_cond := ex_cond (EBool true); ef_kind := KAssign; ef_forall := []; ef_rhs := [] |}) ];
                 da_ceffs := []; da_sims := []; da_motion := false |} ];
     p_events := [];
     p_processes :=
       [ {| pr_params := [];
            pr_pre := [ex_cond (ENot (EFluent 0 [EObj 0])); ex_cond (ELt (EFluent 2 []) (EInt 5))];
            pr_effs := [ {| ef_fl := 1; ef_args := []; ef_val := EInt 1; ef_vcls := CInt; ef_tcls := CReal;
                            ef_cond := ex_cond (EBool true); ef_kind := KCInc; ef_forall := []; ef_rhs := [] |} ] |} ];
     p_teffs := []; p_tgoals := []; p_goals := [ex_cond (EFluent 0 [EObj 1])]; p_traj := []; p_metrics := [];
     p_discrete := false; p_selfoverlap := false |}.

Example kind_covers_features_nonvacuous :
  wf ex_problem
  /\ spec_features ex_problem =
       [ f_HIERARCHICAL_TYPING; f_REAL_FLUENTS; f_OBJECT_FLUENTS; f_BOUNDED_INT_ACTION_PARAMETERS; f_BOUNDED_TYPES
       ; f_NEGATIVE_CONDITIONS; f_INCREASE_CONTINUOUS_EFFECTS; f_STATIC_FLUENTS_IN_OBJECT_ASSIGNMENTS
       ; f_STATIC_FLUENTS_IN_DURATIONS; f_REAL_TYPE_DURATIONS; f_PROCESSES; f_UNDEFINED_INITIAL_SYMBOLIC ]
  /\ incl (spec_features ex_problem) (kind_model ex_problem).
Proof. split; [reflexivity|]. split; [vm_compute; reflexivity|]. apply kind_covers_features. reflexivity. Qed.
