(* C01 — Sequential simulator computes exactly the documented successor semantics.
   [spec_step false] is the documented semantics (strict reading of "a condition that reads a fluent with no value is
   never satisfied"); [sim_apply sc] is the algorithm of UPSequentialSimulator._apply/apply_unsafe/_evaluate_effect with
   the expression evaluator's quantifier mode [sc] (the code: sc = true).  Only statements; proofs in Proofs/. *)
From Coq Require Import List ZArith NArith QArith Qcanon Bool.
Import ListNotations.
Require Import UPV.Core.Expr UPV.Core.Eval UPV.Core.Interp UPV.Planning.Problem UPV.Planning.Sem.
Require Import UPV.Proofs.Sem_proofs UPV.Proofs.Step_proofs.

(* the ordered loop with updated_values/assigned_fluent = the declarative per-fluent combination: Boolean assigned both
   values ends true, two different values => inapplicable, assignment + increase/decrease => inapplicable,
   increases and decreases accumulate; for every state, every list of fired effect instances *)
Theorem C01_effect_loop_is_declarative_combination :
  forall P s acts, forallb (wt_aeff P) acts = true ->
    match sim_loop P s ([], []) acts with
    | Some (upd, _) => spec_effects_ok P s acts = true /\
                       forall f args, apply_upd s upd f args = spec_succ P s acts f args
    | None => spec_effects_ok P s acts = false
    end.
Proof. exact sim_loop_spec. Qed.
Print Assumptions C01_effect_loop_is_declarative_combination.

(* whole step, any evaluator mode: applicability verdict and successor of the simulator = documented step *)
Theorem C01_sim_apply_refines_spec :
  forall sc P s a args, effects_typed sc P s a args ->
    ostate_eq (sim_apply sc P s a args) (spec_step sc P s a args).
Proof. exact sim_apply_refines_spec. Qed.
Print Assumptions C01_sim_apply_refines_spec.

(* every history: running any plan from extensionally equal states *)
Theorem C01_sim_run_refines_spec :
  forall sc P plan, plan_typed sc P -> forall s t, state_eq s t ->
    ostate_eq (run P (sim_apply sc P) s plan) (run P (spec_step sc P) t plan).
Proof. exact sim_run_refines_spec. Qed.
Print Assumptions C01_sim_run_refines_spec.

(* "A condition or goal that reads a fluent with no value is never satisfied" (strict reading) *)
Theorem C01_undefined_never_satisfied :
  forall I c, eval false c I = None -> holds false I c = false.
Proof. exact undefined_never_satisfied. Qed.
Print Assumptions C01_undefined_never_satisfied.

(* the code's short-circuit quantifiers agree with the strict reading whenever the strict reading is defined *)
Theorem C01_short_circuit_refines_strict :
  forall e I v, eval false e I = Some v -> eval true e I = Some v.
Proof. exact eval_sc_refines. Qed.
Print Assumptions C01_short_circuit_refines_strict.

(* ... and NOT conversely: Exists x. p(x) over objects [o1; o0] with p(o1) true and p(o0) undefined is satisfied under
   short-circuit evaluation although it "reads a fluent with no value" under the strict reading (finding, see DESIGN) *)
Theorem C01_short_circuit_refuted :
  exists e I, eval true e I = Some (VBool true) /\ eval false e I = None.
Proof.
  exists (EExists [(0%N, 0%N)] (EFluent 0%N [EVar 0%N 0%N])).
  exists {| fl := fun f a => match a with [VObj 1%N] => Some (VBool true) | _ => None end;
            par := fun _ => None; var := fun _ => None; ifun := fun _ _ => None;
            objs := fun _ => [1%N; 0%N] |}.
  split; reflexivity.
Qed.
Print Assumptions C01_short_circuit_refuted.

Theorem C01_eval_extensional :
  forall sc e I J, interp_eq I J -> eval sc e I = eval sc e J.
Proof. exact eval_ext. Qed.
Print Assumptions C01_eval_extensional.

(* non-vacuity: an action with f := false ; when c then f := true under an invariant on f, in a concrete state *)
Example C01_nonvacuous :
  let P := {| p_objs := []; p_ifun := []; p_fluents := [{| fd_id := 0%N; fd_sig := []; fd_ty := FBool |};
                                                      {| fd_id := 1%N; fd_sig := []; fd_ty := FBool |}];
              p_actions := []; p_goals := []; p_invs := [EFluent 0%N []] |} in
  let a := {| a_params := []; a_pre := [];
              a_effs := [ {| e_fl := 0%N; e_args := []; e_val := EBool false; e_cond := EBool true; e_kind := KAssign; e_vars := []; e_isbool := true |};
                          {| e_fl := 0%N; e_args := []; e_val := EBool true; e_cond := EFluent 1%N []; e_kind := KAssign; e_vars := []; e_isbool := true |} ] |} in
  let s : state := fun f _ => Some (VBool true) in
  effects_typed true P s a [] /\
  (exists t, sim_apply true P s a [] = Some t /\ t 0%N [] = Some (VBool true)).
Proof.
  cbv zeta. split.
  - intros acts H. vm_compute in H. inversion H. reflexivity.
  - eexists. split; [vm_compute; reflexivity | reflexivity].
Qed.

(* ===================================================================================================================
   The grounding step (GrounderHelper.ground_action(prune_actions=False) -> create_action_with_given_subs) INSIDE the
   model: Planning/Ground.v substitutes the parameters, simplifies preconditions / effect target arguments / values /
   conditions through the C11 model of the Simplifier (Walkers/Simplify.v, configured as env.simplifier: no static
   fluents), drops true preconditions and false-conditioned effects, returns None on a false precondition or on a
   SYNTACTIC conflict (effect.py check_conflicting_effects on the rebuilt effects), and drops forall variables that are no
   longer free (Effect.__init__).  [sim_apply_grounded sc T P s a args] runs the simulator's algorithm on the grounded
   action; [T] is the user-type table the simplifier reads (Ground.v explains why it is not part of [problem]).
   =================================================================================================================== *)
Require Import UPV.Planning.Ground UPV.Walkers.Simplify UPV.Proofs.Simplify_proofs UPV.Proofs.Ground_proofs.

(* (a) On total information the grounded step of the code (short-circuit quantifiers) IS the strict documented step.
   Hypotheses: C11's scoping side conditions on the action's expressions ([ground_wf_b]) and on the interpretation
   ([env_ok], derivable from the tables by C01_grounded_env_ok_from_tables); every read of the strict documented step
   is defined ([step_defined]: Boolean-valued preconditions, every effect instance evaluable, invariants defined in
   the successor); fired effects well typed (as in C01_sim_apply_refines_spec); the rebuilt effects do not conflict
   syntactically; no forall variable vanishes.  C11's soundness theorem (defined values are preserved) is what is
   used for every simplification step. *)
Theorem C01_grounded_refines_semantic :
  forall T P tau QT s a args,
    ground_wf_b tau QT a = true ->
    env_ok (gcfg T P) tau QT (mk_interp P s []) ->
    step_defined P s a args ->
    effects_typed false P s a args ->
    ground_conflict T P a args = false ->
    vars_dropped T P a args = false ->
    ostate_eq (sim_apply_grounded true T P s a args) (spec_step false P s a args).
Proof. exact grounded_refines_semantic. Qed.
Print Assumptions C01_grounded_refines_semantic.

(* the same with strict quantifiers on both sides (no hypothesis on the invariants).  Contrapositive = the proved
   classification used by the correspondence (Corr_C01g bit 13): if the grounded action evaluated strictly is applicable
   and the strict documented step is not, although nothing conflicts syntactically and no forall variable vanished,
   then a precondition or an effect instance of the ORIGINAL action reads a fluent that has no value *)
Theorem C01_grounded_strict_refines_semantic :
  forall T P tau QT s a args,
    ground_wf_b tau QT a = true ->
    env_ok (gcfg T P) tau QT (mk_interp P s []) ->
    pre_defined (mk_interp P s (zip_params (a_params a) args)) (a_pre a) ->
    fired false (mk_interp P s (zip_params (a_params a) args)) (a_effs a) <> None ->
    effects_typed false P s a args ->
    ground_conflict T P a args = false ->
    vars_dropped T P a args = false ->
    ostate_eq (sim_apply_grounded false T P s a args) (spec_step false P s a args).
Proof. exact grounded_strict_refines_semantic. Qed.
Print Assumptions C01_grounded_strict_refines_semantic.

(* under the same hypotheses grounding changes nothing at all: the step on the grounded action equals (Leibniz) the
   step of the semantic-level model [sim_apply] with the parameters bound, for either quantifier mode *)
Theorem C01_grounded_eq_ungrounded :
  forall sc T P tau QT s a args,
    ground_wf_b tau QT a = true ->
    env_ok (gcfg T P) tau QT (mk_interp P s []) ->
    pre_defined (mk_interp P s (zip_params (a_params a) args)) (a_pre a) ->
    fired false (mk_interp P s (zip_params (a_params a) args)) (a_effs a) <> None ->
    ground_conflict T P a args = false ->
    vars_dropped T P a args = false ->
    sim_apply_grounded sc T P s a args = sim_apply sc P s a args.
Proof. exact grounded_eq_ungrounded. Qed.
Print Assumptions C01_grounded_eq_ungrounded.

(* (c) never less defined: whenever the strict documented step is applicable (then all its reads are defined), the
   grounded step is applicable with the same successor — provided grounding does not reject the action syntactically
   and loses no forall variable (C01_grounded_syntactic_conflict_refuted / C01_grounded_forall_applied_once_refuted
   show that neither proviso can be dropped) *)
Theorem C01_grounded_never_less_defined :
  forall T P tau QT s a args s',
    spec_step false P s a args = Some s' ->
    ground_wf_b tau QT a = true ->
    env_ok (gcfg T P) tau QT (mk_interp P s []) ->
    effects_typed false P s a args ->
    ground_conflict T P a args = false ->
    vars_dropped T P a args = false ->
    exists t, sim_apply_grounded true T P s a args = Some t /\ state_eq t s'.
Proof. exact grounded_never_less_defined. Qed.
Print Assumptions C01_grounded_never_less_defined.

(* the precondition half needs nothing about the effects: preconditions that hold under the strict reading are never
   lost by check_and_simplify_preconditions (it never answers "contradiction", and what it keeps holds) *)
Theorem C01_ground_pre_never_less_satisfied :
  forall T P tau QT s a args,
    forallb (wfx tau QT []) (a_pre a) = true ->
    env_ok (gcfg T P) tau QT (mk_interp P s []) ->
    all_hold false (mk_interp P s (zip_params (a_params a) args)) (a_pre a) = true ->
    exists l, ground_pre (gcfg T P) (zip_params (a_params a) args) (a_pre a) = Some l /\
              forall sc, all_hold sc (mk_interp P s []) l = true.
Proof. exact ground_pre_never_less_satisfied. Qed.
Print Assumptions C01_ground_pre_never_less_satisfied.

(* the interpretation hypothesis from checkable tables: a type table consistent with the problem's object lists
   (boolean check) and a state whose object-valued fluents hold objects of their type *)
Theorem C01_grounded_env_ok_from_tables :
  forall T P tau s, tytab_ok_b T P = true -> state_typed P s ->
    env_ok (gcfg T P) tau (qt_of P) (mk_interp P s []).
Proof. exact env_ok_of_tables. Qed.
Print Assumptions C01_grounded_env_ok_from_tables.

(* the parameter substitution of the grounded model is the C13 model of FNode.substitute: on every expression the
   ExpressionManager can build (Subst.nf), the Substituter applied to {parameter: constant} computes [psubst] *)
Require UPV.Walkers.Subst UPV.Proofs.Ground_subst.
Theorem C01_grounded_substitution_is_substituter :
  forall sg e, UPV.Walkers.Subst.nf e = true ->
    UPV.Walkers.Subst.substitute (UPV.Proofs.Ground_subst.pmap sg) e = psubst sg e.
Proof. exact UPV.Proofs.Ground_subst.psubst_is_substitute. Qed.
Print Assumptions C01_grounded_substitution_is_substituter.

(* (b) The three deviations of the code from the documented semantics that come from grounding, as witnesses INSIDE the
   model (recorded findings C01-simplified-undefined-read, C01-grounding-syntactic-conflict,
   C01-forall-variable-vanishes).  In each, exactly one hypothesis of C01_grounded_refines_semantic fails. *)

(* (u or not u) over a fluent u with no value is simplified away: the grounded action is applicable, the documented
   step is not, because a precondition reads a fluent with no value ([step_defined] fails) *)
Theorem C01_grounded_tautology_over_undefined_refuted :
  exists T P s a args,
    (exists t, sim_apply_grounded true T P s a args = Some t) /\ spec_step false P s a args = None /\
    (exists c, In c (a_pre a) /\ eval false c (mk_interp P s (zip_params (a_params a) args)) = None).
Proof. exact grounded_tautology_over_undefined_ex. Qed.
Print Assumptions C01_grounded_tautology_over_undefined_refuted.

(* x(p) := y and x(q) := 3 with p = q in a state where y = 3: every read is defined and the documented step is
   applicable, but the rebuilt effects differ syntactically and grounding returns None ([ground_conflict] = true) *)
Theorem C01_grounded_syntactic_conflict_refuted :
  exists T P s a args,
    ground_action T P a args = None /\ sim_apply_grounded true T P s a args = None /\
    (exists t, spec_step false P s a args = Some t) /\ step_defined P s a args.
Proof. exact grounded_syntactic_conflict_ex. Qed.
Print Assumptions C01_grounded_syntactic_conflict_refuted.

(* forall v. if (v == v) then r += x over a type with two objects: the condition simplifies to true, v vanishes from
   the rebuilt effect and the increase is applied once (r + x) instead of once per object (r + x + x)
   ([vars_dropped] = true) *)
Theorem C01_grounded_forall_applied_once_refuted :
  exists T P s a args f x,
    (exists t, sim_apply_grounded true T P s a args = Some t /\ t f [] = Some (VNum x)) /\
    (exists t, spec_step false P s a args = Some t /\ t f [] = Some (VNum (x + x)%Qc)) /\ x <> zq 0.
Proof. exact grounded_forall_applied_once_ex. Qed.
Print Assumptions C01_grounded_forall_applied_once_refuted.

(* non-vacuity of the grounded theorems: the action a_nv(p) of Ground_proofs.v (args_nv = [o0], tau_nv = every variable
   has type 0) whose precondition (b(p) and p == p) is really simplified (to b(o0)), with a conditional forall
   increase; every hypothesis of the theorems above holds and the step is applicable *)
Example C01_grounded_nonvacuous :
  ground_wf_b tau_nv (qt_of P_nv) a_nv = true /\
  env_ok (gcfg T1 P_nv) tau_nv (qt_of P_nv) (mk_interp P_nv s_nv []) /\
  step_defined P_nv s_nv a_nv args_nv /\
  effects_typed false P_nv s_nv a_nv args_nv /\
  ground_conflict T1 P_nv a_nv args_nv = false /\
  vars_dropped T1 P_nv a_nv args_nv = false /\
  (exists g, ground_action T1 P_nv a_nv args_nv = Some g /\ a_pre g = [EFluent 0%N [EObj 0%N]]) /\
  (exists t, sim_apply_grounded true T1 P_nv s_nv a_nv args_nv = Some t /\
             t 0%N [VObj 0%N] = Some (VBool false) /\ t 1%N [] = Some (VNum (zq 2))).
Proof. exact grounded_nonvacuous. Qed.
