(* C01 — Sequential simulator computes exactly the documented successor semantics.
   [spec_step false] is the documented semantics (strict reading of "a condition that reads a fluent with no value is
   never satisfied"); [sim_apply sc] is the algorithm of UPSequentialSimulator._apply/apply_unsafe/_evaluate_effect with
   the expression evaluator's quantifier mode [sc] (the code: sc = true).  Only statements; proofs in Proofs/. *)
From Coq Require Import List ZArith NArith QArith Qcanon Bool.
Import ListNotations.
Require Import UPV.Core.Expr UPV.Core.Eval UPV.Core.Interp UPV.Planning.Problem UPV.Planning.Sem.
Require Import UPV.Proofs.Sem_proofs UPV.Proofs.Step_proofs.

(* the ordered loop with updated_values/assigned_fluent = the declarative per-fluent combination: Boolean assigned both
   values ends true, two different values => inapplicable, assignment + increase/decrease => inapplicable,
   increases and decreases accumulate; for every state, every list of fired effect instances *)
Theorem C01_effect_loop_is_declarative_combination :
  forall P s acts, forallb (wt_aeff P) acts = true ->
    match sim_loop P s ([], []) acts with
    | Some (upd, _) => spec_effects_ok P s acts = true /\
                       forall f args, apply_upd s upd f args = spec_succ P s acts f args
    | None => spec_effects_ok P s acts = false
    end.
Proof. exact sim_loop_spec. Qed.
Print Assumptions C01_effect_loop_is_declarative_combination.

(* whole step, any evaluator mode: applicability verdict and successor of the simulator = documented step *)
Theorem C01_sim_apply_refines_spec :
  forall sc P s a args, effects_typed sc P s a args ->
    ostate_eq (sim_apply sc P s a args) (spec_step sc P s a args).
Proof. exact sim_apply_refines_spec. Qed.
Print Assumptions C01_sim_apply_refines_spec.

(* every history: running any plan from extensionally equal states *)
Theorem C01_sim_run_refines_spec :
  forall sc P plan, plan_typed sc P -> forall s t, state_eq s t ->
    ostate_eq (run P (sim_apply sc P) s plan) (run P (spec_step sc P) t plan).
Proof. exact sim_run_refines_spec. Qed.
Print Assumptions C01_sim_run_refines_spec.

(* "A condition or goal that reads a fluent with no value is never satisfied" (strict reading) *)
Theorem C01_undefined_never_satisfied :
  forall I c, eval false c I = None -> holds false I c = false.
Proof. exact undefined_never_satisfied. Qed.
Print Assumptions C01_undefined_never_satisfied.

(* the code's short-circuit quantifiers agree with the strict reading whenever the strict reading is defined *)
Theorem C01_short_circuit_refines_strict :
  forall e I v, eval false e I = Some v -> eval true e I = Some v.
Proof. exact eval_sc_refines. Qed.
Print Assumptions C01_short_circuit_refines_strict.

(* ... and NOT conversely: Exists x. p(x) over objects [o1; o0] with p(o1) true and p(o0) undefined is satisfied under
   short-circuit evaluation although it "reads a fluent with no value" under the strict reading (finding, see DESIGN) *)
Theorem C01_short_circuit_refuted :
  exists e I, eval true e I = Some (VBool true) /\ eval false e I = None.
Proof.
  exists (EExists [(0%N, 0%N)] (EFluent 0%N [EVar 0%N 0%N])).
  exists {| fl := fun f a => match a with [VObj 1%N] => Some (VBool true) | _ => None end;
            par := fun _ => None; var := fun _ => None; ifun := fun _ _ => None;
            objs := fun _ => [1%N; 0%N] |}.
  split; reflexivity.
Qed.
Print Assumptions C01_short_circuit_refuted.

Theorem C01_eval_extensional :
  forall sc e I J, interp_eq I J -> eval sc e I = eval sc e J.
Proof. exact eval_ext. Qed.
Print Assumptions C01_eval_extensional.

(* non-vacuity: an action with f := false ; when c then f := true under an invariant on f, in a concrete state *)
Example C01_nonvacuous :
  let P := {| p_objs := []; p_ifun := []; p_fluents := [{| fd_id := 0%N; fd_sig := []; fd_ty := FBool |};
                                                      {| fd_id := 1%N; fd_sig := []; fd_ty := FBool |}];
              p_actions := []; p_goals := []; p_invs := [EFluent 0%N []] |} in
  let a := {| a_params := []; a_pre := [];
              a_effs := [ {| e_fl := 0%N; e_args := []; e_val := EBool false; e_cond := EBool true; e_kind := KAssign; e_vars := []; e_isbool := true |};
                          {| e_fl := 0%N; e_args := []; e_val := EBool true; e_cond := EFluent 1%N []; e_kind := KAssign; e_vars := []; e_isbool := true |} ] |} in
  let s : state := fun f _ => Some (VBool true) in
  effects_typed true P s a [] /\
  (exists t, sim_apply true P s a [] = Some t /\ t 0%N [] = Some (VBool true)).
Proof.
  cbv zeta. split.
  - intros acts H. vm_compute in H. inversion H. reflexivity.
  - eexists. split; [vm_compute; reflexivity | reflexivity].
Qed.
