(* placeholder while the proofs are being written *)
Require Import UPV.Walkers.NnfDnf.
