(* C12 — NNF and DNF conversions are equivalent and in normal form.
   Only statements; each is closed by [exact] of a lemma from Proofs/NnfDnf_proofs.v.
   [nnf] / [dnf] (Walkers/NnfDnf.v) model Nnf.get_nnf_expression / Dnf.get_dnf_expression of
   unified_planning/model/walkers/dnf.py after fix 401c179; [eval sc] is the reference semantics of Core/Eval.v in
   either quantifier mode; an ATOM is any expression that is not And/Or/Not/Implies/Iff (fluents, comparisons,
   equalities, constants, quantifiers, ...). *)
From Coq Require Import List ZArith NArith QArith Qcanon Bool.
Import ListNotations.
Require Import UPV.Core.Expr UPV.Core.Eval UPV.Walkers.NnfDnf UPV.Proofs.NnfDnf_proofs.

(* ---- NNF is logically equivalent: same Boolean reading (same truth value, undefined exactly when the input is) for
        every expression, every interpretation *)
Theorem C12_nnf_equiv :
  forall sc e I, as_bool (eval sc (nnf e) I) = as_bool (eval sc e I).
Proof. exact nnf_equiv. Qed.
Print Assumptions C12_nnf_equiv.

Theorem C12_nnf_equiv_defined :
  forall sc e I b, eval sc e I = Some (VBool b) -> eval sc (nnf e) I = Some (VBool b).
Proof. exact nnf_equiv_defined. Qed.
Print Assumptions C12_nnf_equiv_defined.

(* ---- NNF applies negation only to atoms (and contains no Implies / Iff above the atoms) *)
Theorem C12_nnf_is_nnf : forall e, nnf_shape (nnf e) = true.
Proof. exact nnf_is_nnf. Qed.
Print Assumptions C12_nnf_is_nnf.

Theorem C12_nnf_is_NNF : forall e, NNF (nnf e).
Proof. exact nnf_is_NNF. Qed.
Print Assumptions C12_nnf_is_NNF.

(* ---- DNF is logically equivalent wherever the input has a truth value (the simplifier may delete an undefined literal
        next to a contradiction, so nothing is claimed when the input itself is undefined) *)
Theorem C12_dnf_equiv :
  forall sc e I b, eval sc e I = Some (VBool b) -> eval sc (dnf e) I = Some (VBool b).
Proof. exact dnf_equiv. Qed.
Print Assumptions C12_dnf_equiv.

(* ---- DNF is a disjunction of conjunctions of literals *)
Theorem C12_dnf_is_dnf : forall e, dnf_shape (dnf e) = true.
Proof. exact dnf_is_dnf. Qed.
Print Assumptions C12_dnf_is_dnf.

Theorem C12_dnf_is_DNF : forall e, DNF (dnf e).
Proof. exact dnf_is_DNF. Qed.
Print Assumptions C12_dnf_is_DNF.

(* ---- tautological / contradictory sub-conjunctions never change the truth value: a conjunction of literals that the
        simplifier turns into the constant k has the value k, and replacing it by k inside any conjunction or
        disjunction changes neither the value of the expression nor the value of its DNF *)
Theorem C12_constant_conjunct_value :
  forall sc I c k,
    simp_conj simp_atom c = EBool k ->
    (forall x, In x c -> exists b, eval sc x I = Some (VBool b)) ->
    eval sc (mkAnd c) I = Some (VBool k).
Proof. exact constant_conjunct_value. Qed.
Print Assumptions C12_constant_conjunct_value.

Theorem C12_dnf_constant_conjunct_and :
  forall sc I pre c post k b,
    simp_conj simp_atom c = EBool k ->
    eval sc (EAnd (pre ++ mkAnd c :: post)) I = Some (VBool b) ->
    eval sc (dnf (EAnd (pre ++ mkAnd c :: post))) I = Some (VBool b)
    /\ eval sc (EAnd (pre ++ EBool k :: post)) I = Some (VBool b)
    /\ eval sc (dnf (EAnd (pre ++ EBool k :: post))) I = Some (VBool b).
Proof. exact dnf_constant_conjunct_and. Qed.
Print Assumptions C12_dnf_constant_conjunct_and.

Theorem C12_dnf_constant_conjunct_or :
  forall sc I pre c post k b,
    simp_conj simp_atom c = EBool k ->
    eval sc (EOr (pre ++ mkAnd c :: post)) I = Some (VBool b) ->
    eval sc (dnf (EOr (pre ++ mkAnd c :: post))) I = Some (VBool b)
    /\ eval sc (EOr (pre ++ EBool k :: post)) I = Some (VBool b)
    /\ eval sc (dnf (EOr (pre ++ EBool k :: post))) I = Some (VBool b).
Proof. exact dnf_constant_conjunct_or. Qed.
Print Assumptions C12_dnf_constant_conjunct_or.

(* ---- the same two DNF theorems for ANY behaviour of the simplifier inside atoms that preserves Boolean values /
        maps atoms to atoms (the walk_and / walk_not part of the simplifier and the Dnf walker are the modelled code) *)
Theorem C12_dnf_equiv_any_atom_simplifier :
  forall satom : expr -> expr,
    (forall sc I a b, eval sc a I = Some (VBool b) -> eval sc (satom a) I = Some (VBool b)) ->
    forall sc e I b, eval sc e I = Some (VBool b) -> eval sc (dnf_gen satom e) I = Some (VBool b).
Proof. exact dnf_gen_equiv. Qed.
Print Assumptions C12_dnf_equiv_any_atom_simplifier.

Theorem C12_dnf_is_dnf_any_atom_simplifier :
  forall satom : expr -> expr,
    (forall a, atomic a = true -> atomic (satom a) = true) ->
    forall e, dnf_shape (dnf_gen satom e) = true.
Proof. exact dnf_gen_is_dnf. Qed.
Print Assumptions C12_dnf_is_dnf_any_atom_simplifier.

(* ---- non-vacuity *)
Definition I0 : interp :=
  {| fl := fun f _ => if (f =? 0)%N then Some (VBool true) else if (f =? 1)%N then Some (VBool false) else None;
     par := fun _ => None; var := fun _ => None; ifun := fun _ _ => None; objs := fun _ => [] |}.
Definition fa := EFluent 0%N [].
Definition fb := EFluent 1%N [].
Definition le12 := ELe (EInt 1) (EInt 2).
Definition le23 := ELe (EInt 2) (EInt 3).
Definition lt32 := ELt (EInt 3) (EInt 2).

(* not (a => (b and 1<=2)) has a value, its NNF is a and (not b or not 1<=2) *)
Example C12_nnf_equiv_defined_nonvacuous :
  eval false (ENot (EImplies fa (EAnd [fb; le12]))) I0 = Some (VBool true)
  /\ nnf (ENot (EImplies fa (EAnd [fb; le12]))) = EAnd [fa; EOr [ENot fb; ENot le12]].
Proof. split; vm_compute; reflexivity. Qed.

(* the former defect: (1<=2 and 2<=3) is true and its DNF is now true; a or (1<=2 and 2<=3) keeps the disjunct *)
Example C12_dnf_equiv_nonvacuous :
  eval false (EAnd [le12; le23]) I0 = Some (VBool true) /\ dnf (EAnd [le12; le23]) = EBool true
  /\ eval false (EOr [fb; EAnd [le12; le23]]) I0 = Some (VBool true) /\ dnf (EOr [fb; EAnd [le12; le23]]) = EOr [fb; EBool true].
Proof. repeat split; vm_compute; reflexivity. Qed.

Example C12_constant_conjunct_value_nonvacuous :
  simp_conj simp_atom [le12; le23] = EBool true /\ simp_conj simp_atom [fa; lt32] = EBool false
  /\ simp_conj simp_atom [fa; ENot fa] = EBool false
  /\ (forall x, In x [fa; lt32] -> exists b, eval false x I0 = Some (VBool b)).
Proof.
  repeat split; try (vm_compute; reflexivity).
  intros x [<-|[<-|[]]]; [exists true | exists false]; vm_compute; reflexivity.
Qed.

Example C12_dnf_constant_conjunct_and_nonvacuous :
  simp_conj simp_atom [le12; le23] = EBool true
  /\ eval false (EAnd ([fa] ++ mkAnd [le12; le23] :: [ENot fb])) I0 = Some (VBool true).
Proof. split; vm_compute; reflexivity. Qed.

Example C12_dnf_constant_conjunct_or_nonvacuous :
  simp_conj simp_atom [fa; lt32] = EBool false
  /\ eval false (EOr ([fb] ++ mkAnd [fa; lt32] :: [])) I0 = Some (VBool false).
Proof. split; vm_compute; reflexivity. Qed.

(* the hypotheses of the generic theorems are satisfiable: the constant-folding instance and the identity *)
Example C12_any_atom_simplifier_nonvacuous :
  (forall sc I a b, eval sc a I = Some (VBool b) -> eval sc (simp_atom a) I = Some (VBool b))
  /\ (forall a, atomic a = true -> atomic (simp_atom a) = true)
  /\ (forall sc I a b, eval sc a I = Some (VBool b) -> eval sc ((fun x : expr => x) a) I = Some (VBool b))
  /\ (forall a, atomic a = true -> atomic ((fun x : expr => x) a) = true).
Proof.
  split; [|split; [exact simp_atom_atomic | split; trivial]].
  intros sc I a b. rewrite <- !bv_Some. apply simp_atom_sound.
Qed.
