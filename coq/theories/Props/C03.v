(* C03 — Sequential plan validation decides validity and metric values exactly.
   [seq_validate] models SequentialPlanValidator._validate + evaluate_quality_metric (with the repaired final-metric
   branch for the empty plan); [valid_plan] is "executable from the initial state and ends in a goal state" under the
   documented semantics of C01; [metric_spec] is what each metric defines for a run. *)
From Coq Require Import List ZArith NArith QArith Qcanon Bool.
Import ListNotations.
Require Import UPV.Core.Expr UPV.Core.Eval UPV.Core.Interp UPV.Planning.Problem UPV.Planning.Sem UPV.Planning.SeqValidate.
Require Import UPV.Proofs.Step_proofs UPV.Proofs.SeqValidate_proofs.

(* verdict and metric in terms of the run: total — the model has no exception outcome *)
Theorem C03_validate_is_run_then_goals_then_metric :
  forall sc P M s0 plan,
    seq_validate sc P M s0 plan =
    match trace P (sim_apply sc P) s0 plan with
    | None => Invalid
    | Some (tr, fin) =>
        if goals_hold sc P fin
        then match metric_spec sc P M tr fin with Some m => Valid m | None => Invalid end
        else Invalid
    end.
Proof. exact seq_validate_spec. Qed.
Print Assumptions C03_validate_is_run_then_goals_then_metric.

(* VALID only for plans valid under the documented semantics; a valid plan is rejected only when the metric itself
   has no value on its run (a cost that reads an undefined fluent / is not set) *)
Theorem C03_status :
  forall sc P M s0 plan, plan_typed sc P ->
    (forall m, seq_validate sc P M s0 plan = Valid m -> valid_plan sc P s0 plan = true) /\
    (valid_plan sc P s0 plan = true -> seq_validate sc P M s0 plan = Invalid ->
       exists tr fin, trace P (sim_apply sc P) s0 plan = Some (tr, fin) /\ metric_spec sc P M tr fin = None).
Proof. exact seq_validate_status. Qed.
Print Assumptions C03_status.

(* the reported value: action costs summed over pre-states, plan length, final-state expression, oversubscription gain *)
Theorem C03_metric_value :
  forall sc P M s0 plan m, seq_validate sc P M s0 plan = Valid m ->
    exists tr fin, trace P (sim_apply sc P) s0 plan = Some (tr, fin) /\ metric_spec sc P M tr fin = Some m.
Proof. exact seq_validate_metric. Qed.
Print Assumptions C03_metric_value.

Theorem C03_empty_plan :
  forall sc P M s0,
    seq_validate sc P M s0 [] =
    if goals_hold sc P s0 then match metric_spec sc P M [] s0 with Some m => Valid m | None => Invalid end else Invalid.
Proof. exact seq_validate_empty. Qed.
Print Assumptions C03_empty_plan.

Example C03_nonvacuous :
  let P := {| p_objs := []; p_ifun := []; p_fluents := [{| fd_id := 0%N; fd_sig := []; fd_ty := FNum None None |}];
              p_actions := []; p_goals := [ELe (EInt 0) (EFluent 0%N [])]; p_invs := [] |} in
  seq_validate true P (MFinal (EPlus [EFluent 0%N []; EInt 2])) (fun _ _ => Some (VNum (zq 5))) [] = Valid (Some (zq 7)).
Proof. vm_compute. reflexivity. Qed.
