(* C08 — Compilers succeed and produce well-formed results inside their supported kind.
   Proved: the naming machinery (get_fresh_name as the compilers use it, the grounder's naming of ground actions,
   CompilerResult's derivation of the plan back-conversion) and the decidability of the well-formedness checker.
   Validated (harness/props/c08.py): the checker is applied to every problem the real compilers produce on generated
   problems with adversarial identifiers.  Only statements; proofs in Proofs/FreshNames_proofs.v. *)
From Coq Require Import List String Ascii Bool Arith.
Import ListNotations.
Require Import UPV.Model.FreshNames UPV.Proofs.FreshNames_proofs.
Open Scope string_scope.

(* get_fresh_name never returns a name of the problem (nor one of used_names), and always returns *)
Theorem C08_fresh_name_is_fresh :
  forall used orig params trailing n, get_fresh_name used orig params trailing = Some n -> ~ In n used.
Proof. exact get_fresh_name_not_used. Qed.
Print Assumptions C08_fresh_name_is_fresh.

Theorem C08_fresh_name_total :
  forall used orig params trailing, exists n, get_fresh_name used orig params trailing = Some n.
Proof. exact get_fresh_name_total. Qed.
Print Assumptions C08_fresh_name_total.

(* names requested one after the other, each recorded before the next request, are pairwise distinct and new *)
Theorem C08_fresh_names_nodup :
  forall items used names, add_all_fresh used items = Some names ->
    NoDup names /\ (forall n, In n names -> ~ In n used).
Proof. exact fresh_names_nodup. Qed.
Print Assumptions C08_fresh_names_nodup.

(* the scheme the design round found in the grounder (plain join with "_", looked up against the ORIGINAL problem only)
   is not injective; this is the defect repaired by /repo commit 206e087 *)
Theorem C08_plain_join_not_injective :
  exists a ps a' ps', (a, ps) <> (a', ps') /\ ground_name a ps = ground_name a' ps'.
Proof. exact ground_names_injective_refuted. Qed.
Print Assumptions C08_plain_join_not_injective.

(* the grounder as repaired: different groundings never get the same name, whatever the identifiers contain *)
Theorem C08_ground_names_injective :
  forall pnames items names,
    ground_all pnames [] items = Some names ->
    NoDup (paramless items) -> (forall a, In a (paramless items) -> In a pnames) ->
    forall i j n, nth_error names i = Some n -> nth_error names j = Some n -> i = j.
Proof. exact ground_names_injective. Qed.
Print Assumptions C08_ground_names_injective.

Theorem C08_ground_names_nodup :
  forall pnames items names,
    ground_all pnames [] items = Some names ->
    NoDup (paramless items) -> (forall a, In a (paramless items) -> In a pnames) -> NoDup names.
Proof. exact ground_names_nodup. Qed.
Print Assumptions C08_ground_names_nodup.

(* a CompilerResult with a problem always carries a plan back-conversion *)
Theorem C08_compiler_result_has_back_conversion :
  forall (Prob MapBack Conv : Type) (derive : MapBack -> Conv) p m c r,
    post_init Prob MapBack Conv derive (Some p) m c = Some r ->
    r_conv _ _ _ r <> None /\ r_problem _ _ _ r = Some p.
Proof. exact compiler_result_has_back_conversion. Qed.
Print Assumptions C08_compiler_result_has_back_conversion.

(* the checker applied to the compiled problems decides: unique names, unique parameter names within every fluent
   signature and every action, every referenced fluent / object / type / parameter / action declared *)
Theorem C08_wf_checker_decides : forall P, wf_np P = true <-> wf_problem P.
Proof. exact wf_np_spec. Qed.
Print Assumptions C08_wf_checker_decides.

(* ---------------------------------------------------------------- non-vacuity *)
Example C08_fresh_nonvacuous :
  get_fresh_name ["move_a_b_c"; "move_a_b_c_0"] "move" ["a_b"; "c"] None = Some "move_a_b_c_1" /\
  add_all_fresh ["x"] [("move", ["a_b"; "c"], None); ("move", ["a"; "b_c"], None)] = Some ["move_a_b_c"; "move_a_b_c_0"].
Proof. split; vm_compute; reflexivity. Qed.

Example C08_ground_nonvacuous :
  ground_all ["move"; "stay"; "a_b"; "c"; "a"; "b_c"] [] [("move", ["a_b"; "c"]); ("stay", []); ("move", ["a"; "b_c"])]
  = Some ["move_a_b_c"; "stay"; "move_a_b_c_0"] /\
  NoDup (paramless [("move", ["a_b"; "c"]); ("stay", []); ("move", ["a"; "b_c"])]).
Proof. split; [vm_compute; reflexivity|]. simpl. repeat constructor. intros []. Qed.

Example C08_result_nonvacuous :
  exists r, post_init nat nat nat (fun m => m) (Some 1) (Some 2) None = Some r /\ r_conv _ _ _ r = Some 2.
Proof. eexists. split; reflexivity. Qed.

Example C08_wf_nonvacuous :
  wf_np {| np_types := [("T", "")]; np_objects := [("a_b", "T")]; np_fluents := [("f", [("x", "T")])];
           np_actions := [{| na_name := "act"; na_params := [("p", "T")];
                             na_refs := {| rf_fluents := [("f", 1)]; rf_objects := ["a_b"]; rf_types := ["T"]; rf_params := ["p"] |} |}];
           np_refs := {| rf_fluents := [("f", 1)]; rf_objects := ["a_b"]; rf_types := []; rf_params := [] |};
           np_action_refs := ["act"] |} = true /\
  wf_np {| np_types := [("T", "")]; np_objects := [("a_b", "T")]; np_fluents := [("f", [("x", "T")])];
           np_actions := []; np_refs := {| rf_fluents := [("g", 0)]; rf_objects := []; rf_types := []; rf_params := [] |};
           np_action_refs := [] |} = false.
Proof. split; vm_compute; reflexivity. Qed.

(* two parameters of one fluent with the same name (via[location, location_0, location_0]) are rejected *)
Example C08_wf_duplicate_fluent_parameter :
  wf_np {| np_types := [("Location", "")]; np_objects := []; 
           np_fluents := [("via", [("location", "Location"); ("location_0", "Location"); ("location_0", "Location")])];
           np_actions := []; np_refs := {| rf_fluents := []; rf_objects := []; rf_types := []; rf_params := [] |};
           np_action_refs := [] |} = false.
Proof. vm_compute. reflexivity. Qed.
