(* C33 -- ProblemKind ordering is a lattice consistent with equality and hashing.
   Only statements; each is closed by [exact] of a lemma from Proofs/Kind_proofs.v / Kind_gen_proofs.v.
   [T : tables] is ANY feature universe / version table / upgrade-rule table; Gen_Kind.gen_tables is the one regenerated
   from problem_kind.py and problem_kind_versioning.py on every run.  [Ok] = the Python call returned;
   [KeyErr]/[AssertErr] = it raised.  Reading fixed in DESIGN.md 6.00: the order laws are stated for kinds of one
   version; across versions the statements are "the older operand is upgraded" and "upgrading preserves <=". *)
From Coq Require Import List ZArith NArith Bool.
Import ListNotations.
Require Import UPV.Model.Kind UPV.Proofs.Kind_proofs UPV.Gen.Gen_Kind UPV.Proofs.Kind_gen_proofs.

Theorem C33_le_reflexive : forall T a, le T a a = Ok true.
Proof. exact le_refl. Qed.
Print Assumptions C33_le_reflexive.

Theorem C33_le_transitive :
  forall T a b c, version T a = version T b -> version T b = version T c ->
    le T a b = Ok true -> le T b c = Ok true -> le T a c = Ok true.
Proof. exact le_trans. Qed.
Print Assumptions C33_le_transitive.

Theorem C33_le_antisymmetric_wrt_eq :
  forall T a b, version T a = version T b -> le T a b = Ok true -> le T b a = Ok true -> keq T a b = true.
Proof. exact le_antisym. Qed.
Print Assumptions C33_le_antisymmetric_wrt_eq.

Theorem C33_eq_implies_le_both_ways :
  forall T a b, keq T a b = true -> le T a b = Ok true /\ le T b a = Ok true.
Proof. exact keq_le. Qed.
Print Assumptions C33_eq_implies_le_both_ways.

(* == is exactly: same version and same valid features *)
Theorem C33_eq_characterisation :
  forall T a b, keq T a b = true <-> version T a = version T b /\ canon T a = canon T b.
Proof. exact keq_spec. Qed.
Print Assumptions C33_eq_characterisation.

(* union returns (the constructor's assertions hold), keeps the version, is an upper bound and the least one *)
Theorem C33_union_is_lub :
  forall T a b, wf T a = true -> wf T b = true -> version T a = version T b ->
    exists u, union T a b = Ok u /\ version T u = version T a /\ wf T u = true
      /\ le T a u = Ok true /\ le T b u = Ok true
      /\ forall c, version T c = version T a -> le T a c = Ok true -> le T b c = Ok true -> le T u c = Ok true.
Proof. exact union_lub. Qed.
Print Assumptions C33_union_is_lub.

Theorem C33_intersection_is_glb :
  forall T a b, wf T a = true -> wf T b = true -> version T a = version T b ->
    exists m, inter T a b = Ok m /\ version T m = version T a /\ wf T m = true
      /\ le T m a = Ok true /\ le T m b = Ok true
      /\ forall c, version T c = version T a -> le T c a = Ok true -> le T c b = Ok true -> le T c m = Ok true.
Proof. exact inter_glb. Qed.
Print Assumptions C33_intersection_is_glb.

(* [h] is Python's hash on feature strings: arbitrary *)
Theorem C33_equal_kinds_equal_hashes :
  forall T (h : N -> Z) a b, keq T a b = true -> khash T h a = khash T h b.
Proof. exact keq_hash. Qed.
Print Assumptions C33_equal_kinds_equal_hashes.

(* comparing kinds of different versions = comparing after upgrading the older one to the newer version *)
Theorem C33_cross_version_upgrades_older_left :
  forall T a b a', (version T a <= version T b)%N -> upgraded T a (version T b) = Some a' -> le T a b = le T a' b.
Proof. exact le_cross_version_l. Qed.
Print Assumptions C33_cross_version_upgrades_older_left.

Theorem C33_cross_version_upgrades_older_right :
  forall T a b b', (version T b <= version T a)%N -> upgraded T b (version T a) = Some b' -> le T a b = le T a b'.
Proof. exact le_cross_version_r. Qed.
Print Assumptions C33_cross_version_upgrades_older_right.

Theorem C33_cross_version_union :
  forall T a b a', (version T a <= version T b)%N -> upgraded T a (version T b) = Some a' -> union T a b = union T a' b.
Proof. exact union_cross_version_l. Qed.
Print Assumptions C33_cross_version_union.

Theorem C33_cross_version_intersection :
  forall T a b a', (version T a <= version T b)%N -> upgraded T a (version T b) = Some a' -> inter T a b = inter T a' b.
Proof. exact inter_cross_version_l. Qed.
Print Assumptions C33_cross_version_intersection.

(* the regenerated tables satisfy the decidable sanity conditions the next theorems need (checked by computation) *)
Theorem C33_gen_tables_ok : tables_ok gen_tables = true.
Proof. exact gen_tables_ok. Qed.
Print Assumptions C33_gen_tables_ok.

(* upgrading preserves <= : for any tables passing [tables_ok] ... *)
Theorem C33_upgrade_preserves_le :
  forall T, tables_ok T = true ->
  forall a b w a', wf T a = true -> wf T b = true -> version T a = version T b ->
    (version T a <= w <= t_latest T)%N ->
    le T a b = Ok true -> upgraded T a w = Some a' ->
    exists b', upgraded T b w = Some b' /\ wf T a' = true /\ wf T b' = true /\ le T a' b' = Ok true.
Proof. exact upgrade_monotone. Qed.
Print Assumptions C33_upgrade_preserves_le.

(* ... in particular for the current source *)
Theorem C33_upgrade_preserves_le_current_source :
  forall a b w a', wf gen_tables a = true -> wf gen_tables b = true -> version gen_tables a = version gen_tables b ->
    (version gen_tables a <= w <= LATEST_PROBLEM_KIND_VERSION)%N ->
    le gen_tables a b = Ok true -> upgraded gen_tables a w = Some a' ->
    exists b', upgraded gen_tables b w = Some b' /\ wf gen_tables a' = true /\ wf gen_tables b' = true
               /\ le gen_tables a' b' = Ok true.
Proof. exact gen_upgrade_monotone. Qed.
Print Assumptions C33_upgrade_preserves_le_current_source.

(* the older operand can always be upgraded (no KeyError), so <= between constructible kinds up to LATEST returns *)
Theorem C33_upgrade_defined :
  forall T, tables_ok T = true ->
  forall a w, wf T a = true -> (version T a <= w <= t_latest T)%N ->
    exists a', upgraded T a w = Some a' /\ wf T a' = true /\ version T a' = w.
Proof. exact upgraded_defined. Qed.
Print Assumptions C33_upgrade_defined.

Theorem C33_le_defined_current_source :
  forall a b, wf gen_tables a = true -> wf gen_tables b = true ->
    (version gen_tables a <= LATEST_PROBLEM_KIND_VERSION)%N -> (version gen_tables b <= LATEST_PROBLEM_KIND_VERSION)%N ->
    exists r, le gen_tables a b = Ok r.
Proof. exact gen_le_defined. Qed.
Print Assumptions C33_le_defined_current_source.

(* __le__ strips its operands in place (intersection_update on the stored sets); the stripped operands are == to the
   originals and hash the same, so a kind used as a dict key stays findable (this failed before fix c30308e) *)
Theorem C33_le_side_effect_harmless :
  forall T, tables_ok T = true ->
  forall a b r fa' fb', wf T a = true -> wf T b = true -> le_mut T a b = Ok (r, fa', fb') ->
    le T a b = Ok r
    /\ keq T {| k_feats := fa'; k_ver := k_ver a |} a = true
    /\ keq T {| k_feats := fb'; k_ver := k_ver b |} b = true
    /\ forall h, khash T h {| k_feats := fa'; k_ver := k_ver a |} = khash T h a
              /\ khash T h {| k_feats := fb'; k_ver := k_ver b |} = khash T h b.
Proof. exact le_mut_harmless. Qed.
Print Assumptions C33_le_side_effect_harmless.

(* ---------------------------------------------------------------- non-vacuity (concrete kinds over the current source) *)
Definition K (l : list N) (v : option N) : kind := {| k_feats := mask_of l; k_ver := v |}.

Example C33_le_transitive_nonvacuous :
  let a := K [f_ACTION_BASED] (Some 3%N) in
  let b := K [f_ACTION_BASED; f_NUMERIC_FLUENTS; f_INT_FLUENTS] None in      (* version 2 is computed... *)
  let b3 := K [f_ACTION_BASED; f_PROCESSES] None in                          (* ... and here 3 *)
  let c := K [f_ACTION_BASED; f_PROCESSES; f_EVENTS] (Some 3%N) in
  version gen_tables b = 2%N /\ version gen_tables a = version gen_tables b3 /\ version gen_tables b3 = version gen_tables c
  /\ le gen_tables a b3 = Ok true /\ le gen_tables b3 c = Ok true /\ le gen_tables c b3 = Ok false.
Proof. vm_compute. repeat split. Qed.

Example C33_antisymmetry_nonvacuous :       (* two different stored sets, == and <= both ways: a deprecated feature *)
  let a := K [f_INT_FLUENTS; f_NUMERIC_FLUENTS] None in
  let b := K [f_INT_FLUENTS] None in
  k_feats a <> k_feats b /\ version gen_tables a = version gen_tables b
  /\ le gen_tables a b = Ok true /\ le gen_tables b a = Ok true /\ keq gen_tables a b = true.
Proof. vm_compute. repeat split. discriminate. Qed.

Example C33_lattice_nonvacuous :
  let a := K [f_ACTION_BASED; f_CONTINUOUS_TIME] (Some 2%N) in
  let b := K [f_ACTION_BASED; f_INT_FLUENTS] None in
  wf gen_tables a = true /\ wf gen_tables b = true /\ version gen_tables a = version gen_tables b
  /\ union gen_tables a b = Ok (K [f_ACTION_BASED; f_CONTINUOUS_TIME; f_INT_FLUENTS] (Some 2%N))
  /\ inter gen_tables a b = Ok (K [f_ACTION_BASED] (Some 2%N)).
Proof. vm_compute. repeat split. Qed.

Example C33_cross_version_nonvacuous :
  let a := K [f_CONTINUOUS_NUMBERS; f_NUMERIC_FLUENTS; f_ACTIONS_COST] (Some 1%N) in
  let b := K [f_REAL_FLUENTS; f_ACTIONS_COST; f_INT_NUMBERS_IN_ACTIONS_COST; f_REAL_NUMBERS_IN_ACTIONS_COST] None in
  (version gen_tables a <= version gen_tables b)%N
  /\ upgraded gen_tables a (version gen_tables b)
     = Some (K [f_REAL_FLUENTS; f_ACTIONS_COST; f_INT_NUMBERS_IN_ACTIONS_COST; f_REAL_NUMBERS_IN_ACTIONS_COST] (Some 2%N))
  /\ le gen_tables a b = Ok true /\ le gen_tables b a = Ok true
  /\ keq gen_tables a b = false.        (* == never upgrades: kinds of different versions are unequal (design reading) *)
Proof. vm_compute. repeat split; discriminate. Qed.

Example C33_upgrade_preserves_le_nonvacuous :
  let a := K [f_DISCRETE_NUMBERS; f_NUMERIC_FLUENTS] (Some 1%N) in
  let b := K [f_DISCRETE_NUMBERS; f_NUMERIC_FLUENTS; f_DISCRETE_TIME] None in
  wf gen_tables a = true /\ wf gen_tables b = true /\ version gen_tables a = version gen_tables b
  /\ le gen_tables a b = Ok true
  /\ upgraded gen_tables a 3%N = Some (K [f_INT_FLUENTS] (Some 3%N))
  /\ upgraded gen_tables b 3%N = Some (K [f_INT_FLUENTS; f_DISCRETE_TIME; f_INT_TYPE_DURATIONS] (Some 3%N)).
Proof. vm_compute. repeat split. Qed.

Example C33_le_side_effect_nonvacuous :
  let a := K [f_NUMERIC_FLUENTS; f_ACTION_BASED] (Some 2%N) in
  le_mut gen_tables a a = Ok (true, mask_of [f_ACTION_BASED], mask_of [f_ACTION_BASED]) /\ wf gen_tables a = true.
Proof. vm_compute. repeat split. Qed.

(* what fix c30308e repaired: the previous __hash__ (sum over all stored features) separated equal kinds *)
Example C33_hash_before_fix_refuted :
  exists (h : N -> Z) a b, wf gen_tables a = true /\ wf gen_tables b = true /\ keq gen_tables a b = true
    /\ khash_old h a <> khash_old h b /\ khash gen_tables h a = khash gen_tables h b.
Proof.
  exists (fun f => Z.of_N f + 1)%Z, (K [f_INT_FLUENTS; f_NUMERIC_FLUENTS] None), (K [f_INT_FLUENTS] None).
  vm_compute. repeat split; discriminate.
Qed.
