(* C28 — Timed-to-sequential plans convert back to valid temporal plans.
   Only statements; each is closed by [exact] of a lemma from Proofs/T2S_proofs.v.
   Model: Model/T2S.v ([back_conv] = plan_back_conversion_callable after the repair of finding #28).
   PROVED here (for all epsilons, states, bound expressions, plans): the duration choice and the spacing.
   NOT proved, VALIDATED by harness/props/c28.py on enumerated plans with the real validators: "time-triggered
   validation accepts the converted plan" (needs the compiler and both validators; see notes/C28.md). *)
From Coq Require Import List ZArith NArith QArith Bool.
Import ListNotations.
Require Import UPV.Model.T2S UPV.Proofs.T2S_proofs.
Open Scope Q_scope.

(* every non-empty interval, any openness combination: [lo,hi] ]lo,hi] [lo,hi[ ]lo,hi[ *)
Theorem C28_chosen_duration_in_interval :
  forall lo hi lopen ropen,
    nonempty lo hi lopen ropen -> in_interval (choose_duration lo hi lopen) lo hi lopen ropen.
Proof. exact chosen_duration_in_interval. Qed.
Print Assumptions C28_chosen_duration_in_interval.

(* ... for every step of every converted plan, with the (constant or fluent-dependent) bounds evaluated in the state in
   which the action starts *)
Theorem C28_plan_durations_in_intervals :
  forall eps steps now out, back_conv eps now steps = Some out -> Forall2 step_entry_in_interval steps out.
Proof. exact back_conv_durations_in_intervals. Qed.
Print Assumptions C28_plan_durations_in_intervals.

(* spacing: each action starts strictly after the previous one ends (epsilon > 0: guaranteed by the epsilon setter
   after `fix: reject a zero epsilon`, and by the default 1/100) *)
Theorem C28_no_overlap_between_consecutive :
  forall eps steps now out, 0 < eps -> back_conv eps now steps = Some out -> consecutive_after out.
Proof. exact no_overlap_between_consecutive. Qed.
Print Assumptions C28_no_overlap_between_consecutive.

(* exactly epsilon after it *)
Theorem C28_consecutive_exactly_epsilon_apart :
  forall eps steps now out, back_conv eps now steps = Some out -> chained eps out.
Proof. exact back_conv_chained. Qed.
Print Assumptions C28_consecutive_exactly_epsilon_apart.

(* with non-negative durations no two actions overlap at all *)
Theorem C28_no_overlap_all_pairs :
  forall eps steps now out, 0 < eps -> back_conv eps now steps = Some out ->
    Forall (fun e => 0 <= dur_of e) out -> ForallOrdPairs (fun a b => end_of a < fst b) out.
Proof. exact no_overlap_all_pairs. Qed.
Print Assumptions C28_no_overlap_all_pairs.

Theorem C28_first_action_starts_at_origin :
  forall eps steps now e out, back_conv eps now steps = Some (e :: out) -> fst e = now.
Proof. exact first_starts_at_origin. Qed.
Print Assumptions C28_first_action_starts_at_origin.

(* the boolean judges that the harness evaluates (inside Coq) on the plan returned by the implementation *)
Theorem C28_interval_judge_sound :
  forall d lo hi lopen ropen, in_intervalb d lo hi lopen ropen = true -> in_interval d lo hi lopen ropen.
Proof. exact in_intervalb_sound. Qed.
Print Assumptions C28_interval_judge_sound.

Theorem C28_spacing_judge_sound : forall out, spaced out = true -> consecutive_after out.
Proof. exact spaced_sound. Qed.
Print Assumptions C28_spacing_judge_sound.

(* ---------------------------------------------------------------- non-vacuity *)
Example C28_interval_nonvacuous :
  nonempty 5 10 true false /\ choose_duration 5 10 true = 15 # 2
  /\ nonempty 5 10 true true /\ nonempty 5 10 false true /\ choose_duration 5 10 false = 5
  /\ nonempty 5 5 false false /\ ~ nonempty 5 5 true false.
Proof. repeat split; try reflexivity; intro H; discriminate H. Qed.

Definition exSteps : list sstep :=
  [ {| s_kind := SDur (BFluent 1%N [AParam 0%nat]) (BPlus (BFluent 1%N [AParam 0%nat]) (BConst 2)) true false;
       s_params := [4%N]; s_state := [((1%N, [4%N]), 3)] |};
    {| s_kind := SInst; s_params := []; s_state := [] |};
    {| s_kind := SDur (BConst 5) (BConst 10) false true; s_params := []; s_state := [] |} ].

Example C28_plan_nonvacuous :
  back_conv (1 # 100) 0 exSteps = Some [ (0, Some 4); (401 # 100, None); (201 # 50, Some 5) ] /\ 0 < 1 # 100.
Proof. split; [vm_compute; reflexivity | reflexivity]. Qed.

Example C28_judges_nonvacuous :
  entries_ok exSteps [ (0, Some 4); (401 # 100, None); (201 # 50, Some 5) ] = true
  /\ spaced [ (0, Some 4); (401 # 100, None); (201 # 50, Some 5) ] = true.
Proof. split; vm_compute; reflexivity. Qed.

(* finding #28 (repaired): the code before the fix chose the minimum time step for a left-open interval *)
Example C28_before_fix_refuted :
  exists eps lo hi lopen ropen,
    nonempty lo hi lopen ropen /\ ~ in_interval (choose_duration_before_fix eps lo lopen) lo hi lopen ropen.
Proof.
  exists (1 # 100), 5, 10, true, false. split; [reflexivity|].
  unfold in_interval, choose_duration_before_fix. intros [H _]. discriminate H.
Qed.
