(* C21 — The two PDDL readers produce equivalent problems (validated property).

   Neither parser is modelled.  Proved, for all inputs: when [bisim_check] accepts the problems produced by the two
   readers from the same text (serialised with one numbering of the names in the text) then they have the same objects
   per type and the same initial state, and every plan over the well-typed ground instances has the same run, the same
   validity and the same metric value in both (closed product graph: all plans; otherwise plans up to the explored
   depth); the optimisation direction and the metric class coincide.  [metric_eqb] is the structural comparison of the
   two metrics: same direction and class, the same cost expression for every action, the same final-state expression /
   goal weights. *)
From Coq Require Import List ZArith NArith QArith Qcanon Bool.
Import ListNotations.
Require Import UPV.Core.Expr UPV.Core.Eval UPV.Core.Interp UPV.Planning.Problem UPV.Planning.Sem UPV.Planning.SeqValidate.
Require Import UPV.Proofs.Step_proofs UPV.Compilers.BisimCheck UPV.Proofs.BisimCheck_proofs.

Theorem C21_bisim_check_correct :
  forall P Q MP MQ sigsP sigsQ l0P l0Q n cap,
    bisim_check P Q MP MQ sigsP sigsQ l0P l0Q n cap = BClosed ->
    forall plan, Forall (fun i => In i (all_insts P sigsP)) plan ->
      validate_from false P (qm_m MP) (spec_step false P) (st_of l0P) (zq 0) plan =
      validate_from false Q (qm_m MQ) (spec_step false Q) (st_of l0Q) (zq 0) plan /\
      ostate_eq (run P (spec_step false P) (st_of l0P) plan) (run Q (spec_step false Q) (st_of l0Q) plan) /\
      valid_plan false P (st_of l0P) plan = valid_plan false Q (st_of l0Q) plan.
Proof. exact bisim_check_closed_sound. Qed.
Print Assumptions C21_bisim_check_correct.

Theorem C21_bisim_check_correct_bounded :
  forall P Q MP MQ sigsP sigsQ l0P l0Q n cap b,
    bisim_check P Q MP MQ sigsP sigsQ l0P l0Q n cap = BBounded b ->
    forall plan, (length plan <= b)%nat -> Forall (fun i => In i (all_insts P sigsP)) plan ->
      validate_from false P (qm_m MP) (spec_step false P) (st_of l0P) (zq 0) plan =
      validate_from false Q (qm_m MQ) (spec_step false Q) (st_of l0Q) (zq 0) plan /\
      ostate_eq (run P (spec_step false P) (st_of l0P) plan) (run Q (spec_step false Q) (st_of l0Q) plan) /\
      valid_plan false P (st_of l0P) plan = valid_plan false Q (st_of l0Q) plan.
Proof. exact bisim_check_bounded_sound. Qed.
Print Assumptions C21_bisim_check_correct_bounded.

Theorem C21_bisim_check_static :
  forall P Q MP MQ sigsP sigsQ l0P l0Q n cap,
    (forall w tr i, bisim_check P Q MP MQ sigsP sigsQ l0P l0Q n cap <> BFail w tr i) ->
    (forall t o, In o (objs_of P t) <-> In o (objs_of Q t)) /\
    (forall i, In i (all_insts P sigsP) <-> In i (all_insts Q sigsP)) /\
    state_eq (st_of l0P) (st_of l0Q) /\
    qm_max MP = qm_max MQ /\ mclass (qm_m MP) = mclass (qm_m MQ).
Proof. exact bisim_check_static. Qed.
Print Assumptions C21_bisim_check_static.

Theorem C21_metric_eqb_sound :
  forall acts a b, metric_eqb acts a b = true ->
    qm_max a = qm_max b /\ mclass (qm_m a) = mclass (qm_m b) /\
    (forall aid, In aid acts -> cost_of (qm_m a) aid = cost_of (qm_m b) aid) /\
    (forall e, qm_m a = MFinal e -> qm_m b = MFinal e) /\
    (forall g, qm_m a = MOversub g -> qm_m b = MOversub g).
Proof. exact metric_eqb_sound. Qed.
Print Assumptions C21_metric_eqb_sound.

(* ---------------------------------------------------------------- non-vacuity *)
Definition ex_P : problem :=
  {| p_objs := [(0%N, [0%N; 1%N])]; p_ifun := [];
     p_fluents := [{| fd_id := 0%N; fd_sig := [0%N]; fd_ty := FBool |}; {| fd_id := 1%N; fd_sig := []; fd_ty := FNum None None |}];
     p_actions := [(0%N, {| a_params := [0%N]; a_pre := [ENot (EFluent 0%N [EParam 0%N])];
                            a_effs := [{| e_fl := 0%N; e_args := [EParam 0%N]; e_val := EBool true; e_cond := EBool true;
                                          e_kind := KAssign; e_vars := []; e_isbool := true |}] |})];
     p_goals := [EFluent 0%N [EObj 0%N]; EFluent 0%N [EObj 1%N]]; p_invs := [] |}.
Definition ex_init : fstate := [(0%N, [VObj 0%N], VBool false); (0%N, [VObj 1%N], VBool false); (1%N, [], VNum (zq 3))].
(* explicit costs vs. the same costs through the default; a dropped cost *)
Definition ex_M1 : qmetric := {| qm_max := false; qm_m := MCosts [(0%N, EFluent 1%N [])] None |}.
Definition ex_M2 : qmetric := {| qm_max := false; qm_m := MCosts [] (Some (EFluent 1%N [])) |}.
Definition ex_M3 : qmetric := {| qm_max := false; qm_m := MCosts [] (Some (EInt 0)) |}.

Example C21_bisim_check_correct_nonvacuous :
  bisim_check ex_P ex_P ex_M1 ex_M2 [(0%N, [0%N])] [(0%N, [0%N])] ex_init ex_init 6 100 = BClosed /\
  validate_from false ex_P (qm_m ex_M1) (spec_step false ex_P) (st_of ex_init) (zq 0) [(0%N, [VObj 1%N]); (0%N, [VObj 0%N])]
    = Valid (Some (zq 6)).
Proof. vm_compute. split; reflexivity. Qed.
Example C21_bisim_check_correct_bounded_nonvacuous :
  bisim_check ex_P ex_P ex_M1 ex_M2 [(0%N, [0%N])] [(0%N, [0%N])] ex_init ex_init 1 100 = BBounded 1.
Proof. vm_compute. reflexivity. Qed.
Example C21_bisim_check_static_nonvacuous :
  forall w tr i, bisim_check ex_P ex_P ex_M1 ex_M2 [(0%N, [0%N])] [(0%N, [0%N])] ex_init ex_init 6 100 <> BFail w tr i.
Proof. intros. vm_compute. discriminate. Qed.
(* a lost action cost is found on the first instance *)
Example C21_bisim_check_rejects_metric :
  bisim_check ex_P ex_P ex_M1 ex_M3 [(0%N, [0%N])] [(0%N, [0%N])] ex_init ex_init 6 100 = BFail 6 [] (Some (0%N, [VObj 0%N])).
Proof. vm_compute. reflexivity. Qed.
Example C21_metric_eqb_sound_nonvacuous :
  metric_eqb [0%N] ex_M1 ex_M2 = true /\ metric_eqb [0%N] ex_M1 ex_M3 = false.
Proof. vm_compute. split; reflexivity. Qed.
