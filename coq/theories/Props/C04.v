(* C04 — Time-triggered and sequential validation agree on instantaneous plans.

   [tt_validate] (Planning/TTValidate.v) models TimeTriggeredPlanValidator._validate on the repaired code
   (bec5108 bounded types, 011fe6a invariants in the final state, 74b68a3 same value twice, e93aea2 forall instances),
   [seq_validate] (Planning/SeqValidate.v) models SequentialPlanValidator._validate.  [schedule plan times] starts the
   i-th action instance at the i-th time; [sort_by_time plan times] is the same instances in start-time order
   (an insertion sort on the start time, independent of the validator's own ordering of the start list). *)
From Coq Require Import List ZArith NArith QArith Qcanon Bool.
Import ListNotations.
Require Import UPV.Core.Expr UPV.Core.Eval UPV.Core.Interp UPV.Planning.Problem UPV.Planning.Sem UPV.Planning.SeqValidate.
Require Import UPV.Planning.Temporal UPV.Planning.TTValidate UPV.Planning.TTSeq.
Require Import UPV.Proofs.Step_proofs UPV.Proofs.SeqValidate_proofs UPV.Proofs.TTSeq_proofs.
Local Open Scope Qc_scope.

(* For every problem with only instantaneous actions, no timed effects or timed goals and an initial state that
   satisfies its invariants (state invariants and bounded types), a time-triggered plan with pairwise distinct
   (non-negative) start times gets the verdict the sequential validator gives to the same action instances in
   start-time order.  [plan_typed]: Boolean fluents are only assigned Booleans (C01's typing hypothesis). *)
Theorem C04_tt_seq_agree :
  forall sc (TP : tproblem) (s0 : state) (plan : list (N * list value)) (times : list Qc),
    instantaneous TP -> no_timed TP -> plan_typed sc (tp_base TP) -> init_ok sc TP s0 ->
    NoDup times -> (forall t, In t times -> zq 0 <= t) ->
    tt_validate sc TP s0 (schedule plan times) =
    verdict_of (seq_validate sc (tp_base TP) MNone s0 (sort_by_time plan times)).
Proof. intros sc TP s0 plan times I N T. exact (tt_seq_agree sc TP I N T s0 plan times). Qed.
Print Assumptions C04_tt_seq_agree.

(* "In particular, both validators enforce bounded numeric types and state invariants": a plan VALID for the
   time-triggered validator is executed step by step by the simulator's apply, which checks the state invariants and
   the bounded types ([invariants_ok] = p_invs ++ bound_invs) in every successor state *)
Theorem C04_valid_means_sequentially_executable :
  forall sc (TP : tproblem) (s0 : state) (plan : list (N * list value)) (times : list Qc),
    instantaneous TP -> no_timed TP -> plan_typed sc (tp_base TP) -> init_ok sc TP s0 ->
    NoDup times -> (forall t, In t times -> zq 0 <= t) ->
    tt_validate sc TP s0 (schedule plan times) = VALID ->
    exists tr fin, SeqValidate.trace (tp_base TP) (sim_apply sc (tp_base TP)) s0 (sort_by_time plan times) = Some (tr, fin) /\
                   goals_hold sc (tp_base TP) fin = true.
Proof.
  intros sc TP s0 plan times I N T IO ND NN V.
  rewrite (tt_seq_agree sc TP I N T s0 plan times IO ND NN) in V.
  rewrite seq_validate_spec in V.
  destruct (SeqValidate.trace (tp_base TP) (sim_apply sc (tp_base TP)) s0 (sort_by_time plan times)) as [[tr fin]|]; [|discriminate].
  exists tr, fin. split; [reflexivity|]. destruct (goals_hold sc (tp_base TP) fin); [reflexivity | discriminate].
Qed.
Print Assumptions C04_valid_means_sequentially_executable.

(* ---------------- non-vacuity: one bounded counter c : integer[0, 2], action inc: c += 1, goal c >= 2.
   Two steps (scheduled out of order) are VALID for both, three steps push c to 3: INVALID for both (DESIGN.md #8). *)
Definition ex_P : problem :=
  {| p_objs := []; p_ifun := [];
     p_fluents := [ {| fd_id := 0%N; fd_sig := []; fd_ty := FNum (Some (zq 0)) (Some (zq 2)) |} ];
     p_actions := [ (0%N, {| a_params := []; a_pre := [];
                             a_effs := [ {| e_fl := 0%N; e_args := []; e_val := EInt 1; e_cond := EBool true;
                                            e_kind := KInc; e_vars := []; e_isbool := false |} ] |}) ];
     p_goals := [ELe (EInt 2) (EFluent 0%N [])]; p_invs := [] |}.
Definition ex_TP : tproblem := {| tp_base := ex_P; tp_dur := []; tp_teffs := []; tp_tgoals := [] |}.
Definition ex_s0 : state := fun _ _ => Some (VNum (zq 0)).

Lemma ex_typed : plan_typed true ex_P.
Proof.
  intros s aid a args _ acts _. apply forallb_forall. intros x _. unfold wt_aeff, is_bool_fluent. cbn.
  destruct (fst (ae_key x)); reflexivity.
Qed.

Example C04_nonvacuous :
  instantaneous ex_TP /\ no_timed ex_TP /\ plan_typed true ex_P /\ init_ok true ex_TP ex_s0 /\
  tt_validate true ex_TP ex_s0 (schedule [(0%N, []); (0%N, [])] [qc 7 2; qc 1 3]) = VALID /\
  seq_validate true ex_P MNone ex_s0 (sort_by_time [(0%N, []); (0%N, [])] [qc 7 2; qc 1 3]) = Valid None /\
  tt_validate true ex_TP ex_s0 (schedule [(0%N, []); (0%N, []); (0%N, [])] [qc 7 2; qc 1 3; qc 5 1]) = INVALID /\
  seq_validate true ex_P MNone ex_s0 (sort_by_time [(0%N, []); (0%N, []); (0%N, [])] [qc 7 2; qc 1 3; qc 5 1]) = Invalid.
Proof.
  split; [reflexivity|]. split; [split; reflexivity|]. split; [exact ex_typed|].
  split; [vm_compute; reflexivity|]. vm_compute. repeat split; reflexivity.
Qed.
