(* C35 — Simulated execution environment is faithful to its contingent problem.
   Statements only (about Model/ExecEnv.v, which mirrors the repaired contingent/execution_environment.py); each is
   closed by [exact] of a lemma from Proofs/ExecEnv_proofs.v.  pysmt's model enumeration + random.choice is the Section
   variable [pick] of the model (an arbitrary function here); that its answer satisfies the constraints is validated
   per run by the correspondence (Corr/Corr_C35.v, with Coq's evaluator). *)
From Coq Require Import List ZArith NArith QArith Qcanon Bool.
Import ListNotations.
Require Import UPV.Core.Expr UPV.Core.Eval UPV.Core.Interp UPV.Planning.Problem UPV.Planning.Sem.
Require Import UPV.Model.ExecEnv UPV.Proofs.ExecEnv_proofs.

(* ---- "Every non-hidden fluent takes the problem's declared initial value, whether explicit, a per-fluent default or
   a per-type default": for every problem, every chosen hidden assignment, every ground instance of a declared fluent.
   When nothing is declared the environment answers false (closed world). *)
Theorem C35_det_clone_initial_values :
  forall P chi k fd,
    find_fd (cp_base P) (fst k) = Some fd -> is_hidden P k = false ->
    init_state P chi (fst k) (snd k) =
    Some (match declared_init P k with Some v => v | None => VBool false end).
Proof. exact init_state_non_hidden. Qed.
Print Assumptions C35_det_clone_initial_values.

Theorem C35_declared_value_taken :
  forall P chi k fd v,
    find_fd (cp_base P) (fst k) = Some fd -> is_hidden P k = false -> declared_init P k = Some v ->
    init_state P chi (fst k) (snd k) = Some v.
Proof. exact init_state_declared. Qed.
Print Assumptions C35_declared_value_taken.

(* declared_init is: explicit > per-fluent default > per-type default *)
Theorem C35_declared_init_levels :
  forall P k fd,
    find_fd (cp_base P) (fst k) = Some fd ->
    declared_init P k =
    match lookup_app (fst k) (snd k) (cp_explicit P) with
    | Some v => Some v
    | None => match lookupN (fst k) (cp_fdefault P) with
              | Some v => Some v
              | None => type_default (cp_tdefault P) (cp_ftype P) (fst k)
              end
    end.
Proof. exact declared_init_levels. Qed.
Print Assumptions C35_declared_init_levels.

(* ---- hidden part: a hidden ground fluent carries the value the oracle chose, whatever was declared for it *)
Theorem C35_hidden_value_is_chosen :
  forall P chi k, is_hidden P k = true -> init_state P chi (fst k) (snd k) = Some (VBool (chi k)).
Proof. exact init_state_hidden. Qed.
Print Assumptions C35_hidden_value_is_chosen.

(* ... hence the initial STATE satisfies the oneof / or constraints (read with the expression evaluator) exactly when
   the chosen assignment is a model of ExactlyOne / Or; [wf_hidden] = every constrained literal is a hidden literal *)
Theorem C35_constraints_hold_iff_chosen_is_model :
  forall P chi, wf_hidden P ->
    constraints_hold P (init_state P chi) = sat_assign chi (cp_oneof P) (cp_or P).
Proof. exact constraints_hold_init. Qed.
Print Assumptions C35_constraints_hold_iff_chosen_is_model.

(* [wf_hidden] is an invariant of the ContingentProblem API *)
Theorem C35_api_keeps_constraints_hidden :
  forall P, wf_hidden P ->
    (forall c, wf_hidden (add_oneof P c)) /\ (forall c, wf_hidden (add_or P c)) /\ (forall k, wf_hidden (add_unknown P k)).
Proof.
  intros P W. split; [|split]; intros x;
    [apply wf_hidden_add_oneof | apply wf_hidden_add_or | apply wf_hidden_add_unknown]; exact W.
Qed.
Print Assumptions C35_api_keeps_constraints_hidden.

(* the constructor, for ANY oracle that only returns models: constraints hold and declared values are taken *)
Theorem C35_env_init_faithful :
  forall pick P s0,
    wf_hidden P ->
    (forall chi, pick (hidden_atoms P) (cp_oneof P) (cp_or P) = Some chi ->
                 sat_assign chi (cp_oneof P) (cp_or P) = true) ->
    env_init pick P = Some s0 ->
    constraints_hold P s0 = true /\
    forall k fd, find_fd (cp_base P) (fst k) = Some fd -> is_hidden P k = false ->
      s0 (fst k) (snd k) = Some (match declared_init P k with Some v => v | None => VBool false end).
Proof. exact env_init_faithful. Qed.
Print Assumptions C35_env_init_faithful.

(* ---- "Actions are executed exactly as the sequential simulator executes them on that state": one apply ... *)
Theorem C35_apply_is_sim_apply :
  forall P s aid args,
    option_map fst (env_apply P s aid args) =
    match lookup_action (cp_base P) aid with
    | Some a => sim_apply true (cp_base P) s a args
    | None => None
    end.
Proof. exact env_apply_state. Qed.
Print Assumptions C35_apply_is_sim_apply.

(* ... and every action sequence from every state (induction over the sequence) *)
Theorem C35_run_is_sim_run :
  forall P plan s, env_run P s plan = run (cp_base P) (sim_apply true (cp_base P)) s plan.
Proof. exact env_run_is_sim_run. Qed.
Print Assumptions C35_run_is_sim_run.

Theorem C35_is_goal_reached :
  forall P s, env_is_goal P s = goals_hold true (cp_base P) s.
Proof. exact env_is_goal_spec. Qed.
Print Assumptions C35_is_goal_reached.

(* ---- "the returned observations are the current values of the sensed fluents": current = the state AFTER the applied
   action (apply reassigns self._state before it reads the observed fluents).  Rows = exactly the observed fluents of
   the sensing action with the actual parameters substituted; an ordinary action observes nothing. *)
Theorem C35_observation_is_current_value :
  forall P s aid args s' obs,
    env_apply P s aid args = Some (s', Some obs) ->
    env_step P s aid args = Some s' /\
    (forall k v, In (k, v) obs -> v = s' (fst k) (snd k)) /\
    (lookupN aid (cp_observed P) = None -> obs = []) /\
    (forall ofl a, lookupN aid (cp_observed P) = Some ofl -> lookup_action (cp_base P) aid = Some a ->
       let pars := zip_params (a_params a) args in
       (forall f eargs vs, In (f, eargs) ofl -> inst_args pars eargs = Some vs -> In ((f, vs), s' f vs) obs) /\
       (forall k v, In (k, v) obs -> exists eargs, In (fst k, eargs) ofl /\ inst_args pars eargs = Some (snd k))).
Proof. exact env_obs_spec. Qed.
Print Assumptions C35_observation_is_current_value.

(* ------------------------------------------------------------------ non-vacuity *)
(* fluents: 0 = f (Bool, per-fluent default true, type default false), 1 = g (Bool, type default only),
   2 = h(x : T0) (Bool, hidden: oneof h(o0) h(o1)), 3 = n (int[0,3], explicit 2);
   actions: 0 = sense(p : T0) observes h(p) and f, with effect g := true; 1 = flip: f := false *)
Definition exP : cproblem :=
  {| cp_base :=
       {| p_objs := [(0%N, [0%N; 1%N])]; p_ifun := [];
          p_fluents := [ {| fd_id := 0%N; fd_sig := []; fd_ty := FBool |}; {| fd_id := 1%N; fd_sig := []; fd_ty := FBool |};
                         {| fd_id := 2%N; fd_sig := [0%N]; fd_ty := FBool |};
                         {| fd_id := 3%N; fd_sig := []; fd_ty := FNum (Some (qc 0 1)) (Some (qc 3 1)) |} ];
          p_actions := [ (0%N, {| a_params := [0%N]; a_pre := [];
                                  a_effs := [ {| e_fl := 1%N; e_args := []; e_val := EBool true; e_cond := EBool true;
                                                 e_kind := KAssign; e_vars := []; e_isbool := true |} ] |});
                         (1%N, {| a_params := []; a_pre := [EFluent 0%N []];
                                  a_effs := [ {| e_fl := 0%N; e_args := []; e_val := EBool false; e_cond := EBool true;
                                                 e_kind := KAssign; e_vars := []; e_isbool := true |} ] |}) ];
          p_goals := [EFluent 1%N []]; p_invs := [] |};
     cp_observed := [(0%N, [(2%N, [EParam 0%N]); (0%N, [])])];
     cp_explicit := [(3%N, [], VNum (qc 2 1))];
     cp_fdefault := [(0%N, VBool true)];
     cp_ftype := [(0%N, 0%N); (1%N, 0%N); (2%N, 0%N); (3%N, 1%N)];
     cp_tdefault := [(0%N, VBool false)];
     cp_hidden := [ {| l_pos := true; l_key := (2%N, [VObj 0%N]) |}; {| l_pos := true; l_key := (2%N, [VObj 1%N]) |} ];
     cp_oneof := [[ {| l_pos := true; l_key := (2%N, [VObj 0%N]) |}; {| l_pos := true; l_key := (2%N, [VObj 1%N]) |} ]];
     cp_or := [] |}.

Definition exChi : gfl -> bool := fun k => gfl_eqb k (2%N, [VObj 1%N]).

Example C35_det_clone_initial_values_nonvacuous :
  (* per-fluent default wins over the type default (defect #31), type default, explicit value *)
  init_state exP exChi 0%N [] = Some (VBool true) /\ declared_init exP (0%N, []) = Some (VBool true) /\
  is_hidden exP (0%N, []) = false /\
  init_state exP exChi 1%N [] = Some (VBool false) /\ init_state exP exChi 3%N [] = Some (VNum (qc 2 1)) /\
  init_state exP exChi 2%N [VObj 1%N] = Some (VBool true) /\ is_hidden exP (2%N, [VObj 1%N]) = true /\
  constraints_hold exP (init_state exP exChi) = true /\ sat_assign exChi (cp_oneof exP) (cp_or exP) = true.
Proof. vm_compute. repeat split; reflexivity. Qed.

Example C35_env_init_faithful_nonvacuous :
  exists s0, env_init (fun _ _ _ => Some exChi) exP = Some s0 /\ constraints_hold exP s0 = true.
Proof. eexists. split; [vm_compute; reflexivity | vm_compute; reflexivity]. Qed.

Example C35_apply_observation_nonvacuous :
  exists s' obs,
    env_apply exP (init_state exP exChi) 0%N [VObj 1%N] = Some (s', Some obs) /\
    map (fun r => (fst r, snd r)) obs = [((2%N, [VObj 1%N]), Some (VBool true)); ((0%N, []), Some (VBool true))] /\
    s' 1%N [] = Some (VBool true) /\ env_is_goal exP s' = true /\ env_is_goal exP (init_state exP exChi) = false /\
    (* the precondition of flip holds only because f starts with its per-fluent default *)
    (exists s'', env_run exP (init_state exP exChi) [(0%N, [VObj 0%N]); (1%N, [])] = Some s'' /\ s'' 0%N [] = Some (VBool false)) /\
    env_run exP (init_state exP exChi) [(1%N, []); (1%N, [])] = None.
Proof.
  eexists. eexists. split; [vm_compute; reflexivity|].
  split; [vm_compute; reflexivity|]. split; [vm_compute; reflexivity|].
  split; [vm_compute; reflexivity|]. split; [vm_compute; reflexivity|].
  split; [eexists; split; vm_compute; reflexivity | vm_compute; reflexivity].
Qed.
