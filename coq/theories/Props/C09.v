(* C09 -- Declared resulting problem kind over-approximates the compiled problem's kind.
   Part (i) is PROVED here: a pipeline selected by the factory from a problem kind accepts each intermediate problem, provided the
   actual kind of every intermediate problem is within the kind the factory declared for that stage.
   Part (ii) -- "for every compiler and every supported input problem, kind(compiled) <= resulting_problem_kind(kind(input))" -- speaks
   about the compilers' code, which is not modelled: it is kept as [C09_declared_overapproximates_goal] and VALIDATED on every run
   (harness/props/c09.py + Corr/Corr_C09.v: the inclusion is decided inside Coq on the implementation's actual kinds, for every
   compiler on the example problems, and stage by stage on factory pipelines).
   Only statements; each is closed by [exact] of a lemma from Proofs/Pipeline_proofs.v / Factory_gen_proofs.v. *)
From Coq Require Import List NArith Bool String.
Import ListNotations.
Require Import UPV.Model.Kind UPV.Model.Factory UPV.Proofs.Factory_proofs UPV.Proofs.Pipeline_proofs.
Require Import UPV.Gen.Gen_Kind UPV.Gen.Gen_Engines UPV.Proofs.Factory_gen_proofs.

(* (ii), for an arbitrary (unmodelled) compile function and kind computation *)
Definition C09_declared_overapproximates_goal (T : tables) (problem : Type) (kind_of : problem -> kind)
           (compile : engine -> problem -> problem) (e : engine) : Prop :=
  forall P d, supports T e (kind_of P) = Ok true -> run_resulting T (e_resulting e) (kind_of P) = Ok d ->
              le T (kind_of (compile e P)) d = Ok true.

(* a compiler that supports a kind supports every kind below it (kinds of one version) *)
Theorem C09_supports_downward_closed :
  forall T e a d, version T a = version T d -> version T d = version T (e_supported e) ->
    le T a d = Ok true -> supports T e d = Ok true -> supports T e a = Ok true.
Proof. exact supports_downward. Qed.
Print Assumptions C09_supports_downward_closed.

(* (i): [steps] = the compilers chosen by Factory.Compiler(problem_kind=k0, compilation_kinds=cks) with the kind declared for each
   stage; [actual] = the kinds of the problems really handed to the stages.  If each actual kind is within the declared one
   (and of the pipeline's version), every compiler of the pipeline supports the problem it receives. *)
Theorem C09_pipeline_accepts :
  forall T reg prefs cks k0 steps final v actual,
    pipeline T reg prefs None cks k0 = Pipe steps final -> k_ver k0 = Some v ->
    (forall n e, lookup n reg = Some e -> version T (e_supported e) = v) ->
    Forall2 (within T v) actual steps -> Forall2 (accepted T) actual steps.
Proof. exact pipeline_accepts. Qed.
Print Assumptions C09_pipeline_accepts.

Theorem C09_within_accepted_unfolded :
  forall T v a st, (within T v a st <-> version T a = v /\ le T a (snd st) = Ok true)
                   /\ (accepted T a st <-> le T a (e_supported (snd (fst st))) = Ok true).
Proof. exact within_accepted_unfolded. Qed.
Print Assumptions C09_within_accepted_unfolded.

(* for the regenerated built-in registry (every supported kind is declared at LATEST) and any preference list *)
Theorem C09_pipeline_accepts_builtin :
  forall prefs cks k0 steps final actual,
    pipeline gen_tables builtin_engines prefs None cks k0 = Pipe steps final ->
    k_ver k0 = Some LATEST_PROBLEM_KIND_VERSION ->
    Forall2 (within gen_tables LATEST_PROBLEM_KIND_VERSION) actual steps ->
    Forall2 (accepted gen_tables) actual steps.
Proof. exact builtin_pipeline_accepts. Qed.
Print Assumptions C09_pipeline_accepts_builtin.

(* the declared kinds of all stages carry the version of the requested kind *)
Theorem C09_declared_versions :
  forall T reg prefs k steps cks final v, chain T reg prefs k steps cks final -> k_ver k = Some v ->
    Forall (fun st => k_ver (snd st) = Some v) steps /\ k_ver final = Some v.
Proof. exact chain_versions. Qed.
Print Assumptions C09_declared_versions.

(* ---------------------------------------------------------------- non-vacuity over the current source *)
Definition K (l : list N) : kind := {| k_feats := mask_of l; k_ver := Some LATEST_PROBLEM_KIND_VERSION |}.

(* (top-level definitions rather than `let … in` in the statement: coqchk 8.16 rejects the VM-cast proof term of a
   let-bound statement with "Type error: ActualType" although the kernel accepts it) *)
Definition ex_prefs := ["up_quantifiers_remover"; "up_negative_conditions_remover"]%string.
Definition ex_k0 := K [f_ACTION_BASED; f_EXISTENTIAL_CONDITIONS; f_NEGATIVE_CONDITIONS; f_EQUALITIES; f_FLAT_TYPING].
Definition ex_k1 := K [f_ACTION_BASED; f_DISJUNCTIVE_CONDITIONS; f_NEGATIVE_CONDITIONS; f_EQUALITIES; f_FLAT_TYPING].
Definition ex_k2 := K [f_ACTION_BASED; f_DISJUNCTIVE_CONDITIONS; f_EQUALITIES; f_FLAT_TYPING].
Example C09_pipeline_accepts_nonvacuous :
  pipeline gen_tables builtin_engines ex_prefs None [ck_QUANTIFIERS_REMOVING; ck_NEGATIVE_CONDITIONS_REMOVING] ex_k0
  = Pipe [("up_quantifiers_remover"%string, E_up_quantifiers_remover, ex_k0);
          ("up_negative_conditions_remover"%string, E_up_negative_conditions_remover, ex_k1)] ex_k2
  /\ Forall2 (within gen_tables LATEST_PROBLEM_KIND_VERSION)
             [ex_k0; K [f_ACTION_BASED; f_NEGATIVE_CONDITIONS; f_FLAT_TYPING]]    (* an actual stage-1 kind strictly below ex_k1 *)
             [("up_quantifiers_remover"%string, E_up_quantifiers_remover, ex_k0);
              ("up_negative_conditions_remover"%string, E_up_negative_conditions_remover, ex_k1)].
Proof.
  split; [vm_compute; reflexivity|].
  repeat constructor; vm_compute; reflexivity.
Qed.
