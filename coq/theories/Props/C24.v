(* C24 — Effect conflict detection is order-independent and exception-safe.
   Only statements; each is closed by [exact] of a lemma from Proofs/Conflicts_proofs.v.
   Model: Model/Conflicts.v (check_conflicting_effects, check_conflicting_simulated_effects, _add_effect_instance,
   set_simulated_effect for InstantaneousAction / DurativeAction timings / Problem timed effects).

   Reading fixed in DESIGN.md 6.00: a collection holds at most one simulated effect per time point, counting the one
   the action already has (set_simulated_effect REPLACES; [C24_two_simulated_effects_order_matters] shows that the
   hypothesis cannot be dropped).  [raises s l] inserts the members of l in order into s, catching the exception of
   every rejected insertion, and says whether some insertion raised UPConflictingEffectsException. *)
From Coq Require Import List ZArith NArith QArith Bool Permutation.
Import ListNotations.
Require Import UPV.Model.Conflicts UPV.Proofs.Conflicts_proofs.

(* (1) order independence, one time point (InstantaneousAction; one Timing of a DurativeAction or Problem):
   for every container reachable by ANY history of accepted and rejected insertions, and every collection *)
Theorem C24_order_independent :
  forall s l l', reach s -> (sim_count s + count_sims l <= 1)%nat -> Permutation l l' ->
    raises s l = raises s l'.
Proof. exact raises_perm_reach. Qed.
Print Assumptions C24_order_independent.

Theorem C24_order_independent_fresh_action :
  forall l l', (count_sims l <= 1)%nat -> Permutation l l' -> raises tp_empty l = raises tp_empty l'.
Proof. exact raises_perm_fresh. Qed.
Print Assumptions C24_order_independent_fresh_action.

(* (1') timed containers: members carry their time point; every time point has at most one simulated effect *)
Theorem C24_order_independent_timed :
  forall m l l', treach m ->
    (forall t, (sim_count (tget t m) + count_sims (proj t l) <= 1)%nat) ->
    Permutation l l' -> traises m l = traises m l'.
Proof. exact traises_perm_reach. Qed.
Print Assumptions C24_order_independent_timed.

(* why: some insertion raises exactly when a member conflicts with another member of the collection or with
   something the container already holds -- a statement without any order in it *)
Theorem C24_raises_iff_conflicting_pair :
  forall s l, reach s -> (sim_count s + count_sims l <= 1)%nat ->
    (raises s l = true <->
     exists l1 x l2 y, l = l1 ++ x :: l2 /\ In y (tp_items s ++ l1 ++ l2) /\ conflicts x y = true).
Proof. intros s l H. exact (raises_iff_clash s l (reach_Inv s H)). Qed.
Print Assumptions C24_raises_iff_conflicting_pair.

(* (2) exception safety: a rejected insertion leaves stored effects, fluents_assigned, fluents_inc_dec and the
   simulated effect exactly as they were (any state, reachable or not) *)
Theorem C24_rejected_insertion_is_noop :
  forall s i, snd (add_item s i) = true -> fst (add_item s i) = s.
Proof. exact add_item_rejected_noop. Qed.
Print Assumptions C24_rejected_insertion_is_noop.

(* ... so later insertions are judged as if it had never been attempted *)
Theorem C24_later_insertions_unaffected :
  forall s i l, snd (add_item s i) = true ->
    raises (fst (add_item s i)) l = raises s l /\ run (fst (add_item s i)) l = run s l.
Proof. exact rejected_then_as_if_never. Qed.
Print Assumptions C24_later_insertions_unaffected.

Theorem C24_rejected_insertion_is_noop_timed :
  forall m ti, snd (tadd_item m ti) = true -> forall t, tget t (fst (tadd_item m ti)) = tget t m.
Proof. exact tadd_item_rejected_noop. Qed.
Print Assumptions C24_rejected_insertion_is_noop_timed.

(* time points are independent: every time point of a reachable timed container is a reachable one-time-point
   container, and an insertion at another time point does not touch it *)
Theorem C24_time_points_independent :
  forall m, treach m -> (forall t, reach (tget t m)) /\
    forall t0 i t, t <> t0 -> tget t (fst (tadd_item m (t0, i))) = tget t m.
Proof. intros m H. split; [exact (treach_reach m H) | exact (tadd_item_other m)]. Qed.
Print Assumptions C24_time_points_independent.

(* the side condition of (1) is necessary *)
Theorem C24_two_simulated_effects_order_matters :
  exists l l', Permutation l l' /\ count_sims l = 2%nat /\ raises tp_empty l <> raises tp_empty l'.
Proof.
  exists [ISim [1%N]; ISim [2%N]; IEff (ex_assign 1)], [ISim [2%N]; ISim [1%N]; IEff (ex_assign 1)].
  split; [apply perm_swap|]. split; [reflexivity|].
  destruct two_sims_order_matters as [-> ->]. discriminate.
Qed.
Print Assumptions C24_two_simulated_effects_order_matters.

(* ---- non-vacuity ---- *)
Definition nv_inc (f : N) : effect :=
  {| e_fluent := f; e_bool := false; e_kind := KIncrease; e_value := VNum 1; e_cond := false; e_tag := 1 |}.

(* hypotheses of (1) hold for a state reached through a rejected insertion, and both orders raise *)
Example C24_order_independent_nonvacuous :
  let s := fst (add_item (fst (add_item tp_empty (ISim [1%N]))) (IEff (nv_inc 1))) in
  let l := [IEff (ex_assign 2); IEff (nv_inc 2)] in
  reach s /\ (sim_count s + count_sims l <= 1)%nat /\ Permutation l (rev l) /\
  raises s l = true /\ raises s (rev l) = true /\ raises s [IEff (nv_inc 2); IEff (nv_inc 2)] = false.
Proof.
  cbv zeta. split; [apply reach_add, reach_add, reach_empty|].
  split; [vm_compute; apply le_n|]. split; [apply perm_swap|].
  split; [reflexivity|]. split; reflexivity.
Qed.

Example C24_order_independent_timed_nonvacuous :
  let m := fst (tadd_item [] (0%N, ISim [1%N])) in
  let l := [(0%N, IEff (ex_assign 1)); (5%N, IEff (ex_assign 1)); (5%N, ISim [2%N])] in
  treach m /\ (forall t, (sim_count (tget t m) + count_sims (proj t l) <= 1)%nat) /\
  traises m l = true /\ traises m [(5%N, IEff (ex_assign 1)); (5%N, ISim [2%N])] = false.
Proof.
  cbv zeta. split; [apply (treach_add [] (0%N, ISim [1%N])), treach_empty|].
  split; [|split; reflexivity].
  intros t. destruct (N.eq_dec t 0) as [->|H0]; [vm_compute; apply le_n|].
  destruct (N.eq_dec t 5) as [->|H5]; [vm_compute; apply le_n|].
  apply N.eqb_neq in H0, H5. unfold tadd_item; simpl. unfold tget; simpl. rewrite H0, H5. simpl. auto.
Qed.

(* hypothesis of (2) holds: an increase of a fluent the simulated effect writes is rejected *)
Example C24_rejected_insertion_is_noop_nonvacuous :
  let s := fst (add_item tp_empty (ISim [1%N])) in
  snd (add_item s (IEff (nv_inc 1))) = true /\ incdec (fst (add_item s (IEff (nv_inc 1)))) = [].
Proof. split; reflexivity. Qed.

Example C24_rejected_insertion_is_noop_timed_nonvacuous :
  let m := fst (tadd_item [] (3%N, IEff (ex_assign 1))) in
  snd (tadd_item m (3%N, IEff (nv_inc 1))) = true.
Proof. reflexivity. Qed.
