(* C07 (compilers are complete), Layer A part — UsertypeFluentsRemover.  Statements only; proofs in
   Proofs/LayerA_Utfr_proofs.v.  Model, hypotheses and the reading of every hypothesis: see Props/C06_utfr.v. *)
From Coq Require Import List ZArith NArith QArith Qcanon Bool.
Import ListNotations.
Require Import UPV.Core.Expr UPV.Core.Eval UPV.Core.Interp UPV.Planning.Problem UPV.Planning.Sem.
Require Import UPV.Compilers.Variants UPV.Compilers.LayerA_Defs UPV.Compilers.LayerA_Quant UPV.Compilers.LayerA_Utfr.
Require Import UPV.Proofs.LayerA_Utfr_proofs.

(* the compiled problem accepts exactly the plans of the original problem, unchanged (same length: no auxiliary step) *)
Theorem C07_LA_utfr_same_plans :
  forall (tr smp : expr -> expr) (P : problem) (G : state -> Prop),
    smp_exact smp -> utfr_wf tr smp P = true -> tr_ok tr P -> effects_defined P G -> one_value P G -> closed P G ->
    unique_ids P ->
  forall (s s' : state) (pi : list (N * list value)), G s -> utfr_rel P s s' ->
    valid_plan false (utfr_compile tr smp P) s' pi = valid_plan false P s pi.
Proof. exact u_valid_plan. Qed.
Print Assumptions C07_LA_utfr_same_plans.

(* completeness: every valid plan of the original problem is a valid plan of the compiled problem *)
Theorem C07_LA_utfr_complete :
  forall (tr smp : expr -> expr) (P : problem) (G : state -> Prop),
    smp_exact smp -> utfr_wf tr smp P = true -> tr_ok tr P -> effects_defined P G -> one_value P G -> closed P G ->
    unique_ids P ->
  forall (s s' : state) (pi : list (N * list value)), G s -> utfr_rel P s s' ->
    valid_plan false P s pi = true -> valid_plan false (utfr_compile tr smp P) s' pi = true.
Proof. exact u_complete. Qed.
Print Assumptions C07_LA_utfr_complete.

Example C07_LA_utfr_complete_nonvacuous :
  smp_exact UtfrWitness.idf /\ utfr_wf UtfrWitness.idf UtfrWitness.idf UtfrWitness.Pn = true /\
  tr_ok UtfrWitness.idf UtfrWitness.Pn /\ effects_defined UtfrWitness.Pn UtfrWitness.Gn /\
  one_value UtfrWitness.Pn UtfrWitness.Gn /\ closed UtfrWitness.Pn UtfrWitness.Gn /\ unique_ids UtfrWitness.Pn /\
  UtfrWitness.Gn UtfrWitness.sn /\
  utfr_rel UtfrWitness.Pn UtfrWitness.sn (enc_state UtfrWitness.Pn UtfrWitness.sn) /\
  valid_plan false UtfrWitness.Pn UtfrWitness.sn UtfrWitness.plan = true /\
  valid_plan false (utfr_compile UtfrWitness.idf UtfrWitness.idf UtfrWitness.Pn)
             (enc_state UtfrWitness.Pn UtfrWitness.sn) UtfrWitness.plan = true /\
  length (a_effs (snd (hd (0%N, UtfrWitness.an)
                          (p_actions (utfr_compile UtfrWitness.idf UtfrWitness.idf UtfrWitness.Pn))))) = 5%nat.
Proof. exact utfr_nonvacuous. Qed.

(* with the walker MODEL [utr] (+ simplify) in place of the abstract walker: [tr_ok] is replaced by the decidable
   conditions [conds_flat] and [types_inhabited] (Props/C06_utfr.v: C06_LA_utfr_walker_flat) *)
Theorem C07_LA_utfr_same_plans_reference :
  forall (smp : expr -> expr) (fv : N -> N) (P : problem) (G : state -> Prop),
    smp_exact smp -> conds_flat P fv = true -> types_inhabited P = true ->
    utfr_wf (fun e => smp (utr (otype P) fv e)) smp P = true ->
    effects_defined P G -> one_value P G -> closed P G -> unique_ids P ->
  forall (s s' : state) (pi : list (N * list value)), G s -> utfr_rel P s s' ->
    valid_plan false (utfr_compile (fun e => smp (utr (otype P) fv e)) smp P) s' pi = valid_plan false P s pi.
Proof. exact u_valid_plan_reference. Qed.
Print Assumptions C07_LA_utfr_same_plans_reference.

Theorem C07_LA_utfr_complete_reference :
  forall (smp : expr -> expr) (fv : N -> N) (P : problem) (G : state -> Prop),
    smp_exact smp -> conds_flat P fv = true -> types_inhabited P = true ->
    utfr_wf (fun e => smp (utr (otype P) fv e)) smp P = true ->
    effects_defined P G -> one_value P G -> closed P G -> unique_ids P ->
  forall (s s' : state) (pi : list (N * list value)), G s -> utfr_rel P s s' ->
    valid_plan false P s pi = true ->
    valid_plan false (utfr_compile (fun e => smp (utr (otype P) fv e)) smp P) s' pi = true.
Proof. exact u_complete_reference. Qed.
Print Assumptions C07_LA_utfr_complete_reference.

Example C07_LA_utfr_complete_reference_nonvacuous :
  smp_exact UtfrWitness.idf /\ conds_flat UtfrRef.Pr UtfrRef.fvr = true /\ types_inhabited UtfrRef.Pr = true /\
  utfr_wf UtfrRef.trr UtfrWitness.idf UtfrRef.Pr = true /\
  effects_defined UtfrRef.Pr UtfrRef.Gr /\ one_value UtfrRef.Pr UtfrRef.Gr /\ closed UtfrRef.Pr UtfrRef.Gr /\
  unique_ids UtfrRef.Pr /\ UtfrRef.Gr UtfrRef.sr /\
  utfr_rel UtfrRef.Pr UtfrRef.sr (enc_state UtfrRef.Pr UtfrRef.sr) /\
  valid_plan false UtfrRef.Pr UtfrRef.sr UtfrRef.planr = true /\
  valid_plan false UtfrRef.Pr' (enc_state UtfrRef.Pr UtfrRef.sr) UtfrRef.planr = true /\
  valid_plan false UtfrRef.Pr' (enc_state UtfrRef.Pr UtfrRef.sr) [(0%N, [VObj 2%N]); (0%N, [VObj 1%N])] = true /\
  valid_plan false UtfrRef.Pr' (enc_state UtfrRef.Pr UtfrRef.sr) [(0%N, [VObj 1%N]); (0%N, [VObj 1%N])] = false /\
  map (fun ia => a_pre (snd ia)) (p_actions UtfrRef.Pr') =
    [[EExists [(100%N, 0%N)]
        (EAnd [EEquals (EVar 100%N 0%N) (EObj 1%N); EFluent 0%N [EParam 7%N; EVar 100%N 0%N]])]].
Proof. exact utfr_reference_nonvacuous. Qed.
