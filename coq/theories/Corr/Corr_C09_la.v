(* C09, Layer A part — correspondence case for the kind function [la_feats] on the Layer A record
   (Model/KindBridge.v).  A case = a problem rendered by harness/layera.py:ser_side + the covered features of the REAL
   `problem.kind` (as named features).  [diff] is the symmetric difference of the two feature sets (0 = agreement);
   harness/c09_la.py decodes the bits. *)
From Coq Require Import List NArith Bool.
Import ListNotations.
Require Import UPV.Core.Expr UPV.Model.Kind UPV.Gen.Gen_Kind UPV.Model.KindOf.
Require Import UPV.Planning.Problem UPV.Model.KindBridge.

Record case := { c_problem : problem; c_real : list feature }.

(* bit j of [diff] is set iff the j-th feature of [la_covered] is in exactly one of the two sets; bit 13 iff [la_feats]
   yields a feature outside [la_covered] *)
Fixpoint diff_from (j : N) (fs : list feature) (a b : list feature) : N :=
  match fs with
  | [] => 0
  | f :: fs' => ((if Bool.eqb (memN f a) (memN f b) then 0 else N.shiftl 1 j) + diff_from (N.succ j) fs' a b)%N
  end.
Definition diff (c : case) : N :=
  (diff_from 0 la_covered (la_feats (c_problem c)) (c_real c)
   + (if existsb (fun f => negb (covered f)) (la_feats (c_problem c)) then N.shiftl 1 13 else 0))%N.
Definition ok (c : case) : bool := (diff c =? 0)%N.
