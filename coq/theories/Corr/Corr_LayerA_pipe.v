(* Structural correspondence for the pipeline CompilersPipeline([QuantifiersRemover(), ConditionalEffectsRemover()])
   (harness spec "pipeline:quantifiers+conditional-effects"; theorems C06_LA_pipe_quant_cer_sound /
   C07_LA_pipe_quant_cer_complete of Props/C06_pipe.v / C07_pipe.v, stages [qc_stages] of Compilers/LayerA_Pipe.v):
   the COMPOSITION of the two Layer A model compiles — cer_compile on quant_compile of the serialised original problem,
   i.e. [qc_dst] — is compared with the serialised problem the REAL pipeline produced, with the comparison of
   Corr_LayerA.v for ConditionalEffectsRemover (variants as sets, grouped by the real COMPOSED map back; goals,
   invariants, fluents of the intermediate model problem).  The case record is Corr_LayerA's (built with kind 0, so that
   the simplifier tables are the same); [la_back] is the real pipeline's map back (compiled action -> original action;
   QuantifiersRemover keeps the names, so it is also the second stage's table). *)
From Coq Require Import List ZArith NArith QArith Qcanon Bool.
Import ListNotations.
Require Import UPV.Core.Expr UPV.Core.Eval UPV.Core.Interp UPV.Planning.Problem UPV.Planning.Sem.
Require Import UPV.Compilers.Variants UPV.Compilers.LayerA_Defs UPV.Compilers.LayerA_Quant UPV.Compilers.LayerA_Variants.
Require Import UPV.Compilers.LayerA_Pipe UPV.Corr.Corr_LayerA.

(* the first stage's model output = [qc_mid (la_smp c) (la_orig c)] *)
Definition lp_mid (c : la_case) : problem := qc_mid (la_smp c) (la_orig c).

(* the second stage seen as a ConditionalEffectsRemover case of Corr_LayerA on the intermediate MODEL problem *)
Definition lp_stage2 (c : la_case) : la_case :=
  {| la_kind := 3%N; la_orig := lp_mid c; la_comp := la_comp c; la_back := la_back c;
     la_obj_ty := la_obj_ty c; la_par_ty := la_par_ty c; la_fl_ty := la_fl_ty c; la_anc := la_anc c; la_tau := la_tau c;
     la_cdnf := []; la_pdnf := []; la_goals := []; la_tuples := []; la_gback := []; la_stat := la_stat c;
     la_empty := la_empty c |}.

(* bits as la_code: 1 actions, 2 goals, 4 state invariants, 8 fluents, 16 a compiled action maps back to no action of
   the intermediate model problem *)
Definition lp_code (c : la_case) : N := la_code (lp_stage2 c).

(* the number of variants of the composed model = the number of actions of [qc_dst] with any fresh names *)
Definition lp_model_actions (c : la_case) : nat :=
  length (p_actions (qc_dst (la_smp c) (la_simp_pre (lp_stage2 c)) (fun i k => i) (la_orig c))).

(* decidable hypotheses of the pipeline theorems on the real instance (coverage): bit 1 problem_wf of the original,
   bit 2 no action dropped by the first stage, bit 4 unique names of the original, bit 8 unique names of the real
   compiled problem, bit 16 the model and the real pipeline produce the same NUMBER of actions *)
Definition lp_hyps (c : la_case) : N :=
  ((if problem_wf (la_orig c) (la_tau_fun c) then 1 else 0) +
   (if (length (p_actions (lp_mid c)) =? length (p_actions (la_orig c)))%nat then 2 else 0) +
   (if nodupN (map fst (p_actions (la_orig c))) then 4 else 0) +
   (if nodupN (map fst (p_actions (la_comp c))) then 8 else 0) +
   (if (lp_model_actions c =? length (p_actions (la_comp c)))%nat then 16 else 0))%N.

Definition lp_report (c : la_case) : list N := [lp_code c; lp_hyps c].
