(* Correspondence for C28: for a generated durative problem the harness enumerates the plans of the compiled
   sequential problem that the real SequentialPlanValidator accepts, converts each back with the real
   plan_back_conversion and records the (start, duration) list (None = an exception).  The states in which the steps
   are applied come from the harness's own exact interpreter of the generated problem (cross-checked against the
   implementation's simulator).  [ok] compares with the model; [judge] evaluates the property's duration/spacing part
   directly on the observed plan. *)
From Coq Require Import List ZArith NArith QArith Bool.
Import ListNotations.
Require Import UPV.Model.T2S.

Record case := {
  c_eps : Q;
  c_steps : list sstep;
  c_obs : option (list tentry)
}.

Definition optq_eqb (a b : option Q) : bool :=
  match a, b with Some x, Some y => Qeq_bool x y | None, None => true | _, _ => false end.
Definition tentry_eqb (a b : tentry) : bool := Qeq_bool (fst a) (fst b) && optq_eqb (snd a) (snd b).

Fixpoint list_eqb {A} (e : A -> A -> bool) (a b : list A) : bool :=
  match a, b with
  | [], [] => true
  | x :: a', y :: b' => e x y && list_eqb e a' b'
  | _, _ => false
  end.

Definition model_out (c : case) : option (list tentry) := back_conv (c_eps c) 0 (c_steps c).

Definition ok (c : case) : bool :=
  match model_out c, c_obs c with
  | Some m, Some o => list_eqb tentry_eqb m o
  | None, None => true
  | _, _ => false
  end.

(* the property's proved part, judged on what the implementation returned *)
Definition judge (c : case) : bool :=
  match c_obs c with
  | Some out => Qlt_bool 0 (c_eps c) && entries_ok (c_steps c) out && spaced out
                && match out with e :: _ => Qeq_bool (fst e) 0 | [] => true end
  | None => false
  end.
