(* Structural correspondence for Layer A of C06 / C07, NegativeConditionsRemover: [neg_compile] applied to the serialised
   original problem is compared with the serialised problem the REAL compiler produced (one name table for both sides).
   The parameters of the model are instantiated as the code instantiates them:
     nmap  = NegativeFluentRemover.fluent_mapping of the real run (fluent -> negation fluent);
     smp   = C11's model of the Simplifier (Corr_LayerA.la_smp);
     rw    = [ncr_rw]: remove_negative_fluents = walk(simplify(nnf(e))) with Nnf = Walkers/NnfDnf.nnf (C12) and
             [nwalk] = the IdentityDagWalker with NegativeFluentRemover.walk_not. *)
From Coq Require Import List ZArith NArith QArith Qcanon Bool.
Import ListNotations.
Require Import UPV.Core.Expr UPV.Core.Eval UPV.Core.Interp UPV.Planning.Problem UPV.Planning.Sem.
Require Import UPV.Walkers.Simplify UPV.Walkers.NnfDnf UPV.Compilers.Variants.
Require Import UPV.Compilers.LayerA_Defs UPV.Compilers.LayerA_Quant UPV.Compilers.LayerA_Neg UPV.Corr.Corr_LayerA.

Record ncr_case := {
  nc_la : la_case;                 (* original / compiled problem, map-back, type tables (la_kind is not used) *)
  nc_nmap : list (N * N)           (* the real fluent_mapping *)
}.

Section Walk.
  Variable ngf : N -> option N.
  Variable objs : N -> list N.        (* problem.objects(type): the type and its heirs *)
  Variable ety : expr -> option N.    (* the user type of an expression (None: not a user type) *)

  (* walk_not on `left == right` of a user type (after fix 87e8b2d): a constant right operand is swapped to the left;
     each operand ranges over the objects of ITS OWN type (a constant left operand over itself); FALSE when the left
     list is one object and equal to the right list; otherwise the disjunction over the pairs of different objects *)
  Definition objs_of_ty (e : expr) : list N := match ety e with Some t => objs t | None => [] end.
  Definition eq_user (l0 r0 : expr) : expr :=
    let is_c := fun e => match e with EObj _ => true | _ => false end in
    let l := if is_c r0 then r0 else l0 in
    let r := if is_c r0 then l0 else r0 in
    let left_list := match l with EObj o => [o] | _ => objs_of_ty l end in
    let right_list := objs_of_ty r in
    let one := (length left_list =? 1)%nat in
    if one && listN_eqb left_list right_list then EBool false
    else mkOr (flat_map (fun lo => flat_map (fun ro =>
                 if (lo =? ro)%N then []
                 else if one then [EEquals r (EObj ro)]
                 else [mkAnd [EEquals l (EObj lo); EEquals r (EObj ro)]]) right_list) left_list).

  (* NegativeFluentRemover.walk_not (argument already walked); where the code raises the model keeps the Not *)
  Definition walk_not (a : expr) : expr :=
    match a with
    | EFluent f args => match ngf f with Some nf => EFluent nf args | None => ENot a end
    | EEquals l r => match ety l with
                     | Some _ => eq_user l r
                     | None => mkOr [ELt r l; ELt l r]          (* Or(GT(l, r), LT(l, r)) *)
                     end
    | ELe l r => ELt r l                                         (* GT(l, r) *)
    | ELt l r => ELe r l                                         (* GE(l, r) *)
    | _ => ENot a
    end.

  (* IdentityDagWalker: every node rebuilt by the expression manager from the walked children *)
  Fixpoint nwalk (e : expr) {struct e} : expr :=
    match e with
    | ENot a => walk_not (nwalk a)
    | EAnd l => mkAnd (map nwalk l)
    | EOr l => mkOr (map nwalk l)
    | EImplies a b => EImplies (nwalk a) (nwalk b)
    | EIff a b => EIff (nwalk a) (nwalk b)
    | EExists vs a => EExists vs (nwalk a)
    | EForall vs a => EForall vs (nwalk a)
    | EFluent f l => EFluent f (map nwalk l)
    | EIFun f l => EIFun f (map nwalk l)
    | EPlus l => mkPlus (map nwalk l)
    | ETimes l => mkTimes (map nwalk l)
    | EMinus a b => EMinus (nwalk a) (nwalk b)
    | EDiv a b => EDiv (nwalk a) (nwalk b)
    | ELe a b => ELe (nwalk a) (nwalk b)
    | ELt a b => ELt (nwalk a) (nwalk b)
    | EEquals a b => EEquals (nwalk a) (nwalk b)
    | EAlways a => EAlways (nwalk a)
    | ESometime a => ESometime (nwalk a)
    | EAtMostOnce a => EAtMostOnce (nwalk a)
    | ESometimeBefore a b => ESometimeBefore (nwalk a) (nwalk b)
    | ESometimeAfter a b => ESometimeAfter (nwalk a) (nwalk b)
    | EBool _ | EInt _ | EReal _ | EObj _ | EParam _ | EVar _ _ => e
    end.
End Walk.

Definition nc_ety (c : ncr_case) (e : expr) : option N :=
  match e with
  | EObj o => lookupN o (la_obj_ty (nc_la c))
  | EParam p => lookupN p (la_par_ty (nc_la c))
  | EVar _ t => Some t
  | EFluent f _ => lookupN f (la_fl_ty (nc_la c))
  | _ => None
  end.

(* NegativeFluentRemover.remove_negative_fluents *)
Definition ncr_rw (c : ncr_case) (e : expr) : expr :=
  nwalk (ng (nc_nmap c)) (objs_of (la_orig (nc_la c))) (nc_ety c) (la_smp (nc_la c) (nnf e)).

Definition ncr_model (c : ncr_case) : problem :=
  neg_compile (nc_nmap c) (ncr_rw c) (la_smp (nc_la c)) (la_orig (nc_la c)).

(* code: 0 = the model and the implementation agree;  bits: 1 actions (compared through the real map-back), 2 goals,
   4 state invariants, 8 fluent declarations, 16 an action was renamed or maps back to nothing (the model keeps names) *)
Definition ncr_code (c : ncr_case) : N :=
  let M := ncr_model c in
  let R := la_comp (nc_la c) in
  let b_act := (length (p_actions M) =? length (p_actions R))%nat &&
               forallb (fun ia => match real_variants (nc_la c) (fst ia) with
                                  | [r] => act_eqb (snd ia) r
                                  | _ => false
                                  end) (p_actions M) in
  let b_goal := seteq_e (p_goals M) (p_goals R) in
  let b_inv := seteq_e (p_invs M) (p_invs R) in
  let b_fl := fds_seteq (p_fluents M) (p_fluents R) in
  let b_name := forallb (fun ia => match lookupN (fst ia) (la_back (nc_la c)) with
                                   | Some j => (j =? fst ia)%N
                                   | None => false end) (p_actions R) in
  ((if b_act then 0 else 1) + (if b_goal then 0 else 2) + (if b_inv then 0 else 4) + (if b_fl then 0 else 8) +
   (if b_name then 0 else 16))%N.

(* which decidable hypotheses of C06_LA_ncr_sound hold for this problem (coverage, not a check):
   1 nmap_ok, 2 problem_clean, 4 ncr_safe, 8 ncr_const, 16 the conditions lie in the domain of the reference rewriting
   [nrw_dom] and [ncr_rw] agrees with [nrw] on them (then rw_ok is PROVED for this case: rw_ok_nrw) *)
Definition ncr_hyps (c : ncr_case) : N :=
  let P := la_orig (nc_la c) in
  let nm := nc_nmap c in
  ((if nmap_ok nm P then 1 else 0) + (if problem_clean nm P then 2 else 0) + (if ncr_safe nm P then 4 else 0) +
   (if ncr_const nm P then 8 else 0) +
   (if forallb (fun e => nrw_dom nm e && expr_eqb (ncr_rw c e) (nrw (ng nm) e)) (conds_of P) then 16 else 0))%N.

Definition ncr_report (c : ncr_case) : list N := [ncr_code c; ncr_hyps c].
