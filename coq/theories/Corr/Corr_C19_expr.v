(* Correspondence for the expression layer of the ANML codec (Model/AnmlExpr.v), harness/ext/c19_expr.py.
   One case = one text.  The harness
     - (printed cases) generates a typed expression e, runs the REAL ConverterToANMLString.walk on it and tokenises
       the text (c_toks), wraps the text in a small ANML problem, reads it with the REAL ANMLReader (final
       FNode.simplify disabled) and serialises the FNode it built (c_parsed; None = the reader raised);
     - (variant cases, c_e = None) writes the same expression with fewer parentheses / other operator spellings
       (>=, >, !=, xor, unary minus) and records what the real reader built for that text.
   The model must print the same tokens and parse to the same tree. *)
From Coq Require Import List ZArith NArith QArith Qcanon Bool.
Import ListNotations.
Require Import UPV.Core.Expr UPV.Core.Eval UPV.Core.Interp UPV.Model.AnmlExpr.

Record names := {
  n_fl : list (N * (N * (nat * bool)));   (* fluent id -> identifier, arity, is Boolean *)
  n_par : list (N * (N * bool));          (* parameter id -> identifier, is Boolean *)
  n_obj : list (N * N);
  n_var : list (N * N);
  n_ty : list (N * N)
}.

Definition fwd {A} (d : A) (t : list (N * A)) (k : N) : A := match lookupN k t with Some v => v | None => d end.
Fixpoint inv {A} (f : A -> N) (t : list (N * A)) (s : N) : option (N * A) :=
  match t with
  | [] => None
  | (k, v) :: t' => if (f v =? s)%N then Some (k, v) else inv f t' s
  end.

Definition W_of (n : names) : wnames :=
  {| nmF := fun f => fst (fwd (0%N, (0%nat, false)) (n_fl n) f);
     nmP := fun p => fst (fwd (0%N, false) (n_par n) p);
     nmO := fwd 0%N (n_obj n);
     nmV := fwd 0%N (n_var n);
     nmT := fwd 0%N (n_ty n) |}.

Definition R_of (n : names) : rtables :=
  {| tyOf := fun s => option_map fst (inv (fun x => x) (n_ty n) s);
     parOf := fun s => option_map fst (inv fst (n_par n) s);
     fluOf := fun s => option_map (fun kv => (fst kv, fst (snd (snd kv)))) (inv fst (n_fl n) s);
     objOf := fun s => option_map fst (inv (fun x => x) (n_obj n) s);
     varOf := fun s => match inv (fun x => x) (n_var n) s with Some (k, _) => k | None => 0%N end;
     fbool := fun f => snd (snd (fwd (0%N, (0%nat, false)) (n_fl n) f));
     pbool := fun p => snd (fwd (0%N, false) (n_par n) p) |}.

Definition arity_of (n : names) (f : N) : nat := fst (snd (fwd (0%N, (0%nat, false)) (n_fl n) f)).

Record case := {
  c_names : names;
  c_e : option expr;              (* the generated expression (printed cases) *)
  c_toks : list token;            (* the text, tokenised *)
  c_parsed : option expr;         (* what the real reader built from the text *)
  c_interps : list finterp        (* interpretations on which the values are compared *)
}.

Definition tok_code (a : token) : N * N :=
  match a with
  | TLp => (0, 0) | TRp => (1, 0) | TLb => (2, 0) | TRb => (3, 0) | TComma => (4, 0) | TSemi => (5, 0)
  | TAnd => (6, 0) | TOr => (7, 0) | TXor => (8, 0) | TNot => (9, 0) | TImplies => (10, 0) | TForall => (11, 0)
  | TExists => (12, 0) | TTrue => (13, 0) | TFalse => (14, 0) | TPlus => (15, 0) | TMinus => (16, 0)
  | TTimes => (17, 0) | TDiv => (18, 0) | TLe => (19, 0) | TLt => (20, 0) | TGe => (21, 0) | TGt => (22, 0)
  | TEq => (23, 0) | TNeq => (24, 0) | TNum x => (25, x) | TName x => (26, x)
  | TStart => (27, 0) | TEnd => (28, 0) | TLsq => (29, 0) | TRsq => (30, 0) | TAssign => (31, 0)
  | TIncrease => (32, 0) | TDecrease => (33, 0) | TWhen => (34, 0)
  end%N.
Definition token_eqb (a b : token) : bool :=
  (fst (tok_code a) =? fst (tok_code b))%N && (snd (tok_code a) =? snd (tok_code b))%N.

Fixpoint toks_eqb (a b : list token) : bool :=
  match a, b with
  | [], [] => true
  | x :: a', y :: b' => token_eqb x y && toks_eqb a' b'
  | _, _ => false
  end.

Definition oexpr_eqb (a b : option expr) : bool :=
  match a, b with
  | Some x, Some y => expr_eqb x y
  | None, None => true
  | _, _ => false
  end.

(* the value of the original is kept by what the reader built, wherever the original has one *)
Definition value_kept (e : expr) (p : option expr) (F : finterp) : bool :=
  match eval false e (to_interp F) with
  | None => true
  | Some v => match p with
              | Some e' => ovalue_eqb (eval false e' (to_interp F)) (Some v)
              | None => false
              end
  end.

(* bit 1: generated expression outside anml_ok;  bit 2: model print <> real text;  bit 4: model parse <> real
   reader;  bit 8: the real round trip changed a value (property fails);  bit 16: theorem instance violated
   (parse (pr e) <> Some (norm e): impossible, sanity). *)
Definition code (c : case) : N :=
  let W := W_of (c_names c) in
  let R := R_of (c_names c) in
  let b4 := if oexpr_eqb (parse R [] (c_toks c)) (c_parsed c) then 0%N else 4%N in
  match c_e c with
  | None => b4
  | Some e =>
      let okf := anml_ok R (arity_of (c_names c)) [] e in
      ((if okf then 0 else 1)
       + (if toks_eqb (pr W e) (c_toks c) then 0 else 2)
       + b4
       + (if forallb (value_kept e (c_parsed c)) (c_interps c) then 0 else 8)
       + (if okf && negb (oexpr_eqb (parse R [] (pr W e)) (Some (norm e))) then 16 else 0))%N
  end.

Definition model_view (c : case) :=
  (option_map (pr (W_of (c_names c))) (c_e c), parse (R_of (c_names c)) [] (c_toks c)).
