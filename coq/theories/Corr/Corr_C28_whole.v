(* Structural correspondence for the compiler model of C28 (Compilers/T2SCompile.v): for one durative action of a
   generated problem (the generators of harness/props/c28.py plus the extra shapes of harness/ext/c28_whole.py), the
   real TimedToSequential output for that action (parameters, precondition LIST, effect LIST - the same name table on
   both sides) is compared with [t2s_action].  FNode.simplify() is instantiated with the model of C11
   (Walkers/Simplify.v, environment-level simplifier: no static fluents, no empty-type knowledge).
   [w_obs = None]: the real compiler raised on the problem that contains only this action. *)
From Coq Require Import List ZArith NArith QArith Qcanon Bool.
Import ListNotations.
Require Import UPV.Core.Expr UPV.Core.Eval UPV.Core.Interp UPV.Planning.Problem UPV.Planning.Sem.
Require Import UPV.Planning.Temporal UPV.Walkers.Simplify UPV.Walkers.Subst UPV.Compilers.T2SCompile.

Record wcase := {
  w_d : daction;
  w_obs : option action;
  w_obj_ty : list (N * N);
  w_par_ty : list (N * N);
  w_fl_ty : list (N * N);
  w_anc : list (N * list N)
}.

Definition w_cfg (c : wcase) : cfg :=
  {| obj_ty := fun o => lookupN o (w_obj_ty c);
     par_ty := fun p => lookupN p (w_par_ty c);
     fl_ty := fun f => lookupN f (w_fl_ty c);
     if_ty := fun _ => None;
     anc := fun t => match lookupN t (w_anc c) with Some l => l | None => [] end;
     empty_ty := fun _ => false;
     stat := fun _ _ => None;
     itab := fun _ _ => None |}.

Definition w_smp (c : wcase) (e : expr) : expr :=
  match simplify (w_cfg c) e with Some x => x | None => e end.

Fixpoint listN_eqb (a b : list N) : bool :=
  match a, b with [], [] => true | x :: a', y :: b' => (x =? y)%N && listN_eqb a' b' | _, _ => false end.

Definition kind_eqb (a b : ekind) : bool :=
  match a, b with KAssign, KAssign | KInc, KInc | KDec, KDec => true | _, _ => false end.

Definition eff_eqb (a b : effect) : bool :=
  (e_fl a =? e_fl b)%N && list_expr_eqb (e_args a) (e_args b) && expr_eqb (e_val a) (e_val b) &&
  expr_eqb (e_cond a) (e_cond b) && kind_eqb (e_kind a) (e_kind b) && vars_eqb (e_vars a) (e_vars b) &&
  Bool.eqb (e_isbool a) (e_isbool b).

Fixpoint effs_eqb (a b : list effect) : bool :=
  match a, b with [], [] => true | x :: a', y :: b' => eff_eqb x y && effs_eqb a' b' | _, _ => false end.

Definition model_out (c : wcase) : option action := t2s_action (w_smp c) (w_d c).

(* bit 1: parameters, bit 2: preconditions (as a list), bit 4: effects (as a list), bit 8: one side refuses *)
Definition wcode (c : wcase) : N :=
  match model_out c, w_obs c with
  | Some m, Some r =>
      ((if listN_eqb (a_params m) (a_params r) then 0 else 1) +
       (if list_expr_eqb (a_pre m) (a_pre r) then 0 else 2) +
       (if effs_eqb (a_effs m) (a_effs r) then 0 else 4))%N
  | None, None => 0%N
  | _, _ => 8%N
  end.

Definition ok (c : wcase) : bool := (wcode c =? 0)%N.
