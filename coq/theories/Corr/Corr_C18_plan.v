(* Correspondence for Model/PlanText.v (C18, plans): cases produced by harness/ext/c18_plan.py from the REAL
   PDDLWriter.get_plan / PDDLReader.parse_plan_string and Python's re / str, compared with the model. *)
From Coq Require Import List NArith ZArith QArith Ascii Bool.
Import ListNotations.
Require Import UPV.Model.PlanText.
Open Scope N_scope.

(* text is serialised as a list of code points *)
Definition S (l : list N) : str := map ascii_of_N l.

Definition ascii_eqb (a b : ascii) : bool := code a =? code b.
Fixpoint list_eqb {A} (e : A -> A -> bool) (a b : list A) : bool :=
  match a, b with
  | [], [] => true
  | x :: a', y :: b' => e x y && list_eqb e a' b'
  | _, _ => false
  end.
Definition str_eqb : str -> str -> bool := list_eqb ascii_eqb.
Definition opt_eqb {A} (e : A -> A -> bool) (a b : option A) : bool :=
  match a, b with Some x, Some y => e x y | None, None => true | _, _ => false end.
Definition step_eqb (a b : step) : bool :=
  str_eqb (s_name a) (s_name b) && list_eqb str_eqb (s_args a) (s_args b).
Definition tstep_eqb (a b : tstep) : bool :=
  q_eqb (t_start a) (t_start b) && step_eqb (t_step a) (t_step b) && opt_eqb q_eqb (t_dur a) (t_dur b).
Definition plan_eqb (a b : plan) : bool :=
  match a, b with
  | PSeq x, PSeq y => list_eqb step_eqb x y
  | PTT x, PTT y => list_eqb tstep_eqb x y
  | _, _ => false
  end.

(* 1. character tables: one case per code point, observed with re.match / str methods *)
Record ccase := mkC { c_code : N; c_break : bool; c_space : bool; c_digit : bool; c_word : bool; c_lower : N }.
Definition ok_char (c : ccase) : bool :=
  let a := ascii_of_N (c_code c) in
  Bool.eqb (is_break a) (c_break c) && Bool.eqb (is_space a) (c_space c) && Bool.eqb (is_digit a) (c_digit c)
  && Bool.eqb (is_word a) (c_word c) && (code (lower a) =? c_lower c).

(* 2. decimal printer: q, the text of _time_to_str(q), and whether Fraction(text) == q (computed in Python) *)
Record dcase := mkD { d_q : Q; d_text : str; d_exact : bool }.
Definition ok_dec (c : dcase) : bool :=
  (* the total model of the writer (rounding included) gives the observed text, byte for byte *)
  str_eqb (print_dec_real (d_q c)) (d_text c) &&
  match print_dec (d_q c) with
  | Some t => d_exact c && str_eqb t (d_text c) && opt_eqb q_eqb (parse_dec t) (Some (d_q c))
  | None => negb (d_exact c) || (Qnum (d_q c) <? 0)%Z
  end.

(* 3. plan printer: the plan over PDDL names, the text of get_plan, exactness of every time (Python) *)
Record wcase := mkW { w_plan : plan; w_text : str; w_exact : bool }.
Definition ok_write (c : wcase) : bool :=
  str_eqb (print_plan_real (w_plan c)) (w_text c) &&
  match print_plan (w_plan c) with
  | Some t => w_exact c && str_eqb t (w_text c)
  | None => negb (w_exact c)
  end.

(* 4. plan parser: tables of the problem (PDDL name -> parameter type ids / object type id), a text, and what
      parse_plan_string returned (None = it raised), rendered with the PDDL names of the items *)
Record pcase := mkP { p_acts : list (str * list N); p_objs : list (str * N); p_text : str; p_obs : option plan }.

Fixpoint assoc {B} (k : str) (l : list (str * B)) : option B :=
  match l with [] => None | (k', v) :: r => if str_eqb k k' then Some v else assoc k r end.

Definition r_act (c : pcase) (n : str) : option (str * list N) :=
  match assoc n (p_acts c) with Some tys => Some (n, tys) | None => None end.
Definition r_obj (c : pcase) (n : str) : option (str * N) :=
  match assoc n (p_objs c) with Some ty => Some (n, ty) | None => None end.
Definition r_ok (a : str * list N) (os : list (str * N)) : bool := list_eqb N.eqb (snd a) (map snd os).

Definition unres (x : (str * list N) * list (str * N)) : step := mkStep (fst (fst x)) (map fst (snd x)).

Definition model_parse (c : pcase) : option plan :=
  match parse_plan (p_text c) with
  | Some (PSeq l) =>
      match resolve_seq _ _ (r_act c) (r_obj c) r_ok l with
      | Some xs => Some (PSeq (map unres xs))
      | None => None
      end
  | Some (PTT l) =>
      match resolve_tt _ _ (r_act c) (r_obj c) r_ok l with
      | Some xs => Some (PTT (map (fun x => mkTStep (fst (fst x)) (unres (snd (fst x))) (snd x)) xs))
      | None => None
      end
  | None => None
  end.

Definition ok_parse (c : pcase) : bool := opt_eqb plan_eqb (model_parse c) (p_obs c).
