(* Correspondence for C35: one case = one SimulatedExecutionEnvironment built (under a controlled random seed) on a
   generated contingent problem and driven through a random action sequence.  The harness records the initial state
   (all ground fluents), and for every apply: the outcome (UPUsageError / new state), the observation dict and
   is_goal_reached().  The oracle's answer (the chosen hidden assignment) is read off the observed initial state. *)
From Coq Require Import List ZArith NArith QArith Qcanon Bool.
Import ListNotations.
Require Import UPV.Core.Expr UPV.Core.Eval UPV.Core.Interp UPV.Planning.Problem UPV.Planning.Sem.
Require Import UPV.Model.ExecEnv UPV.Corr.Corr_C01.

Fixpoint lookup_gv (k : gfl) (l : list (gfl * option value)) : option value :=
  match l with
  | [] => None
  | (k', v) :: r => if gfl_eqb k k' then v else lookup_gv k r
  end.

(* a state given by its values on the ground fluents of the problem (problem order) *)
Definition st_of_vals (P : problem) (vals : list (option value)) : state :=
  let tab := List.combine (ground_fluents P) vals in
  fun f a => lookup_gv (f, a) tab.

Record step := {
  st_act : N;
  st_args : list value;
  st_res : option (list (option value) * list obs_row);   (* None = UPUsageError; else (new state, observation dict) *)
  st_goal : bool                                          (* is_goal_reached() after the call *)
}.

Record case := {
  c_init : option (list (option value));    (* None = the constructor raised *)
  c_raise : N;                              (* 0 none, 1 IndexError (no model), 2 UPProblemDefinitionError (invariants) *)
  c_goal0 : bool;
  c_steps : list step
}.

Definition chi_obs (s : state) : gfl -> bool :=
  fun k => match s (fst k) (snd k) with Some (VBool b) => b | _ => false end.

Definition row_eqb (a b : obs_row) : bool := gfl_eqb (fst a) (fst b) && ovalue_eqb (snd a) (snd b).

Fixpoint rows_eqb (a b : list obs_row) : bool :=
  match a, b with
  | [], [] => true
  | x :: a', y :: b' => row_eqb x y && rows_eqb a' b'
  | _, _ => false
  end.

(* clause 2 of the property, straight from [declared_init]: every non-hidden ground fluent with a declared value *)
Definition declared_ok (P : cproblem) (s : state) : bool :=
  forallb (fun k =>
    if is_hidden P k then true
    else match declared_init P k with
         | Some v => ovalue_eqb (s (fst k) (snd k)) (Some v)
         | None => true
         end) (ground_fluents (cp_base P)).

Definition no_model (P : cproblem) : bool :=
  forallb (fun t => negb (sat_assign (chi_of t) (cp_oneof P) (cp_or P))) (assignments (hidden_atoms P)).

Definition some_model_breaks_invariants (P : cproblem) : bool :=
  existsb (fun t => sat_assign (chi_of t) (cp_oneof P) (cp_or P) &&
                    negb (invariants_ok true (det_clone P) (init_state P (chi_of t))))
          (assignments (hidden_atoms P)).

(* steps: bit 3 (8) outcome / new state differs from the model, bit 4 (16) observations differ, bit 5 (32) goal verdict *)
Fixpoint steps_code (P : cproblem) (s : state) (l : list step) : N :=
  match l with
  | [] => 0%N
  | st :: l' =>
      let B := cp_base P in
      match env_apply P s (st_act st) (st_args st), st_res st with
      | None, None =>
          N.lor (if Bool.eqb (env_is_goal P s) (st_goal st) then 0 else 32) (steps_code P s l')
      | Some (s', mobs), Some (vals, obs) =>
          let t := st_of_vals B vals in
          N.lor (N.lor (if olist_eqb (obs_of_state B s') vals then 0 else 8)
                       (match mobs with Some mo => if rows_eqb mo obs then 0 else 16 | None => 16 end))
                (N.lor (if Bool.eqb (env_is_goal P t) (st_goal st) then 0 else 32) (steps_code P t l'))
      | Some _, None => 8%N
      | None, Some (vals, _) => N.lor 8 (steps_code P (st_of_vals B vals) l')
      end
  end%N.

(* bit 0 (1): a non-hidden fluent does not start with its declared value          (property)
   bit 1 (2): the initial state violates a oneof / or constraint                   (property)
   bit 2 (4): initial state / constructor outcome differs from the model
   bits 3-5 : see [steps_code]
   bit 6 (64): ill-formed case *)
Definition code (P : cproblem) (c : case) : N :=
  match c_init c with
  | None =>
      match c_raise c with
      | 1%N => if no_model P then 0%N else 4%N
      | 2%N => if some_model_breaks_invariants P then 0%N else 4%N
      | _ => 64%N
      end
  | Some vals =>
      let B := cp_base P in
      let s := st_of_vals B vals in
      let m := init_state P (chi_obs s) in
      N.lor (N.lor (if declared_ok P s then 0 else 1) (if constraints_hold P s then 0 else 2))
            (N.lor (N.lor (if olist_eqb (obs_of_state B m) vals && invariants_ok true (det_clone P) m then 0 else 4)
                          (if Bool.eqb (env_is_goal P s) (c_goal0 c) then 0 else 32))
                   (steps_code P s (c_steps c)))
  end%N.

(* problem-level: the implementation's fluents_defaults / initial_value against the model of add_fluent's default
   resolution and of InitialStateMixin.initial_value *)
Record pcase := {
  pc_fdefaults : list (N * option value);          (* fluent id -> problem.fluents_defaults.get(f) *)
  pc_declared : list (option value)                (* problem.initial_value(k) per ground fluent *)
}.

Definition pcode (P : cproblem) (c : pcase) : N :=
  N.lor (if forallb (fun r => ovalue_eqb (fluents_defaults P (fst r)) (snd r)) (pc_fdefaults c) then 0 else 1)
        (if olist_eqb (map (declared_init P) (ground_fluents (cp_base P))) (pc_declared c) then 0 else 2)%N.
