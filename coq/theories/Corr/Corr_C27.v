(* Correspondence + property oracle for C27.
   A case is a valid sequential plan (found by forward search through the real simulator), what
   SequentialPlan.convert_to(PARTIAL_ORDER_PLAN) returned for it (raised UPUsageError / edge list of the
   transitively reduced graph) and the linearisations enumerated by PartialOrderPlan.all_sequential_plans().
   Everything is decided inside Coq:
     - model drift: the model raises exactly when the implementation raises; the implementation's edge set and the
       model's have the same reachability relation (closure computed here);
     - property oracle on the implementation's output: every enumerated linearisation is a permutation of the plan
       that respects the implementation's edges, is valid under the documented semantics [valid_plan false] and
       reaches the same final state; every two conflicting instances (read/write sets computed by the model,
       independently of the implementation's) are ordered, in the original direction, by the implementation's graph. *)
From Coq Require Import List ZArith NArith QArith Qcanon Bool.
Import ListNotations.
Require Import UPV.Core.Expr UPV.Core.Eval UPV.Core.Interp UPV.Planning.Problem UPV.Planning.Sem UPV.Planning.Deorder.
Require Import UPV.Corr.Corr_C01.

Record case := {
  c_init : list (N * list value * value);
  c_keys : list gfl;                    (* every ground fluent of the problem (also those with integer arguments,
                                           which [ground_fluents P] does not enumerate): final states are compared here *)
  c_plan : list inst;
  c_raised : bool;                      (* convert_to raised UPUsageError *)
  c_edges : list (inst * inst);         (* edges of the returned PartialOrderPlan *)
  c_lins : list (list inst)             (* all_sequential_plans(), possibly capped *)
}.

Definition nodup_b (l : list inst) : bool :=
  (fix go (l : list inst) : bool :=
     match l with [] => true | x :: r => negb (existsb (inst_eqb x) r) && go r end) l.

Definition perm_b (a b : list inst) : bool :=
  Nat.eqb (length a) (length b) && forallb (fun x => existsb (inst_eqb x) b) a && nodup_b b.

Definition topo_b (G : list (inst * inst)) (nodes pl' : list inst) : bool :=
  perm_b nodes pl' && forallb (fun e => before_b pl' (fst e) (snd e)) G.

Definition final_obs (sc : bool) (P : problem) (keys : list gfl) (s0 : state) (pl : list inst)
  : option (list (option value)) :=
  option_map (fun s => map (fun k => s (fst k) (snd k)) keys) (run P (spec_step sc P) s0 pl).

(* a linearisation is fine: valid and same final state *)
Definition lin_ok (sc : bool) (P : problem) (keys : list gfl) (s0 : state) (ref : option (list (option value)))
  (pl' : list inst) : bool :=
  valid_plan sc P s0 pl' && oobs_eqb (final_obs sc P keys s0 pl') ref.

Fixpoint first_bad {A} (f : A -> bool) (i : N) (l : list A) : N :=
  match l with [] => 0%N | x :: r => if f x then first_bad f (N.succ i) r else N.succ i end.

(* all ordered pairs (x before y) of the plan *)
Fixpoint ordered_pairs (l : list inst) : list (inst * inst) :=
  match l with [] => [] | x :: r => map (fun y => (x, y)) r ++ ordered_pairs r end.

(* bit 0  (1)   implementation raised <> model raises                                         (model drift)
   bit 1  (2)   implementation's edges and the model's edges have different reachability      (model drift)
   bit 2  (4)   the sequential plan is not valid under the documented (strict) semantics      (hypothesis, informational)
   bit 3  (8)   some linearisation is invalid / ends elsewhere under the documented semantics (oracle)
   bit 4  (16)  inv_local fails or the initial state violates an invariant                    (hypothesis, informational)
   bit 5  (32)  some enumerated linearisation is not a topological order of the returned graph (oracle, networkx)
   bit 6  (64)  plan valid under short-circuit semantics and some linearisation fails under it (oracle, code's evaluator)
   bit 7  (128) two conflicting instances are not ordered by the returned graph               (oracle)
   bit 8  (256) the plan has duplicate instances (harness error)
   bits 16.. : 1 + index of the first failing linearisation (strict), 0 if none *)
Definition code (P : problem) (c : case) : N :=
  let s0 := st_of (c_init c) in
  let pl := c_plan c in
  let model := deorder false P pl in
  let n := length pl in
  let raised_bit := match model with None => negb (c_raised c) | Some _ => c_raised c end in
  let hyp_inv := negb (inv_local false P && invariants_ok false P s0) in
  let dup := negb (nodup_b pl) in
  if c_raised c then ((if raised_bit then 1 else 0) + (if hyp_inv then 16 else 0) + (if dup then 256 else 0))%N
  else
    let reach_bit := match model with Some G => negb (same_reach_b n G (c_edges c)) | None => false end in
    let valid_s := valid_plan false P s0 pl in
    let ref_s := final_obs false P (c_keys c) s0 pl in
    let bad_s := first_bad (lin_ok false P (c_keys c) s0 ref_s) 0%N (c_lins c) in
    let valid_c := valid_plan true P s0 pl in
    let ref_c := final_obs true P (c_keys c) s0 pl in
    let bad_c := first_bad (lin_ok true P (c_keys c) s0 ref_c) 0%N (c_lins c) in
    let topo_bad := negb (forallb (topo_b (c_edges c) pl) (c_lins c)) in
    let CE := closure n (c_edges c) in
    let order_bad := negb (forallb (fun xy => negb (conflict false P (fst xy) (snd xy)) || emem xy CE) (ordered_pairs pl)) in
    ((if raised_bit then 1 else 0) + (if reach_bit then 2 else 0) + (if valid_s then 0 else 4) +
     (if valid_s && negb (bad_s =? 0)%N then 8 else 0) + (if hyp_inv then 16 else 0) + (if topo_bad then 32 else 0) +
     (if valid_c && negb (bad_c =? 0)%N then 64 else 0) + (if order_bad then 128 else 0) + (if dup then 256 else 0) +
     65536 * (if valid_s then bad_s else 0))%N.

(* what the model computes, for replays *)
Definition model_view (P : problem) (c : case) :=
  (deorder false P (c_plan c), map (fun x => (x, inst_reads false P x, inst_writes false P x)) (c_plan c)).
