(* Correspondence / validation for C09.
   [ccase] -- one compiler run by the implementation on one problem of its supported kind: kind(problem), kind(compiled problem)
              and the kind the class declared (resulting_problem_kind(kind(problem), ck)).  Decided here: the translated
              program declares the same kind (tie to Gen_Engines) and kind(compiled) <= declared (the property, part ii).
   [pcase] -- Factory.Compiler(problem_kind=kind(problem), compilation_kinds=cks) on the real Factory, then the chosen compilers
              run one after the other: the engines chosen and the actual kind of every intermediate problem.  Decided here: the
              model builds the same pipeline, every actual kind is within the declared one, and every stage supports the problem
              it receives (what C09_pipeline_accepts concludes). *)
From Coq Require Import List NArith Bool String.
Import ListNotations.
Require Import UPV.Model.Kind UPV.Model.Factory UPV.Gen.Gen_Kind UPV.Gen.Gen_Engines UPV.Corr.Corr_C32.

(* kinds are sent as (bitmask of feature numbers, declared version): the harness sums 2^i over the features *)
Definition mkind := (N * option N)%type.
Definition mkm (k : mkind) : kind := {| k_feats := fst k; k_ver := snd k |}.

Record ccase := {
  cc_engine : nat;                  (* index in the harness's table of engine names (strings are slow to parse) *)
  cc_ck : N;
  cc_in : mkind;
  cc_out : mkind;
  cc_declared : mkind
}.

Definition is_ok_true (r : res bool) : bool := match r with Ok true => true | _ => false end.

Definition name_at (names : list string) (i : nat) : string := nth i names EmptyString.

Definition cc_parts (names : list string) (c : ccase) : list bool :=
  match lookup (name_at names (cc_engine c)) (builtin_engines ++ extra_compilers) with
  | None => [false]
  | Some e =>
      [ is_mode e COMPILER && inN (cc_ck c) (e_compilations e);
        is_ok_true (supports T e (mkm (cc_in c)));                                       (* the problem was in the supported kind *)
        match run_resulting T (e_resulting e) (mkm (cc_in c)) with Ok k => kind_eqb k (mkm (cc_declared c)) | _ => false end;   (* translation = executed declaration *)
        is_ok_true (le T (mkm (cc_out c)) (mkm (cc_declared c))) ]                        (* kind(compiled) <= declared *)
  end.
Definition cc_ok (names : list string) (c : ccase) : bool := forallb (fun b => b) (cc_parts names c).

Inductive pres :=
| PBuilt (names : list nat) (actual : list mkind) (final : mkind)   (* built and run stage by stage *)
| PChosen (names : list nat)                                           (* built, not run *)
| PNotBuilt (s : sobs).
Record pcase := {
  pc_registered : list string;
  pc_prefs : list string;
  pc_cks : list N;
  pc_kind : mkind;
  pc_obs : pres
}.

Fixpoint zip_all {A B} (f : A -> B -> bool) (a : list A) (b : list B) : bool :=
  match a, b with
  | [], [] => true
  | x :: a', y :: b' => f x y && zip_all f a' b'
  | _, _ => false
  end.

Definition pc_reg (c : pcase) : registry :=
  filter (fun ne => existsb (String.eqb (fst ne)) (pc_registered c)) builtin_engines.

Definition pc_parts (names : list string) (c : pcase) : list bool :=
  match pipeline T (pc_reg c) (pc_prefs c) None (pc_cks c) (mkm (pc_kind c)), pc_obs c with
  | Pipe steps final, PBuilt chosen actual afinal =>
      [ list_eqb String.eqb (map (fun s => fst (fst s)) steps) (map (name_at names) chosen);                               (* same compilers chosen *)
        zip_all (fun a st => is_ok_true (le T (mkm a) (snd st))) actual steps;                          (* actual_i <= declared_i *)
        is_ok_true (le T (mkm afinal) final);                                                           (* output <= declared output *)
        zip_all (fun a st => is_ok_true (supports T (snd (fst st)) (mkm a))) actual steps ]             (* every stage accepts its input *)
  | Pipe steps _, PChosen chosen => [list_eqb String.eqb (map (fun s => fst (fst s)) steps) (map (name_at names) chosen)]
  | PipeFail s, PNotBuilt o => [sel_matches s o]
  | _, _ => [false]
  end.
Definition pc_ok (names : list string) (c : pcase) : bool := forallb (fun b => b) (pc_parts names c).
