(* Correspondence for the whole-message part of C20 (Model/ProtoWhole.v).  For an action / problem / plan [x] built
   through the real API the harness (harness/ext/c20_whole.py) records
     written : the protobuf message produced by the real ProtobufWriter().convert(x), field by field;
     read    : what the real ProtobufReader().convert(written, ...) returned (None = it raised), serialised like x,
               in the order in which the real object stores it (dict / list order).
   [wcode] answers a bit set:  1 = the model's encoder differs from [written];  2 = the model's decoder applied to
   [written] differs from [read];  4 = [read] is not [Some x] (structural, ordered comparison);  8 = x violates the
   well-formedness hypothesis of the codec theorem (the theorem would not apply to it). *)
From Coq Require Import List ZArith NArith QArith Qreduction Bool.
Import ListNotations.
Require Import UPV.Model.ProtoCodec.
Require Import UPV.Corr.Corr_C20.
Require Import UPV.Model.ProtoWhole.
Open Scope list_scope.

Definition param_eqb : name * ty -> name * ty -> bool := pair_eqb N.eqb ty_eqb.

Definition action_eqb (a b : action) : bool :=
  match a, b with
  | AInst n ps pre effs, AInst n' ps' pre' effs' =>
      (n =? n')%N && list_eqb param_eqb ps ps' && list_eqb expr_eqb pre pre' && list_eqb effect_eqb effs effs'
  | ADur n ps d cs es, ADur n' ps' d' cs' es' =>
      (n =? n')%N && list_eqb param_eqb ps ps' && dinterval_eqb d d'
      && list_eqb (pair_eqb tinterval_eqb (list_eqb expr_eqb)) cs cs'
      && list_eqb (pair_eqb timing_eqb (list_eqb effect_eqb)) es es'
  | _, _ => false
  end.

Definition param_msg_eqb (a b : param_msg) : bool := (pm_name a =? pm_name b)%N && tystr_eqb (pm_type a) (pm_type b).
Definition condition_msg_eqb (a b : condition_msg) : bool :=
  pexpr_eqb (cm_cond a) (cm_cond b) && opt_eqb tinterval_msg_eqb (cm_span a) (cm_span b).
Definition timed_effect_msg_eqb (a b : timed_effect_msg) : bool :=
  effect_msg_eqb (te_effect a) (te_effect b) && opt_eqb timing_msg_eqb (te_time a) (te_time b).
Definition action_msg_eqb (a b : action_msg) : bool :=
  (am_name a =? am_name b)%N && list_eqb param_msg_eqb (am_params a) (am_params b)
  && opt_eqb interval_msg_eqb (am_duration a) (am_duration b)
  && list_eqb condition_msg_eqb (am_conds a) (am_conds b)
  && list_eqb timed_effect_msg_eqb (am_effects a) (am_effects b).

Definition fluent_decl_eqb (a b : fluent_decl) : bool :=
  (fd_name a =? fd_name b)%N && ty_eqb (fd_type a) (fd_type b) && list_eqb param_eqb (fd_sig a) (fd_sig b)
  && opt_eqb expr_eqb (fd_default a) (fd_default b).
Definition fluent_msg_eqb (a b : fluent_msg) : bool :=
  (fm_name a =? fm_name b)%N && tystr_eqb (fm_type a) (fm_type b) && list_eqb param_msg_eqb (fm_params a) (fm_params b)
  && opt_eqb pexpr_eqb (fm_default a) (fm_default b).
Definition object_msg_eqb (a b : object_msg) : bool := (om_name a =? om_name b)%N && tystr_eqb (om_type a) (om_type b).
Definition goal_msg_eqb (a b : goal_msg) : bool :=
  pexpr_eqb (gm_goal a) (gm_goal b) && opt_eqb tinterval_msg_eqb (gm_timing a) (gm_timing b).

Definition problem_eqb (a b : problem) : bool :=
  opt_eqb N.eqb (p_name a) (p_name b)
  && list_eqb (pair_eqb N.eqb (opt_eqb N.eqb)) (p_types a) (p_types b)
  && list_eqb fluent_decl_eqb (p_fluents a) (p_fluents b)
  && list_eqb param_eqb (p_objects a) (p_objects b)
  && list_eqb action_eqb (p_actions a) (p_actions b)
  && list_eqb (pair_eqb expr_eqb expr_eqb) (p_init a) (p_init b)
  && list_eqb (pair_eqb timing_eqb (list_eqb effect_eqb)) (p_timed_effects a) (p_timed_effects b)
  && list_eqb expr_eqb (p_goals a) (p_goals b)
  && list_eqb (pair_eqb tinterval_eqb (list_eqb expr_eqb)) (p_timed_goals a) (p_timed_goals b)
  && list_eqb metric_eqb (p_metrics a) (p_metrics b)
  && list_eqb expr_eqb (p_traj a) (p_traj b)
  && Bool.eqb (p_discrete a) (p_discrete b) && Bool.eqb (p_self_overlapping a) (p_self_overlapping b)
  && opt_eqb Qeqb_strict (p_epsilon a) (p_epsilon b).

Definition problem_msg_eqb (a b : problem_msg) : bool :=
  (prm_name a =? prm_name b)%N
  && list_eqb type_decl_eqb (prm_types a) (prm_types b)
  && list_eqb fluent_msg_eqb (prm_fluents a) (prm_fluents b)
  && list_eqb object_msg_eqb (prm_objects a) (prm_objects b)
  && list_eqb action_msg_eqb (prm_actions a) (prm_actions b)
  && list_eqb (pair_eqb pexpr_eqb pexpr_eqb) (prm_init a) (prm_init b)
  && list_eqb timed_effect_msg_eqb (prm_timed_effects a) (prm_timed_effects b)
  && list_eqb goal_msg_eqb (prm_goals a) (prm_goals b)
  && list_eqb metric_msg_eqb (prm_metrics a) (prm_metrics b)
  && list_eqb pexpr_eqb (prm_traj a) (prm_traj b)
  && Bool.eqb (prm_discrete a) (prm_discrete b) && Bool.eqb (prm_self_overlapping a) (prm_self_overlapping b)
  && opt_eqb real_msg_eqb (prm_epsilon a) (prm_epsilon b).

Definition ainst_eqb : ainst -> ainst -> bool := pair_eqb N.eqb (list_eqb expr_eqb).
Definition plan_eqb (a b : plan) : bool :=
  match a, b with
  | PSeq l, PSeq l' => list_eqb ainst_eqb l l'
  | PTT l, PTT l' => list_eqb (pair_eqb (pair_eqb Qeqb_strict ainst_eqb) (opt_eqb Qeqb_strict)) l l'
  | _, _ => false
  end.
Definition ainst_msg_eqb (a b : ainst_msg) : bool :=
  (aim_id a =? aim_id b)%N && (aim_action a =? aim_action b)%N
  && list_eqb (opt_eqb atom_eqb) (aim_params a) (aim_params b)
  && opt_eqb real_msg_eqb (aim_start a) (aim_start b) && opt_eqb real_msg_eqb (aim_end a) (aim_end b).

(* ------------------------------------------------------------------ cases *)
Inductive wcase :=
| WAction (E : env) (a : action) (written : action_msg) (read : option action)
| WProblem (p : problem) (written : problem_msg) (read : option problem)
| WPlan (E : env) (sig : list (name * (nat * bool))) (pl : plan) (written : plan_msg) (read : option plan).

Definition bit (b : bool) (n : N) : N := if b then 0%N else n.

(* FNode.simplify() is not executed in Coq: the stored trajectory constraints are simplifier outputs, the model
   re-adds them unchanged; a real simplifier that changed them would show up as bit 2 / bit 4 *)
Definition id_simp (e : expr) : expr := e.

Definition codes {A M} (eqa : A -> A -> bool) (eqm : M -> M -> bool) (x : A) (enc : M) (w : M)
  (model_read read : option A) (wf : bool) : N :=
  (bit (eqm enc w) 1 + bit (opt_eqb eqa model_read read) 2 + bit (opt_eqb eqa read (Some x)) 4 + bit wf 8)%N.

Definition plan_wf (ot : name -> option ty) (sg : name -> option (nat * bool)) (pl : plan) : bool :=
  match pl with PSeq l => wf_seq_planb ot sg l | PTT l => wf_tt_planb ot sg l end.

Definition wcode (c : wcase) : N :=
  match c with
  | WAction E a w r =>
      codes action_eqb action_msg_eqb a (enc_action a) w (dec_action (ut E) (ot E) (ft E) w) r
            (wf_actionb (ut E) (ot E) (ft E) a)
  | WProblem p w r =>
      codes problem_eqb problem_msg_eqb p (enc_problem p) w (dec_problem id_simp w) r (wf_problemb p)
  | WPlan E sg pl w r =>
      codes plan_eqb (list_eqb ainst_msg_eqb) pl (enc_plan pl) w (dec_plan (ot E) (lookup sg) w) r
            (plan_wf (ot E) (lookup sg) pl)
  end.
