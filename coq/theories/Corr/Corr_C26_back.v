(* Correspondence for the back conversion of C26 (Planning/StnBack.v).  The harness (harness/ext/c26_back.py) builds
   STN plans with the REAL STNPlan(constraints) - from constraint lists/dicts it generates itself and from the
   constraint dicts that the real TimeTriggeredPlan._convert_to_stn hands to STNPlan.__init__ - and observes
   is_consistent() and convert_to(TIME_TRIGGERED_PLAN): the timed actions IN ORDER with exact Fractions, or the fact
   that an exception was raised.  [bcode] compares with the model and evaluates the theorem instances. *)
From Coq Require Import List ZArith NArith QArith Bool.
Import ListNotations.
Require Import UPV.Model.Stn UPV.Planning.StnPlan UPV.Planning.StnBack UPV.Corr.Corr_C26.

Record bcase := {
  b_cs : list pcon;                 (* the constraints given to STNPlan(...), a dict already flattened *)
  b_consistent : bool;              (* observed is_consistent() *)
  b_result : back_result;           (* observed convert_to(TIME_TRIGGERED_PLAN): plan in order, or BackError = raised *)
  b_fuel : nat
}.

Definition result_eqb (a b : back_result) : bool :=
  match a, b with
  | BackPlan p, BackPlan q => list_eqb ttstep_eqb p q
  | BackError, BackError => true
  | _, _ => false
  end.

(* the conclusion of C26_back_times_satisfy_stn, decidable parts, on the MODEL's plan *)
Definition thm_ok (cs : list pcon) (s : stn) : bool :=
  match back_convert s with
  | BackPlan p => forallb (sat_pconb (tt_time p (model_of s end_plan))) cs
  | BackError => false
  end.

(* bit 0 (1): implementation differs from the model (consistency, accept/raise, the plan entries in order)
   bit 1 (2): the model ran out of fuel (never expected)
   bit 2 (4): a theorem instance fails: consistent, starts present, and the model raises or its plan violates a
              constraint (never expected)
   bit 3 (8): information: the STN plan is inconsistent according to the model
   bit 4 (16): information: starts_present fails *)
Definition bcode (c : bcase) : N :=
  match back_init (b_fuel c) (b_cs c) with
  | None => 2
  | Some s =>
      ((if Bool.eqb (check_stn s) (b_consistent c) && result_eqb (back_convert s) (b_result c) then 0 else 1) +
       (if check_stn s && starts_present (b_cs c) && negb (thm_ok (b_cs c) s) then 4 else 0) +
       (if check_stn s then 0 else 8) +
       (if starts_present (b_cs c) then 0 else 16))%N
  end.

Definition bshow (c : bcase) :=
  match back_init (b_fuel c) (b_cs c) with
  | None => None
  | Some s => Some (check_stn s, back_convert s, distances s)
  end.
