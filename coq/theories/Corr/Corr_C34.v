(* Correspondence for C34: the harness builds a task network through the real API (TaskNetwork, the initial task
   network of a HierarchicalProblem, or a Method), records the subtask identifiers, the constraints it added
   (by construction: the harness knows which kind of constraint it built) and what partial_order()/total_order()
   returned; Coq evaluates the model on the same network and compares the answers exactly (same lists). *)
From Coq Require Import List ZArith NArith QArith Bool.
Import ListNotations.
Require Import UPV.Model.Htn.

Record case := mk {
  c_tasks : list N;
  c_cons : list ncons;
  c_total : option (list N);
  c_partial : option (list (N * N))
}.

(* compact constructors used by the generated files *)
Definition TM (k : tpkind) (c : option N) (d : Q) : texp := ETiming {| t_kind := k; t_cont := c; t_delay := d |}.
Definition Pc (a b : N) : ncons := NTemporal (CLt (TM KEnd (Some a) 0) (TM KStart (Some b) 0)).
Definition Lc (l r : texp) : ncons := NTemporal (CLt l r).
Definition Oc : ncons := NTemporal COther.
Definition Sc : ncons := NStatic.

Fixpoint list_eqb {A} (e : A -> A -> bool) (a b : list A) : bool :=
  match a, b with
  | [], [] => true
  | x :: a', y :: b' => e x y && list_eqb e a' b'
  | _, _ => false
  end.

Definition opt_eqb {A} (e : A -> A -> bool) (a b : option A) : bool :=
  match a, b with Some x, Some y => e x y | None, None => true | _, _ => false end.

Definition pair_eqb (p q : N * N) : bool := (fst p =? fst q)%N && (snd p =? snd q)%N.

Definition ok (c : case) : bool :=
  opt_eqb (list_eqb N.eqb) (tn_total_order (c_tasks c) (c_cons c)) (c_total c)
  && opt_eqb (list_eqb pair_eqb) (tn_partial_order (c_tasks c) (c_cons c)) (c_partial c).
