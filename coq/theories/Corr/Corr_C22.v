(* Correspondence for C22.  The harness dumps the original problem (every attribute of the Problem part, including the
   conflict bookkeeping) as a [pstate], clones it, applies a list of steps (an operation on both / on one side only / a
   fresh re-clone of the original), and records for every call the outcome (ok or the exception class), whether
   `original == clone` afterwards, and at the end the dump of both problems.  [ok] replays the same steps in the heap
   model and compares everything. *)
From Coq Require Import List NArith Bool.
Import ListNotations.
Require Import UPV.Model.Clone.

Inductive sstep :=
| SBoth (o : op)                 (* the same edit on the original, then on the clone *)
| SOne (sd : side) (o : op)      (* an edit on one of them only *)
| SReclone.                      (* clone = original.clone() again *)

Record case := {
  c_init : pstate;
  c_steps : list sstep;
  c_outs : list (list outcome);       (* per step: [original; clone] / [the one] / [] *)
  c_eqs : list (option bool);         (* per step: observed `original == clone` (None = not asked) *)
  c_final_p : pstate;
  c_final_c : pstate
}.

(* ---- decidable equality on contents *)
Fixpoint list_eqb {A} (e : A -> A -> bool) (a b : list A) : bool :=
  match a, b with
  | [], [] => true
  | x :: a', y :: b' => e x y && list_eqb e a' b'
  | _, _ => false
  end.
Definition pairNN_eqb (a b : N * N) : bool := (fst a =? fst b)%N && (snd a =? snd b)%N.
Definition keyed_eqb {A} (e : A -> A -> bool) (a b : N * A) : bool := (fst a =? fst b)%N && e (snd a) (snd b).
Definition astate_eqb (a b : astate) : bool :=
  (a_static a =? a_static b)%N
  && list_eqb (keyed_eqb (list_eqb N.eqb)) (a_sim a) (a_sim b)
  && list_eqb (keyed_eqb (list_eqb val_eqb)) (a_effs a) (a_effs b)
  && list_eqb (keyed_eqb (list_eqb pairNN_eqb)) (a_asg a) (a_asg b)
  && list_eqb (keyed_eqb (list_eqb val_eqb)) (a_incdec a) (a_incdec b)
  && list_eqb (keyed_eqb (list_eqb val_eqb)) (a_ceffs a) (a_ceffs b).
Definition cell_eqb (a b : cell) : bool :=
  match a, b with
  | CList x, CList y => list_eqb val_eqb x y
  | CDict x, CDict y => list_eqb pairNN_eqb x y
  | CRefs x, CRefs y => list_eqb (fun u v => (fst u =? fst v)%N && Nat.eqb (snd u) (snd v)) x y
  | CAct x, CAct y => astate_eqb x y
  | _, _ => false
  end.
Definition pstate_eqb (s t : pstate) : bool :=
  list_eqb N.eqb (s_scal s) (s_scal t)
  && list_eqb cell_eqb (s_flat s) (s_flat t)
  && list_eqb (list_eqb (keyed_eqb cell_eqb)) (s_nest s) (s_nest t).
Definition outcome_eqb (a b : outcome) : bool :=
  match a, b with Ok, Ok => true | Fail x, Fail y => (x =? y)%N | _, _ => false end.

(* what the model can say about `original == clone`: identical contents are equal; contents whose compared collections
   differ (Problem.__eq__ without kind and initial_values, which are not modelled) are different; otherwise no claim *)
Definition eq_pred (s t : pstate) : option bool :=
  if pstate_eqb s t then Some true
  else if peq (fun _ => 0%N) (fun _ => []) s t then None
  else Some false.

Definition sstep_run (w : world) (st : sstep) : world * list outcome :=
  match st with
  | SBoth o => let (w1, o1) := wstep w (SOrig, o) in let (w2, o2) := wstep w1 (SClone, o) in (w2, [o1; o2])
  | SOne sd o => let (w1, o1) := wstep w (sd, o) in (w1, [o1])
  | SReclone => (clone_world (w_heap w) (w_p w), [])
  end.

Fixpoint replay (w : world) (steps : list sstep) (outs : list (list outcome)) (eqs : list (option bool)) : option world :=
  match steps, outs, eqs with
  | [], [], [] => Some w
  | st :: sr, o :: or, e :: er =>
      let (w1, mo) := sstep_run w st in
      let agree_eq := match e, eq_pred (abs (w_heap w1) (w_p w1)) (abs (w_heap w1) (w_c w1)) with
                      | Some b, Some b' => Bool.eqb b b'
                      | _, _ => true
                      end in
      if list_eqb outcome_eqb mo o && agree_eq && wfb (w_heap w1) (w_p w1) && wfb (w_heap w1) (w_c w1)
      then replay w1 sr or er else None
  | _, _, _ => None
  end.

Definition ok (c : case) : bool :=
  let (h, p) := load (c_init c) in
  wfb h p && pstate_eqb (abs h p) (c_init c) &&
  match replay (clone_world h p) (c_steps c) (c_outs c) (c_eqs c) with
  | None => false
  | Some w => pstate_eqb (abs (w_heap w) (w_p w)) (c_final_p c) && pstate_eqb (abs (w_heap w) (w_c w)) (c_final_c c)
  end.

(* the model's own account of a case, for replay files *)
Definition explain (c : case) : list (list outcome) * pstate * pstate :=
  let (h, p) := load (c_init c) in
  let fix go (w : world) (steps : list sstep) : list (list outcome) * world :=
    match steps with
    | [] => ([], w)
    | st :: sr => let (w1, mo) := sstep_run w st in let (r, w2) := go w1 sr in (mo :: r, w2)
    end in
  let (outs, w) := go (clone_world h p) (c_steps c) in
  (outs, abs (w_heap w) (w_p w), abs (w_heap w) (w_c w)).
