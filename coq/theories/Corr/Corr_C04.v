(* Correspondence for C04: instantaneous problems, plans scheduled at distinct rational times; both real validators
   were run; Coq recomputes the time-triggered model on the scheduled plan and the sequential model on the same
   action instances in start-time order. *)
From Coq Require Import List ZArith NArith QArith Qcanon Bool.
Import ListNotations.
Require Import UPV.Core.Expr UPV.Core.Eval UPV.Core.Interp UPV.Planning.Problem UPV.Planning.Sem UPV.Planning.SeqValidate.
Require Import UPV.Planning.Temporal UPV.Planning.TTValidate UPV.Planning.TTSeq UPV.Corr.Corr_C01 UPV.Corr.Corr_C05.

Record case := {
  c_init : list (N * list value * value);
  c_plan : list (N * list value);
  c_times : list Qc;
  c_tt_valid : bool;               (* TimeTriggeredPlanValidator: status == VALID *)
  c_seq_valid : bool               (* SequentialPlanValidator on the instances in start-time order *)
}.

Definition mk_tp (P : problem) : tproblem := {| tp_base := P; tp_dur := []; tp_teffs := []; tp_tgoals := [] |}.

Fixpoint nodup_qc (l : list Qc) : bool :=
  match l with [] => true | x :: r => negb (existsb (qc_eqb x) r) && nodup_qc r end.

(* bit 0 (1):  the two implementations disagree                                   -> the property fails here
   bit 1 (2):  time-triggered implementation differs from its model
   bit 2 (4):  sequential implementation differs from its model
   bit 3 (8):  the two models disagree (instance of the theorem fails?)
   bit 4 (16): hypotheses of the theorem not met (initial state violates invariants, equal times, negative time) *)
Definition code (P : problem) (c : case) : N :=
  let s0 := st_of (c_init c) in
  let TP := mk_tp P in
  let m_tt := tt_validate true TP s0 (schedule (c_plan c) (c_times c)) in
  let m_seq := verdict_of (seq_validate true P MNone s0 (sort_by_time (c_plan c) (c_times c))) in
  ((if Bool.eqb (c_tt_valid c) (c_seq_valid c) then 0 else 1) +
   (if verdict_is m_tt (c_tt_valid c) then 0 else 2) +
   (if verdict_is m_seq (c_seq_valid c) then 0 else 4) +
   (if verdict_is m_tt (match m_seq with VALID => true | _ => false end) then 0 else 8) +
   (if invariants_ok true P s0 && nodup_qc (c_times c) && forallb nonneg (c_times c) then 0 else 16))%N.
