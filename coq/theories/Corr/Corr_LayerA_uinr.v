(* Structural correspondence for Layer A of C06 / C07, UndefinedInitialNumericRemover: the Gallina model
   [uinr_compile umap] applied to the serialised original problem is compared with the serialised problem the REAL
   compiler produced (one name table for both).  Actions are compared name by name: same parameters, the same
   preconditions as a SET (the real compiler iterates over Python sets), the original effects in their order followed
   by the added `companion := true` effects as a set; goals, state invariants and fluent declarations as sets; the
   injected default value of every tracked fluent against [default_value].  [umap] is read off the real output (tracked
   fluents in the order of Problem._fluents_with_undefined_values, companions = the new fluents in declaration order). *)
From Coq Require Import List ZArith NArith QArith Qcanon Bool.
Import ListNotations.
Require Import UPV.Core.Expr UPV.Core.Eval UPV.Core.Interp UPV.Planning.Problem UPV.Planning.Sem.
Require Import UPV.Compilers.LayerA_Defs UPV.Compilers.LayerA_Quant UPV.Compilers.LayerA_Uinr.
Require Import UPV.Corr.Corr_LayerA.

Record ua_case := {
  ua_orig : problem;
  ua_comp : problem;                  (* what the real compiler produced *)
  ua_umap : list (N * N);             (* tracked fluent -> companion, from the real output *)
  ua_dflt : list (N * Qc)             (* tracked fluent -> the default value the real compiler injected *)
}.

Definition effs_seteq (m r : list effect) : bool :=
  (length m =? length r)%nat && forallb (fun x => existsb (eff_eqb x) r) m && forallb (fun x => existsb (eff_eqb x) m) r.

Definition uact_eqb (n : nat) (m r : action) : bool :=
  listN_eqb (a_params m) (a_params r) && seteq_e (a_pre m) (a_pre r) && (length (a_pre m) =? length (a_pre r))%nat &&
  effs_eqb (firstn n (a_effs m)) (firstn n (a_effs r)) && effs_seteq (skipn n (a_effs m)) (skipn n (a_effs r)).

(* code: 0 = the model and the implementation agree; bits: 1 actions, 2 goals, 4 state invariants, 8 fluents,
   16 default values *)
Definition ua_code (c : ua_case) : N :=
  let M := uinr_compile (ua_umap c) (ua_orig c) in
  let R := ua_comp c in
  let b_act :=
    (length (p_actions M) =? length (p_actions R))%nat &&
    forallb (fun ia => match lookupN (fst ia) (p_actions R), lookupN (fst ia) (p_actions M) with
                       | Some r, Some m => uact_eqb (length (a_effs (snd ia))) m r
                       | _, _ => false
                       end) (p_actions (ua_orig c)) in
  let b_goal := seteq_e (p_goals M) (p_goals R) && (length (p_goals M) =? length (p_goals R))%nat in
  let b_inv := seteq_e (p_invs M) (p_invs R) in
  let b_fl := fds_seteq (p_fluents M) (p_fluents R) in
  let b_d := (length (ua_dflt c) =? length (ua_umap c))%nat &&
             forallb (fun fq => qc_eqb (default_value (ua_orig c) (fst fq)) (snd fq)) (ua_dflt c) in
  ((if b_act then 0 else 1) + (if b_goal then 0 else 2) + (if b_inv then 0 else 4) + (if b_fl then 0 else 8) +
   (if b_d then 0 else 16))%N.

(* coverage: do the decidable hypotheses of the plan-level theorems hold for this problem?
   bit 1: uinr_ok (all of them), bit 2: umap_ok alone, bit 4: some fluent is tracked *)
Definition ua_hyps (c : ua_case) : N :=
  ((if uinr_ok (ua_umap c) (ua_orig c) then 1 else 0) + (if umap_ok (ua_umap c) (ua_orig c) then 2 else 0) +
   (if is_nil (ua_umap c) then 0 else 4))%N.

Definition ua_report (c : ua_case) : list N := [ua_code c; ua_hyps c].
