(* Correspondence for C03: whole plans validated by the real SequentialPlanValidator. *)
From Coq Require Import List ZArith NArith QArith Qcanon Bool.
Import ListNotations.
Require Import UPV.Core.Expr UPV.Core.Eval UPV.Core.Interp UPV.Planning.Problem UPV.Planning.Sem UPV.Planning.SeqValidate.
Require Import UPV.Corr.Corr_C01.

Record case := {
  c_init : list (N * list value * value);
  c_plan : list (N * list value);
  c_valid : bool;                 (* status == VALID *)
  c_metric : option Qc            (* reported metric value (None: no metric / INVALID) *)
}.

Definition vres_eqb (r : vresult) (valid : bool) (m : option Qc) : bool :=
  match r with
  | Invalid => negb valid
  | Valid None => valid && match m with None => true | Some _ => false end
  | Valid (Some q) => valid && match m with Some q' => qc_eqb q q' | None => false end
  end.

(* bit 0: differs from the documented semantics (validate over spec_step with strict evaluation);
   bit 1: differs from the model of the code (seq_validate with short-circuit evaluation) *)
Definition code (P : problem) (M : metric) (c : case) : N :=
  let s0 := st_of (c_init c) in
  ((if vres_eqb (validate_from false P M (spec_step false P) s0 (zq 0) (c_plan c)) (c_valid c) (c_metric c) then 0 else 1) +
   (if vres_eqb (seq_validate true P M s0 (c_plan c)) (c_valid c) (c_metric c) then 0 else 2))%N.
