(* Correspondence for the C10 class models (Model/KindOfClasses.v).

   A case is one ContingentProblem / MultiAgentProblem / HierarchicalProblem / SchedulingProblem built through the real
   API: its description (harness/ext/c10_classes.py) and the IMPLEMENTATION's kind (`problem.kind.features` as Gen_Kind
   numbers).  [ccode] returns bit flags:
     1 = the model's kind differs from the implementation's kind (model drift, or a changed implementation);
     2 = a feature of the PROVED specification ([spec_contingent] / [spec_ma] / [spec_hier] / [spec_sched]) is missing
         from the implementation's kind although the description is well-formed (the property fails on this input);
     4 = the description is not well-formed (the theorem's hypothesis fails: serialiser problem);
     8 = proved specification not inside the model's kind although well-formed (would contradict Props/C10_classes.v).
   [known_missing] lists the features of the FULL statement (the _goal definitions) that the implementation's kind lacks
   (only the multi-agent class still has a full statement larger than the proved one): the harness reports such a case
   as a failing input of the property, tagged kind-misses-common-feature (open finding
   C10-ma-kind-misses-common-features) when every missed feature is one of the recorded [ma_missed] ([n_outside] = 0). *)
From Coq Require Import List ZArith NArith Bool.
Import ListNotations.
Require Import UPV.Core.Expr UPV.Model.Kind UPV.Gen.Gen_Kind UPV.Model.KindOf UPV.Model.KindOfClasses.

Inductive cdesc := DC (c : contingent_desc) | DM (m : ma_desc) | DH (h : hier_desc) | DS (s : sched_desc).
Record ccase := { k_desc : cdesc; k_kind : list feature }.

Definition model_kind (d : cdesc) : list feature :=
  match d with DC c => kind_contingent c | DM m => kind_ma m | DH h => kind_hier h | DS s => kind_sched s end.
Definition proved_spec (d : cdesc) : list feature :=
  match d with DC c => spec_contingent c | DM m => spec_ma m | DH h => spec_hier_full h | DS s => spec_sched_full s end.
Definition full_spec (d : cdesc) : list feature :=
  match d with
  | DC c => spec_contingent c
  | DM m => spec_ma_full m
  | DH h => spec_hier_full h
  | DS s => spec_sched_full s
  end.
Definition wf_okb (d : cdesc) : bool :=
  match d with
  | DC c => wfb (flat_contingent c) | DM m => wf_mab m | DH h => wfb (flat_hier h) | DS s => wfb (flat_sched s)
  end.

Definition fmask (l : list feature) : N := mask_of l.
Definition lacking (have want : list feature) : list feature :=
  nodup N.eq_dec (filter (fun f => negb (memN f have)) want).

Definition missing (c : ccase) : list feature := lacking (k_kind c) (proved_spec (k_desc c)).
Definition known_missing (c : ccase) : list feature := lacking (k_kind c) (full_spec (k_desc c)).
Definition model_diff (c : ccase) : list feature * list feature :=       (* (model \ impl, impl \ model) *)
  let m := model_kind (k_desc c) in (lacking (k_kind c) m, lacking m (k_kind c)).

Definition ccode (c : ccase) : N :=
  let d := k_desc c in
  ((if (fmask (model_kind d) =? fmask (k_kind c))%N then 0 else 1)
   + (match missing c with [] => 0 | _ => if wf_okb d then 2 else 0 end)
   + (if wf_okb d then 0 else 4)
   + (if wf_okb d && negb (forallb (fun f => memN f (model_kind d)) (proved_spec d)) then 8 else 0))%N.

(* number of known-missing features (findings) of a case, for the evidence *)
Definition n_known (c : ccase) : N := N.of_nat (length (known_missing c)).
(* ... and how many of them are NOT among the recorded [ma_missed] *)
Definition n_outside (c : ccase) : N :=
  N.of_nat (length (filter (fun f => negb (memN f ma_missed)) (known_missing c))).
(* one number per case for the harness: ccode (< 16), n_known (< 256), n_outside *)
Definition packed (c : ccase) : N := (ccode c + 16 * n_known c + 4096 * n_outside c)%N.
