(* Correspondence for C16: the harness performs one construction history on ONE fresh Environment and records,
   per constructor call, either the exception class or the returned node's (node_id, node_type, argument ids,
   payload); at the end the size of ExpressionManager.expressions and _next_free_id.  The model replays the same
   calls from [init].  (`is`-identity of repeated constructions and immutability of the observed nodes are checked
   on the Python side; they are properties of the implementation, not of the model.) *)
From Coq Require Import List ZArith NArith QArith Bool.
Import ListNotations.
Require Import UPV.Model.HashCons.
Open Scope N_scope.

Record obs := {
  o_res : result;          (* Ok node_id | Err class *)
  o_op : N;                (* op_code of node_type (0 when Err) *)
  o_args : list N;
  o_pay : payload
}.

Record case := {
  c_decls : decls;
  c_calls : list call;
  c_obs : list obs;
  c_size : nat;            (* len(em.expressions) after the history *)
  c_next : N               (* em._next_free_id after the history *)
}.

Definition err_eqb (a b : err) : bool :=
  match a, b with
  | EType, EType | EZeroDiv, EZeroDiv | EArity, EArity | EBadRef, EBadRef => true
  | _, _ => false
  end.

Definition obs_match (m : result * option node) (o : obs) : bool :=
  match m, o_res o with
  | (Ok i, Some n), Ok j =>
      (i =? j) && (n_id n =? j) && (op_code (n_op n) =? o_op o) && ids_eqb (n_args n) (o_args o)
      && payload_eqb (n_pay n) (o_pay o)
  | (Err e, _), Err e' => err_eqb e e'
  | _, _ => false
  end.

Fixpoint list_match {A B} (f : A -> B -> bool) (a : list A) (b : list B) : bool :=
  match a, b with
  | [], [] => true
  | x :: a', y :: b' => f x y && list_match f a' b'
  | _, _ => false
  end.

Definition model_obs (c : case) : list (result * option node) :=
  let D := c_decls c in
  run_obs (typecheck D) (arity D) (init (typecheck D)) (c_calls c).

Definition model_final (c : case) : state :=
  let D := c_decls c in
  run (typecheck D) (arity D) (init (typecheck D)) (c_calls c).

Definition ok (c : case) : bool :=
  list_match obs_match (model_obs c) (c_obs c)
  && Nat.eqb (length (tbl (model_final c))) (c_size c)
  && (next_id (model_final c) =? c_next c).

(* index of the first step on which model and observation differ (for the replay file) *)
Fixpoint first_diff (m : list (result * option node)) (o : list obs) (i : nat) : option nat :=
  match m, o with
  | [], [] => None
  | x :: m', y :: o' => if obs_match x y then first_diff m' o' (S i) else Some i
  | _, _ => Some i
  end.
