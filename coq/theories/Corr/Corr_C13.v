(* Correspondence for C13.  The harness calls e.substitute(map) on the real implementation and records the outcome,
   the types the implementation's TypeChecker gave keys and values, the result of an independent Python
   top-down-replacement over FNodes, an independently computed capture-freedom flag, and sampled interpretations.
   [ok] compares the model of the code AND the specification with the observation and evaluates the evaluation
   statements of Props/C13.v on the OBSERVED result wherever their hypotheses hold. *)
From Coq Require Import List ZArith NArith QArith Qcanon Bool.
Import ListNotations.
Require Import UPV.Core.Expr UPV.Core.Eval UPV.Core.Interp UPV.Walkers.Subst.
Local Open Scope nat_scope.

Record case := {
  c_e : expr;
  c_map : tmap;                  (* (key, value, type of key, type of value) in dict order *)
  c_obs : outcome;               (* Done result | TypeErr i  (i = entry named in the UPTypeError message) *)
  c_pyspec : option expr;        (* Python oracle: topdown replacement (None for rejected maps) *)
  c_cfree : bool;                (* Python oracle: capture-free? *)
  c_interps : list finterp
}.

Definition outcome_eqb (a b : outcome) : bool :=
  match a, b with
  | Done x, Done y => expr_eqb x y
  | TypeErr i, TypeErr j => Nat.eqb i j
  | _, _ => false
  end.

(* hypotheses of C13_subst_eval at I, decided by evaluation *)
Definition hyp (sc : bool) (s : smap) (e : expr) (I : interp) : bool :=
  capture_free s e
  && forallb (fun kv => ovalue_eqb (eval sc (fst kv) I) (eval sc (snd kv) I)) s
  && forallb (fun kv => match snd kv with ENot y => bool_or_undef_b (eval sc y I) | _ => true end) s.

(* hypotheses of C13_subst_eval_updated *)
Definition hyp_strong (sc : bool) (s : smap) (e r : expr) (I : interp) : bool :=
  capture_free s e && keys_ok s
  && forallb (fun kv => unread s (snd kv)) s
  && unread s r
  && forallb (fun kv => match snd kv with ENot y => bool_or_undef_b (eval sc y I) | _ => true end) s.

(* [r] is the OBSERVED result *)
Definition eval_checks (sc : bool) (s : smap) (e r : expr) (I : interp) : bool :=
  let I' := updated sc s I in
  implb (hyp sc s e I) (ovalue_eqb (eval sc r I) (eval sc e I))
  && implb (keys_ok s && hyp sc s e I') (ovalue_eqb (eval sc r I') (eval sc e I'))
  && implb (hyp_strong sc s e r I) (ovalue_eqb (eval sc r I) (eval sc e I')).

Definition b2n (b : bool) : nat := if b then 1 else 0.

(* how many (interpretation, mode) pairs exercised each of the three statements non-vacuously *)
Definition eval_counts (c : case) : nat * nat * nat :=
  match c_obs c with
  | Done r =>
      let s := untyped (c_map c) in
      fold_right (fun F acc =>
        let I := to_interp F in
        fold_right (fun sc acc' =>
          match acc' with (a, b, d) =>
            (a + b2n (hyp sc s (c_e c) I),
             b + b2n (keys_ok s && hyp sc s (c_e c) (updated sc s I)),
             d + b2n (hyp_strong sc s (c_e c) r I))
          end) acc [false; true]) (0, 0, 0) (c_interps c)
  | TypeErr _ => (0, 0, 0)
  end.

Definition sum_counts (cs : list case) : nat * nat * nat :=
  fold_right (fun c acc => match eval_counts c, acc with (a, b, d), (a', b', d') => (a + a', b + b', d + d') end)
             (0, 0, 0) cs.

Definition model_outcome (c : case) : outcome := snd (substitute_call [] (c_map c) (c_e c)).
Definition model_state (c : case) : wstate := fst (substitute_call [] (c_map c) (c_e c)).

Definition ok (c : case) : bool :=
  let s := untyped (c_map c) in
  nf (c_e c)
  && outcome_eqb (model_outcome c) (c_obs c)
  && match model_state c with [] => true | _ => false end
  && match c_obs c with
     | Done r =>
         match c_pyspec c with
         | Some p => expr_eqb p r && expr_eqb (topdown_replace s (c_e c)) p
         | None => false
         end
         && Bool.eqb (capture_free s (c_e c)) (c_cfree c)
         && forallb (fun F => eval_checks false s (c_e c) r (to_interp F)
                              && eval_checks true s (c_e c) r (to_interp F)) (c_interps c)
     | TypeErr _ => match c_pyspec c with None => true | Some _ => false end
     end.
