(* Correspondence for C29: the harness builds a durative problem through the real API, compiles it with
   DurativeActionToProcesses, pushes a random time-triggered plan through the real
   CompilerResult.plan_forward_conversion and plan_back_conversion (also on a shuffled copy of the forward plan, because
   _back_plan_to_plan sorts its input) and records what came out (None = an exception was raised). *)
From Coq Require Import List ZArith NArith QArith Bool.
Import ListNotations.
Require Import UPV.Model.DA2P.

Record case := {
  c_prob : problem;
  c_plan : list oentry;
  c_fwd : option (list centry);          (* plan_forward_conversion(plan) *)
  c_back : option (list oentry);         (* plan_back_conversion(forward plan); None also when there is no forward plan *)
  c_shuf : list centry;                  (* a permutation of the observed forward plan, chosen by the harness *)
  c_back_shuf : option (list oentry)     (* plan_back_conversion(shuffled forward plan) *)
}.

Definition optq_eqb (a b : option Q) : bool :=
  match a, b with Some x, Some y => Qeq_bool x y | None, None => true | _, _ => false end.

Definition cact_eqb (a b : cact) : bool :=
  match a, b with
  | CStart x, CStart y => (x =? y)%N
  | CFirstEnd x, CFirstEnd y => (x =? y)%N
  | _, _ => false
  end.

Definition oentry_eqb (x y : oentry) : bool :=
  Qeq_bool (fst (fst x)) (fst (fst y)) && key_eqb (snd (fst x)) (snd (fst y)) && optq_eqb (snd x) (snd y).

Definition centry_eqb (x y : centry) : bool :=
  Qeq_bool (fst (fst x)) (fst (fst y))
  && cact_eqb (fst (snd (fst x))) (fst (snd (fst y))) && pvals_eqb (snd (snd (fst x))) (snd (snd (fst y)))
  && optq_eqb (snd x) (snd y).

Fixpoint list_eqb {A} (e : A -> A -> bool) (a b : list A) : bool :=
  match a, b with
  | [], [] => true
  | x :: a', y :: b' => e x y && list_eqb e a' b'
  | _, _ => false
  end.

Definition opt_eqb {A} (e : A -> A -> bool) (a b : option A) : bool :=
  match a, b with Some x, Some y => e x y | None, None => true | _, _ => false end.

Definition model_fwd (c : case) := forward (c_prob c) (c_plan c).
Definition model_back (c : case) := match c_fwd c with Some f => back (c_prob c) f | None => None end.
Definition model_back_shuf (c : case) := match c_fwd c with Some _ => back (c_prob c) (c_shuf c) | None => None end.

Definition ok (c : case) : bool :=
  opt_eqb (list_eqb centry_eqb) (model_fwd c) (c_fwd c)
  && opt_eqb (list_eqb oentry_eqb) (model_back c) (c_back c)
  && opt_eqb (list_eqb oentry_eqb) (model_back_shuf c) (c_back_shuf c).
