(* Correspondence for C05 (and C04): time-triggered plans validated by the real TimeTriggeredPlanValidator, compared
   with the reference temporal semantics [tt_valid_b] (strict evaluation: the property oracle) and with the model of
   the code [tt_validate] (short-circuit quantifiers, as the StateEvaluator). *)
From Coq Require Import List ZArith NArith QArith Qcanon Bool.
Import ListNotations.
Require Import UPV.Core.Expr UPV.Core.Eval UPV.Core.Interp UPV.Planning.Problem UPV.Planning.Sem.
Require Import UPV.Planning.Temporal UPV.Planning.TTValidate UPV.Corr.Corr_C01.

Record case := {
  c_init : list (N * list value * value);
  c_plan : tplan;
  c_valid : bool                  (* status == VALID *)
}.

Definition verdict_is (v : verdict) (b : bool) : bool :=
  match v with VALID => b | INVALID => negb b | OUT_OF_FUEL => false end.

(* bit 0 (1):  implementation differs from the reference semantics (strict evaluation)      -> the property fails here
   bit 1 (2):  implementation differs from the model of the code                             -> model drift or defect
   bit 2 (4):  the plan is outside [supported_plan] (effects before their action's start / empty condition interval)
   bit 3 (8):  the model ran out of fuel (never expected)
   bit 4 (16): model of the code and reference semantics disagree under the SAME evaluator (the theorem's claim) *)
Definition code (TP : tproblem) (c : case) : N :=
  let s0 := st_of (c_init c) in
  let ref_strict := tt_valid_b false TP s0 (c_plan c) in
  let ref_sc := tt_valid_b true TP s0 (c_plan c) in
  let model := tt_validate true TP s0 (c_plan c) in
  ((if Bool.eqb ref_strict (c_valid c) then 0 else 1) +
   (if verdict_is model (c_valid c) then 0 else 2) +
   (if supported_plan TP (c_plan c) then 0 else 4) +
   (match model with OUT_OF_FUEL => 8 | _ => 0 end) +
   (if verdict_is model ref_sc then 0 else 16))%N.
