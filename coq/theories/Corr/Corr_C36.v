(* Correspondence for C36: the harness runs a branching history of UPState constructions / make_child calls (with
   hash()/repr()/== calls interleaved on the Python side) and records, for every state and every ground fluent,
   what get_value answered (None = UPStateMissingFluentError), plus the == and hash-equality matrices. *)
From Coq Require Import List ZArith NArith Bool.
Import ListNotations.
Require Import UPV.Model.State.

Record case := {
  c_defaults : defaults;
  c_limit : option nat;
  c_ops : list op;
  c_keys : list gf;
  c_obs : list (list (option Z));      (* per state, per key *)
  c_eq : list (list bool);             (* states[i] == states[j] *)
  c_hasheq : list (list bool)          (* hash(states[i]) == hash(states[j]) *)
}.

Definition optz_eqb (a b : option Z) : bool :=
  match a, b with Some x, Some y => (x =? y)%Z | None, None => true | _, _ => false end.

Fixpoint list_eqb {A} (e : A -> A -> bool) (a b : list A) : bool :=
  match a, b with
  | [], [] => true
  | x :: a', y :: b' => e x y && list_eqb e a' b'
  | _, _ => false
  end.

Definition model_obs (c : case) : list (list (option Z)) :=
  let heap := run_ops (c_defaults c) (c_limit c) (c_ops c) in
  map (fun s => map (get_value (c_defaults c) s) (c_keys c)) heap.

Definition model_eq (c : case) : list (list bool) :=
  let heap := run_ops (c_defaults c) (c_limit c) (c_ops c) in
  map (fun s => map (fun t => state_eq (fun _ => 0%Z) (c_defaults c) s t) heap) heap.

(* eq implies hash-eq, observed on the implementation *)
Definition eq_implies_hash (eqm hm : list (list bool)) : bool :=
  list_eqb (fun r1 r2 => list_eqb (fun e h => implb e h) r1 r2) eqm hm.

Definition ok (c : case) : bool :=
  list_eqb (list_eqb optz_eqb) (model_obs c) (c_obs c)
  && list_eqb (list_eqb Bool.eqb) (model_eq c) (c_eq c)
  && eq_implies_hash (c_eq c) (c_hasheq c).
