(* Correspondence for C38.  The harness drives the real PDDLWriter / ANMLWriter (whole get_domain()/get_problem()
   runs and direct request sequences in adversarial orders) and records, next to the input, what the implementation
   answered: every returned name, the final dictionaries in insertion order, answers of get_pddl_name /
   get_item_named (None = UPException), and direct calls of _get_pddl_name, _get_anml_valid_name and
   _is_valid_anml_name.  [ok] replays the same history in the model with the generated tables and compares. *)
From Coq Require Import List String Ascii Bool NArith.
Import ListNotations.
Require Import UPV.Gen.Gen_Keywords UPV.Model.Names.
Open Scope string_scope.

(* strings with non-printable characters are sent as code lists *)
Fixpoint sx (l : list N) : string :=
  match l with [] => EmptyString | n :: r => String (ascii_of_N n) (sx r) end.

Fixpoint list_eqb {A} (e : A -> A -> bool) (a b : list A) : bool :=
  match a, b with
  | [], [] => true
  | x :: a', y :: b' => e x y && list_eqb e a' b'
  | _, _ => false
  end.

Definition opt_eqb {A} (e : A -> A -> bool) (a b : option A) : bool :=
  match a, b with Some x, Some y => e x y | None, None => true | _, _ => false end.

Definition otn_eqb := list_eqb (fun (a b : item * string) => item_eqb (fst a) (fst b) && String.eqb (snd a) (snd b)).
Definition nto_eqb := list_eqb (fun (a b : string * item) => String.eqb (fst a) (fst b) && item_eqb (snd a) (snd b)).

Record pcase := {
  p_kws : list string;                       (* sorted(writer.pddl_keywords) when the requests were made *)
  p_feats : list string;                     (* features of the problem, computed by the harness from the Problem *)
  p_hier : bool;                             (* has_hierarchical_typing() or len(user_types) > 1 *)
  p_pnames : list string;
  p_reqs : list item;                        (* the _get_mangled_name calls, in order *)
  p_names : list string;                     (* what each call returned *)
  p_otn : list (item * string);              (* list(writer.otn_renamings.items()) afterwards *)
  p_nto : list (string * item);
  p_item_q : list (item * option string);    (* get_pddl_name(item) *)
  p_name_q : list (string * option item);    (* get_item_named(name) *)
  p_direct : list (item * list string * string)   (* _get_pddl_name(item, kws) called directly *)
}.

Definition same_set (a b : list string) : bool := subset_b a b && subset_b b a.

Definition pddl_ok (c : pcase) : bool :=
  same_set (pddl_writer_kws (fun f => mem_str f (p_feats c))) (p_kws c) &&
  match pddl_run (pddl_cfg (p_kws c)) (p_hier c) (p_pnames c) (p_reqs c) with
  | None => false
  | Some (ns, st) =>
      list_eqb String.eqb ns (p_names c)
      && otn_eqb (otn st) (p_otn c)
      && nto_eqb (nto st) (p_nto c)
      && forallb (fun q => opt_eqb String.eqb (get_pddl_name st (fst q)) (snd q)) (p_item_q c)
      && forallb (fun q => opt_eqb item_eqb (get_item_named st (fst q)) (snd q)) (p_name_q c)
  end
  && forallb (fun d => match d with (it, kws, obs) => opt_eqb String.eqb (pddl_name (pddl_cfg kws) it) (Some obs) end)
             (p_direct c).

Record acase := {
  a_start : amap;                            (* names_mapping before the first modelled step *)
  a_ops : list aop;
  a_obs : list (option string);              (* None for a pre-fill step, Some name for a request *)
  a_map : amap;                              (* final names_mapping (entries of bounded numeric types removed) *)
  a_valid_q : list (string * bool);          (* _is_valid_anml_name(s) *)
  a_direct : list (item * string)            (* _get_anml_valid_name(item) *)
}.

Definition anml_ok (c : acase) : bool :=
  match anml_run_from anml_vcfg anml_cfg (a_start c) (a_ops c) with
  | None => false
  | Some (ns, m) => list_eqb (opt_eqb String.eqb) ns (a_obs c) && otn_eqb m (a_map c)
  end
  && forallb (fun q => Bool.eqb (anml_is_valid anml_vcfg anml_keywords (fst q)) (snd q)) (a_valid_q c)
  && forallb (fun d => opt_eqb String.eqb (base_name anml_cfg (fst d)) (Some (snd d))) (a_direct c).

Inductive case := PC (c : pcase) | AC (c : acase).

Definition ok (c : case) : bool := match c with PC p => pddl_ok p | AC a => anml_ok a end.

(* what the model answers, for replay files *)
Definition model_answer (c : case) :=
  match c with
  | PC p => (pddl_writer_kws (fun f => mem_str f (p_feats p)), option_map (fun r => (fst r, otn (snd r))) (pddl_run (pddl_cfg (p_kws p)) (p_hier p) (p_pnames p) (p_reqs p)),
             map (fun d => match d with (it, kws, _) => pddl_name (pddl_cfg kws) it end) (p_direct p))
  | AC a => ([], option_map (fun r => (map (fun o => match o with Some s => s | None => "" end) (fst r), snd r))
                        (anml_run_from anml_vcfg anml_cfg (a_start a) (a_ops a)),
             map (fun d => base_name anml_cfg (fst d)) (a_direct a))
  end.
