(* Structural correspondence for Layer A of C06 / C07, UsertypeFluentsRemover: the Gallina model
   [utfr_compile tr smp original] (Compilers/LayerA_Utfr.v) is compared with the problem the REAL compiler produced
   (both serialised with one name table: the Boolean fluent that replaces an object fluent has the same name, hence the
   same number).  [tr] = the reference walker of the flat fragment [utr] followed by the C11 model of FNode.simplify()
   ([la_smp] of Corr_LayerA.v); [smp] = [la_smp].  The fresh variables of the walker are problem-dependent names
   (_get_fresh_name): both sides are compared after erasing variable identifiers ([erase]: every variable and binder
   gets the number 0, the types are kept).  Order of preconditions / goals / invariants ignored, effects in order. *)
From Coq Require Import List ZArith NArith QArith Qcanon Bool.
Import ListNotations.
Require Import UPV.Core.Expr UPV.Core.Eval UPV.Core.Interp UPV.Planning.Problem UPV.Planning.Sem.
Require Import UPV.Compilers.Variants UPV.Compilers.LayerA_Defs UPV.Compilers.LayerA_Quant UPV.Compilers.LayerA_Utfr.
Require Import UPV.Corr.Corr_LayerA.

Fixpoint erase (e : expr) {struct e} : expr :=
  match e with
  | EBool _ | EInt _ | EReal _ | EObj _ | EParam _ => e
  | EVar _ t => EVar 0%N t
  | EFluent f l => EFluent f (map erase l)
  | EIFun f l => EIFun f (map erase l)
  | EAnd l => EAnd (map erase l)
  | EOr l => EOr (map erase l)
  | ENot a => ENot (erase a)
  | EImplies a b => EImplies (erase a) (erase b)
  | EIff a b => EIff (erase a) (erase b)
  | EExists vs a => EExists (map (fun vt => (0%N, snd vt)) vs) (erase a)
  | EForall vs a => EForall (map (fun vt => (0%N, snd vt)) vs) (erase a)
  | EPlus l => EPlus (map erase l)
  | EMinus a b => EMinus (erase a) (erase b)
  | ETimes l => ETimes (map erase l)
  | EDiv a b => EDiv (erase a) (erase b)
  | ELe a b => ELe (erase a) (erase b)
  | ELt a b => ELt (erase a) (erase b)
  | EEquals a b => EEquals (erase a) (erase b)
  | EAlways a => EAlways (erase a)
  | ESometime a => ESometime (erase a)
  | ESometimeBefore a b => ESometimeBefore (erase a) (erase b)
  | ESometimeAfter a b => ESometimeAfter (erase a) (erase b)
  | EAtMostOnce a => EAtMostOnce (erase a)
  end.

Definition erase_eff (e : effect) : effect :=
  {| e_fl := e_fl e; e_args := map erase (e_args e); e_val := erase (e_val e); e_cond := erase (e_cond e);
     e_kind := e_kind e; e_vars := map (fun vt => (0%N, snd vt)) (e_vars e); e_isbool := e_isbool e |}.
Definition erase_act (a : action) : action :=
  {| a_params := a_params a; a_pre := map erase (a_pre a); a_effs := map erase_eff (a_effs a) |}.
Definition erase_acts (l : list (N * action)) : list (N * action) := map (fun ia => (fst ia, erase_act (snd ia))) l.

Record ul_case := {
  ul_la : la_case;       (* original / real compiled problem and the type tables of the simplifier model *)
  ul_fv : N              (* offset of the model's fresh variable numbers (above every serialised number) *)
}.

Definition ul_tr (c : ul_case) (e : expr) : expr :=
  la_smp (ul_la c) (utr (otype (la_orig (ul_la c))) (fun f => (ul_fv c + f)%N) e).

Definition ul_model (c : ul_case) : problem := utfr_compile (ul_tr c) (la_smp (ul_la c)) (la_orig (ul_la c)).

(* code: 0 = the model and the implementation agree; bits: 1 actions, 2 goals, 4 state invariants, 8 fluents *)
Definition ul_code (c : ul_case) : N :=
  let M := ul_model c in
  let R := la_comp (ul_la c) in
  let b_act := acts_by_name (erase_acts (p_actions M)) (erase_acts (p_actions R)) in
  let b_goal := seteq_e (map erase (p_goals M)) (map erase (p_goals R)) in
  let b_inv := seteq_e (map erase (p_invs M)) (map erase (p_invs R)) in
  let b_fl := fds_seteq (p_fluents M) (p_fluents R) in
  ((if b_act then 0 else 1) + (if b_goal then 0 else 2) + (if b_inv then 0 else 4) + (if b_fl then 0 else 8))%N.

(* coverage: bit 1 = the problem lies in the fragment of the model (every condition flat, [utfr_wf]: effects flat, no
   action left out); bit 2 = no object fluent symbol is assigned by two effects of one action (sufficient for the
   theorems' hypothesis [one_value]); bit 4 = the problem has an object fluent *)
Definition ul_hyps (c : ul_case) : N :=
  let P := la_orig (ul_la c) in
  let fl := flat (otype P) (fun f => (ul_fv c + f)%N) in
  let inside := forallb fl (conds_of_u P) && utfr_wf (ul_tr c) (la_smp (ul_la c)) P in
  ((if inside then 1 else 0) + (if obj_assigned_once P then 2 else 0) +
   (match olist P with [] => 0 | _ => 4 end))%N.

(* the comparison is only evaluated inside the fragment of the model *)
Definition ul_report (c : ul_case) : list N :=
  let h := ul_hyps c in [if N.odd h then ul_code c else 0%N; h].
