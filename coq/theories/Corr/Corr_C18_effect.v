(* Correspondence for the effect layer of the PDDL codec (Model/PddlEffect.v): one case = name tables, Boolean fluents,
   the real Simplifier's answers as a table, the effects of one action, what the REAL writer wrote for them (tokenised by
   the REAL grammar) and the effects the REAL reader built from these tokens. *)
From Coq Require Import List ZArith NArith QArith Qcanon Bool String Ascii.
Import ListNotations.
Require Import UPV.Core.Expr UPV.Planning.Problem UPV.Model.PddlExpr UPV.Model.PddlLex UPV.Model.PddlEffect
  UPV.Corr.Corr_C18_expr.
Local Open Scope string_scope.

Record ecase := {
  k_fl : list (string * N); k_obj : list (string * N); k_par : list (string * N); k_var : list (string * N);
  k_ty : list (string * N);
  k_isb : list N;                         (* Boolean fluents *)
  k_simp : list (expr * expr);            (* x |-> simplify(x) for every expression the codec simplifies *)
  k_rewrite : bool;
  k_effs : list effect;
  k_text : option string;                 (* the writer's ":effect" text verbatim (without the blank after ":effect") *)
  k_lexed : option sexp;                  (* the writer's ":effect" text through the real grammar; None = it raised *)
  k_parsed : option (list effect)         (* effects built by _add_effect from these tokens; None = it raised *)
}.

Definition simp_of (t : list (expr * expr)) (x : expr) : expr :=
  match find (fun p => expr_eqb (fst p) x) t with Some p => snd p | None => x end.

Definition knaming (c : ecase) : naming :=
  {| nm_fl := fun n => rassoc n (k_fl c); nm_obj := fun n => rassoc n (k_obj c);
     nm_par := fun n => rassoc n (k_par c); nm_var := fun n => rassoc n (k_var c);
     nm_ty := fun n => rassoc n (k_ty c) |}.
Definition kenv (c : ecase) : env :=
  {| PddlExpr.e_fl := fun s => assoc_s s (k_fl c); e_obj := fun s => assoc_s s (k_obj c);
     e_par := fun s => assoc_s s (k_par c); e_var := fun s => assoc_s s (k_var c);
     e_ty := fun s => assoc_s s (k_ty c) |}.
Definition kisb (c : ecase) (f : N) : bool := memN f (k_isb c).

Definition ekind_eqb (a b : ekind) : bool :=
  match a, b with KAssign, KAssign | KInc, KInc | KDec, KDec => true | _, _ => false end.
Definition effect_eqb (a b : effect) : bool :=
  (Problem.e_fl a =? Problem.e_fl b)%N && list_expr_eqb (e_args a) (e_args b) && expr_eqb (e_val a) (e_val b)
  && expr_eqb (e_cond a) (e_cond b) && ekind_eqb (e_kind a) (e_kind b) && vars_eqb (e_vars a) (e_vars b)
  && Bool.eqb (e_isbool a) (e_isbool b).
Fixpoint effects_eqb (a b : list effect) : bool :=
  match a, b with [] , [] => true | x :: a', y :: b' => effect_eqb x y && effects_eqb a' b' | _, _ => false end.
Definition oeffects_eqb (a b : option (list effect)) : bool :=
  match a, b with Some x, Some y => effects_eqb x y | None, None => true | _, _ => false end.

(* bit 0 (1): model print_effects differs from the writer's tokens
   bit 1 (2): model parse_effects of the writer's tokens differs from the reader's effects
   bit 2 (4): every effect is in the fragment but the real round trip is not [norm_effs]
   bit 3 (8): model print_effects_text differs from the writer's text, character by character *)
Definition ecode (c : ecase) : N :=
  let sp := simp_of (k_simp c) in
  let b0 := negb (osexp_eqb (print_effects sp (knaming c) (k_rewrite c) (k_effs c)) (k_lexed c)) in
  let b1 := match k_lexed c with
            | Some s => negb (oeffects_eqb (parse_effects sp (kenv c) (kisb c) s) (k_parsed c))
            | None => false end in
  let b2 := forallb (pddl_eff_ok sp (kisb c)) (k_effs c)
            && negb (oeffects_eqb (Some (norm_effs (k_effs c))) (k_parsed c)) in
  let b3 := negb (ostring_eqb (print_effects_text sp (knaming c) (k_rewrite c) (k_effs c)) (k_text c)) in
  ((if b0 then 1 else 0) + (if b1 then 2 else 0) + (if b2 then 4 else 0) + (if b3 then 8 else 0))%N.

Definition model_eprint (c : ecase) := print_effects (simp_of (k_simp c)) (knaming c) (k_rewrite c) (k_effs c).
Definition model_etext (c : ecase) := print_effects_text (simp_of (k_simp c)) (knaming c) (k_rewrite c) (k_effs c).
Definition model_eparse (c : ecase) :=
  match k_lexed c with Some s => parse_effects (simp_of (k_simp c)) (kenv c) (kisb c) s | None => None end.
Definition in_fragment (c : ecase) : bool := forallb (pddl_eff_ok (simp_of (k_simp c)) (kisb c)) (k_effs c).
