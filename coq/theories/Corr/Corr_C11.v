(* Correspondence + property oracle for C11.
   A case = the world tables (user types, static-fluent initial values, interpreted-function table), an expression,
   what the implementation returned for simplify (None = it raised ZeroDivisionError/AssertionError on a constant
   zero divisor), what a second simplify returned, and sampled interpretations.
   [ok] checks  (1) model = implementation (structural),
                (2) the property on the IMPLEMENTATION's output, evaluated with the reference semantics [eval false]:
                    defined values are preserved under every sampled interpretation, no new free variable,
                    second pass = first pass. *)
From Coq Require Import List ZArith NArith QArith Qcanon Bool.
Import ListNotations.
Require Import UPV.Core.Expr UPV.Core.Eval UPV.Core.Interp UPV.Walkers.Simplify UPV.Proofs.Simplify_wf.

Record case := {
  c_obj_ty : list (N * N);
  c_par_ty : list (N * N);
  c_fl_ty : list (N * N);
  c_if_ty : list (N * N);
  c_anc : list (N * list N);
  c_tau : list (N * N);                  (* variable id -> user type id *)
  c_empty : list N;                      (* user types without objects, when the simplifier was given the problem *)
  c_stat : list (N * list expr * expr);
  c_itab : list (N * list expr * expr);
  c_e : expr;
  c_out : option expr;
  c_out2 : option expr;
  c_interps : list finterp
}.

Fixpoint lookup_tab (f : N) (args : list expr) (t : list (N * list expr * expr)) : option expr :=
  match t with
  | [] => None
  | (g, a, v) :: t' => if (f =? g)%N && list_expr_eqb args a then Some v else lookup_tab f args t'
  end.

Definition cfg_of (c : case) : cfg :=
  {| obj_ty := fun o => lookupN o (c_obj_ty c);
     par_ty := fun p => lookupN p (c_par_ty c);
     fl_ty := fun f => lookupN f (c_fl_ty c);
     if_ty := fun f => lookupN f (c_if_ty c);
     anc := fun t => match lookupN t (c_anc c) with Some l => l | None => [] end;
     empty_ty := fun t => memN t (c_empty c);
     stat := fun f args => lookup_tab f args (c_stat c);
     itab := fun f args => lookup_tab f args (c_itab c) |}.

Definition oexpr_eqb (a b : option expr) : bool :=
  match a, b with Some x, Some y => expr_eqb x y | None, None => true | _, _ => false end.

Definition model_out (c : case) : option expr := simplify (cfg_of c) (c_e c).
Definition model_raises (c : case) : bool := raises (cfg_of c) true (size (c_e c)) (c_e c).
Definition model_div0 (c : case) : bool := raises (cfg_of c) false (size (c_e c)) (c_e c).

(* (1) structural agreement *)
Definition ok_struct (c : case) : bool :=
  match c_out c with
  | None => model_div0 c
  | Some o => negb (model_raises c) && oexpr_eqb (model_out c) (Some o)
  end.

(* (2a) refinement of values: wherever the original has a value, the output has the same value *)
Definition refines (a b : option value) : bool :=
  match a with Some v => ovalue_eqb b (Some v) | None => true end.
Definition ok_value (c : case) : bool :=
  match c_out c with
  | None => forallb (fun F => match eval false (c_e c) (to_interp F) with None => true | Some _ => false end) (c_interps c)
  | Some o => forallb (fun F => let I := to_interp F in refines (eval false (c_e c) I) (eval false o I)) (c_interps c)
  end.
(* how many sampled interpretations give the original a value (coverage, not a check) *)
Definition defined_count (c : case) : nat :=
  length (filter (fun F => match eval false (c_e c) (to_interp F) with Some _ => true | None => false end) (c_interps c)).

(* (2b) no new free variable *)
Definition ok_fv (c : case) : bool :=
  match c_out c with
  | None => true
  | Some o => forallb (fun v => memN v (free_vars (c_e c))) (free_vars o)
  end.

(* (2c) idempotence of the implementation *)
Definition ok_idem (c : case) : bool :=
  match c_out c with None => true | Some o => oexpr_eqb (c_out2 c) (Some o) end.

(* the generated expression lies inside the domain of the soundness theorem (side condition wfx; every user type of the
   generated worlds has objects, so QT = all types) *)
Definition hyp_ok (c : case) : bool :=
  wfx (fun x => match lookupN x (c_tau c) with Some t => t | None => 0%N end) (fun _ => true) (free_vars (c_e c)) (c_e c).

Definition ok (c : case) : bool := ok_struct c && ok_value c && ok_fv c && ok_idem c && hyp_ok c.
