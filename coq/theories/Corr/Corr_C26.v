(* Correspondence for C26.  The harness converts a valid time-triggered plan with the real
   plan.convert_to(PlanKind.STN_PLAN, problem) and converts the result back with the real
   stn_plan.convert_to(PlanKind.TIME_TRIGGERED_PLAN, problem).  A case holds the timings of the plan (what
   _convert_to_stn reads), and what the implementation was observed to do:
     - plan.extract_epsilon(problem) and problem.epsilon,
     - the sequentialised events handed to the deordering (their number, the name of the action that generated each)
       and the adjacency list of the partial-order plan that came back (an input of the model, see StnPlan.v),
     - stn_plan.get_constraints() flattened, stn_plan.is_consistent(),
     - the back-converted plan as (start, plan step, duration) triples.
   [code] compares the model with the implementation, and ALSO evaluates the property directly on the implementation's
   outputs (original times against the implementation's own constraint set). *)
From Coq Require Import List ZArith NArith QArith Bool.
Import ListNotations.
Require Import UPV.Model.Stn UPV.Planning.StnPlan.

Record case := {
  c_problem_eps : option Q;            (* problem.epsilon *)
  c_plan_eps : option Q;               (* observed plan.extract_epsilon(problem) *)
  c_mock_effs : list timing;           (* keys of problem.timed_effects *)
  c_mock_conds : list interval;        (* keys of problem.timed_goals *)
  c_plan : list step;
  c_names : list N;                    (* name code of mockup :: the action of each plan step *)
  c_ev_names : list N;                 (* observed: name code of the generating action of each sequentialised event *)
  c_edges : list (nat * nat);          (* observed: adjacency list of the partial-order plan, as event positions *)
  c_constraints : list pcon;           (* observed: get_constraints() *)
  c_consistent : bool;                 (* observed: is_consistent() *)
  c_back : list ttstep;                (* observed: back-converted plan *)
  c_fuel : nat
}.

Definition oq_eqb (a b : oq) : bool :=
  match a, b with Some x, Some y => Qeq_bool x y | None, None => true | _, _ => false end.
Definition pcon_eqb (a b : pcon) : bool :=
  match a, b with (a1, l1, u1, b1), (a2, l2, u2, b2) => (a1 =? a2)%N && oq_eqb l1 l2 && oq_eqb u1 u2 && (b1 =? b2)%N end.
Definition ttstep_eqb (a b : ttstep) : bool :=
  match a, b with (s1, k1, d1), (s2, k2, d2) => Qeq_bool s1 s2 && (k1 =? k2)%N && oq_eqb d1 d2 end.

(* equality of lists modulo order (both directions of inclusion and the same length) *)
Definition same_set {A} (e : A -> A -> bool) (x y : list A) : bool :=
  Nat.eqb (length x) (length y) && forallb (fun a => existsb (e a) y) x && forallb (fun b => existsb (e b) x) y.

Fixpoint list_eqb {A} (e : A -> A -> bool) (a b : list A) : bool :=
  match a, b with
  | [], [] => true
  | x :: a', y :: b' => e x y && list_eqb e a' b'
  | _, _ => false
  end.

Definition mock_of (c : case) : step := mock_step (c_mock_effs c) (c_mock_conds c).
Definition eps_of (c : case) : Q := choose_eps (c_problem_eps c) (extract_epsilon (mock_of c) (c_plan c)).
Definition events_of (c : case) : list event := plan_events (eps_of c) (mock_of c) (c_plan c).

(* the hypotheses of C26_forward_conversion *)
Definition hyps (c : case) : bool :=
  times_nonneg (c_plan c) && gap_ok (eps_of c) (events_of c) && edges_forward (length (events_of c)) (c_edges c).

(* the property evaluated on the IMPLEMENTATION's outputs: consistent, and the original times satisfy every
   constraint it reports *)
Definition impl_forward_ok (c : case) : bool :=
  c_consistent c && forallb (sat_pconb (orig_time (c_plan c))) (c_constraints c).

Definition model_matches (c : case) : bool :=
  oq_eqb (extract_epsilon (mock_of c) (c_plan c)) (c_plan_eps c) &&
  list_eqb N.eqb (map (fun e => nth (e_gen e) (c_names c) 999%N) (events_of c)) (c_ev_names c) &&
  match convert_to_stn (c_fuel c) (eps_of c) (mock_of c) (c_plan c) (c_edges c) with
  | None => false
  | Some s =>
      Bool.eqb (check_stn s) (c_consistent c) &&
      (* an inconsistent DeltaSTN stops recording constraints: its reported constraints are compared only when consistent *)
      (negb (check_stn s) ||
       (same_set pcon_eqb (flatten (plan_constraints s)) (c_constraints c) &&
        same_set ttstep_eqb (to_tt s) (c_back c)))
  end.

Definition model_forward_ok (c : case) : bool :=
  match convert_to_stn (c_fuel c) (eps_of c) (mock_of c) (c_plan c) (c_edges c) with
  | None => false
  | Some s => check_stn s && forallb (sat_pconb (orig_time (c_plan c))) (flatten (plan_constraints s))
                          && forallb (sat_pconb (orig_time (c_plan c)))
                                     (flatten (conv_constraints (eps_of c) (mock_of c) (c_plan c) (c_edges c)))
  end.

(* bit 0 (1):  the property fails on the implementation (inconsistent STN plan, or original times violating a
               constraint it reports)
   bit 1 (2):  implementation differs from the model (epsilon, events, constraint set, consistency, back plan)
   bit 2 (4):  the hypotheses of the theorem do not hold for this case (epsilon larger than a gap, negative times,
               a backward edge)
   bit 3 (8):  the model ran out of fuel (never expected)
   bit 4 (16): hypotheses hold and the model violates the proved statement, or problem.epsilon is None, the mockup's
               GLOBAL_END timings are fine and the gap hypothesis fails (never expected: theorem instances) *)
Definition code (c : case) : N :=
  ((if impl_forward_ok c then 0 else 1) +
   (if model_matches c then 0 else 2) +
   (if hyps c then 0 else 4) +
   (match convert_to_stn (c_fuel c) (eps_of c) (mock_of c) (c_plan c) (c_edges c) with None => 8 | Some _ => 0 end) +
   (if (hyps c && negb (model_forward_ok c)) ||
       (match c_problem_eps c, extract_epsilon (mock_of c) (c_plan c) with
        | None, Some _ => mock_end_ok (mock_of c) && negb (gap_ok (eps_of c) (events_of c))
        | _, _ => false
        end) then 16 else 0))%N.

(* details for a replay *)
Definition show (c : case) :=
  (eps_of c, events_of c, flatten (conv_constraints (eps_of c) (mock_of c) (c_plan c) (c_edges c)),
   match convert_to_stn (c_fuel c) (eps_of c) (mock_of c) (c_plan c) (c_edges c) with
   | Some s => (check_stn s, flatten (plan_constraints s), to_tt s)
   | None => (false, [], [])
   end).
