(* Correspondence for C25: the harness runs a history of DeltaSimpleTemporalNetwork(...) / add / copy_stn calls on
   the real implementation and records check_stn() of the touched network after every call and, at the end, for every
   network: check_stn(), the `distances` dict (in iteration order), get_stn_model(e) for every event of the universe
   (None = KeyError), `e in stn`, and get_constraints().  Coq runs the model on the same history. *)
From Coq Require Import List ZArith NArith QArith Qround Bool.
Import ListNotations.
Require Import UPV.Model.Stn.

Record obs := mko {
  o_sat : bool;
  o_dist : list (N * Q);
  o_model : list (option Q);            (* per event of c_events *)
  o_contains : list bool;               (* per event of c_events *)
  o_cons : list (N * list (Q * N))
}.

Record case := mk {
  c_fuel : nat;
  c_events : list N;
  c_ops : list op;
  c_diverged : bool;                    (* some add call exceeded the time limit *)
  c_trace : list bool;                  (* check_stn() of the network created / modified by each call *)
  c_obs : list obs                      (* one per network, in creation order *)
}.

Fixpoint list_eqb {A} (e : A -> A -> bool) (a b : list A) : bool :=
  match a, b with
  | [], [] => true
  | x :: a', y :: b' => e x y && list_eqb e a' b'
  | _, _ => false
  end.
Definition opt_eqb {A} (e : A -> A -> bool) (a b : option A) : bool :=
  match a, b with Some x, Some y => e x y | None, None => true | _, _ => false end.
Definition nq_eqb (a b : N * Q) : bool := (fst a =? fst b)%N && Qeq_bool (snd a) (snd b).
Definition qn_eqb (a b : Q * N) : bool := Qeq_bool (fst a) (fst b) && (snd a =? snd b)%N.
Definition cons_eqb (a b : N * list (Q * N)) : bool := (fst a =? fst b)%N && list_eqb qn_eqb (snd a) (snd b).

Definition observe (events : list N) (s : stn) : obs :=
  {| o_sat := check_stn s;
     o_dist := distances s;
     o_model := map (get_stn_model s) events;
     o_contains := map (contains s) events;
     o_cons := get_constraints s |}.

Definition obs_eqb (a b : obs) : bool :=
  Bool.eqb (o_sat a) (o_sat b)
  && list_eqb nq_eqb (o_dist a) (o_dist b)
  && list_eqb (opt_eqb Qeq_bool) (o_model a) (o_model b)
  && list_eqb Bool.eqb (o_contains a) (o_contains b)
  && list_eqb cons_eqb (o_cons a) (o_cons b).

(* run the history, collecting check_stn of the touched network after each call *)
Fixpoint run_trace (fuel : nat) (heap : list stn) (ops : list op) (acc : list bool) : option (list stn * list bool) :=
  match ops with
  | [] => Some (heap, rev acc)
  | o :: r =>
      match run_op fuel heap o with
      | None => None
      | Some h' =>
          let i := match o with OpAdd i _ _ _ => i | _ => pred (length h') end in
          let st := match nth_error h' i with Some s => check_stn s | None => true end in
          run_trace fuel h' r (st :: acc)
      end
  end.

Definition ok (c : case) : bool :=
  match run_trace (c_fuel c) [] (c_ops c) [] with
  | None => c_diverged c
  | Some (heap, trace) =>
      negb (c_diverged c)
      && list_eqb Bool.eqb trace (c_trace c)
      && list_eqb obs_eqb (map (observe (c_events c)) heap) (c_obs c)
  end.

(* ---------------- exhaustive trees of insertion sequences ----------------
   All sequences over a fixed alphabet of insertions up to a depth, explored depth-first; every node is obtained by
   copy_stn() of its parent followed by one add().  Each node is observed by a number (consistency flag and the
   integer distance of each event, 0 = event unknown); a node with children is observed again after its subtree
   (its copies must not have changed it). *)
Definition code_event (s : stn) (e : N) : Z :=
  match find e (s_dist s) with
  | None => 0%Z
  | Some q => (Qfloor q + 20)%Z
  end.
Definition code (events : list N) (s : stn) : Z :=
  ((if s_sat s then 1 else 0) + 2 * fold_right (fun e acc => code_event s e + 32 * acc) 0 events)%Z.

Fixpoint tree (depth : nat) (fuel : nat) (events : list N) (alphabet : list cstr) (s : stn) (exp : list Z)
  {struct depth} : option (list Z) :=
  match depth with
  | O => Some exp
  | S dpt =>
      match
        (fix children (al : list cstr) (exp : list Z) {struct al} : option (list Z) :=
           match al with
           | [] => Some exp
           | (x, y, b) :: al' =>
               match add fuel (copy_stn s) x y b, exp with
               | Some s2, e :: exp' =>
                   if (code events s2 =? e)%Z
                   then match tree dpt fuel events alphabet s2 exp' with
                        | Some exp'' => children al' exp''
                        | None => None
                        end
                   else None
               | _, _ => None
               end
           end) alphabet exp
      with
      | Some (p :: rest) => if (code events s =? p)%Z then Some rest else None
      | _ => None
      end
  end.

Record tcase := mkt {
  t_depth : nat;
  t_fuel : nat;
  t_events : list N;
  t_prefix : list cstr;        (* insertions applied to a fresh network to obtain the root of the tree *)
  t_alphabet : list cstr;
  t_exp : list Z
}.

Definition ok_tree (c : tcase) : bool :=
  match run_adds (t_fuel c) (empty_stn 0) (t_prefix c) with
  | Some s =>
      match t_exp c with
      | r :: exp =>
          (code (t_events c) s =? r)%Z &&
          match tree (t_depth c) (t_fuel c) (t_events c) (t_alphabet c) s exp with
          | Some [] => true
          | _ => false
          end
      | [] => false
      end
  | None => false
  end.
