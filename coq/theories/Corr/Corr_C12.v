(* Correspondence + oracle for C12.  A case is an input expression (built by the real ExpressionManager) together with
   what Nnf(env).get_nnf_expression and Dnf(env).get_dnf_expression returned.
   [corr_*]  : the model's output is structurally identical to the implementation's (no reordering is needed: Nnf keeps
               the argument order, Dnf uses lists, itertools.product and the simplifier's OrderedDict — nothing depends
               on set/dict iteration order).
   [oracle]  : the property itself, evaluated on the IMPLEMENTATION's outputs with the reference semantics
               Core/Eval.v over a list of interpretations (the harness sends every assignment of the fluents used by
               the atoms: a truth table): same value wherever the input has a value, and the normal-form shapes. *)
From Coq Require Import List ZArith NArith Bool.
Import ListNotations.
Require Import UPV.Core.Expr UPV.Core.Eval UPV.Core.Interp UPV.Walkers.NnfDnf.

Record case := {
  c_is : list finterp;   (* the truth table: every assignment of the fluents occurring in c_e (the others fixed) *)
  c_e : expr;
  c_nnf : expr;          (* observed Nnf(env).get_nnf_expression(e) *)
  c_dnf : expr           (* observed Dnf(env).get_dnf_expression(e) *)
}.

Definition corr_nnf (c : case) : bool := expr_eqb (nnf (c_e c)) (c_nnf c).
Definition corr_dnf (c : case) : bool := expr_eqb (dnf (c_e c)) (c_dnf c).

(* the input has a Boolean value under every row (the oracle is never vacuous) *)
Definition all_defined (c : case) : bool :=
  forallb (fun F => match eval false (c_e c) (to_interp F) with Some (VBool _) => true | _ => false end) (c_is c).

(* x has the value of the input under every row *)
Definition same_val (c : case) (x : expr) : bool :=
  forallb (fun F =>
             let I := to_interp F in
             match eval false (c_e c) I with
             | Some v => ovalue_eqb (eval false x I) (Some v)
             | None => false
             end) (c_is c).

Definition oracle (c : case) : bool :=
  negb (Nat.eqb (length (c_is c)) 0)
  && forallb (fun F =>
                let I := to_interp F in
                match eval false (c_e c) I with
                | Some (VBool b) =>
                    ovalue_eqb (eval false (c_nnf c) I) (Some (VBool b)) && ovalue_eqb (eval false (c_dnf c) I) (Some (VBool b))
                | _ => false
                end) (c_is c)
  && nnf_shape (c_nnf c) && dnf_shape (c_dnf c).

Definition ok (c : case) : bool := corr_nnf c && corr_dnf c && oracle c.

(* diagnosis of a failing case, printed into the replay *)
Definition diag (c : case) :=
  (corr_nnf c, corr_dnf c,
   (all_defined c, same_val c (c_nnf c), nnf_shape (c_nnf c), same_val c (c_dnf c), dnf_shape (c_dnf c)),
   nnf (c_e c), dnf (c_e c)).
