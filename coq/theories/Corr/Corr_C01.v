(* Correspondence for C01/C02/C03: (state, ground action instance) pairs explored through the real
   UPSequentialSimulator, compared with the documented step [spec_step false] (the property oracle) and with the
   model of the code [sim_apply true]. *)
From Coq Require Import List ZArith NArith QArith Qcanon Bool.
Import ListNotations.
Require Import UPV.Core.Expr UPV.Core.Eval UPV.Core.Interp UPV.Planning.Problem UPV.Planning.Sem.

Definition st_of (l : list (N * list value * value)) : state := fun f a => lookup_app f a l.

Definition obs_of_state (P : problem) (s : state) : list (option value) :=
  map (fun k => s (fst k) (snd k)) (ground_fluents P).

Fixpoint olist_eqb (a b : list (option value)) : bool :=
  match a, b with
  | [], [] => true
  | x :: a', y :: b' => ovalue_eqb x y && olist_eqb a' b'
  | _, _ => false
  end.

Definition oobs_eqb (a b : option (list (option value))) : bool :=
  match a, b with
  | Some x, Some y => olist_eqb x y
  | None, None => true
  | _, _ => false
  end.

Record case := {
  c_state : list (N * list value * value);
  c_act : N;
  c_args : list value;
  c_apply : option (list (option value));   (* what apply returned: successor (per ground fluent) or None *)
  c_isapp : bool                            (* what is_applicable returned *)
}.

(* bit 0 (1): implementation differs from the documented semantics      (property fails here)
   bit 1 (2): implementation differs from the model of the code         (model drift or defect)
   bit 2 (4): fired effects not well typed (outside the theorem's hypothesis)
   bit 3 (8): is_applicable differs from "apply returned a state"       (C02)
   bit 4 (16): unknown action id *)
Definition code (P : problem) (c : case) : N :=
  let s := st_of (c_state c) in
  match lookup_action P (c_act c) with
  | None => 16%N
  | Some a =>
      let spec := option_map (obs_of_state P) (spec_step false P s a (c_args c)) in
      let model := option_map (obs_of_state P) (sim_apply true P s a (c_args c)) in
      let typed := match fired true (mk_interp P s (zip_params (a_params a) (c_args c))) (a_effs a) with
                   | Some acts => forallb (wt_aeff P) acts | None => true end in
      ((if oobs_eqb spec (c_apply c) then 0 else 1) +
       (if oobs_eqb model (c_apply c) then 0 else 2) +
       (if typed then 0 else 4) +
       (if Bool.eqb (c_isapp c) (match c_apply c with Some _ => true | None => false end) then 0 else 8))%N
  end.

(* goal queries *)
Record gcase := { g_state : list (N * list value * value); g_isgoal : bool; g_nunsat : nat }.
Definition gcode (P : problem) (c : gcase) : N :=
  let s := st_of (g_state c) in
  ((if Bool.eqb (goals_hold false P s) (g_isgoal c) then 0 else 1) +
   (if Bool.eqb (sim_is_goal true P s) (g_isgoal c) then 0 else 2) +
   (if Nat.eqb (length (sim_unsat_goals true P s)) (g_nunsat c) then 0 else 4))%N.

Definition codes {A} (f : A -> N) (cs : list A) : list N := map f cs.
