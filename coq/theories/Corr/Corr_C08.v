(* Correspondence / validation for C08: get_fresh_name and the grounder's naming against the model, and the
   decidable well-formedness checker applied to every compiled problem. *)
From Coq Require Import List String Ascii Bool Arith NArith.
Import ListNotations.
Require Import UPV.Model.FreshNames.
Open Scope string_scope.

Record fcase := {
  fc_used : list string;            (* names of the problem ++ used_names *)
  fc_orig : string;
  fc_params : list string;
  fc_trailing : option string;
  fc_obs : string                   (* what utils.get_fresh_name returned *)
}.
Definition ok_fresh (c : fcase) : bool :=
  match get_fresh_name (fc_used c) (fc_orig c) (fc_params c) (fc_trailing c) with
  | Some n => String.eqb n (fc_obs c)
  | None => false
  end.

Record gcase := {
  gc_pnames : list string;                 (* every name of the problem being grounded *)
  gc_items : list item;                    (* (action, parameters) in the order GrounderHelper visits them *)
  gc_obs : list (option string)            (* name of the ground action; None when the grounding was discarded *)
}.
Fixpoint agree (names : list string) (obs : list (option string)) : bool :=
  match names, obs with
  | [], [] => true
  | n :: names', o :: obs' => (match o with Some m => String.eqb n m | None => true end) && agree names' obs'
  | _, _ => false
  end.
Definition ok_ground (c : gcase) : bool :=
  match ground_all (gc_pnames c) [] (gc_items c) with
  | Some names => agree names (gc_obs c)
  | None => false
  end.

(* which clause of wf_np fails (0 = well formed):
   1 duplicate name, 2 father type, 4 object type, 8 fluent signature (duplicate parameter name / undeclared type), 16 an action (parameters / references),
   32 references of goals / constraints / initial values / metrics, 64 reference to an undeclared action *)
Definition wf_code (P : nproblem) : N :=
  ((if nodupb (all_names P) then 0 else 1) +
   (if forallb (fun t => declared_type P (snd t)) (np_types P) then 0 else 2) +
   (if forallb (fun o => negb (String.eqb (snd o) "") && declared_type P (snd o)) (np_objects P) then 0 else 4) +
   (if forallb (fun f => nodupb (map fst (snd f)) && forallb (fun p => declared_type P (snd p)) (snd f)) (np_fluents P) then 0 else 8) +
   (if forallb (fun a => nodupb (map fst (na_params a)) && forallb (fun p => declared_type P (snd p)) (na_params a)
                         && refs_ok P (map fst (na_params a)) (na_refs a)) (np_actions P) then 0 else 16) +
   (if refs_ok P [] (np_refs P) then 0 else 32) +
   (if forallb (fun a => mem a (map na_name (np_actions P))) (np_action_refs P) then 0 else 64))%N.

Lemma wf_code_zero P : wf_code P = 0%N <-> wf_np P = true.
Proof.
  unfold wf_code, wf_np.
  destruct (nodupb (all_names P)); destruct (forallb (fun t => declared_type P (snd t)) (np_types P));
  destruct (forallb (fun o => negb (String.eqb (snd o) "") && declared_type P (snd o)) (np_objects P));
  destruct (forallb (fun f => nodupb (map fst (snd f)) && forallb (fun p => declared_type P (snd p)) (snd f)) (np_fluents P));
  destruct (forallb _ (np_actions P)); destruct (refs_ok P [] (np_refs P));
  destruct (forallb _ (np_action_refs P)); simpl; split; intros H; try reflexivity; try discriminate.
Qed.
