(* Correspondence for C32 (and the registry tie used by C09).
   [ecase]  -- second reading of a built-in engine: the class methods EXECUTED by the harness (supported_kind(),
               is_<mode>(), supports_compilation/supports_plan/satisfies/ensures on every enum member,
               resulting_problem_kind on sample kinds) against the ast translation Gen_Engines;
   [ncase]  -- the enum name tables read by import against Gen_Engines;
   [world]  -- a fresh Factory with dummy engines registered by the harness, a list of selection requests and a list of
               pipeline requests with what the real Factory answered. *)
From Coq Require Import List NArith Bool String.
Import ListNotations.
Require Import UPV.Model.Kind UPV.Model.Factory UPV.Gen.Gen_Kind UPV.Gen.Gen_Engines.

Definition T := gen_tables.
Definition skind := (list N * option N)%type.
Definition mk (k : skind) : kind := {| k_feats := mask_of (fst k); k_ver := snd k |}.

Fixpoint list_eqb {A} (e : A -> A -> bool) (a b : list A) : bool :=
  match a, b with
  | [], [] => true
  | x :: a', y :: b' => e x y && list_eqb e a' b'
  | _, _ => false
  end.
Definition optn_eqb (a b : option N) : bool :=
  match a, b with Some x, Some y => (x =? y)%N | None, None => true | _, _ => false end.
Definition set_eqb (a b : list N) : bool := (mask_of a =? mask_of b)%N.
Definition modes_eqb (a b : list opmode) : bool :=
  forallb (fun m => existsb (opmode_eqb m) b) a && forallb (fun m => existsb (opmode_eqb m) a) b.
Definition kind_eqb (a b : kind) : bool := (k_feats a =? k_feats b)%N && optn_eqb (k_ver a) (k_ver b).

(* ------------------------------------------------------------------ enum tables *)
Record ncase := {
  n_modes : list (opmode * string);
  n_compilation : list string;
  n_plan : list string;
  n_optimality : list string;
  n_anytime : list string;
  n_default_prefs : list string;
  n_default_engines : list string            (* DEFAULT_ENGINES.keys() *)
}.
Definition names_agree (c : ncase) : bool :=
  list_eqb (fun a b => opmode_eqb (fst a) (fst b) && String.eqb (snd a) (snd b)) (n_modes c) operation_modes
  && list_eqb String.eqb (n_compilation c) compilation_kinds
  && list_eqb String.eqb (n_plan c) plan_kinds
  && list_eqb String.eqb (n_optimality c) optimality_guarantees
  && list_eqb String.eqb (n_anytime c) anytime_guarantees
  && list_eqb String.eqb (n_default_prefs c) default_preference_list
  && forallb (fun n => existsb (String.eqb n) (map fst builtin_engines ++ external_engines)) (n_default_engines c)
  && forallb (fun n => existsb (String.eqb n) (n_default_engines c)) (map fst builtin_engines ++ external_engines).

(* ------------------------------------------------------------------ engines, second reading *)
Inductive rres := RR (k : skind) | RRKey | RRAssert | RROther.
Record ecase := {
  ec_name : string;
  ec_modes : list opmode;
  ec_supported : skind;
  ec_comp : list N;
  ec_plans : list N;
  ec_opt : list N;
  ec_any : list N;
  ec_res : list (skind * rres)
}.
Definition rres_ok (m : res kind) (o : rres) : bool :=
  match m, o with
  | Ok k, RR k' => kind_eqb k (mk k')
  | KeyErr, RRKey => true
  | AssertErr, RRAssert => true
  | _, _ => false
  end.
Definition engine_parts (c : ecase) : list bool :=
  match lookup (ec_name c) (builtin_engines ++ extra_compilers) with
  | None => [false]
  | Some e =>
      [ modes_eqb (e_modes e) (ec_modes c);
        kind_eqb (e_supported e) (mk (ec_supported c));
        set_eqb (e_compilations e) (ec_comp c);
        set_eqb (e_plans e) (ec_plans c);
        set_eqb (e_optimality e) (ec_opt c);
        set_eqb (e_anytime e) (ec_any c);
        (* resulting_problem_kind exists only on compilers *)
        negb (is_mode e COMPILER) || forallb (fun kr => rres_ok (run_resulting T (e_resulting e) (mk (fst kr))) (snd kr)) (ec_res c) ]
  end.
Definition engine_agree (c : ecase) : bool := forallb (fun b => b) (engine_parts c).

(* ------------------------------------------------------------------ worlds *)
Inductive sobs := OFound (n : string) | ONoSuitable | ONoRequested | OKey | OAssert | OOther.
Inductive pobs := PFound (names : list string) | PFail (s : sobs).

Record sreq := {
  s_prefs : list string;
  s_name : option string;
  s_mode : opmode;
  s_kind : skind;
  s_opt : option N; s_comp : option N; s_plan : option N; s_any : option N;
  s_obs : sobs
}.
Record preq := {
  p_prefs : list string;
  p_names : option (list (option string));
  p_cks : list N;
  p_kind : skind;
  p_obs : pobs
}.
Record world := {
  w_registered : list string;          (* built-in engines that the fresh Factory really registered (importable) *)
  w_extra : registry;                  (* dummy engines added by the harness *)
  w_sel : list sreq;
  w_pipe : list preq
}.

Definition reg_of (w : world) : registry :=
  filter (fun ne => existsb (String.eqb (fst ne)) (w_registered w)) builtin_engines ++ w_extra w.

Definition sel_matches (s : selection) (o : sobs) : bool :=
  match s, o with
  | Found n _, OFound n' => String.eqb n n'
  | NoSuitable, ONoSuitable => true
  | NoRequested, ONoRequested => true
  | RaisedKey, OKey => true
  | RaisedAssert, OAssert => true
  | _, _ => false
  end.

Definition model_sel (w : world) (q : sreq) : selection :=
  get_engine_class T (reg_of w) (s_prefs q) (s_name q)
    {| r_mode := s_mode q; r_kind := mk (s_kind q); r_optimality := s_opt q; r_compilation := s_comp q;
       r_plan := s_plan q; r_anytime := s_any q |}.
Definition sel_ok (w : world) (q : sreq) : bool := sel_matches (model_sel w q) (s_obs q).

Definition model_pipe (w : world) (q : preq) : pipe :=
  pipeline T (reg_of w) (p_prefs q) (p_names q) (p_cks q) (mk (p_kind q)).
Definition pipe_ok (w : world) (q : preq) : bool :=
  match model_pipe w q, p_obs q with
  | Pipe steps _, PFound names => list_eqb String.eqb (map (fun s => fst (fst s)) steps) names
  | PipeFail s, PFail o => sel_matches s o
  | _, _ => false
  end.

Definition ok (w : world) : bool := forallb (sel_ok w) (w_sel w) && forallb (pipe_ok w) (w_pipe w).

Fixpoint failing_idx {A} (f : A -> bool) (i : nat) (l : list A) : list nat :=
  match l with [] => [] | x :: l' => if f x then failing_idx f (S i) l' else i :: failing_idx f (S i) l' end.
Definition diagnose (w : world) : list nat * list nat :=
  (failing_idx (sel_ok w) 0 (w_sel w), failing_idx (pipe_ok w) 0 (w_pipe w)).

(* what the model answers, in a printable form *)
Definition show_sel (s : selection) : sobs :=
  match s with Found n _ => OFound n | NoSuitable => ONoSuitable | NoRequested => ONoRequested
          | RaisedKey => OKey | RaisedAssert => OAssert end.
Definition show_pipe (p : pipe) : pobs :=
  match p with Pipe steps _ => PFound (map (fun s => fst (fst s)) steps) | PipeFail s => PFail (show_sel s) end.
