(* Correspondence for C20.  For one component object [x] of a problem the harness records
     written : the protobuf message produced by the real ProtobufWriter().convert(x), field by field;
     read    : what the real ProtobufReader().convert(written, problem) returned (None = it raised), serialised
               the same way as x.
   [ok] checks  (1) the model's encoder produces exactly [written];
                (2) the model's decoder applied to [written] produces exactly [read];
                (3) [read] = Some x  (the round trip itself, on the implementation);
                (4) x satisfies the well-formedness hypothesis of the codec theorem (so the theorem applies to it).
   The problem's symbol tables are association lists. *)
From Coq Require Import List ZArith NArith QArith Qreduction Bool.
Import ListNotations.
Require Import UPV.Model.ProtoCodec.
Open Scope list_scope.

Record env := {
  e_utypes : list name;
  e_objs : list (name * ty);
  e_fluents : list (name * ty);
  e_actions : list name
}.

Definition mem (l : list name) (n : name) : bool := existsb (fun m => (m =? n)%N) l.
Fixpoint lookup {A} (l : list (name * A)) (n : name) : option A :=
  match l with
  | [] => None
  | (m, v) :: r => if (m =? n)%N then Some v else lookup r n
  end.

Definition ut (E : env) := mem (e_utypes E).
Definition ot (E : env) := lookup (e_objs E).
Definition ft (E : env) := lookup (e_fluents E).
Definition act (E : env) := mem (e_actions E).

(* ------------------------------------------------------------------ structural equalities *)
Definition list_eqb {A} (e : A -> A -> bool) : list A -> list A -> bool :=
  fix go (a b : list A) : bool :=
    match a, b with
    | [], [] => true
    | x :: a', y :: b' => e x y && go a' b'
    | _, _ => false
    end.

Definition pair_eqb {A B} (ea : A -> A -> bool) (eb : B -> B -> bool) (a b : A * B) : bool :=
  ea (fst a) (fst b) && eb (snd a) (snd b).

Definition tok_eqb (a b : tok) : bool :=
  match a, b with
  | TInt x, TInt y => (x =? y)%Z
  | TFrac x, TFrac y => Qeqb_strict x y
  | TInf, TInf | TNegInf, TNegInf => true
  | _, _ => false
  end.

Definition tystr_eqb (a b : tystr) : bool :=
  match a, b with
  | SBool, SBool | SInt, SInt | SReal, SReal => true
  | SIntB l h, SIntB l' h' | SRealB l h, SRealB l' h' => tok_eqb l l' && tok_eqb h h'
  | SUser n, SUser n' => (n =? n')%N
  | _, _ => false
  end.

Definition tpkind_eqb (a b : tpkind) : bool := (tpkind_num a =? tpkind_num b)%N.

Definition op_num (o : op) : N :=
  match o with
  | OPlus => 0 | OMinus => 1 | OTimes => 2 | ODiv => 3 | OLe => 4 | OLt => 5 | OEquals => 6 | OAnd => 7 | OOr => 8
  | ONot => 9 | OImplies => 10 | OIff => 11 | OAlways => 12 | OAtMostOnce => 13 | OSometime => 14
  | OSometimeAfter => 15 | OSometimeBefore => 16
  end%N.
Definition op_eqb (a b : op) : bool := (op_num a =? op_num b)%N.
Definition quant_eqb (a b : quant) : bool :=
  match a, b with QExists, QExists | QForall, QForall => true | _, _ => false end.

Definition sym_eqb (a b : sym) : bool :=
  match a, b with
  | SName n, SName n' => (n =? n')%N
  | SOp o, SOp o' => op_eqb o o'
  | SQuant q, SQuant q' => quant_eqb q q'
  | SPresent, SPresent => true
  | STp k, STp k' => tpkind_eqb k k'
  | _, _ => false
  end.

Definition atom_eqb (a b : atom) : bool :=
  match a, b with
  | ASym s, ASym s' => sym_eqb s s'
  | AInt z, AInt z' => (z =? z')%Z
  | AReal n d, AReal n' d' => (n =? n')%Z && (d =? d')%Z
  | ABool x, ABool y => Bool.eqb x y
  | _, _ => false
  end.

Definition ekind_num (k : ekind) : N :=
  match k with
  | KUnknown => 0 | KConstant => 1 | KParameter => 2 | KFluentSymbol => 3 | KFunctionSymbol => 4 | KStateVariable => 5
  | KFunctionApplication => 6 | KVariable => 7 | KContainerId => 8
  end%N.
Definition ekind_eqb (a b : ekind) : bool := (ekind_num a =? ekind_num b)%N.

Definition etype_eqb (a b : etype) : bool :=
  match a, b with
  | YNone, YNone | YTime, YTime | YContainer, YContainer | YOperator, YOperator => true
  | YTy s, YTy s' => tystr_eqb s s'
  | _, _ => false
  end.

Fixpoint pexpr_eqb (a b : pexpr) : bool :=
  match a, b with
  | PE aa la ta ka, PE ab lb tb kb =>
      opt_eqb atom_eqb aa ab && list_eqb pexpr_eqb la lb && etype_eqb ta tb && ekind_eqb ka kb
  end.

Definition timepoint_eqb (a b : timepoint) : bool :=
  tpkind_eqb (tp_kind a) (tp_kind b) && opt_eqb N.eqb (tp_container a) (tp_container b).
Definition timing_eqb (a b : timing) : bool :=
  Qeqb_strict (tm_delay a) (tm_delay b) && timepoint_eqb (tm_tp a) (tm_tp b).
Definition tinterval_eqb (a b : tinterval) : bool :=
  timing_eqb (ti_lower a) (ti_lower b) && timing_eqb (ti_upper a) (ti_upper b)
  && Bool.eqb (ti_lopen a) (ti_lopen b) && Bool.eqb (ti_ropen a) (ti_ropen b).

Definition var_eqb : name * ty -> name * ty -> bool := pair_eqb N.eqb ty_eqb.

Fixpoint expr_eqb (a b : expr) : bool :=
  match a, b with
  | EBool x, EBool y => Bool.eqb x y
  | EInt x, EInt y => (x =? y)%Z
  | EReal x, EReal y => Qeqb_strict x y
  | EParam n t, EParam n' t' | EVar n t, EVar n' t' | EObj n t, EObj n' t' => (n =? n')%N && ty_eqb t t'
  | EFluent f t l, EFluent f' t' l' => (f =? f')%N && ty_eqb t t' && list_eqb expr_eqb l l'
  | EOp o l, EOp o' l' => op_eqb o o' && list_eqb expr_eqb l l'
  | EQuant q vs e, EQuant q' vs' e' => quant_eqb q q' && list_eqb var_eqb vs vs' && expr_eqb e e'
  | ETiming t, ETiming t' => timing_eqb t t'
  | EPresent c, EPresent c' => (c =? c')%N
  | _, _ => false
  end.

Definition real_msg_eqb (a b : real_msg) : bool := (fst a =? fst b)%Z && (snd a =? snd b)%Z.
Definition timepoint_msg_eqb (a b : timepoint_msg) : bool :=
  (tpm_kind a =? tpm_kind b)%N && (tpm_container a =? tpm_container b)%N.
Definition timing_msg_eqb (a b : timing_msg) : bool :=
  timepoint_msg_eqb (tmm_tp a) (tmm_tp b) && opt_eqb real_msg_eqb (tmm_delay a) (tmm_delay b).
Definition tinterval_msg_eqb (a b : tinterval_msg) : bool :=
  Bool.eqb (tim_lopen a) (tim_lopen b) && timing_msg_eqb (tim_lower a) (tim_lower b)
  && Bool.eqb (tim_ropen a) (tim_ropen b) && timing_msg_eqb (tim_upper a) (tim_upper b).

Definition dinterval_eqb (a b : dinterval) : bool :=
  expr_eqb (di_lower a) (di_lower b) && expr_eqb (di_upper a) (di_upper b)
  && Bool.eqb (di_lopen a) (di_lopen b) && Bool.eqb (di_ropen a) (di_ropen b).
Definition interval_msg_eqb (a b : interval_msg) : bool :=
  Bool.eqb (im_lopen a) (im_lopen b) && pexpr_eqb (im_lower a) (im_lower b)
  && Bool.eqb (im_ropen a) (im_ropen b) && pexpr_eqb (im_upper a) (im_upper b).

Definition effect_eqb (a b : effect) : bool :=
  (effkind_num (ef_kind a) =? effkind_num (ef_kind b))%N && expr_eqb (ef_fluent a) (ef_fluent b)
  && expr_eqb (ef_value a) (ef_value b) && expr_eqb (ef_cond a) (ef_cond b) && list_eqb var_eqb (ef_forall a) (ef_forall b).
Definition effect_msg_eqb (a b : effect_msg) : bool :=
  (em_kind a =? em_kind b)%N && pexpr_eqb (em_fluent a) (em_fluent b) && pexpr_eqb (em_value a) (em_value b)
  && pexpr_eqb (em_cond a) (em_cond b) && list_eqb pexpr_eqb (em_forall a) (em_forall b).

Definition metric_eqb (a b : metric) : bool :=
  match a, b with
  | MActionCosts c d, MActionCosts c' d' => list_eqb (pair_eqb N.eqb expr_eqb) c c' && opt_eqb expr_eqb d d'
  | MSeqPlanLength, MSeqPlanLength | MMakespan, MMakespan => true
  | MMinExpr e, MMinExpr e' | MMaxExpr e, MMaxExpr e' => expr_eqb e e'
  | MOversub g, MOversub g' => list_eqb (pair_eqb expr_eqb Qeqb_strict) g g'
  | MTemporalOversub g, MTemporalOversub g' =>
      list_eqb (pair_eqb (pair_eqb tinterval_eqb expr_eqb) Qeqb_strict) g g'
  | _, _ => false
  end.
Definition metric_msg_eqb (a b : metric_msg) : bool :=
  (mm_kind a =? mm_kind b)%N && opt_eqb pexpr_eqb (mm_expr a) (mm_expr b)
  && list_eqb (pair_eqb N.eqb pexpr_eqb) (mm_costs a) (mm_costs b) && opt_eqb pexpr_eqb (mm_default a) (mm_default b)
  && list_eqb (pair_eqb pexpr_eqb real_msg_eqb) (mm_goals a) (mm_goals b)
  && list_eqb (pair_eqb (pair_eqb pexpr_eqb tinterval_msg_eqb) real_msg_eqb) (mm_timed_goals a) (mm_timed_goals b).

(* ------------------------------------------------------------------ cases *)
Inductive case :=
| CReal (q : Q) (written : real_msg) (read : option Q)
| CType (E : env) (t : ty) (written : tystr) (read : option ty)
| CTypeDecl (E : env) (t : ty) (father : option name) (written : type_decl) (read : option (ty * option name))
| CExpr (E : env) (e : expr) (written : pexpr) (read : option expr)
| CTiming (t : timing) (written : timing_msg) (read : option timing)
| CInterval (i : tinterval) (written : tinterval_msg) (read : option tinterval)
| CDuration (E : env) (i : dinterval) (written : interval_msg) (read : option dinterval)
| CEffect (E : env) (e : effect) (written : effect_msg) (read : option effect)
| CMetric (E : env) (m : metric) (written : metric_msg) (read : option metric).

(* (2) and (3) at once: the model decodes [written] to [read], and [read] is the original *)
Definition agree {A} (eqb : A -> A -> bool) (x : A) (model_read read : option A) : bool :=
  opt_eqb eqb model_read read && opt_eqb eqb read (Some x).

Definition type_decl_eqb (a b : type_decl) : bool :=
  tystr_eqb (td_name a) (td_name b) && (td_parent a =? td_parent b)%N.

Definition ok (c : case) : bool :=
  match c with
  | CReal q w r =>
      canonQb q && real_msg_eqb (enc_real q) w && agree Qeqb_strict q (dec_real w) r
  | CType E t w r =>
      wf_tyb (ut E) t && tystr_eqb (proto_type t) w && agree ty_eqb t (convert_type_str (ut E) w) r
  | CTypeDecl E t father w r =>
      type_decl_eqb (enc_type_decl t father) w
      && agree (pair_eqb ty_eqb (opt_eqb N.eqb)) (t, father) (dec_type_decl (ut E) w) r
  | CExpr E e w r =>
      wf_exprb (ut E) (ot E) (ft E) e && pexpr_eqb (enc_expr e) w
      && agree expr_eqb e (dec_expr (ut E) (ot E) (ft E) w) r
  | CTiming t w r =>
      wf_timingb t && timing_msg_eqb (enc_timing t) w && agree timing_eqb t (dec_timing w) r
  | CInterval i w r =>
      wf_tintervalb i && tinterval_msg_eqb (enc_tinterval i) w && agree tinterval_eqb i (dec_tinterval w) r
  | CDuration E i w r =>
      wf_dintervalb (ut E) (ot E) (ft E) i && interval_msg_eqb (enc_dinterval i) w
      && agree dinterval_eqb i (dec_dinterval (ut E) (ot E) (ft E) w) r
  | CEffect E e w r =>
      wf_effectb (ut E) (ot E) (ft E) e && effect_msg_eqb (enc_effect e) w
      && agree effect_eqb e (dec_effect (ut E) (ot E) (ft E) w) r
  | CMetric E m w r =>
      wf_metricb (ut E) (ot E) (ft E) (act E) m && metric_msg_eqb (enc_metric m) w
      && agree metric_eqb m (dec_metric (ut E) (ot E) (ft E) (act E) w) r
  end.

(* what the model answers on a case, for the replay files *)
Definition model_view (c : case) : bool * bool * bool :=
  match c with
  | CReal q w r => (real_msg_eqb (enc_real q) w, opt_eqb Qeqb_strict (dec_real w) r, opt_eqb Qeqb_strict r (Some q))
  | CType E t w r => (tystr_eqb (proto_type t) w, opt_eqb ty_eqb (convert_type_str (ut E) w) r, opt_eqb ty_eqb r (Some t))
  | CTypeDecl E t father w r =>
      (type_decl_eqb (enc_type_decl t father) w,
       opt_eqb (pair_eqb ty_eqb (opt_eqb N.eqb)) (dec_type_decl (ut E) w) r,
       opt_eqb (pair_eqb ty_eqb (opt_eqb N.eqb)) r (Some (t, father)))
  | CExpr E e w r =>
      (pexpr_eqb (enc_expr e) w, opt_eqb expr_eqb (dec_expr (ut E) (ot E) (ft E) w) r, opt_eqb expr_eqb r (Some e))
  | CTiming t w r => (timing_msg_eqb (enc_timing t) w, opt_eqb timing_eqb (dec_timing w) r, opt_eqb timing_eqb r (Some t))
  | CInterval i w r =>
      (tinterval_msg_eqb (enc_tinterval i) w, opt_eqb tinterval_eqb (dec_tinterval w) r, opt_eqb tinterval_eqb r (Some i))
  | CDuration E i w r =>
      (interval_msg_eqb (enc_dinterval i) w, opt_eqb dinterval_eqb (dec_dinterval (ut E) (ot E) (ft E) w) r,
       opt_eqb dinterval_eqb r (Some i))
  | CEffect E e w r =>
      (effect_msg_eqb (enc_effect e) w, opt_eqb effect_eqb (dec_effect (ut E) (ot E) (ft E) w) r,
       opt_eqb effect_eqb r (Some e))
  | CMetric E m w r =>
      (metric_msg_eqb (enc_metric m) w, opt_eqb metric_eqb (dec_metric (ut E) (ot E) (ft E) (act E) w) r,
       opt_eqb metric_eqb r (Some m))
  end.
