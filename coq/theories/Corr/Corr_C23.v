(* Correspondence for C23.  A case is a constructor call Problem(initial_defaults = c_defaults) followed by a history
   of model-building calls on that problem, on one InstantaneousAction, one DurativeAction (one timing) and of
   ActionInstance constructions.  The harness performs them on the real classes and records: whether the constructor
   raised; for every call whether it raised and the sizes of the six stored collections afterwards; and the complete
   stored content at the end.  [ok] recomputes all of it with the model. *)
From Coq Require Import List ZArith NArith QArith Bool.
Import ListNotations.
Require Import UPV.Model.TypedStore.

Record case := Case {
  c_hier : hier;
  c_defaults : list (ty * val);
  c_ctor_raised : bool;
  c_ops : list op;
  c_raised : list bool;                 (* per call: did it raise *)
  c_sizes : list (list nat);            (* per call: sizes of (fluents, fluent_defaults, init_values, effects of the
                                           InstantaneousAction, of the DurativeAction, of the Problem, instances) after it *)
  c_final : store                       (* everything stored at the end (effects: per container in order, then concatenated
                                           InstantaneousAction ++ DurativeAction ++ Problem) *)
}.

Fixpoint list_eqb {A} (e : A -> A -> bool) (a b : list A) : bool :=
  match a, b with
  | [], [] => true
  | x :: a', y :: b' => e x y && list_eqb e a' b'
  | _, _ => false
  end.

(* the same stored expression: same constant (numeric constants by value and kind), same object, same expression node *)
Definition val_eqb (a b : val) : bool :=
  match a, b with
  | VBool x, VBool y => Bool.eqb x y
  | VInt x, VInt y => (x =? y)%Z
  | VReal x, VReal y => Qeq_bool x y
  | VObj o u, VObj o' u' => (o =? o')%N && (u =? u')%N
  | VExpr e t, VExpr e' t' => (e =? e')%N && ty_eqb t t'
  | VBad, VBad => true
  | _, _ => false
  end.

Definition site_eqb (a b : site) : bool :=
  match a, b with SInst, SInst | SDur, SDur | SProb, SProb => true | _, _ => false end.
Definition ekind_eqb (a b : ekind) : bool :=
  match a, b with EAssign, EAssign | EIncrease, EIncrease | EDecrease, EDecrease => true | _, _ => false end.

Definition tv_eqb (a b : ty * val) : bool := ty_eqb (fst a) (fst b) && val_eqb (snd a) (snd b).

Definition effect_eqb (a b : site * ekind * ty * val) : bool :=
  match a, b with
  | (s1, k1, t1, v1), (s2, k2, t2, v2) => site_eqb s1 s2 && ekind_eqb k1 k2 && ty_eqb t1 t2 && val_eqb v1 v2
  end.

Definition by_site (st : site) (l : list (site * ekind * ty * val)) : list (site * ekind * ty * val) :=
  filter (fun e => match e with (s, _, _, _) => site_eqb s st end) l.

Definition effects_canon (l : list (site * ekind * ty * val)) := by_site SInst l ++ by_site SDur l ++ by_site SProb l.

Definition store_eqb (a b : store) : bool :=
  list_eqb tv_eqb (type_defaults a) (type_defaults b)
  && list_eqb (fun x y => (fst x =? fst y)%N && ty_eqb (snd x) (snd y)) (fluents a) (fluents b)
  && list_eqb (fun x y => match x, y with (f, t, v), (f', t', v') => (f =? f')%N && ty_eqb t t' && val_eqb v v' end)
       (fluent_defaults a) (fluent_defaults b)
  && list_eqb (fun x y => (fst x =? fst y)%N && tv_eqb (snd x) (snd y)) (init_values a) (init_values b)
  && list_eqb effect_eqb (effects_canon (effects a)) (effects_canon (effects b))
  && list_eqb (list_eqb tv_eqb) (instances a) (instances b).

Definition sizes_of (s : store) : list nat :=
  [ length (fluents s); length (fluent_defaults s); length (init_values s);
    length (by_site SInst (effects s)); length (by_site SDur (effects s)); length (by_site SProb (effects s));
    length (instances s) ].

Fixpoint trace (h : hier) (s : store) (ops : list op) : list (bool * list nat) * store :=
  match ops with
  | [] => ([], s)
  | o :: ops' =>
      let (s', r) := step h s o in
      let (tr, sf) := trace h s' ops' in
      ((r, sizes_of s') :: tr, sf)
  end.

Definition ok (c : case) : bool :=
  match mk_problem (c_hier c) (c_defaults c) with
  | None => c_ctor_raised c && match c_ops c with [] => true | _ => false end
  | Some s0 =>
      negb (c_ctor_raised c) &&
      let (tr, sf) := trace (c_hier c) s0 (c_ops c) in
      list_eqb Bool.eqb (map fst tr) (c_raised c)
      && list_eqb (list_eqb Nat.eqb) (map snd tr) (c_sizes c)
      && store_eqb sf (c_final c)
  end.

(* what the model computes, for replays *)
Definition model_view (c : case) :=
  match mk_problem (c_hier c) (c_defaults c) with
  | None => None
  | Some s0 => Some (trace (c_hier c) s0 (c_ops c))
  end.
