(* Correspondence for the statement layer of the ANML codec (Model/AnmlStmt.v), harness/ext/c19_stmt.py.
   One case = one statement of an action body.  Written cases: a durative action with ONE timed condition or ONE
   timed effect is built through the real API, the REAL ANMLWriter prints the problem, the statement's text is cut out
   of the action body and tokenised (c_toks); the REAL ANMLReader reads the whole text back and the condition
   (interval + expression) or effect (timing, fluent, arguments, value, condition, kind, forall variables) of the
   re-read action is serialised (c_parsed; None = the reader raised).  Hand-written cases (c_stmt = None) exercise the
   parser alone (missing intervals, `when` with its own intervals, brackets, delays the reader rejects). *)
From Coq Require Import List ZArith NArith QArith Qcanon Bool.
Import ListNotations.
Require Import UPV.Core.Expr UPV.Core.Eval UPV.Core.Interp UPV.Planning.Problem UPV.Planning.Temporal.
Require Import UPV.Model.AnmlExpr UPV.Model.AnmlStmt UPV.Corr.Corr_C19_expr.

Record scase := {
  s_names : names;
  s_stmt : option stmt;
  s_toks : list token;
  s_parsed : option pstmt
}.

Definition kind_eqb (a b : ekind) : bool :=
  match a, b with KAssign, KAssign | KInc, KInc | KDec, KDec => true | _, _ => false end.
Definition effect_eqb (a b : effect) : bool :=
  (e_fl a =? e_fl b)%N && list_expr_eqb (e_args a) (e_args b) && expr_eqb (e_val a) (e_val b)
  && expr_eqb (e_cond a) (e_cond b) && kind_eqb (e_kind a) (e_kind b) && vars_eqb (e_vars a) (e_vars b)
  && Bool.eqb (e_isbool a) (e_isbool b).
Definition tinterval_eqb (a b : tinterval) : bool :=
  timing_eqb (ti_lo a) (ti_lo b) && timing_eqb (ti_hi a) (ti_hi b)
  && Bool.eqb (ti_lopen a) (ti_lopen b) && Bool.eqb (ti_ropen a) (ti_ropen b).
Definition pstmt_eqb (a b : pstmt) : bool :=
  match a, b with
  | PCond i c, PCond j d => tinterval_eqb i j && expr_eqb c d
  | PEff t e, PEff u f => timing_eqb t u && effect_eqb e f
  | _, _ => false
  end.
Definition opstmt_eqb (a b : option pstmt) : bool :=
  match a, b with Some x, Some y => pstmt_eqb x y | None, None => true | _, _ => false end.

(* SEffW (written "when true {...}", see Model/AnmlStmt.v) is outside stmt_ok on purpose: print and parse are compared.
   bit 1: generated statement outside stmt_ok;  bit 2: model print <> real text;  bit 4: model parse <> real reader;
   bit 16: theorem instance violated (sanity). *)
Definition scode (c : scase) : N :=
  let W := W_of (s_names c) in
  let R := R_of (s_names c) in
  let b4 := if opstmt_eqb (parse_stmt R (s_toks c)) (s_parsed c) then 0%N else 4%N in
  match s_stmt c with
  | None => b4
  | Some s =>
      let okf := stmt_ok R (arity_of (s_names c)) s in
      ((if okf || match s with SEffW _ _ => true | _ => false end then 0 else 1)
       + (if toks_eqb (pr_stmt W s) (s_toks c) then 0 else 2)
       + b4
       + (if okf && negb (opstmt_eqb (parse_stmt R (pr_stmt W s)) (Some (norm_stmt s))) then 16 else 0))%N
  end.

Definition smodel_view (c : scase) :=
  (option_map (pr_stmt (W_of (s_names c))) (s_stmt c), parse_stmt (R_of (s_names c)) (s_toks c)).
