(* Correspondence for C33.  Two kinds of cases:
   [tcase] -- the tables as read by IMPORTING the modules (second, independent reading) against Gen_Kind (read by ast),
              plus get_valid_features(v) for every version;
   [case]  -- kinds (rows x columns), and what the implementation did: constructor, .version, __hash__(), ==,
              hash-equality, <= (on fresh copies, with the operands' _features afterwards), union, intersection,
              equalize_versions towards every target version. *)
From Coq Require Import List ZArith NArith Bool String.
Import ListNotations.
Require Import UPV.Model.Kind UPV.Gen.Gen_Kind.

Definition T := gen_tables.

Fixpoint list_eqb {A} (e : A -> A -> bool) (a b : list A) : bool :=
  match a, b with
  | [], [] => true
  | x :: a', y :: b' => e x y && list_eqb e a' b'
  | _, _ => false
  end.

Definition optn_eqb (a b : option N) : bool :=
  match a, b with Some x, Some y => (x =? y)%N | None, None => true | _, _ => false end.

(* ------------------------------------------------------------------ tables *)
Record tcase := {
  tc_names : list string;                       (* list(dict.fromkeys(chain( *FEATURES.values()))) + versioned-only names *)
  tc_features : list (string * list N);         (* FEATURES *)
  tc_n_all : nat;                               (* len(all_features) *)
  tc_versions : list (N * (N * option N));      (* FEATURES_VERSIONS *)
  tc_latest : N;
  tc_umap : list (N * N);                       (* upgrade_functions_map.keys() *)
  tc_valid : list (N * list N)                  (* (v, get_valid_features(v)) *)
}.

Definition tables_agree (c : tcase) : bool :=
  list_eqb String.eqb (tc_names c) feature_names
  && list_eqb (fun a b => String.eqb (fst a) (fst b) && list_eqb N.eqb (snd a) (snd b)) (tc_features c) FEATURES
  && Nat.eqb (tc_n_all c) (List.length all_features)
  && list_eqb (fun a b => N.eqb (fst a) (fst b) && N.eqb (fst (snd a)) (fst (snd b)) && optn_eqb (snd (snd a)) (snd (snd b)))
              (tc_versions c) FEATURES_VERSIONS
  && N.eqb (tc_latest c) LATEST_PROBLEM_KIND_VERSION
  && list_eqb (fun a b => N.eqb (fst a) (fst b) && N.eqb (snd a) (snd b)) (tc_umap c) (map fst upgrade_functions_map)
  && forallb (fun vf => N.eqb (mask_of (snd vf)) (valid T (fst vf))) (tc_valid c).

(* ------------------------------------------------------------------ kinds *)
Record kobs := { o_ctor : bool; o_version : N; o_hash : Z }.
Inductive rk := RKind (feats : list N) (ver : option N) | RKeyErr | RAssertErr.
Record pobs := {
  p_eq : bool;                                   (* a == b *)
  p_heq : bool;                                  (* hash(a) == hash(b) *)
  p_le : option (bool * list N * list N);        (* a <= b on fresh copies, a._features / b._features afterwards; None = KeyError *)
  p_union : rk;
  p_inter : rk
}.

Record case := {
  c_h : list (N * Z);                            (* hash(feature name) *)
  c_rows : list (list N * option N);
  c_cols : list (list N * option N);
  c_robs : list kobs;
  c_cobs : list kobs;
  c_pairs : list (list pobs);
  c_targets : list N;
  c_upg : list (list (option (list N)))          (* per row, per target w: equalize_versions(feats, set(), version, w)[0] *)
}.

Definition mk (k : list N * option N) : kind := {| k_feats := mask_of (fst k); k_ver := snd k |}.

Definition hfun (c : case) (f : N) : Z := match assoc f (c_h c) with Some z => z | None => 0%Z end.

Definition kobs_ok (c : case) (k : list N * option N) (o : kobs) : bool :=
  Bool.eqb (wf T (mk k)) (o_ctor o)
  && (negb (o_ctor o) || ((version T (mk k) =? o_version o)%N && (khash T (hfun c) (mk k) =? o_hash o)%Z)).

Definition rk_ok (m : res kind) (o : rk) : bool :=
  match m, o with
  | Ok k, RKind fs v => (k_feats k =? mask_of fs)%N && optn_eqb (k_ver k) v
  | KeyErr, RKeyErr => true
  | AssertErr, RAssertErr => true
  | _, _ => false
  end.

Definition le_ok (m : res (bool * fset * fset)) (o : option (bool * list N * list N)) : bool :=
  match m, o with
  | Ok (r, fa, fb), Some (r', fa', fb') => Bool.eqb r r' && (fa =? mask_of fa')%N && (fb =? mask_of fb')%N
  | KeyErr, None => true
  | _, _ => false
  end.

(* the individual agreements, so that the harness can name the component that disagrees *)
Definition pair_parts (c : case) (a b : kind) (o : pobs) : list bool :=
  [ Bool.eqb (keq T a b) (p_eq o);
    implb (p_eq o) (p_heq o) && implb (keq T a b) (khash T (hfun c) a =? khash T (hfun c) b)%Z;
    le_ok (le_mut T a b) (p_le o);
    rk_ok (union T a b) (p_union o);
    rk_ok (inter T a b) (p_inter o) ].

Definition pair_ok (c : case) (a b : kind) (o : pobs) : bool := forallb (fun x => x) (pair_parts c a b o).

Fixpoint zip_all {A B} (f : A -> B -> bool) (a : list A) (b : list B) : bool :=
  match a, b with
  | [], [] => true
  | x :: a', y :: b' => f x y && zip_all f a' b'
  | _, _ => false
  end.

Definition upg_ok (k : kind) (w : N) (o : option (list N)) : bool :=
  (* the harness calls equalize_versions(feats, set(), version, w) and keeps the first component *)
  match equalize T (k_feats k) 0%N (version T k) w, o with
  | Some (s, _, _), Some fs => (s =? mask_of fs)%N
  | None, None => true
  | _, _ => false
  end.

Definition ok_kobs (c : case) : bool :=
  zip_all (kobs_ok c) (c_rows c) (c_robs c) && zip_all (kobs_ok c) (c_cols c) (c_cobs c).

Definition ok_pairs (c : case) : bool :=
  zip_all (fun ro prow =>
             zip_all (fun co o => negb (o_ctor (snd ro)) || negb (o_ctor (snd co)) || pair_ok c (mk (fst ro)) (mk (fst co)) o)
                     (combine (c_cols c) (c_cobs c)) prow)
          (combine (c_rows c) (c_robs c)) (c_pairs c).

Definition ok_upg (c : case) : bool :=
  zip_all (fun ro urow => negb (o_ctor (snd ro)) || zip_all (upg_ok (mk (fst ro))) (c_targets c) urow)
          (combine (c_rows c) (c_robs c)) (c_upg c).

Definition ok (c : case) : bool := ok_kobs c && ok_pairs c && ok_upg c.

(* diagnosis: for every (row, col) with both constructed, the five component agreements *)
Definition diagnose (c : case) : list (nat * nat * list bool) :=
  flat_map (fun ri =>
    flat_map (fun ci =>
      match nth_error (c_rows c) ri, nth_error (c_cols c) ci, nth_error (c_pairs c) ri,
            nth_error (c_robs c) ri, nth_error (c_cobs c) ci with
      | Some r, Some cl, Some prow, Some ro, Some co =>
          match nth_error prow ci with
          | Some o => let ps := pair_parts c (mk r) (mk cl) o in
                      if negb (o_ctor ro) || negb (o_ctor co) || forallb (fun x => x) ps then [] else [(ri, ci, ps)]
          | None => []
          end
      | _, _, _, _, _ => []
      end) (seq 0 (List.length (c_cols c)))) (seq 0 (List.length (c_rows c))).

(* ------------------------------------------------------------------ histories on ONE kind object
   The harness builds a kind, then applies a random interleaving of the generated set_<class>(F) / unset_<class>(F) methods,
   observations (hash, ==, clone, union/intersection with a fixed other kind, each also against a FRESH kind built from the
   object's current _features) and comparisons (<=, which strips the object in place).  After every step it records the
   object's _features.  The model threads the feature set through the same steps. *)
Inductive hop := HSet (f : N) | HUnset (f : N) | HObs | HLe | HGe | HLeFresh.
Inductive hobs :=
| OSet (ok : bool) (feats : list N)                   (* ok = no AssertionError *)
| OUnset (feats : list N)
| OObs (feats : list N) (hash : Z)
       (eq_fresh heq_fresh clone_ok eq_other : bool)  (* k == fresh, hash(k) == hash(fresh), k.clone() == k with equal hash, k == other *)
       (un itr : rk)                                  (* k.union(other), k.intersection(other) *)
| OLe (r : option bool) (feats : list N)              (* HLe: k <= other;  HGe: other <= k;  None = KeyError *)
| OLeFresh (r1 r2 : option bool) (feats : list N).    (* k <= fresh, then fresh' <= k *)

Record hcase := {
  hc_h : list (N * Z);
  hc_init : list N * option N;
  hc_other : list N * option N;
  hc_ops : list hop;
  hc_obs : list hobs
}.

Definition optb_eqb (a b : option bool) : bool :=
  match a, b with Some x, Some y => Bool.eqb x y | None, None => true | _, _ => false end.

Fixpoint hrun (hf : N -> Z) (ver : option N) (other : kind) (s : fset) (ops : list hop) (obs : list hobs) : bool :=
  let k := {| k_feats := s; k_ver := ver |} in
  match ops, obs with
  | [], [] => true
  | HSet f :: ops', OSet ok feats :: obs' =>
      let allowed := match ver with Some v => (added T f <=? v)%N | None => true end in
      let s' := if allowed then N.setbit s f else s in
      Bool.eqb allowed ok && (s' =? mask_of feats)%N && hrun hf ver other s' ops' obs'
  | HUnset f :: ops', OUnset feats :: obs' =>
      let s' := N.clearbit s f in (s' =? mask_of feats)%N && hrun hf ver other s' ops' obs'
  | HObs :: ops', OObs feats hash e he c eo un itr :: obs' =>
      (s =? mask_of feats)%N && (khash T hf k =? hash)%Z && e && he && c
      && Bool.eqb (keq T k other) eo && rk_ok (union T k other) un && rk_ok (inter T k other) itr
      && hrun hf ver other s ops' obs'
  | HLe :: ops', OLe r feats :: obs' =>
      match le_mut T k other with
      | Ok (b, fa, _) => optb_eqb (Some b) r && (fa =? mask_of feats)%N && hrun hf ver other fa ops' obs'
      | KeyErr => optb_eqb None r && (s =? mask_of feats)%N && hrun hf ver other s ops' obs'
      | AssertErr => false
      end
  | HGe :: ops', OLe r feats :: obs' =>
      match le_mut T other k with
      | Ok (b, _, fb) => optb_eqb (Some b) r && (fb =? mask_of feats)%N && hrun hf ver other fb ops' obs'
      | KeyErr => optb_eqb None r && (s =? mask_of feats)%N && hrun hf ver other s ops' obs'
      | AssertErr => false
      end
  | HLeFresh :: ops', OLeFresh r1 r2 feats :: obs' =>
      match le_mut T k k with
      | Ok (b1, fa, _) =>
          let k' := {| k_feats := fa; k_ver := ver |} in
          match le_mut T k' k' with
          | Ok (b2, _, fb) => optb_eqb (Some b1) r1 && optb_eqb (Some b2) r2 && b1 && b2
                              && (fb =? mask_of feats)%N && hrun hf ver other fb ops' obs'
          | _ => false
          end
      | _ => false
      end
  | _, _ => false
  end.

Definition hok (c : hcase) : bool :=
  let hf := fun f => match assoc f (hc_h c) with Some z => z | None => 0%Z end in
  wf T (mk (hc_init c)) && wf T (mk (hc_other c))
  && hrun hf (snd (hc_init c)) (mk (hc_other c)) (mask_of (fst (hc_init c))) (hc_ops c) (hc_obs c).

(* index of the first step on which model and implementation differ (for the replay) *)
Fixpoint hfirst (hf : N -> Z) (ver : option N) (other : kind) (s : fset) (ops : list hop) (obs : list hobs) (i : nat) : nat :=
  match ops, obs with
  | o :: ops', b :: obs' =>
      if hrun hf ver other s [o] [b] then
        let s' := match o, b with
                  | HSet _, OSet _ feats | HUnset _, OUnset feats | HObs, OObs feats _ _ _ _ _ _ _
                  | HLe, OLe _ feats | HGe, OLe _ feats | HLeFresh, OLeFresh _ _ feats => mask_of feats
                  | _, _ => s
                  end in
        hfirst hf ver other s' ops' obs' (S i)
      else i
  | _, _ => i
  end.
Definition hdiag (c : hcase) : nat :=
  let hf := fun f => match assoc f (hc_h c) with Some z => z | None => 0%Z end in
  hfirst hf (snd (hc_init c)) (mk (hc_other c)) (mask_of (fst (hc_init c))) (hc_ops c) (hc_obs c) 0.
