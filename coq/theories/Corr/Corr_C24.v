(* Correspondence for C24.  A case is a collection of members (indices into a shared universe) inserted at one time
   point of a container (InstantaneousAction / DurativeAction / Problem) after a fixed history [c_pre]; the harness
   runs EVERY order of the collection (or the listed orders) on the real classes, and records after every single
   insertion whether it raised UPConflictingEffectsException and the bookkeeping attributes (_effects,
   _fluents_assigned, _fluents_inc_dec, _simulated_effect(s)) of every watched time point.  [ok] recomputes the
   same trace with the model and compares everything (observations travel as one number per insertion order,
   see [enc_order]). *)
From Coq Require Import List ZArith NArith QArith Bool.
Import ListNotations.
Require Import UPV.Model.Conflicts.

Inductive ckind := CInst | CDur | CProb.

(* observed bookkeeping of one time point *)
Record snap := Snap {
  sn_effects : list N;             (* tags of the stored effects, in order *)
  sn_assigned : list (N * value);  (* _fluents_assigned, in dict order *)
  sn_incdec : list N;              (* _fluents_inc_dec, any order *)
  sn_sim : option (list N)         (* fluents of the simulated effect *)
}.

Record case := Case {
  c_kind : ckind;
  c_universe : list item;
  c_pre : list (N * nat);          (* history before the collection: (time point, member index) *)
  c_t : N;                         (* time point of the collection *)
  c_items : list nat;              (* the collection *)
  c_orders : list (list nat);      (* [] = all DISTINCT permutations of c_items, in the order of first occurrence in
                                      the index-lexicographic enumeration (itertools.permutations); otherwise
                                      exactly these insertion orders *)
  c_watch : list N;                (* time points whose bookkeeping is recorded *)
  c_values : list value;           (* table of the value expressions that occur (a value is sent as its index) *)
  c_obs : list N                   (* per order: [enc_order] of the per-insertion (raised?, snapshots of the watched
                                      points) as observed on the implementation *)
}.

Fixpoint selects {A} (l : list A) : list (A * list A) :=
  match l with
  | [] => []
  | x :: l' => (x, l') :: map (fun p => (fst p, x :: snd p)) (selects l')
  end.

Fixpoint perms_fuel {A} (n : nat) (l : list A) : list (list A) :=
  match n with
  | O => [[]]
  | S n' => match l with
            | [] => [[]]
            | _ => flat_map (fun p => map (cons (fst p)) (perms_fuel n' (snd p))) (selects l)
            end
  end.
Definition perms {A} (l : list A) : list (list A) := perms_fuel (length l) l.

Definition snap_of (s : tp) : snap :=
  Snap (map e_tag (effects s)) (assigned s) (incdec s) (sim s).

Fixpoint list_eqb {A} (e : A -> A -> bool) (a b : list A) : bool :=
  match a, b with
  | [], [] => true
  | x :: a', y :: b' => e x y && list_eqb e a' b'
  | _, _ => false
  end.

Definition subset (a b : list N) : bool := forallb (fun x => mem x b) a.
Definition set_eqb (a b : list N) : bool := subset a b && subset b a.

Definition value_same (a b : value) : bool := veq a b.

Definition snap_eqb (a b : snap) : bool :=
  list_eqb N.eqb (sn_effects a) (sn_effects b)
  && list_eqb (fun x y => (fst x =? fst y)%N && value_same (snd x) (snd y)) (sn_assigned a) (sn_assigned b)
  && set_eqb (sn_incdec a) (sn_incdec b)
  && match sn_sim a, sn_sim b with
     | None, None => true
     | Some x, Some y => list_eqb N.eqb x y
     | _, _ => false
     end.

Definition nth_item (u : list item) (i : nat) : item := nth i u (ISim []).

(* InstantaneousAction: the one-time-point model *)
Fixpoint trace_inst (s : tp) (l : list item) : list (bool * list snap) :=
  match l with
  | [] => []
  | i :: l' => let (s', r) := add_item s i in (r, [snap_of s']) :: trace_inst s' l'
  end.

(* DurativeAction / Problem: the timed model *)
Fixpoint trace_timed (watch : list N) (m : timed) (l : list (N * item)) : list (bool * list snap) :=
  match l with
  | [] => []
  | ti :: l' => let (m', r) := tadd_item m ti in
                (r, map (fun t => snap_of (tget t m')) watch) :: trace_timed watch m' l'
  end.

Definition is_sim (i : item) : bool := match i with ISim _ => true | IEff _ => false end.

Definition dedup_first (ps : list (list nat)) : list (list nat) :=
  fold_left (fun acc o => if existsb (list_eqb Nat.eqb o) acc then acc else acc ++ [o]) ps [].

Definition orders_of (c : case) : list (list nat) :=
  match c_orders c with [] => dedup_first (perms (c_items c)) | os => os end.

Definition model_obs (c : case) : list (list (bool * list snap)) :=
  let u := c_universe c in
  match c_kind c with
  | CInst =>
      let s0 := run tp_empty (map (fun p => nth_item u (snd p)) (c_pre c)) in
      map (fun o => trace_inst s0 (map (nth_item u) o)) (orders_of c)
  | _ =>
      let m0 := trun [] (map (fun p => (fst p, nth_item u (snd p))) (c_pre c)) in
      map (fun o => trace_timed (c_watch c) m0 (map (fun i => (c_t c, nth_item u i)) o)) (orders_of c)
  end.

(* a Problem has no simulated effects: such a case is malformed *)
Definition well_formed (c : case) : bool :=
  match c_kind c with
  | CProb => negb (existsb (fun i => is_sim (nth_item (c_universe c) i)) (c_items c ++ map snd (c_pre c)))
  | _ => true
  end
  && forallb (fun i => Nat.ltb i (length (c_universe c))) (c_items c ++ map snd (c_pre c) ++ concat (c_orders c)).

Definition step_eqb (a b : bool * list snap) : bool :=
  Bool.eqb (fst a) (fst b) && list_eqb snap_eqb (snd a) (snd b).

(* ---- compact transport of observations: one number per insertion.
   A step is flattened to a list of digits (length-prefixed lists, so the flattening is injective), the digits must
   all be < 64 (checked: [digits_ok]), and the digits of all steps of one insertion order are read as one base-64
   numeral with a leading 1 ([enc_order]).  The harness computes the same number from the attributes of the real
   objects; equal numbers <=> equal traces (positional notation with a leading non-zero digit is injective). *)
Definition base : N := 64.

Fixpoint vcode_from (k : N) (tbl : list value) (v : value) : N :=
  match tbl with
  | [] => base                      (* not in the table: an invalid digit *)
  | w :: tbl' => if veq w v then k else vcode_from (N.succ k) tbl' v
  end.
Definition vcode (tbl : list value) (v : value) : N := vcode_from 0 tbl v.

Definition len_digit {A} (l : list A) : N := N.of_nat (length l).

(* fluents_inc_dec is a set: bit mask over the fluent numbers 0..5; any other member makes the digit invalid *)
Definition mask_digit (s : list N) : N :=
  if forallb (fun f => (f <? 6)%N) s
  then fold_right (fun f acc => if mem f s then (acc + N.shiftl 1 f)%N else acc) 0%N [0;1;2;3;4;5]%N
  else base.

Definition snap_digits (tbl : list value) (x : snap) : list N :=
  (len_digit (sn_effects x) :: sn_effects x)
  ++ (len_digit (sn_assigned x) :: flat_map (fun p => [fst p; vcode tbl (snd p)]) (sn_assigned x))
  ++ [mask_digit (sn_incdec x)]
  ++ match sn_sim x with None => [0%N] | Some F => N.succ (len_digit F) :: F end.

Definition step_digits (tbl : list value) (st : bool * list snap) : list N :=
  (if fst st then 1%N else 0%N) :: flat_map (snap_digits tbl) (snd st).

Definition digits_ok (ds : list N) : bool := forallb (fun d => (d <? base)%N) ds.

(* the digits d1..dk as the number d1*64^(k-1) + ... + dk *)
Definition num0 (ds : list N) : N := fold_left (fun acc d => (N.shiftl acc 6 + d)%N) ds 0%N.

(* one insertion order = the concatenation of the digits of its steps, read in base 64 after a leading digit 1
   (computed step by step: acc * 64^|ds| + num0 ds).  0 is never a valid numeral, so a model trace with an invalid
   digit can never equal an observation. *)
Definition enc_order (tbl : list value) (steps : list (bool * list snap)) : N :=
  let dss := map (step_digits tbl) steps in
  if forallb digits_ok dss
  then fold_left (fun acc ds => (N.shiftl acc (6 * N.of_nat (length ds)) + num0 ds)%N) dss 1%N
  else 0%N.

Definition model_enc (c : case) : list N := map (enc_order (c_values c)) (model_obs c).

Definition ok (c : case) : bool :=
  well_formed c && list_eqb N.eqb (model_enc c) (c_obs c).

(* fast literals for the (large) observation numbers: the standard N notation converts decimal digits inside Coq,
   this one lets the parser build the binary number *)
Definition n_of_Z (z : Z) : option N := match z with Zneg _ => None | _ => Some (Z.to_N z) end.
Definition n_to_Z (n : N) : Z := Z.of_N n.
Declare Scope c24_scope.
Delimit Scope c24_scope with c24.
Number Notation N n_of_Z n_to_Z : c24_scope.
