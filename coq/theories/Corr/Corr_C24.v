(* Correspondence for C24.  A case: a container (InstantaneousAction / DurativeAction / Problem) receives a history
   [c_pre] (members with their time points), then the sequence [c_prefix] at time point [c_t], and then -- each one
   separately, from the container the prefix left -- every member of [c_children].  The harness does this on the real
   classes (every full sequence on a fresh object) and records after EVERY insertion whether it raised
   UPConflictingEffectsException and the bookkeeping attributes (_effects, _fluents_assigned, _fluents_inc_dec,
   _simulated_effect(s)) of every watched time point.  [ok] recomputes the same trace with the model and compares
   everything (observations travel as a digit stream packed into 63-bit integers, see [enc_case]).
   Running this for every prefix of length 3 over a universe and all its members as children covers every insertion
   order of every multiset of at most 4 members of that universe. *)
From Coq Require Import List ZArith NArith QArith Bool Uint63.
Import ListNotations.
Require Import UPV.Model.Conflicts.

Inductive ckind := CInst | CDur | CProb.

(* observed bookkeeping of one time point *)
Record snap := Snap {
  sn_effects : list N;             (* tags of the stored effects, in order *)
  sn_assigned : list (N * value);  (* _fluents_assigned, in dict order *)
  sn_incdec : list N;              (* _fluents_inc_dec, any order *)
  sn_sim : option (list N)         (* fluents of the simulated effect *)
}.

Record case := Case {
  c_kind : ckind;
  c_universe : list item;
  c_pre : list (N * nat);          (* history before: (time point, member index) *)
  c_t : N;                         (* time point of the prefix and the children *)
  c_prefix : list nat;             (* inserted one after the other *)
  c_children : list nat;           (* each inserted separately after the prefix *)
  c_watch : list N;                (* time points whose bookkeeping is recorded *)
  c_values : list value;           (* table of the value expressions that occur (a value is sent as its index) *)
  c_obs : list int                 (* [enc_case] of everything observed on the implementation: per insertion (history,
                                      prefix, every child) raised? and the change of the bookkeeping of every watched
                                      time point *)
}.

Definition snap_of (s : tp) : snap :=
  Snap (map e_tag (effects s)) (assigned s) (incdec s) (sim s).

Fixpoint list_eqb {A} (e : A -> A -> bool) (a b : list A) : bool :=
  match a, b with
  | [], [] => true
  | x :: a', y :: b' => e x y && list_eqb e a' b'
  | _, _ => false
  end.

Definition subset (a b : list N) : bool := forallb (fun x => mem x b) a.
Definition set_eqb (a b : list N) : bool := subset a b && subset b a.

Definition value_same (a b : value) : bool := veq a b.

Definition snap_eqb (a b : snap) : bool :=
  list_eqb N.eqb (sn_effects a) (sn_effects b)
  && list_eqb (fun x y => (fst x =? fst y)%N && value_same (snd x) (snd y)) (sn_assigned a) (sn_assigned b)
  && set_eqb (sn_incdec a) (sn_incdec b)
  && match sn_sim a, sn_sim b with
     | None, None => true
     | Some x, Some y => list_eqb N.eqb x y
     | _, _ => false
     end.

Definition nth_item (u : list item) (i : nat) : item := nth i u (ISim []).

Definition is_sim (i : item) : bool := match i with ISim _ => true | IEff _ => false end.

(* the container as the model sees it *)
Inductive cont := KInst (s : tp) | KTimed (m : timed).

Definition cont_empty (k : ckind) : cont := match k with CInst => KInst tp_empty | _ => KTimed [] end.

Definition cont_add (c : cont) (t : N) (i : item) : cont * bool :=
  match c with
  | KInst s => let (s', r) := add_item s i in (KInst s', r)
  | KTimed m => let (m', r) := tadd_item m (t, i) in (KTimed m', r)
  end.

Definition cont_snaps (watch : list N) (c : cont) : list snap :=
  match c with
  | KInst s => [snap_of s]
  | KTimed m => map (fun t => snap_of (tget t m)) watch
  end.

Fixpoint trace (watch : list N) (c : cont) (l : list (N * item)) : list (bool * list snap) * cont :=
  match l with
  | [] => ([], c)
  | (t, i) :: l' =>
      let (c', r) := cont_add c t i in
      let (tr, c'') := trace watch c' l' in
      ((r, cont_snaps watch c') :: tr, c'')
  end.

(* (history trace, prefix trace, one step per child) *)
Definition model_obs (c : case) : list (bool * list snap) * list (bool * list snap) * list (bool * list snap) :=
  let u := c_universe c in
  let w := c_watch c in
  let (tr_pre, k0) := trace w (cont_empty (c_kind c)) (map (fun p => (fst p, nth_item u (snd p))) (c_pre c)) in
  let (tr_prefix, k1) := trace w k0 (map (fun i => (c_t c, nth_item u i)) (c_prefix c)) in
  (tr_pre, tr_prefix, flat_map (fun i => fst (trace w k1 [(c_t c, nth_item u i)])) (c_children c)).

Definition watch_count (c : case) : nat := match c_kind c with CInst => 1 | _ => length (c_watch c) end.

(* a Problem has no simulated effects: such a case is malformed *)
Definition well_formed (c : case) : bool :=
  match c_kind c with
  | CProb => negb (existsb (fun i => is_sim (nth_item (c_universe c) i)) (c_prefix c ++ c_children c ++ map snd (c_pre c)))
  | _ => true
  end
  && forallb (fun i => Nat.ltb i (length (c_universe c))) (c_prefix c ++ c_children c ++ map snd (c_pre c)).

(* ---- compact transport of observations.
   Every insertion is sent as digits < 64: the raised flag, then for every watched time point the CHANGE of its
   bookkeeping with respect to the previous step ([0] = nothing changed; otherwise 1 followed by: the tag appended
   to the stored effects, the entry appended to fluents_assigned, the fluent added to fluents_inc_dec, the new
   simulated effect -- each 0 when that attribute did not change).  A change of any other shape is the invalid
   digit 64 on this side (then [ok] is false) and reported directly by the harness on the implementation side.
   Both traces start from the empty container, so equal digit streams mean equal snapshots after every insertion.
   The stream of the whole case (history, prefix, then every child) is cut into groups of 10 digits, each group is
   read in base 64 behind a leading digit 1 and sent as a 63-bit integer; every step has a self-delimiting layout
   and the number of steps is fixed by the case, so equal integer lists <=> equal streams. *)
Definition base : N := 64.

Fixpoint vcode_from (k : N) (tbl : list value) (v : value) : N :=
  match tbl with
  | [] => base                      (* not in the table: an invalid digit *)
  | w :: tbl' => if veq w v then k else vcode_from (N.succ k) tbl' v
  end.
Definition vcode (tbl : list value) (v : value) : N := vcode_from 0 tbl v.

(* [cur] = [prev ++ [x]] ?  returns x *)
Fixpoint appended {A} (e : A -> A -> bool) (prev cur : list A) : option A :=
  match prev, cur with
  | [], [x] => Some x
  | p :: prev', q :: cur' => if e p q then appended e prev' cur' else None
  | _, _ => None
  end.

Definition entry_eqb (x y : N * value) : bool := (fst x =? fst y)%N && value_same (snd x) (snd y).

Definition d_effects (prev cur : list N) : list N :=
  if list_eqb N.eqb prev cur then [0%N]
  else match appended N.eqb prev cur with Some t => [N.succ t] | None => [base] end.

Definition d_assigned (tbl : list value) (prev cur : list (N * value)) : list N :=
  if list_eqb entry_eqb prev cur then [0%N]
  else match appended entry_eqb prev cur with Some (f, v) => [N.succ f; vcode tbl v] | None => [base] end.

Definition d_incdec (prev cur : list N) : list N :=
  if set_eqb prev cur then [0%N]
  else match filter (fun f => negb (mem f prev)) cur with
       | [f] => if subset prev cur then [N.succ f] else [base]
       | _ => [base]
       end.

Definition sim_eqb (a b : option (list N)) : bool :=
  match a, b with None, None => true | Some x, Some y => list_eqb N.eqb x y | _, _ => false end.

Definition d_sim (prev cur : option (list N)) : list N :=
  if sim_eqb prev cur then [0%N]
  else match cur with Some F => N.succ (N.of_nat (length F)) :: F | None => [base] end.

Definition d_snap (tbl : list value) (prev cur : snap) : list N :=
  if snap_eqb prev cur then [0%N]
  else 1%N :: d_effects (sn_effects prev) (sn_effects cur) ++ d_assigned tbl (sn_assigned prev) (sn_assigned cur)
           ++ d_incdec (sn_incdec prev) (sn_incdec cur) ++ d_sim (sn_sim prev) (sn_sim cur).

Fixpoint d_snaps (tbl : list value) (prev cur : list snap) : list N :=
  match prev, cur with
  | p :: prev', q :: cur' => d_snap tbl p q ++ d_snaps tbl prev' cur'
  | [], [] => []
  | _, _ => [base]
  end.

Fixpoint steps_digits (tbl : list value) (prev : list snap) (steps : list (bool * list snap)) : list N :=
  match steps with
  | [] => []
  | (r, cur) :: rest => (if r then 1%N else 0%N) :: d_snaps tbl prev cur ++ steps_digits tbl cur rest
  end.

Definition empty_snaps (n : nat) : list snap := repeat (snap_of tp_empty) n.

Definition last_snaps (start : list snap) (steps : list (bool * list snap)) : list snap :=
  match rev steps with (_, x) :: _ => x | [] => start end.

Definition case_digits (c : case) : list N :=
  let tbl := c_values c in
  let e0 := empty_snaps (watch_count c) in
  let '(tr_pre, tr_prefix, tr_children) := model_obs c in
  let s0 := last_snaps e0 tr_pre in
  let s1 := last_snaps s0 tr_prefix in
  steps_digits tbl e0 tr_pre ++ steps_digits tbl s0 tr_prefix
  ++ flat_map (fun st => steps_digits tbl s1 [st]) tr_children.

Definition digits_ok (ds : list N) : bool := forallb (fun d => (d <? base)%N) ds.

(* groups of at most 10 digits; each group d1..dk is the number 1 d1 .. dk in base 64 (< 2^61) *)
Fixpoint groups (fuel : nat) (ds : list N) : list N :=
  match fuel with
  | O => []
  | S fuel' =>
      match ds with
      | [] => []
      | _ => fold_left (fun acc d => (N.shiftl acc 6 + d)%N) (firstn 10 ds) 1%N :: groups fuel' (skipn 10 ds)
      end
  end.

Definition enc_case (c : case) : option (list N) :=
  let ds := case_digits c in
  if digits_ok ds then Some (groups (S (length ds)) ds) else None.

Definition ok (c : case) : bool :=
  well_formed c &&
  match enc_case c with
  | Some gs => list_eqb N.eqb gs (map (fun i => Z.to_N (Uint63.to_Z i)) (c_obs c))
  | None => false
  end.
