(* Correspondence for C24.  A case is a collection of members (indices into a shared universe) inserted at one time
   point of a container (InstantaneousAction / DurativeAction / Problem) after a fixed history [c_pre]; the harness
   runs EVERY order of the collection (or the listed orders) on the real classes, and records after every single
   insertion whether it raised UPConflictingEffectsException and the bookkeeping attributes (_effects,
   _fluents_assigned, _fluents_inc_dec, _simulated_effect(s)) of every watched time point.  [ok] recomputes the
   same trace with the model and compares everything (observations travel as a digit stream packed into
   63-bit integers, see [enc_case]). *)
From Coq Require Import List ZArith NArith QArith Bool Uint63.
Import ListNotations.
Require Import UPV.Model.Conflicts.

Inductive ckind := CInst | CDur | CProb.

(* observed bookkeeping of one time point *)
Record snap := Snap {
  sn_effects : list N;             (* tags of the stored effects, in order *)
  sn_assigned : list (N * value);  (* _fluents_assigned, in dict order *)
  sn_incdec : list N;              (* _fluents_inc_dec, any order *)
  sn_sim : option (list N)         (* fluents of the simulated effect *)
}.

Record case := Case {
  c_kind : ckind;
  c_universe : list item;
  c_pre : list (N * nat);          (* history before the collection: (time point, member index) *)
  c_t : N;                         (* time point of the collection *)
  c_items : list nat;              (* the collection *)
  c_orders : list (list nat);      (* [] = all DISTINCT permutations of c_items, in the order of first occurrence in
                                      the index-lexicographic enumeration (itertools.permutations); otherwise
                                      exactly these insertion orders *)
  c_watch : list N;                (* time points whose bookkeeping is recorded *)
  c_values : list value;           (* table of the value expressions that occur (a value is sent as its index) *)
  c_obs : list int                 (* [enc_case] of everything observed on the implementation: for the prefix
                                      history and then for every order, per insertion: raised? and the change of
                                      the bookkeeping of every watched time point *)
}.

Fixpoint selects {A} (l : list A) : list (A * list A) :=
  match l with
  | [] => []
  | x :: l' => (x, l') :: map (fun p => (fst p, x :: snd p)) (selects l')
  end.

Fixpoint perms_fuel {A} (n : nat) (l : list A) : list (list A) :=
  match n with
  | O => [[]]
  | S n' => match l with
            | [] => [[]]
            | _ => flat_map (fun p => map (cons (fst p)) (perms_fuel n' (snd p))) (selects l)
            end
  end.
Definition perms {A} (l : list A) : list (list A) := perms_fuel (length l) l.

Definition snap_of (s : tp) : snap :=
  Snap (map e_tag (effects s)) (assigned s) (incdec s) (sim s).

Fixpoint list_eqb {A} (e : A -> A -> bool) (a b : list A) : bool :=
  match a, b with
  | [], [] => true
  | x :: a', y :: b' => e x y && list_eqb e a' b'
  | _, _ => false
  end.

Definition subset (a b : list N) : bool := forallb (fun x => mem x b) a.
Definition set_eqb (a b : list N) : bool := subset a b && subset b a.

Definition value_same (a b : value) : bool := veq a b.

Definition snap_eqb (a b : snap) : bool :=
  list_eqb N.eqb (sn_effects a) (sn_effects b)
  && list_eqb (fun x y => (fst x =? fst y)%N && value_same (snd x) (snd y)) (sn_assigned a) (sn_assigned b)
  && set_eqb (sn_incdec a) (sn_incdec b)
  && match sn_sim a, sn_sim b with
     | None, None => true
     | Some x, Some y => list_eqb N.eqb x y
     | _, _ => false
     end.

Definition nth_item (u : list item) (i : nat) : item := nth i u (ISim []).

(* InstantaneousAction: the one-time-point model *)
Fixpoint trace_inst (s : tp) (l : list item) : list (bool * list snap) :=
  match l with
  | [] => []
  | i :: l' => let (s', r) := add_item s i in (r, [snap_of s']) :: trace_inst s' l'
  end.

(* DurativeAction / Problem: the timed model *)
Fixpoint trace_timed (watch : list N) (m : timed) (l : list (N * item)) : list (bool * list snap) :=
  match l with
  | [] => []
  | ti :: l' => let (m', r) := tadd_item m ti in
                (r, map (fun t => snap_of (tget t m')) watch) :: trace_timed watch m' l'
  end.

Definition is_sim (i : item) : bool := match i with ISim _ => true | IEff _ => false end.

Definition dedup_first (ps : list (list nat)) : list (list nat) :=
  fold_left (fun acc o => if existsb (list_eqb Nat.eqb o) acc then acc else acc ++ [o]) ps [].

Definition orders_of (c : case) : list (list nat) :=
  match c_orders c with [] => dedup_first (perms (c_items c)) | os => os end.

(* the prefix history, from the empty container *)
Definition model_pre (c : case) : list (bool * list snap) :=
  let u := c_universe c in
  match c_kind c with
  | CInst => trace_inst tp_empty (map (fun p => nth_item u (snd p)) (c_pre c))
  | _ => trace_timed (c_watch c) [] (map (fun p => (fst p, nth_item u (snd p))) (c_pre c))
  end.

(* every insertion order of the collection, each from the container left by the prefix history *)
Definition model_obs (c : case) : list (list (bool * list snap)) :=
  let u := c_universe c in
  match c_kind c with
  | CInst =>
      let s0 := run tp_empty (map (fun p => nth_item u (snd p)) (c_pre c)) in
      map (fun o => trace_inst s0 (map (nth_item u) o)) (orders_of c)
  | _ =>
      let m0 := trun [] (map (fun p => (fst p, nth_item u (snd p))) (c_pre c)) in
      map (fun o => trace_timed (c_watch c) m0 (map (fun i => (c_t c, nth_item u i)) o)) (orders_of c)
  end.

Definition watch_count (c : case) : nat := match c_kind c with CInst => 1 | _ => length (c_watch c) end.

(* a Problem has no simulated effects: such a case is malformed *)
Definition well_formed (c : case) : bool :=
  match c_kind c with
  | CProb => negb (existsb (fun i => is_sim (nth_item (c_universe c) i)) (c_items c ++ map snd (c_pre c)))
  | _ => true
  end
  && forallb (fun i => Nat.ltb i (length (c_universe c))) (c_items c ++ map snd (c_pre c) ++ concat (c_orders c)).

(* ---- compact transport of observations.
   Every insertion is sent as digits < 64: the raised flag, then for every watched time point the CHANGE of its
   bookkeeping with respect to the previous step ([0] = nothing changed; otherwise 1 followed by: the tag appended
   to the stored effects, the entry appended to fluents_assigned, the fluent added to fluents_inc_dec, the new
   simulated effect -- each 0 when that attribute did not change).  A change of any other shape is the invalid
   digit 64 on this side (then [ok] is false) and reported directly by the harness on the implementation side.
   Both traces start from the empty container, so equal digit streams mean equal snapshots after every insertion.
   The stream of the whole case (prefix history, then every order) is cut into groups of 10 digits, each group is
   read in base 64 behind a leading digit 1 and sent as a 63-bit integer; every step has a self-delimiting layout
   and the number of steps is fixed by the case, so equal integer lists <=> equal streams. *)
Definition base : N := 64.

Fixpoint vcode_from (k : N) (tbl : list value) (v : value) : N :=
  match tbl with
  | [] => base                      (* not in the table: an invalid digit *)
  | w :: tbl' => if veq w v then k else vcode_from (N.succ k) tbl' v
  end.
Definition vcode (tbl : list value) (v : value) : N := vcode_from 0 tbl v.

(* [cur] = [prev ++ [x]] ?  returns x *)
Fixpoint appended {A} (e : A -> A -> bool) (prev cur : list A) : option A :=
  match prev, cur with
  | [], [x] => Some x
  | p :: prev', q :: cur' => if e p q then appended e prev' cur' else None
  | _, _ => None
  end.

Definition entry_eqb (x y : N * value) : bool := (fst x =? fst y)%N && value_same (snd x) (snd y).

Definition d_effects (prev cur : list N) : list N :=
  if list_eqb N.eqb prev cur then [0%N]
  else match appended N.eqb prev cur with Some t => [N.succ t] | None => [base] end.

Definition d_assigned (tbl : list value) (prev cur : list (N * value)) : list N :=
  if list_eqb entry_eqb prev cur then [0%N]
  else match appended entry_eqb prev cur with Some (f, v) => [N.succ f; vcode tbl v] | None => [base] end.

Definition d_incdec (prev cur : list N) : list N :=
  if set_eqb prev cur then [0%N]
  else match filter (fun f => negb (mem f prev)) cur with
       | [f] => if subset prev cur then [N.succ f] else [base]
       | _ => [base]
       end.

Definition sim_eqb (a b : option (list N)) : bool :=
  match a, b with None, None => true | Some x, Some y => list_eqb N.eqb x y | _, _ => false end.

Definition d_sim (prev cur : option (list N)) : list N :=
  if sim_eqb prev cur then [0%N]
  else match cur with Some F => N.succ (N.of_nat (length F)) :: F | None => [base] end.

Definition d_snap (tbl : list value) (prev cur : snap) : list N :=
  if snap_eqb prev cur then [0%N]
  else 1%N :: d_effects (sn_effects prev) (sn_effects cur) ++ d_assigned tbl (sn_assigned prev) (sn_assigned cur)
           ++ d_incdec (sn_incdec prev) (sn_incdec cur) ++ d_sim (sn_sim prev) (sn_sim cur).

Fixpoint d_snaps (tbl : list value) (prev cur : list snap) : list N :=
  match prev, cur with
  | p :: prev', q :: cur' => d_snap tbl p q ++ d_snaps tbl prev' cur'
  | [], [] => []
  | _, _ => [base]
  end.

Fixpoint steps_digits (tbl : list value) (prev : list snap) (steps : list (bool * list snap)) : list N :=
  match steps with
  | [] => []
  | (r, cur) :: rest => (if r then 1%N else 0%N) :: d_snaps tbl prev cur ++ steps_digits tbl cur rest
  end.

Definition empty_snaps (n : nat) : list snap := repeat (snap_of tp_empty) n.

Definition last_snaps (start : list snap) (steps : list (bool * list snap)) : list snap :=
  match rev steps with (_, x) :: _ => x | [] => start end.

Definition case_digits (c : case) : list N :=
  let tbl := c_values c in
  let e0 := empty_snaps (watch_count c) in
  let pre := model_pre c in
  let s0 := last_snaps e0 pre in
  steps_digits tbl e0 pre ++ flat_map (steps_digits tbl s0) (model_obs c).

Definition digits_ok (ds : list N) : bool := forallb (fun d => (d <? base)%N) ds.

(* groups of at most 10 digits; each group d1..dk is the number 1 d1 .. dk in base 64 (< 2^61) *)
Fixpoint groups (fuel : nat) (ds : list N) : list N :=
  match fuel with
  | O => []
  | S fuel' =>
      match ds with
      | [] => []
      | _ => fold_left (fun acc d => (N.shiftl acc 6 + d)%N) (firstn 10 ds) 1%N :: groups fuel' (skipn 10 ds)
      end
  end.

Definition enc_case (c : case) : option (list N) :=
  let ds := case_digits c in
  if digits_ok ds then Some (groups (S (length ds)) ds) else None.

Definition ok (c : case) : bool :=
  well_formed c &&
  match enc_case c with
  | Some gs => list_eqb N.eqb gs (map (fun i => Z.to_N (Uint63.to_Z i)) (c_obs c))
  | None => false
  end.
