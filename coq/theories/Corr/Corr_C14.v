(* Correspondence for C14: the harness instruments the walkers of ONE Environment (TypeChecker, Simplifier,
   Substituter, FreeVarsExtractor, FreeVarsOracle, an ExpressionQuantifiersRemover and a StateEvaluator that live as
   long as the history) and logs every DagWalker.walk call: walker, root node id, whether it returned or raised, the
   node whose walk_* function raised, and len(memoization) / len(stack) afterwards.  The model replays the log on the
   observed DAG (node id -> argument ids).  Results are abstract in the model (the node id stands for the value). *)
From Coq Require Import List NArith Bool.
Import ListNotations.
Require Import UPV.Model.Dag.
Open Scope N_scope.

Record entry := {
  e_walker : N;            (* which walker instance *)
  e_inval : bool;          (* its invalidate_memoization flag *)
  e_qleaf : bool;          (* it treats Exists/Forall nodes as leaves (Substituter, StateEvaluator) *)
  e_eval : bool;           (* the call went through StateEvaluator.evaluate (assignments fields) *)
  e_root : N;
  e_fail : option N;       (* node at which the node function raised during this walk (None: no raise) *)
  e_assert : bool;         (* observed: the `assert ... is None` at the entry of evaluate failed *)
  e_ok : bool;             (* the call returned normally *)
  e_memo : nat;            (* len(walker.memoization) after the call *)
  e_stack : nat            (* len(walker.stack) after the call *)
}.

Record case := {
  c_dag : list (N * list N);
  c_quant : list N;        (* ids of Exists/Forall nodes *)
  c_fuel : nat;
  c_entries : list entry
}.

Fixpoint assoc {A} (k : N) (l : list (N * A)) : option A :=
  match l with
  | [] => None
  | (k', v) :: l' => if k =? k' then Some v else assoc k l'
  end.

Definition memN (x : N) (l : list N) : bool := existsb (N.eqb x) l.

Definition kids (c : case) (qleaf : bool) (n : N) : list N :=
  if qleaf && memN n (c_quant c) then []
  else match assoc n (c_dag c) with Some l => l | None => [] end.

(* the node function of one logged call: raises exactly at the observed node *)
Definition fn_of (e : entry) (n : N) (_ : list N) : option N :=
  match e_fail e with
  | Some x => if x =? n then None else Some n
  | None => Some n
  end.

Definition wstate := list (N * evaluator N).

Definition get (s : wstate) (k : N) : evaluator N :=
  match assoc k s with Some w => w | None => fresh_evaluator end.

Fixpoint put (s : wstate) (k : N) (w : evaluator N) : wstate :=
  match s with
  | [] => [(k, w)]
  | (k', v) :: s' => if k =? k' then (k, w) :: s' else (k', v) :: put s' k w
  end.

Definition entry_ok (c : case) (s : wstate) (e : entry) : wstate * bool :=
  let ev := get s (e_walker e) in
  let ch := kids c (e_qleaf e) in
  if e_eval e then
    let (ev', r) := evaluate N ch (fn_of e) (c_fuel c) ev (e_root e) in
    let w' := ev_walker N ev' in
    (put s (e_walker e) ev',
     match r with
     | EvAssert => e_assert e
     | EvRes (ROk _) => e_ok e && negb (e_assert e)
     | EvRes (RFail (FailAt x)) => negb (e_ok e) && negb (e_assert e) && match e_fail e with Some y => x =? y | None => false end
     | EvRes _ => false
     end
     && Nat.eqb (length (memo N w')) (e_memo e) && Nat.eqb (length (stack N w')) (e_stack e))
  else
    let (w', r) := walk N ch (fn_of e) (e_inval e) (c_fuel c) (ev_walker N ev) (e_root e) in
    (put s (e_walker e) {| ev_walker := w'; ev_busy := ev_busy N ev |},
     match r with
     | ROk _ => e_ok e
     | RFail (FailAt x) => negb (e_ok e) && match e_fail e with Some y => x =? y | None => false end
     | _ => false
     end
     && Nat.eqb (length (memo N w')) (e_memo e) && Nat.eqb (length (stack N w')) (e_stack e)).

Fixpoint replay (c : case) (s : wstate) (es : list entry) (i : nat) : option nat :=
  match es with
  | [] => None
  | e :: es' => let (s', b) := entry_ok c s e in if b then replay c s' es' (S i) else Some i
  end.

(* index of the first log entry the model disagrees with *)
Definition first_bad (c : case) : option nat := replay c [] (c_entries c) O.

Definition ok (c : case) : bool := match first_bad c with None => true | Some _ => false end.
