(* Translation validation for C06 / C07: one case = the original problem, the problem the real compiler produced,
   and the table of the real map_back_action_instance on every compiled ground action instance.  The verdict is
   computed by the verified validators of Compilers/SimCheck.v (documented strict semantics on both sides). *)
From Coq Require Import List ZArith NArith QArith Qcanon Bool.
Import ListNotations.
Require Import UPV.Core.Expr UPV.Core.Eval UPV.Core.Interp UPV.Planning.Problem UPV.Planning.Sem.
Require Import UPV.Corr.Corr_C01 UPV.Compilers.SimCheck.

Record case := {
  c_orig : tsys;
  c_comp : tsys;
  c_back : list (inst * option inst);
  c_depth : nat;      (* C06: compiled plans up to this length *)
  c_aux : nat;        (* C07: auxiliary compiled steps allowed (1 for compilers that add a goal-achieving action) *)
  c_len : nat         (* C07: original plans up to this length *)
}.

Definition ok_sound (c : case) : bool := sound_check (c_orig c) (c_comp c) (back_of (c_back c)) (c_depth c).
Definition ok_complete (c : case) : bool :=
  complete_check (c_orig c) (c_comp c) (back_of (c_back c)) (c_aux c) (c_len c).

(* with the witness plan (indices into the instance list of the compiled / original system) *)
Definition sound_report (c : case) : list N :=
  report (ts_insts (c_comp c)) (sound_search (c_orig c) (c_comp c) (back_of (c_back c)) (c_depth c)).
Definition complete_report (c : case) : list N :=
  report (ts_insts (c_orig c)) (complete_search (c_orig c) (c_comp c) (back_of (c_back c)) (c_aux c) (c_len c)).

(* does the reference semantics accept a plan given by instance indices? (used to cross-check witnesses) *)
Definition plan_of (T : tsys) (idxs : list nat) : plan :=
  flat_map (fun i => match nth_error (ts_insts T) i with Some a => [a] | None => [] end) idxs.
Definition valid_idx (T : tsys) (idxs : list nat) : bool := valid T (plan_of T idxs).

(* "the compiler says the problem is unsolvable": search for a valid plan of T up to length n against a system
   without any plan (used when a compiler rejects a problem as unsolvable instead of compiling it) *)
Definition dead_sys (T : tsys) : tsys :=
  {| ts_prob := {| p_objs := p_objs (ts_prob T); p_ifun := p_ifun (ts_prob T); p_fluents := p_fluents (ts_prob T);
                   p_actions := []; p_goals := [EBool false]; p_invs := [] |};
     ts_init := ts_init T; ts_insts := []; ts_traj := [] |}.
Definition solvable_report (T : tsys) (n : nat) : list N :=
  report (ts_insts T) (complete_search T (dead_sys T) (fun _ => None) 0 n).

(* coverage measurement: number of valid plans of T of length <= n over its ground instances *)
Fixpoint count_from (T : tsys) (n : nat) (s : state) (rh : list state) : N :=
  ((if accept T s rh then 1 else 0) +
   match n with
   | O => 0
   | S m => fold_left (fun acc a => match step T s a with
                                    | Some t => acc + count_from T m t (t :: rh)
                                    | None => acc
                                    end) (ts_insts T) 0
   end)%N.
Definition valid_count (T : tsys) (n : nat) : N :=
  if init_ok T then count_from T n (ts_init T) [ts_init T] else 0%N.
