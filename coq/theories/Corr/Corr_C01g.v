(* Third comparison for C01: the implementation against the model WITH the grounding step
   ([sim_apply_grounded true], Planning/Ground.v).  [codeg] extends Corr_C01.code (bits 0..4 unchanged, so every reader
   of the old bits keeps working) with

   bit 5  (32)   : implementation differs from the grounded model                      (model drift or defect)
   bit 6  (64)   : the model's grounding is None because of the SYNTACTIC conflict check
   bit 7  (128)  : a grounded effect lost a forall variable
   bit 8  (256)  : the grounded model differs from the ungrounded model [sim_apply true] (grounding matters here)
   bit 9  (512)  : a simplifier call hit the nesting bound of [simplify] (never observed; outside the model)
   bit 10 (1024) : a divisor simplifies to the constant 0 (Simplifier.walk_div raises; outside the model)
   bit 11 (2048) : the pair lies outside the static side conditions of C01_grounded_refines_semantic
                   (scoping of variables [ground_wf_b] with tau read off the action and QT = inhabited types; type
                   table consistent with the object lists [tytab_ok_b]; object-valued fluents hold objects of their type
                   [state_typed_b]); coverage information, not a failure
   bit 12 (4096) : is_applicable differs from the grounded model's applicability verdict
   bit 13 (8192) : the grounded action evaluated with STRICT quantifiers is applicable although the strict documented
                   step is not: by C01_grounded_strict_refines_semantic (contrapositive; when bits 6, 7, 11 are clear and
                   the effects are well typed) a read of a fluent without value was simplified away *)
From Coq Require Import List ZArith NArith QArith Qcanon Bool.
Import ListNotations.
Require Import UPV.Core.Expr UPV.Core.Eval UPV.Core.Interp UPV.Planning.Problem UPV.Planning.Sem UPV.Planning.Ground
  UPV.Walkers.Simplify UPV.Proofs.Simplify_wf UPV.Proofs.Ground_proofs UPV.Corr.Corr_C01.

(* variable typing read off the action: the first binder / occurrence that mentions the variable *)
Fixpoint var_decls (e : expr) : list (N * N) :=
  let fix go (l : list expr) : list (N * N) := match l with [] => [] | x :: r => var_decls x ++ go r end in
  match e with
  | EBool _ | EInt _ | EReal _ | EObj _ | EParam _ => []
  | EVar v ty => [(v, ty)]
  | EFluent _ l | EIFun _ l | EAnd l | EOr l | EPlus l | ETimes l => go l
  | ENot a | EAlways a | ESometime a | EAtMostOnce a => var_decls a
  | EExists vs a | EForall vs a => vs ++ var_decls a
  | EImplies a b | EIff a b | EMinus a b | EDiv a b | ELe a b | ELt a b | EEquals a b
  | ESometimeBefore a b | ESometimeAfter a b => var_decls a ++ var_decls b
  end.

Definition action_decls (a : action) : list (N * N) :=
  flat_map var_decls (a_pre a) ++
  flat_map (fun e => e_vars e ++ var_decls (e_cond e) ++ var_decls (e_val e) ++ flat_map var_decls (e_args e)) (a_effs a).

Definition tau_of (a : action) : N -> N :=
  fun x => match lookupN x (action_decls a) with Some t => t | None => 0%N end.

Definition codeg (T : tytab) (P : problem) (c : case) : N :=
  let base := code P c in
  match lookup_action P (c_act c) with
  | None => base
  | Some a =>
      let s := st_of (c_state c) in
      let args := c_args c in
      let gm := option_map (obs_of_state P) (sim_apply_grounded true T P s a args) in
      let um := option_map (obs_of_state P) (sim_apply true P s a args) in
      (base +
       (if oobs_eqb gm (c_apply c) then 0 else 32) +
       (if ground_conflict T P a args then 64 else 0) +
       (if vars_dropped T P a args then 128 else 0) +
       (if oobs_eqb gm um then 0 else 256) +
       (if ground_fuel_ok T P a args then 0 else 512) +
       (if ground_raises T P a args then 1024 else 0) +
       (if ground_wf_b (tau_of a) (qt_of P) a && tytab_ok_b T P && state_typed_b P (c_state c) then 0 else 2048) +
       (if Bool.eqb (c_isapp c) (sim_is_applicable_grounded true T P s a args) then 0 else 4096) +
       (match sim_apply_grounded false T P s a args, spec_step false P s a args with
        | Some _, None => 8192 | _, _ => 0 end))%N
  end.
