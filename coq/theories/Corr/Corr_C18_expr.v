(* Correspondence for the expression layer of the PDDL codec (Model/PddlExpr.v):
   one case = the name tables, an expression, what the REAL ConverterToPDDLString printed for it (tokenised into an
   S-expression by the harness), what the REAL UPPDDLReader._parse_exp returned for that text, and a few
   interpretations on which the original and the re-read expression are evaluated with Core/Eval. *)
From Coq Require Import List ZArith NArith QArith Qcanon Bool String Ascii.
Import ListNotations.
Require Import UPV.Core.Expr UPV.Core.Eval UPV.Core.Interp UPV.Model.PddlExpr UPV.Model.PddlLex.
Local Open Scope string_scope.

Record case := {
  c_fl : list (string * N);
  c_obj : list (string * N);
  c_par : list (string * N);          (* names without "?" *)
  c_var : list (string * N);          (* names without "?" *)
  c_ty : list (string * N);
  c_e : option expr;                  (* the expression given to the converter (None: hand-written text, parser only) *)
  c_text : option string;             (* the converter's output, verbatim; None = it raised (or warned: inexact real) *)
  c_lexed : option sexp;              (* what the REAL grammar (domain grammar, precondition slot) returns for the text
                                         after replace("\t"," ").lower(); None = parse error *)
  c_parsed : option expr;             (* _parse_exp of that result; None = it raised *)
  c_interps : list finterp
}.

Fixpoint rassoc (k : N) (l : list (string * N)) : string :=
  match l with [] => "" | (s, n) :: r => if (k =? n)%N then s else rassoc k r end.

Definition naming_of (c : case) : naming :=
  {| nm_fl := fun n => rassoc n (c_fl c); nm_obj := fun n => rassoc n (c_obj c);
     nm_par := fun n => rassoc n (c_par c); nm_var := fun n => rassoc n (c_var c);
     nm_ty := fun n => rassoc n (c_ty c) |}.

Definition env_of (c : case) : env :=
  {| e_fl := fun s => assoc_s s (c_fl c); e_obj := fun s => assoc_s s (c_obj c);
     e_par := fun s => assoc_s s (c_par c); e_var := fun s => assoc_s s (c_var c);
     e_ty := fun s => assoc_s s (c_ty c) |}.

Fixpoint sexp_eqb (a b : sexp) {struct a} : bool :=
  match a, b with
  | Atom x, Atom y => String.eqb x y
  | SList l, SList m =>
      (fix go (l m : list sexp) : bool :=
         match l, m with
         | [], [] => true
         | x :: l', y :: m' => sexp_eqb x y && go l' m'
         | _, _ => false
         end) l m
  | _, _ => false
  end.

Definition osexp_eqb (a b : option sexp) : bool :=
  match a, b with Some x, Some y => sexp_eqb x y | None, None => true | _, _ => false end.
Definition oexpr_eqb (a b : option expr) : bool :=
  match a, b with Some x, Some y => expr_eqb x y | None, None => true | _, _ => false end.

Definition ostring_eqb (a b : option string) : bool :=
  match a, b with Some x, Some y => String.eqb x y | None, None => true | _, _ => false end.

Definition model_lex (c : case) : option sexp :=
  match c_text c with Some t => lex_group (prep t) | None => None end.

(* bit 0 (1): the model's [print_text] differs from the converter's text (character by character)
   bit 1 (2): the model's [parse] of the model's [lex_group (prep text)] differs from the reader's result
   bit 2 (4): the expression is in the fragment but the REAL round trip did not return [norm e]
   bit 3 (8): on one of the interpretations the re-read expression evaluates differently from the original
              (original defined)  -- the round trip changed the meaning
   bit 4 (16): the model's [lex_group (prep text)] differs from what the real grammar returned
   bit 5 (32): internal consistency: [lex (print_text e)] is not [print e] *)
Definition code (c : case) : N :=
  let nm := naming_of c in
  let E := env_of c in
  let b0 := match c_e c with Some e => negb (ostring_eqb (print_text nm e) (c_text c)) | None => false end in
  let b1 := match c_text c with
            | Some _ => negb (oexpr_eqb (match model_lex c with Some s => parse E [] s | None => None end) (c_parsed c))
            | None => false end in
  let b2 := match c_e c with
            | Some e => pddl_ok [] e && negb (oexpr_eqb (Some (norm e)) (c_parsed c))
            | None => false end in
  let b3 := match c_e c, c_parsed c with
            | Some e, Some e' =>
                existsb (fun F => match eval false e (to_interp F) with
                                  | Some v => negb (ovalue_eqb (Some v) (eval false e' (to_interp F)))
                                  | None => false end) (c_interps c)
            | _, _ => false end in
  let b4 := match c_text c with Some _ => negb (osexp_eqb (model_lex c) (c_lexed c)) | None => false end in
  let b5 := match c_e c with
            | Some e => match print_text nm e with
                        | Some t => negb (osexp_eqb (lex (prep t)) (print nm e))
                        | None => match print nm e with Some _ => true | None => false end
                        end
            | None => false end in
  ((if b0 then 1 else 0) + (if b1 then 2 else 0) + (if b2 then 4 else 0) + (if b3 then 8 else 0)
   + (if b4 then 16 else 0) + (if b5 then 32 else 0))%N.

(* what the model says, for the replay files *)
Definition model_print (c : case) : option string :=
  match c_e c with Some e => print_text (naming_of c) e | None => None end.
Definition model_parse (c : case) : option expr :=
  match model_lex c with Some s => parse (env_of c) [] s | None => None end.
