(* Correspondence for C15.
   Expression cases: the harness builds (or tries to build) an expression through the real ExpressionManager and
   records what FNode.type / the constructor did: a type, UPTypeError, ZeroDivisionError, or another exception.
   [ok] compares that with the model's [infer_r] and, independently of the model, checks the IMPLEMENTATION's type
   against the reference semantics: the value of the expression under every interpretation of the pool (corners and
   interior points of the declared domains) must inhabit the observed type.
   Equality cases: TypeChecker.walk_equals called on every ordered pair of operand types; compared with [wf_equals]
   in both orders (so an asymmetric implementation is caught even where the model agrees in one order). *)
From Coq Require Import List ZArith NArith QArith Qcanon Bool.
Import ListNotations.
Require Import UPV.Core.Expr UPV.Core.Eval UPV.Core.Interp UPV.Walkers.TypeInfer.

Inductive obs := ObsTy (t : ty) | ObsTypeErr | ObsZeroDiv | ObsOther.

Record case := { c_expr : expr; c_obs : obs }.

Definition agree (m : ty + err) (o : obs) : bool :=
  match m, o with
  | inl t, ObsTy t' => ty_eqb t t'
  | inr TypeErr, ObsTypeErr => true
  | inr ZeroDiv, ObsZeroDiv => true
  | inr AssertErr, ObsOther => true
  | _, _ => false
  end.

(* the implementation's answer against the reference semantics (both quantifier modes) *)
Definition oracle1 (G : tenv) (e : expr) (t : ty) (F : finterp) : bool :=
  let I := to_interp F in
  match eval false e I with Some v => inhabitsb G v t | None => true end
  && match eval true e I with Some v => inhabitsb G v t | None => true end.

Definition oracle (G : tenv) (pool : list finterp) (c : case) : bool :=
  match c_obs c with
  | ObsTy t => forallb (oracle1 G (c_expr c) t) pool
  | _ => true
  end.

Definition corr (G : tenv) (c : case) : bool := agree (infer_r G (c_expr c)) (c_obs c).

Definition ok (G : tenv) (pool : list finterp) (c : case) : bool := corr G c && oracle G pool c.

(* how many pool interpretations define the expression (coverage figure reported by the harness) *)
Definition defined_count (pool : list finterp) (c : case) : nat :=
  length (filter (fun F => match eval false (c_expr c) (to_interp F) with Some _ => true | None => false end) pool).

(* ---- equality well-formedness on a pair of operand types ---- *)
Record eqcase := { q_t1 : ty; q_t2 : ty; q_obs12 : bool; q_obs21 : bool }.   (* accepted? in both orders *)

Definition ok_eq (G : tenv) (c : eqcase) : bool :=
  Bool.eqb (wf_equals G (q_t1 c) (q_t2 c)) (q_obs12 c)
  && Bool.eqb (wf_equals G (q_t2 c) (q_t1 c)) (q_obs21 c)
  && Bool.eqb (q_obs12 c) (q_obs21 c).

(* is_compatible_type on a pair of types *)
Record compcase := { k_t1 : ty; k_t2 : ty; k_obs : bool }.
Definition ok_comp (G : tenv) (c : compcase) : bool := Bool.eqb (compatible G (k_t1 c) (k_t2 c)) (k_obs c).
