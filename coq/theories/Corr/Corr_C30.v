(* Translation validation for C30: one [kcase] per (conformant problem, set of possible initial states) holds the
   original problem, the possible initial states (as the harness enumerated them, independently of the compiler), the
   problem produced by the real Ks0Compiler, and the plan-back table obtained from its plan_back_conversion.
   [kcode] runs the verified checkers of Model/Belief.v and packs their verdicts into bit flags.
   One [rcase] per run of _reduce_possible_initial_states_to_basis compares the model of the reduction with what the
   implementation kept, and the answers with / without the reduction. *)
From Coq Require Import List ZArith NArith Bool.
Import ListNotations.
Require Import UPV.Core.Expr UPV.Core.Eval UPV.Core.Interp UPV.Planning.Problem UPV.Planning.Sem UPV.Model.Belief.

(* compact constructors for the compiled problems (all their effects are Boolean assignments of constants) *)
Definition ke (f : N) (args : list expr) (v : bool) (cond : expr) : effect :=
  {| e_fl := f; e_args := args; e_val := EBool v; e_cond := cond; e_kind := KAssign; e_vars := []; e_isbool := true |}.
Definition fl (f : N) (os : list N) : expr := EFluent f (map EObj os).
Definition nfl (f : N) (os : list N) : expr := ENot (fl f os).
Definition ko (f : N) (os : list N) (v : bool) (cond : expr) : effect := ke f (map EObj os) v cond.
Definition tt : expr := EBool true.
Definition ka (pre : list expr) (effs : list effect) : action := {| a_params := []; a_pre := pre; a_effs := effs |}.
Definition fb (f : N) (sig : list N) : fdecl := {| fd_id := f; fd_sig := sig; fd_ty := FBool |}.
Definition nr (c : list lit) (t : lit) : nrule := {| r_cond := c; r_tgt := t |}.
Definition na (p : list lit) (r : list nrule) : nact := {| na_pre := p; na_rules := r |}.

(* what was observed about one run of _reduce_possible_initial_states_to_basis, plus the compilation obtained with
   the reduction switched off *)
Record rpart := {
  r_NP : nprob;                  (* prepared normalized problem *)
  r_states : list (list N);      (* de-duplicated normalized possible initial states: atoms that are true *)
  r_basis : list nat;            (* indices kept by _reduce_possible_initial_states_to_basis *)
  r_targets : list lit;          (* prepared_problem.merge_targets *)
  r_all : list fstate;           (* every possible initial state (de-duplicated), original fluents *)
  r_kept : list fstate;          (* the states the implementation kept *)
  r_full : option (problem * fstate * list step_id)
                                 (* compilation with the reduction switched off: problem, initial state, actions;
                                    None when the reduction dropped nothing (the two compilations coincide) *)
}.

Record kcase := {
  k_P : problem;                 (* original conformant problem *)
  k_insts : list step_id;        (* its ground action instances *)
  k_inits : list fstate;         (* possible initial states *)
  k_CP : problem;                (* compiled classical problem *)
  k_c0 : fstate;                 (* its initial state *)
  k_cacts : list step_id;        (* its (ground, parameterless) actions *)
  k_back : back_table;           (* compiled instance -> original instance | None (merge / auxiliary) *)
  k_n : nat;                     (* plan length bound of the belief-space search *)
  k_d : nat;                     (* plan length bound of the soundness check (product exploration), >= k_n *)
  k_m : nat;                     (* number of rounds allowed for closing the compiled state space *)
  k_red : option rpart
}.

Definition b2n (b : bool) (w : N) : N := if b then w else 0%N.

(* verdict of the compiled problem alone: 0 = solvable (witness plan validated by valid_plan), 1 = unsolvable exactly
   (closure), 2 = undecided within the rounds, 3 = outside the model *)
Definition classical_verdict (K : list gfl) (P : problem) (acts : list step_id) (c0 : fstate) (m : nat) : N :=
  match find_plan K P acts c0 m with
  | Some pi => if valid_plan false P (fst_of c0) pi then 0%N else 3%N
  | None => if unsolvable_closed K P acts c0 m then 1%N
            else if existsb is_none (classical_nodes K P acts c0 m) then 3%N else 2%N
  end.

(* bit 0   (1)  soundness violated: some valid compiled plan of length <= d maps back to a non-conformant plan
   bit 1   (2)  completeness violated: a conformant plan of length <= n exists, the compiled problem is unsolvable
   bit 2   (4)  outside the model (a key outside the declared ground fluents)
   bit 3   (8)  completeness undecided (conformant plan exists, compiled state space not closed within m rounds)
   bit 4  (16)  info: the product exploration closed (soundness holds for plans of every length)
   bit 5  (32)  info: a conformant plan of length <= n exists
   bit 6  (64)  info: the compiled problem is solvable
   bit 7 (128)  info: the compiled problem is exactly unsolvable
   bits 8.. : number of product nodes explored *)
Definition kcode (c : kcase) : N :=
  let KO := ground_fluents (k_P c) in
  let KC := ground_fluents (k_CP c) in
  let V := product_nodes KC (k_CP c) KO (k_P c) (k_back c) (k_cacts c) (k_c0 c) (k_inits c) (k_d c) in
  let guards := keys_in KC (k_c0 c) && forallb (keys_in KO) (k_inits c) in
  let err := negb guards || existsb is_none V in
  let sound := guards && forallb (pgood (k_CP c) (k_P c)) V in
  let closed := closedb pnode_eqb (psuccs KC (k_CP c) KO (k_P c) (k_back c) (k_cacts c)) V in
  let conf := exists_conformant_plan KO (k_P c) (k_insts c) (k_inits c) (k_n c) in
  let cv := classical_verdict KC (k_CP c) (k_cacts c) (k_c0 c) (k_m c) in
  let has_conf := match conf with Some true => true | _ => false end in
  (b2n (negb err && negb sound) 1 + b2n (has_conf && (cv =? 1)%N) 2
   + b2n (err || is_none conf || (cv =? 3)%N) 4 + b2n (has_conf && (cv =? 2)%N) 8
   + b2n (sound && closed) 16 + b2n has_conf 32 + b2n (cv =? 0)%N 64 + b2n (cv =? 1)%N 128
   + 256 * N.of_nat (length V))%N.

(* the first three components are exactly the verified checkers *)
Lemma kcode_sound_is_sound_check c :
  let KO := ground_fluents (k_P c) in
  let KC := ground_fluents (k_CP c) in
  (keys_in KC (k_c0 c) && forallb (keys_in KO) (k_inits c)
   && forallb (pgood (k_CP c) (k_P c))
        (product_nodes KC (k_CP c) KO (k_P c) (k_back c) (k_cacts c) (k_c0 c) (k_inits c) (k_d c)))
  = sound_check KC (k_CP c) KO (k_P c) (k_back c) (k_cacts c) (k_c0 c) (k_inits c) (k_d c).
Proof. reflexivity. Qed.

(* ---- witnesses, printed as positions in the instance lists (re-validated by the harness on the real engines) *)
Fixpoint index_of (st : step_id) (l : list step_id) (i : N) : N :=
  match l with
  | [] => 999999%N
  | x :: l' => if gfl_eqb st x then i else index_of st l' (N.succ i)
  end.
Definition plan_ids (l : list step_id) (pi : plan) : list N := map (fun st => index_of st l 0%N) pi.

Definition witness_unsound (c : kcase) : option (list N) :=
  option_map (plan_ids (k_cacts c))
    (find_unsound (ground_fluents (k_CP c)) (k_CP c) (ground_fluents (k_P c)) (k_P c) (k_back c) (k_cacts c)
       (k_c0 c) (k_inits c) (k_d c)).

Definition witness_conformant (c : kcase) : option (list N) :=
  match find_conformant (ground_fluents (k_P c)) (k_P c) (k_insts c) (k_inits c) (k_n c) with
  | Some pi => if conformant_check (k_P c) (map fst_of (k_inits c)) pi then Some (plan_ids (k_insts c) pi) else None
  | None => None
  end.

Definition witness_compiled_plan (c : kcase) : option (list N) :=
  option_map (plan_ids (k_cacts c)) (find_plan (ground_fluents (k_CP c)) (k_CP c) (k_cacts c) (k_c0 c) (k_m c)).

(* ------------------------------------------------------------------ the dominated-state reduction *)
Fixpoint nats_eqb (a b : list nat) : bool :=
  match a, b with
  | [], [] => true
  | x :: a', y :: b' => Nat.eqb x y && nats_eqb a' b'
  | _, _ => false
  end.

Fixpoint lits_eqb (a b : list lit) : bool :=
  match a, b with
  | [], [] => true
  | x :: a', y :: b' => lit_eqb x y && lits_eqb a' b'
  | _, _ => false
  end.

Definition obool_eqb (a b : option bool) : bool :=
  match a, b with
  | Some x, Some y => Bool.eqb x y
  | None, None => true
  | _, _ => false
  end.

Definition rel_fuel (NP : nprob) : nat := S (4 * length (np_atoms NP) * length (np_atoms NP)).

Definition model_basis (r : rpart) : option (list nat) :=
  match relevance (r_NP r) (rel_fuel (r_NP r)) with
  | Some R => if nwf (r_NP r) then Some (basis_indices (r_NP r) R (map ns_of (r_states r))) else None
  | None => None
  end.

(* bit 0 (1)  the model of the reduction keeps other states than the implementation (or runs out of fuel / not wf)
   bit 1 (2)  the model's merge targets differ from the implementation's
   bit 2 (4)  belief-space answers differ: conformant plan (<= n) for all states vs. for the kept states only
   bit 3 (8)  classical answers differ: compilation without the reduction vs. with it (both decided exactly)
   bit 4 (16) outside the model / undecided
   bit 5 (32) info: the reduction dropped at least one state
   0 when the case has no reduction part *)
Definition rcode (c : kcase) : N :=
  match k_red c with
  | None => 0%N
  | Some r =>
      let NP := r_NP r in
      let KO := ground_fluents (k_P c) in
      let a_all := exists_conformant_plan KO (k_P c) (k_insts c) (r_all r) (k_n c) in
      let a_kept := exists_conformant_plan KO (k_P c) (k_insts c) (r_kept r) (k_n c) in
      let v_red := classical_verdict (ground_fluents (k_CP c)) (k_CP c) (k_cacts c) (k_c0 c) (k_m c) in
      let v_full := match r_full r with
                    | Some (CPf, c0f, cactsf) => classical_verdict (ground_fluents CPf) CPf cactsf c0f (k_m c)
                    | None => v_red
                    end in
      let decided v := ((v =? 0) || (v =? 1))%N in
      (b2n (match model_basis r with Some l => negb (nats_eqb l (r_basis r)) | None => true end) 1
       + b2n (negb (lits_eqb (merge_targets NP) (r_targets r))) 2
       + b2n (negb (is_none a_all) && negb (is_none a_kept) && negb (obool_eqb a_all a_kept)) 4
       + b2n (decided v_full && decided v_red && negb (v_full =? v_red)%N) 8
       + b2n (is_none a_all || is_none a_kept || negb (decided v_full) || negb (decided v_red)) 16
       + b2n (Nat.ltb (length (r_basis r)) (length (r_states r))) 32)%N
  end.

(* both codes in one number: kcode + 2^40 * rcode *)
Definition code (c : kcase) : N := (kcode c + 1099511627776 * rcode c)%N.
