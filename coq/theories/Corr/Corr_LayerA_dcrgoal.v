(* Structural correspondence for the Layer A model of DisjunctiveConditionsRemover with a DISJUNCTIVE GOAL
   (Compilers/LayerA_DcrGoal.v, proved in Proofs/LayerA_DcrGoal_proofs.v): [dcrg_compile] applied to the serialised
   original problem is compared with the serialised problem the REAL compiler produced (one name table for both).
   External behaviour is read off the real run: the disjunct tables of the Dnf walker (effect conditions, action
   preconditions, goals: harness/layera_dcrgoal.py), the fresh names (the k-th real variant of an original action, the
   k-th real goal action) and the fake fluent.  With the real names plugged in, the comparison is NAME BY NAME AND IN
   ORDER: the compiled action list must be the model's (variants of the actions in order, then the goal actions in
   the order of the goals' disjuncts), effects in order (the appended fk := false included), preconditions as sets. *)
From Coq Require Import List ZArith NArith QArith Qcanon Bool.
Import ListNotations.
Require Import UPV.Core.Expr UPV.Core.Eval UPV.Core.Interp UPV.Planning.Problem UPV.Planning.Sem.
Require Import UPV.Compilers.Variants UPV.Compilers.LayerA_Defs UPV.Compilers.LayerA_Quant UPV.Compilers.LayerA_Variants.
Require Import UPV.Compilers.LayerA_Pipe UPV.Compilers.LayerA_DcrGoal UPV.Corr.Corr_LayerA.

Record dg_case := {
  dg_orig : problem;
  dg_comp : problem;                          (* what the real compiler produced *)
  dg_back : list (N * option N);              (* EVERY compiled action: Some original action / None (real new_to_old) *)
  dg_cdnf : list (expr * list expr);          (* effect condition -> its disjuncts (real Dnf walker + simplify) *)
  dg_pdnf : list (N * list (list expr));      (* original action id -> disjuncts of its preconditions *)
  dg_gds : list (list expr);                  (* disjuncts of the goals: the goal actions' preconditions *)
  dg_fk : N;                                  (* the fluent of the compiled problem that the original does not have *)
  dg_fk_default : option bool                 (* its default initial value in the real compiled problem *)
}.

Definition dg_cdnf_fun (c : dg_case) (e : expr) : list expr :=
  match find (fun kv => expr_eqb (fst kv) e) (dg_cdnf c) with Some kv => snd kv | None => [e] end.

(* pre_dnf is a function of the action in the model; the table is keyed by the action's name *)
Definition dg_pdnf_fun (c : dg_case) (a : action) : list (list expr) :=
  match find (fun ia => act_eqb (snd ia) a) (p_actions (dg_orig c)) with
  | Some ia => match lookupN (fst ia) (dg_pdnf c) with Some l => l | None => [] end
  | None => []
  end.

(* get_fresh_name as observed: the k-th compiled action that maps back to i / to nothing *)
Definition dg_names_of (c : dg_case) (o : option N) : list N :=
  flat_map (fun ia => match lookupN (fst ia) (dg_back c) with
                      | Some b => match b, o with
                                  | Some j, Some i => if (j =? i)%N then [fst ia] else []
                                  | None, None => [fst ia]
                                  | _, _ => []
                                  end
                      | None => []
                      end) (p_actions (dg_comp c)).
Definition dg_nm (c : dg_case) (i : N) (k : nat) : N := nth k (dg_names_of c (Some i)) 0%N.
Definition dg_gnm (c : dg_case) (k : nat) : N := nth k (dg_names_of c None) 0%N.

Definition dg_model (c : dg_case) : problem :=
  dcrg_compile (dg_cdnf_fun c) (dg_pdnf_fun c) (dg_nm c) (dg_fk c) (dg_gnm c) (dg_gds c) (dg_orig c).

Fixpoint fds_eqb (a b : list fdecl) : bool :=
  match a, b with
  | [], [] => true
  | x :: a', y :: b' => fd_eqb x y && fds_eqb a' b'
  | _, _ => false
  end.

Fixpoint acts_ordered (m r : list (N * action)) : bool :=
  match m, r with
  | [], [] => true
  | (i, a) :: m', (j, b) :: r' => (i =? j)%N && act_eqb a b && acts_ordered m' r'
  | _, _ => false
  end.

Definition dg_variants_real (c : dg_case) (i : N) : list action :=
  flat_map (fun ia => match lookupN (fst ia) (dg_back c) with
                      | Some (Some j) => if (j =? i)%N then [snd ia] else []
                      | _ => []
                      end) (p_actions (dg_comp c)).
Definition dg_goal_actions_real (c : dg_case) : list action :=
  flat_map (fun ia => match lookupN (fst ia) (dg_back c) with Some None => [snd ia] | _ => [] end) (p_actions (dg_comp c)).

Fixpoint acts_list_eqb (m r : list action) : bool :=
  match m, r with
  | [], [] => true
  | a :: m', b :: r' => act_eqb a b && acts_list_eqb m' r'
  | _, _ => false
  end.

Definition ostep_eqb (a b : option pstep) : bool :=
  match a, b with
  | Some (i, _), Some (j, _) => (i =? j)%N
  | None, None => true
  | _, _ => false
  end.

(* code: 0 = agree.  bits: 1 the variants of some original action (as a set, each with the appended fk := false),
   2 goal, 4 state invariants, 8 fluents (ordered: the fake fluent is appended), 16 map back (model's dcrg_back against
   the real new_to_old, goal actions -> None), 32 the goal actions (in the order of the disjuncts),
   64 the whole action list name by name and in order, 128 the fake fluent's default is not False *)
Definition dg_code (c : dg_case) : N :=
  let M := dg_model c in
  let R := dg_comp c in
  let cd := dg_cdnf_fun c in
  let b_var := forallb (fun ia =>
                  acts_as_set (map (add_reset (dg_fk c)) (dnf_variants cd (snd ia) (dg_pdnf_fun c (snd ia))))
                              (dg_variants_real c (fst ia))) (p_actions (dg_orig c)) in
  let b_goal := list_expr_eqb (p_goals M) (p_goals R) in
  let b_inv := seteq_e (p_invs M) (p_invs R) in
  let b_fl := fds_eqb (p_fluents M) (p_fluents R) in
  let b_back := forallb (fun ia =>
                   ostep_eqb (dcrg_back cd (dg_pdnf_fun c) (dg_nm c) (dg_fk c) (dg_gnm c) (dg_gds c) (dg_orig c) (fst ia, []))
                             (match lookupN (fst ia) (dg_back c) with
                              | Some (Some j) => Some (j, [])
                              | _ => None
                              end)) (p_actions R) in
  let b_gact := acts_list_eqb (map snd (goal_actions (dg_fk c) (dg_gnm c) (dg_gds c))) (dg_goal_actions_real c) in
  let b_all := acts_ordered (p_actions M) (p_actions R) in
  let b_def := match dg_fk_default c with Some false => true | _ => false end in
  ((if b_var then 0 else 1) + (if b_goal then 0 else 2) + (if b_inv then 0 else 4) + (if b_fl then 0 else 8) +
   (if b_back then 0 else 16) + (if b_gact then 0 else 32) + (if b_all then 0 else 64) + (if b_def then 0 else 128))%N.

(* the decidable hypotheses of C06_LA_dcrgoal_sound / C07_LA_dcrgoal_complete on the real instance (coverage):
   bit 1 unique action names of the original, bit 2 of the compiled problem (the model's, with the real names),
   bit 4 dcrg_fresh *)
Definition dg_hyps (c : dg_case) : N :=
  ((if nodupN (map fst (p_actions (dg_orig c))) then 1 else 0) +
   (if nodupN (map fst (p_actions (dg_model c))) then 2 else 0) +
   (if dcrg_fresh (dg_cdnf_fun c) (dg_pdnf_fun c) (dg_nm c) (dg_fk c) (dg_gds c) (dg_orig c) then 4 else 0))%N.

Definition dg_report (c : dg_case) : list N := [dg_code c; dg_hyps c; N.of_nat (length (dg_gds c))].
