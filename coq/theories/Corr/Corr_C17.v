(* Correspondence for C17.
   The harness calls LinearChecker(problem).get_fluents(e) on arithmetic expressions over bounded fluents and
   parameters and records the answer, together with the simplified expression the walker was run on.
   [corr] compares the answer with the model's [lin] on the simplified expression (sets compared as sets).
   [oracle] checks the IMPLEMENTATION's answer against the reference semantics on the ORIGINAL expression by exhaustive
   evaluation over the (small, finite / sampled) domains of the symbols that occur: a ground fluent reported only
   among the positive (negative) fluents of an expression reported linear must make the value non-decreasing
   (non-increasing), for every assignment of the other symbols, wherever the expression is defined. *)
From Coq Require Import List ZArith NArith QArith Qcanon Bool.
Import ListNotations.
Require Import UPV.Core.Expr UPV.Core.Eval UPV.Core.Interp UPV.Walkers.TypeInfer UPV.Walkers.Linear.

Inductive slot := SFl (f : N) (args : list value) | SPar (p : N).   (* a ground fluent f(v1..vn) or a parameter *)

Record case := {
  c_orig : expr;                                   (* the expression passed to get_fluents, with every REPORTED lifted fluent
                                                      expression (a fluent applied to non-constant arguments, e.g. rate(pos))
                                                      replaced by a fresh 0-ary fluent: the analysis treats a reported fluent
                                                      expression as an independent quantity; an UNREPORTED one stays and is
                                                      evaluated through the ground fluents it really reads *)
  c_simp : expr;                                   (* Simplifier.simplify of it: the walker's input *)
  c_obs : option (bool * list expr * list expr);   (* None = an exception was raised *)
  c_oobs : option (bool * list expr * list expr);  (* the same answer with the same replacement (the oracle's view) *)
  c_doms : list (slot * list value)                (* occurring ground fluents / parameters, values in ascending order *)
}.

Definition corr (G : tenv) (c : case) : bool :=
  match lin G (c_simp c), c_obs c with
  | Some (b, p, n), Some (b', p', n') => Bool.eqb b b' && set_eqb p p' && set_eqb n n'
  | None, None => true
  | _, _ => false
  end.

Fixpoint assigns (d : list (slot * list value)) : list (list (slot * value)) :=
  match d with
  | [] => [[]]
  | (s, vs) :: d' => flat_map (fun v => map (cons (s, v)) (assigns d')) vs
  end.

Definition to_fi (a : list (slot * value)) : finterp :=
  {| f_fl := flat_map (fun sv => match fst sv with SFl f args => [(f, args, snd sv)] | SPar _ => [] end) a;
     f_par := flat_map (fun sv => match fst sv with SPar p => [(p, snd sv)] | SFl _ _ => [] end) a;
     f_var := []; f_ifun := []; f_objs := [] |}.

Definition num_of (o : option value) : option Qc := match o with Some (VNum q) => Some q | _ => None end.

(* every pair i < j of defined values is ordered *)
Fixpoint ordered (up : bool) (l : list (option Qc)) : bool :=
  match l with
  | [] => true
  | x :: r =>
      forallb (fun y => match x, y with
                        | Some a, Some b => if up then qc_leb a b else qc_leb b a
                        | _, _ => true
                        end) r
      && ordered up r
  end.

Definition check_slot (e : expr) (up : bool) (others : list (slot * list value)) (s : slot) (vs : list value) : bool :=
  forallb (fun rest => ordered up (map (fun v => num_of (eval false e (to_interp (to_fi ((s, v) :: rest))))) vs))
          (assigns others).

Fixpoint splits {A} (pre : list A) (l : list A) : list (A * list A) :=
  match l with
  | [] => []
  | x :: r => (x, pre ++ r) :: splits (pre ++ [x]) r
  end.

Definition value_expr (v : value) : expr :=
  match v with VObj o => EObj o | VNum q => num_node q | VBool b => EBool b end.
Definition slot_expr (s : slot) : option expr :=
  match s with SFl f args => Some (EFluent f (map value_expr args)) | SPar _ => None end.

Definition oracle (c : case) : bool :=
  match c_oobs c with
  | Some (true, pos, neg) =>
      forallb (fun xo =>
                 match slot_expr (fst (fst xo)) with
                 | None => true
                 | Some k =>
                     let inp := mem_e k pos in
                     let inn := mem_e k neg in
                     if inp && negb inn then check_slot (c_orig c) true (snd xo) (fst (fst xo)) (snd (fst xo))
                     else if inn && negb inp then check_slot (c_orig c) false (snd xo) (fst (fst xo)) (snd (fst xo))
                     else true
                 end)
              (splits [] (c_doms c))
  | _ => true
  end.

(* the two "never linear" clauses, checked on the implementation's answer: the walker's input contains a product with
   two fluent-dependent factors or a quotient with a fluent-dependent divisor (at any depth of the arithmetic) *)
Fixpoint bad (e : expr) : bool :=
  let fix bl (l : list expr) : bool := match l with [] => false | x :: r => bad x || bl r end in
  match e with
  | ETimes l => Nat.leb 2 (length (filter has_fluent l)) || bl l
  | EDiv a d => has_fluent d || bad a || bad d
  | EPlus l => bl l
  | EMinus a b => bad a || bad b
  | _ => false
  end.

Definition nonlinear_clauses (c : case) : bool :=
  match c_obs c with
  | Some (b, _, _) => if bad (c_simp c) then negb b else true
  | None => true
  end.

Definition ok (G : tenv) (c : case) : bool := corr G c && oracle c && nonlinear_clauses c.
