(* Correspondence / validation for C37.  One [case] per (compiler, agent, original action): the agent's flattened view
   as a [problem], the original action, the compiled actions the real compiler's map_back sends to it, and the
   finite value domain of every ground fluent.  Coq enumerates ALL states and ALL ground parameter tuples and evaluates
   with the documented step [spec_step false]:
     - the property itself on the implementation's output (bits 1, 2, 4, 8, 64, 128), and
     - the agreement of the implementation's output with the model of Compilers/Variants.v (bit 16) and the
       hypotheses the theorems take about the supplied DNF lists (bit 32).
   One [gcase] per (compiler, problem) for the goals. *)
From Coq Require Import List ZArith NArith QArith Qcanon Bool.
Import ListNotations.
Require Import UPV.Core.Expr UPV.Core.Eval UPV.Core.Interp UPV.Planning.Problem UPV.Planning.Sem.
Require Import UPV.Corr.Corr_C01 UPV.Compilers.Variants.

Definition assoc := list (N * list value * value).

(* all total assignments over the given domains, first fluent outermost *)
Fixpoint enum_states (doms : list (N * list value * list value)) : list assoc :=
  match doms with
  | [] => [[]]
  | (f, a, vs) :: doms' => flat_map (fun v => map (fun r => (f, a, v) :: r) (enum_states doms')) vs
  end.

Definition obs (keys : list (N * list value)) (s : state) : list (option value) :=
  map (fun k => s (fst k) (snd k)) keys.

Definition ekind_eqb (a b : ekind) : bool :=
  match a, b with KAssign, KAssign | KInc, KInc | KDec, KDec => true | _, _ => false end.

Definition effect_eqb (x y : effect) : bool :=
  (e_fl x =? e_fl y)%N && list_expr_eqb (e_args x) (e_args y) && expr_eqb (e_val x) (e_val y) &&
  expr_eqb (e_cond x) (e_cond y) && ekind_eqb (e_kind x) (e_kind y) && vars_eqb (e_vars x) (e_vars y) &&
  Bool.eqb (e_isbool x) (e_isbool y).

Fixpoint list_eqb {A} (eqb : A -> A -> bool) (a b : list A) : bool :=
  match a, b with
  | [], [] => true
  | x :: a', y :: b' => eqb x y && list_eqb eqb a' b'
  | _, _ => false
  end.

Definition params_eqb (a b : list N) : bool := list_eqb N.eqb a b.

Definition action_eqb (x y : action) : bool :=
  params_eqb (a_params x) (a_params y) && list_expr_eqb (a_pre x) (a_pre y) && list_eqb effect_eqb (a_effs x) (a_effs y).

Record case := {
  c_kind : N;                                   (* 0 = conditional-effects remover, 1 = disjunctive-conditions remover *)
  c_orig : action;
  c_comp : list action;                         (* compiled actions mapping back to c_orig, in the agent's order *)
  c_argss : list (list value);                  (* every ground parameter tuple *)
  c_doms : list (N * list value * list value);  (* every ground fluent of the compiled view with its value domain *)
  c_keys : list (N * list value);               (* the ORIGINAL ground fluents: successors are compared on these *)
  c_fakes : list N;                             (* fake-goal fluents (dcrm): false after every compiled variant *)
  c_pre_dnf : list (list expr);                 (* dcrm: simplified disjuncts of the precondition (real Dnf walker) *)
  c_cdnf : list (expr * list expr)              (* dcrm: effect condition -> simplified disjuncts (real Dnf walker) *)
}.

Fixpoint cdnf_of (t : list (expr * list expr)) (c : expr) : list expr :=
  match t with
  | [] => [c]
  | (k, ds) :: t' => if expr_eqb k c then ds else cdnf_of t' c
  end.

Definition step (P : problem) (s : state) (a : action) (args : list value) : option state :=
  spec_step false P s a args.

Definition count_some {A} (l : list (option A)) : nat := length (filter is_some l).

(* ---- the property on one (state, ground action) *)
Definition pair_code (P : problem) (c : case) (st : assoc) (args : list value) : N :=
  let s := st_of st in
  let so := step P s (c_orig c) args in
  let vs := map (fun v => step P s v args) (c_comp c) in
  let napp := count_some vs in
  let oobs := option_map (obs (c_keys c)) so in
  let same := forallb (fun v => match v with
                                | Some t => oobs_eqb (Some (obs (c_keys c) t)) oobs
                                | None => true end) vs in
  let noop := match so with Some t => olist_eqb (obs (c_keys c) t) (obs (c_keys c) s) | None => false end in
  let resets := forallb (fun v => match v with
                                  | Some t => forallb (fun fk => ovalue_eqb (t fk []) (Some (VBool false))) (c_fakes c)
                                  | None => true end) vs in
  ((* 1: original applicable, no variant applicable, and the original step is not a no-op *)
   (if is_some so && Nat.eqb napp 0 && negb noop then 1 else 0) +
   (* 128: a variant is applicable where the original is not *)
   (if negb (is_some so) && negb (Nat.eqb napp 0) then 128 else 0) +
   (* 2: an applicable variant does not yield the original successor *)
   (if is_some so && negb same then 2 else 0) +
   (* 4: conditional-effects remover: more than one variant applicable *)
   (if (c_kind c =? 0)%N && Nat.ltb 1 napp then 4 else 0) +
   (* 8: original applicable, no variant applicable, the original step changes nothing (dropped no-effect variant) *)
   (if is_some so && Nat.eqb napp 0 && noop then 8 else 0) +
   (* 64: a compiled variant leaves a fake goal fluent true *)
   (if resets then 0 else 64))%N.

(* ---- model = implementation *)
Definition pre_equiv (P : problem) (c : case) (x y : action) : bool :=
  forallb (fun st => forallb (fun args =>
      let I := mk_interp P (st_of st) (zip_params (a_params x) args) in
      Bool.eqb (all_hold false I (a_pre x)) (all_hold false I (a_pre y))) (c_argss c)) (enum_states (c_doms c)).

Definition pre_sat (P : problem) (c : case) (x : action) : bool :=
  existsb (fun st => existsb (fun args =>
      all_hold false (mk_interp P (st_of st) (zip_params (a_params x) args)) (a_pre x)) (c_argss c)) (enum_states (c_doms c)).

(* conditional-effects remover: the implementation simplifies the preconditions (and drops a variant whose
   preconditions simplify to false), so preconditions are compared semantically over all states, effects and
   parameters syntactically; order is ignored (it only decides the fresh names) *)
Definition ce_match (P : problem) (c : case) (v x : action) : bool :=
  params_eqb (a_params v) (a_params x) && list_eqb effect_eqb (a_effs v) (a_effs x) && pre_equiv P c v x.

Definition ce_model_ok (P : problem) (c : case) : bool :=
  let a := c_orig c in
  if is_nil (cond_effs (a_effs a)) then
    (* unconditional action: cloned *)
    match c_comp c with [x] => action_eqb x a | _ => false end
  else
    let kept := ce_kept_variants a in
    forallb (fun x => existsb (fun v => ce_match P c v x) kept) (c_comp c) &&
    forallb (fun v => negb (pre_sat P c v) || existsb (fun x => ce_match P c v x) (c_comp c)) kept &&
    Nat.leb (length (c_comp c)) (length kept).

(* disjunctive-conditions remover: nothing is simplified after the split, so the compiled actions must be the
   model's variants (with the supplied disjunct lists) followed by the reset effects, syntactically and in order *)
Definition add_resets (fakes : list N) (v : action) : action :=
  {| a_params := a_params v; a_pre := a_pre v; a_effs := a_effs v ++ map reset_effect fakes |}.

Definition dnf_model_ok (c : case) : bool :=
  list_eqb action_eqb (c_comp c)
    (map (add_resets (c_fakes c)) (dnf_variants (cdnf_of (c_cdnf c)) (c_orig c) (c_pre_dnf c))).

(* ---- the hypotheses the theorems take about the supplied DNF lists, validated on every state *)
Definition dnf_hyps_ok (P : problem) (c : case) : bool :=
  let a := c_orig c in
  forallb (fun st => forallb (fun args =>
      let I := mk_interp P (st_of st) (zip_params (a_params a) args) in
      Bool.eqb (existsb (all_hold false I) (c_pre_dnf c)) (all_hold false I (a_pre a)) &&
      forallb (fun e =>
          is_uncond e ||
          forallb (fun J =>
              let ds := cdnf_of (c_cdnf c) (e_cond e) in
              match eval false (e_cond e) J with Some (VBool _) => true | _ => false end &&
              forallb (fun d => match eval false d J with Some (VBool _) => true | _ => false end) ds &&
              Bool.eqb (holds false J (e_cond e)) (existsb (holds false J) ds))
            (instances I (e_vars e))) (a_effs a)) (c_argss c)) (enum_states (c_doms c)).

Definition lorN (l : list N) : N := fold_left N.lor l 0%N.

Definition code (P : problem) (c : case) : N :=
  let pairs := lorN (flat_map (fun st => map (pair_code P c st) (c_argss c)) (enum_states (c_doms c))) in
  (pairs +
   (if (c_kind c =? 0)%N then (if ce_model_ok P c then 0 else 16) else (if dnf_model_ok c then 0 else 16)) +
   (if (c_kind c =? 0)%N then 0 else (if dnf_hyps_ok P c then 0 else 32)))%N.

(* first (state, args) on which one of the bits of [mask] is set: used to build the replay payload *)
Definition witness (P : problem) (c : case) (mask : N) : option (assoc * list value) :=
  find (fun sa => negb (N.land (pair_code P c (fst sa) (snd sa)) mask =? 0)%N)
       (flat_map (fun st => map (fun args => (st, args)) (c_argss c)) (enum_states (c_doms c))).

(* statistics for the coverage record: (applicable pairs, pairs) *)
Definition napplicable (P : problem) (c : case) : N :=
  N.of_nat (length (filter (fun x => x)
    (flat_map (fun st => map (fun args => is_some (step P (st_of st) (c_orig c) args)) (c_argss c)) (enum_states (c_doms c))))).

(* ------------------------------------------------------------------ goals *)
Record gcase := {
  g_doms : list (N * list value * list value);   (* original ground fluents with domains *)
  g_goals : list expr;                           (* original goals (flattened, problem-level context) *)
  g_cgoals : list expr;                          (* compiled goals *)
  g_fakes : list N;                              (* fake goal fluents of the compiled problem *)
  g_achievers : list (N * action)                (* (fake fluent, achiever action) over all agents, in the owner's view *)
}.

Definition is_fake_goal (fakes : list N) (g : expr) : option N :=
  match g with
  | EFluent f [] => if existsb (N.eqb f) fakes then Some f else None
  | _ => None
  end.

(* bit 1: original goals hold differently from "every compiled goal holds / has an achiever whose precondition holds"
   bit 2: an achiever is not of the shape `pre => fake := true`, or a compiled goal mentions a fake fluent inside a
          larger expression
   bit 4: an achiever applicable in s does not lead to s[fake := true] *)
Definition gcode (P : problem) (c : gcase) : N :=
  let shape :=
    forallb (fun fa => list_eqb effect_eqb (a_effs (snd fa)) [fake_effect (fst fa)] && is_nil (a_params (snd fa)))
            (g_achievers c) in
  let per_state := map (fun st =>
      let s := st_of st in
      let I := mk_interp P s [] in
      let orig := all_hold false I (g_goals c) in
      let comp := forallb (fun g =>
                     match is_fake_goal (g_fakes c) g with
                     | Some fk => existsb (fun fa => (fst fa =? fk)%N && all_hold false I (a_pre (snd fa))) (g_achievers c)
                     | None => holds false I g
                     end) (g_cgoals c) in
      let ach := forallb (fun fa =>
                     match spec_step false P s (snd fa) [] with
                     | Some t => ovalue_eqb (t (fst fa) []) (Some (VBool true)) &&
                                 olist_eqb (obs (map (fun d => (fst (fst d), snd (fst d))) (g_doms c)) t)
                                           (obs (map (fun d => (fst (fst d), snd (fst d))) (g_doms c)) s)
                     | None => negb (all_hold false I (a_pre (snd fa)))
                     end) (g_achievers c) in
      ((if Bool.eqb orig comp then 0 else 1) + (if ach then 0 else 4))%N) (enum_states (g_doms c)) in
  (lorN per_state + (if shape then 0 else 2))%N.
