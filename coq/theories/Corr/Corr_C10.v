(* Correspondence and direct oracle for C10.

   A case is one problem built through the real API: its description (harness/props/c10.py: Ser), the IMPLEMENTATION's
   kind (`problem.kind.features`, as Gen_Kind feature numbers) and
     - [c_full = true]  (class `Problem`): the description is complete, so the model must reproduce the kind exactly and
       the whole [spec_features] must be inside the implementation's kind;
     - [c_full = false] (hierarchical / multi-agent / contingent / scheduling): the description is what the public API
       lets the harness read (actions / activities / methods as actions, fluents, objects, goals, metrics); only the
       clauses whose feature is in [c_mask] are required, plus the class-specific features [c_extra] extracted on the
       Python side (validated, not proved).
   [code] returns bit flags:  1 = model kind <> implementation kind (model drift / defect, full cases only),
                              2 = the property fails on the implementation: a required feature is not in its kind,
                              4 = the description is not well-formed (harness bug: the theorem's hypothesis fails),
                              8 = spec_features not inside kind_model (would contradict the theorem). *)
From Coq Require Import List ZArith NArith Bool.
Import ListNotations.
Require Import UPV.Core.Expr UPV.Model.Kind UPV.Gen.Gen_Kind UPV.Model.KindOf.

Record case := {
  c_desc : problem_desc;
  c_kind : list feature;
  c_full : bool;
  c_mask : list feature;
  c_extra : list feature
}.

Definition fmask (l : list feature) : N := mask_of l.

Definition required (c : case) : list feature :=
  if c_full c then spec_features (c_desc c)
  else filter (fun f => memN f (c_mask c)) (spec_features (c_desc c)) ++ c_extra c.

Definition missing (c : case) : list feature := filter (fun f => negb (memN f (c_kind c))) (required c).

Definition model_diff (c : case) : list feature * list feature :=     (* (model \ impl, impl \ model) *)
  let m := kind_model (c_desc c) in
  (nodup N.eq_dec (filter (fun f => negb (memN f (c_kind c))) m), filter (fun f => negb (memN f m)) (c_kind c)).

Definition code (c : case) : N :=
  ((if c_full c && negb (fmask (kind_model (c_desc c)) =? fmask (c_kind c))%N then 1 else 0)
   + (match missing c with [] => 0 | _ => 2 end)
   + (if c_full c && negb (wfb (c_desc c)) then 4 else 0)
   + (if c_full c && negb (forallb (fun f => memN f (kind_model (c_desc c))) (spec_features (c_desc c))) then 8 else 0))%N.

Definition ok (c : case) : bool := (code c =? 0)%N.
