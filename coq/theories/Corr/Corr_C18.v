(* Case record for the validated io properties C18 (PDDL round trip), C19 (ANML round trip), C21 (two PDDL readers).
   A case holds the two problems the implementation produced (original / re-read, or reader 1 / reader 2), serialised
   with a shared numbering of objects, fluents, user types and actions, their metrics, initial states, temporal
   structure, and plans written by the writer together with what the reader parsed back.  [code] runs the verified
   checker of Compilers/BisimCheck.v on them. *)
From Coq Require Import List ZArith NArith QArith Qcanon Bool.
Import ListNotations.
Require Import UPV.Core.Expr UPV.Core.Eval UPV.Core.Interp UPV.Planning.Problem UPV.Planning.Sem UPV.Planning.SeqValidate.
Require Import UPV.Compilers.BisimCheck.

Record plan_case := {
  pc_orig : list inst;          (* the plan that was written (numbering of the first problem) *)
  pc_back : list inst;          (* the plan the reader parsed back, mapped through the renaming *)
  pc_valid : bool               (* validity expected for it (the plan was found by forward search: true) *)
}.

Record case := {
  c_P : problem; c_Q : problem;
  c_MP : qmetric; c_MQ : qmetric;
  c_sigsP : list (N * list N); c_sigsQ : list (N * list N);
  c_initP : fstate; c_initQ : fstate;
  c_depth : nat; c_cap : nat;
  c_TP : tstruct; c_TQ : tstruct;
  c_plans : list plan_case
}.

Definition explore_of (c : case) : list node * nat := bisim_explore (c_P c) (c_sigsP c) (c_initP c) (c_depth c) (c_cap c).

Definition check_with (vb : list node * nat) (c : case) : bres :=
  bisim_check_with vb (c_P c) (c_Q c) (c_MP c) (c_MQ c) (c_sigsP c) (c_sigsQ c) (c_initP c) (c_initQ c).

(* = bisim_check on the case's problems (by definition of bisim_check) *)
Definition run_check (c : case) : bres := check_with (explore_of c) c.

Lemma run_check_is_bisim_check c :
  run_check c = bisim_check (c_P c) (c_Q c) (c_MP c) (c_MQ c) (c_sigsP c) (c_sigsQ c) (c_initP c) (c_initQ c) (c_depth c) (c_cap c).
Proof. reflexivity. Qed.

(* a written plan parses back to the same action instances and has the expected validity in BOTH problems *)
Definition plan_ok (c : case) (pc : plan_case) : bool :=
  plan_eqb (pc_orig pc) (pc_back pc) &&
  Bool.eqb (valid_plan false (c_P c) (st_of (c_initP c)) (pc_orig pc)) (pc_valid pc) &&
  Bool.eqb (valid_plan false (c_Q c) (st_of (c_initQ c)) (pc_back pc)) (pc_valid pc).

Definition acts_of (c : case) : list N := map fst (c_sigsP c) ++ map fst (c_sigsQ c).

(* code = bres_code (0 closed, 1 bounded, 100 + why)
          + 1000 when the temporal structures differ
          + 2000 when a plan round trip fails
          + 4000 when the metrics are not structurally equal (information only: the behavioural comparison of the
            metric values is part of bisim_check)
          + 10000 * (100 * number of explored states + bound)      (evidence only) *)
Definition code (c : case) : N :=
  let vb := explore_of c in
  (bres_code (check_with vb c)
   + (if temporal_structure_eqb (c_TP c) (c_TQ c) then 0 else 1000)
   + (if forallb (plan_ok c) (c_plans c) then 0 else 2000)
   + (if metric_eqb (acts_of c) (c_MP c) (c_MQ c) then 0 else 4000)
   + 10000 * (N.of_nat (length (fst vb)) * 100 + N.of_nat (snd vb)))%N.
