(* Structural correspondence for the Layer A model of TrajectoryConstraintsRemover (Compilers/LayerA_Tcr.v).
   The harness (harness/layera_tcr.py) grounds the problem with the real Grounder, removes the quantifiers of the
   trajectory constraints with the real ExpressionQuantifiersRemover (the two steps the compiler performs before the part
   that is modelled), serialises the ground problem, the constraints and the problem the REAL compiler produced with one
   name table, and records
     * for every (ground action, state formula of a constraint) the result of the real `_regression`,
     * for every state formula the real `formula.substitute(initial_values)`,
     * the monitoring fluents that are true in the compiled initial state,
     * whether the compiler refused the problem (UPProblemDefinitionError).
   [tc_code] evaluates the model on the same input and compares.  FNode.simplify() is the model of C11. *)
From Coq Require Import List ZArith NArith QArith Qcanon Bool.
Import ListNotations.
Require Import UPV.Core.Expr UPV.Core.Eval UPV.Core.Interp UPV.Planning.Problem UPV.Planning.Sem.
Require Import UPV.Walkers.Simplify UPV.Compilers.Variants.
Require Import UPV.Compilers.LayerA_Defs UPV.Compilers.LayerA_Quant UPV.Compilers.LayerA_Tcr.
Require Import UPV.Corr.Corr_LayerA.

Record tc_case := {
  tc_P : problem;                    (* the ground problem (real Grounder), trajectory constraints taken out *)
  tc_cs : list expr;                 (* its trajectory constraints after ExpressionQuantifiersRemover *)
  tc_out : option problem;           (* what the real compiler produced; None = it raised UPProblemDefinitionError *)
  tc_init_true : list N;             (* monitoring fluents whose initial value is TRUE in the compiled problem *)
  tc_hold : list N;                  (* ids of the fluent names "hold-0", "hold-1", ... *)
  tc_psi : list N;                   (* "seen-psi-k" *)
  tc_phi : list N;                   (* "seen-phi-k" *)
  tc_sub0 : list (expr * expr);      (* state formula -> formula.substitute(initial_values) (real substituter) *)
  tc_reg : list (N * expr * expr);   (* (ground action, state formula, real _regression(env, formula, action)) *)
  tc_obj_ty : list (N * N);
  tc_fl_ty : list (N * N);
  tc_anc : list (N * list N)
}.

Definition tc_cfg (c : tc_case) : cfg :=
  {| obj_ty := fun o => lookupN o (tc_obj_ty c);
     par_ty := fun _ => None;
     fl_ty := fun f => lookupN f (tc_fl_ty c);
     if_ty := fun _ => None;
     anc := fun t => match lookupN t (tc_anc c) with Some l => l | None => [] end;
     empty_ty := fun _ => false;
     stat := fun _ _ => None;
     itab := fun _ _ => None |}.

Definition tc_smp (c : tc_case) (e : expr) : expr :=
  match simplify (tc_cfg c) e with Some x => x | None => e end.

Definition tc_sub (c : tc_case) (e : expr) : expr :=
  match find (fun kv => expr_eqb (fst kv) e) (tc_sub0 c) with Some kv => snd kv | None => e end.

Definition tc_C (c : tc_case) : list expr := match tcr_C (tc_cs c) with Some l => l | None => [] end.

(* the fluent "<type>-<k>" of _get_monitoring_atoms: hold for sometime / sometime-after, seen-psi for sometime-before,
   seen-phi for at-most-once *)
Definition tc_mon (c : tc_case) (k : nat) : N :=
  match find (fun p => Nat.eqb (snd p) k) (atoms_from 0 (tc_C c)) with
  | Some (ESometimeBefore _ _, _) => nth k (tc_psi c) 0%N
  | Some (EAtMostOnce _, _) => nth k (tc_phi c) 0%N
  | _ => nth k (tc_hold c) 0%N
  end.

Definition tc_model (c : tc_case) : option problem :=
  match tcr_C (tc_cs c) with
  | None => None
  | Some C => tcr_compile (tc_smp c) (tc_sub c) (tc_mon c) C (tc_P c)
  end.

Definition setN_eqb (a b : list N) : bool :=
  forallb (fun x => memN x b) a && forallb (fun x => memN x a) b.

Definition tc_reg_ok (c : tc_case) : bool :=
  forallb (fun r => match r with
                    | (aid, phi, real) =>
                        match lookupN aid (p_actions (tc_P c)) with
                        | Some a => expr_eqb (regress (a_effs a) phi) real
                        | None => false
                        end
                    end) (tc_reg c).

(* 0 = agreement; bit 1 regression, 2 actions, 4 goals, 8 fluents, 16 initial monitoring atoms, 32 refusal,
   64 objects / state invariants left *)
Definition tc_code (c : tc_case) : N :=
  ((if tc_reg_ok c then 0 else 1) +
  match tc_model c, tc_out c with
  | None, None => 0
  | Some m, Some r =>
      (if acts_by_name (p_actions m) (p_actions r) then 0 else 2) +
      (if seteq_e (p_goals m) (p_goals r) then 0 else 4) +
      (if fds_seteq (p_fluents m) (p_fluents r) then 0 else 8) +
      (if setN_eqb (init_true (tc_smp c) (tc_sub c) (tc_mon c) (tc_C c)) (tc_init_true c) then 0 else 16) +
      (if seteq_e (p_invs m) (p_invs r) then 0 else 64)
  | _, _ => 32
  end)%N.

(* how many (action, formula) regressions were compared; does the ground problem lie in the fragment of the theorems *)
Definition tc_report (c : tc_case) : list N :=
  [tc_code c; N.of_nat (length (tc_reg c));
   if gproblem (tc_P c) && forallb (fun r => gform (snd (fst r)) && gbool (tc_P c) (snd (fst r))) (tc_reg c) then 1%N else 0%N].
