(* Correspondence and oracle for C31.

   (1) Replay: the harness records every call the real meta engine made to the underlying (breadth-first) planner and,
       for the interpreted-functions planner, every validation; the models of Model/Oversub.v / Model/IFPlanner.v are
       run on these recorded tables and must give the same queries in the same order and the same final answer.
   (2) Oracle: independent of the planners.  All states reachable under the documented step [spec_step false] are
       enumerated inside Coq from the ground action instances; the returned plan is validated with [valid_plan false]
       (documented semantics) and with the model of the sequential validator; solvability and the maximal
       oversubscription gain are computed from the enumeration. *)
From Coq Require Import List ZArith NArith QArith Qcanon Bool.
Import ListNotations.
Require Import UPV.Core.Expr UPV.Core.Eval UPV.Core.Interp UPV.Planning.Problem UPV.Planning.Sem UPV.Planning.SeqValidate.
Require Import UPV.Corr.Corr_C01 UPV.Model.Oversub UPV.Model.IFPlanner.

(* ------------------------------------------------------------------ (1a) oversubscription replay *)
Definition ostatus_eqb (a b : status * option N) : bool :=
  status_eqb (fst a) (fst b) &&
  match snd a, snd b with Some x, Some y => (x =? y)%N | None, None => true | _, _ => false end.

Fixpoint masks_eqb (a b : list mask) : bool :=
  match a, b with
  | [], [] => true
  | x :: a', y :: b' => mask_eqb x y && masks_eqb a' b'
  | _, _ => false
  end.

Record ocase := {
  oc_ws : list Qc;                                  (* gains, in the order of qm.goals *)
  oc_table : list (mask * (status * option N));     (* recorded answers of the engine: status, plan id *)
  oc_queries : list mask;                           (* the subsets in the order the engine was called *)
  oc_result : status * option N                     (* what OversubscriptionPlanner.solve returned *)
}.

Fixpoint tbl_lookup {A} (m : mask) (t : list (mask * A)) : option A :=
  match t with
  | [] => None
  | (m', a) :: t' => if mask_eqb m m' then Some a else tbl_lookup m t'
  end.

(* a subset the implementation never asked about stops the model (and the query lists differ) *)
Definition tbl_planner (t : list (mask * (status * option N))) (m : mask) : status * option N :=
  match tbl_lookup m t with Some a => a | None => (Timeout, None) end.

Definition ok_o (c : ocase) : bool :=
  ostatus_eqb (oversub_solve N (tbl_planner (oc_table c)) (oc_ws c)) (oc_result c)
  && masks_eqb (oversub_queries N (tbl_planner (oc_table c)) (oc_ws c)) (oc_queries c).

(* ------------------------------------------------------------------ (1b) interpreted-functions planner replay *)
Definition kn := list (N * N).          (* knowledge: (function application id, value id), dict insertion order *)

Fixpoint kn_set (k : kn) (key v : N) : kn :=
  match k with
  | [] => [(key, v)]
  | (a, b) :: k' => if (a =? key)%N then (a, v) :: k' else (a, b) :: kn_set k' key v
  end.

Definition kn_update (k : kn) (o : kn) : kn := fold_left (fun k e => kn_set k (fst e) (snd e)) o k.

Fixpoint kn_eqb (a b : kn) : bool :=
  match a, b with
  | [], [] => true
  | (x, y) :: a', (x', y') :: b' => (x =? x')%N && (y =? y')%N && kn_eqb a' b'
  | _, _ => false
  end.

Fixpoint kns_eqb (a b : list kn) : bool :=
  match a, b with
  | [], [] => true
  | x :: a', y :: b' => kn_eqb x y && kns_eqb a' b'
  | _, _ => false
  end.

Fixpoint kn_lookup {A} (k : kn) (t : list (kn * A)) : option A :=
  match t with
  | [] => None
  | (k', a) :: t' => if kn_eqb k k' then Some a else kn_lookup k t'
  end.

Inductive iout := IReturned (st : status) (p : option N) | IRaised | IAssert | IFuel.

Definition iout_of (o : outcome N) : iout :=
  match o with Returned st p => IReturned st p | Raised => IRaised | AssertFailed => IAssert | OutOfFuel => IFuel end.

Definition iout_eqb (a b : iout) : bool :=
  match a, b with
  | IReturned s p, IReturned s' p' => ostatus_eqb (s, p) (s', p')
  | IRaised, IRaised | IAssert, IAssert | IFuel, IFuel => true
  | _, _ => false
  end.

Record icase := {
  ic_planner : list (kn * (status * option N));   (* engine answer (plan id after map-back) per knowledge *)
  ic_validate : list (N * (bool * kn));           (* per plan id: VALID?, calculated_interpreted_functions *)
  ic_queries : list kn;                           (* knowledge at each turn of the loop *)
  ic_out : iout                                   (* what InterpretedFunctionsPlanner.solve did *)
}.

Definition itbl_planner (t : list (kn * (status * option N))) (k : kn) : status * option N :=
  match kn_lookup k t with Some a => a | None => (Timeout, None) end.

Definition itbl_validate (t : list (N * (bool * kn))) (p : N) : bool * kn :=
  match lookupN p t with Some a => a | None => (false, []) end.

Definition ok_i (c : icase) : bool :=
  let fuel := S (S (length (ic_queries c))) in
  let pl := itbl_planner (ic_planner c) in
  let vl := itbl_validate (ic_validate c) in
  iout_eqb (iout_of (ifp_loop N kn kn pl vl kn_update (@length _) fuel [])) (ic_out c)
  && kns_eqb (ifp_queries N kn kn pl vl kn_update (@length _) fuel []) (ic_queries c).

(* ------------------------------------------------------------------ (2) oracle: exhaustive reachability *)
Definition obs := list (option value).

Fixpoint zip_obs (ks : list (N * list value)) (o : obs) : list (N * list value * value) :=
  match ks, o with
  | k :: ks', Some v :: o' => (fst k, snd k, v) :: zip_obs ks' o'
  | _ :: ks', None :: o' => zip_obs ks' o'
  | _, _ => []
  end.

Definition st_of_obs (P : problem) (o : obs) : state := st_of (zip_obs (ground_fluents P) o).

Definition mem_obs (o : obs) (l : list obs) : bool := existsb (olist_eqb o) l.

Section Reach.
  Variable P : problem.
  Variable step : state -> action -> list value -> option state.
  Variable insts : list (N * list value).

  Definition successors (s : state) : list obs :=
    flat_map (fun ia => match lookup_action P (fst ia) with
                        | Some a => match step s a (snd ia) with Some s' => [obs_of_state P s'] | None => [] end
                        | None => [] end) insts.

  Fixpoint add_new (seen new : list obs) (l : list obs) : list obs * list obs :=
    match l with
    | [] => (seen, new)
    | o :: l' => if mem_obs o seen then add_new seen new l' else add_new (seen ++ [o]) (new ++ [o]) l'
    end.

  (* breadth first; one expansion per unit of fuel; the flag says that the frontier ran empty *)
  Fixpoint reach (fuel : nat) (seen frontier : list obs) : list obs * bool :=
    match frontier with
    | [] => (seen, true)
    | o :: fr =>
        match fuel with
        | O => (seen, false)
        | S fuel' =>
            let '(seen', new) := add_new seen [] (successors (st_of_obs P o)) in
            reach fuel' seen' (fr ++ new)
        end
    end.
End Reach.

Definition qc_max (a : option Qc) (b : Qc) : option Qc :=
  match a with None => Some b | Some x => if qc_ltb x b then Some b else Some x end.

Record pcase := {
  pc_init : list (N * list value * value);
  pc_insts : list (N * list value);               (* every ground action instance *)
  pc_fuel : nat;
  pc_soft : list (expr * Qc);                     (* oversubscription goals (empty for the IF cases) *)
  pc_status : status;
  pc_raised : bool;                               (* solve raised an exception instead of returning *)
  pc_plan : option (list (N * list value))
}.

Record analysis := {
  an_complete : bool;                 (* enumeration exhausted the reachable states *)
  an_states : nat;
  an_solvable : bool;                 (* some reachable state satisfies the (hard) goals *)
  an_gain_states : bool;              (* some reachable hard-goal state has a defined gain *)
  an_max : option Qc;                 (* maximal gain over them *)
  an_plan_valid : bool;               (* the returned plan is valid for the hard goals *)
  an_plan_gain : option Qc
}.

Definition analyse (sc : bool) (step : problem -> state -> action -> list value -> option state)
           (P : problem) (c : pcase) : analysis :=
  let s0 := st_of (pc_init c) in
  let o0 := obs_of_state P s0 in
  let '(states, complete) := reach P (step P) (pc_insts c) (pc_fuel c) [o0] [o0] in
  let goal_states := filter (fun o => goals_hold sc P (st_of_obs P o)) states in
  let gs := map (fun o => gains sc (mk_interp P (st_of_obs P o) []) (pc_soft c)) goal_states in
  let mx := fold_left (fun acc g => match g with Some q => qc_max acc q | None => acc end) gs None in
  let fin := match pc_plan c with Some pl => run P (step P) s0 pl | None => None end in
  {| an_complete := complete;
     an_states := length states;
     an_solvable := match goal_states with [] => false | _ => true end;
     an_gain_states := match mx with Some _ => true | None => false end;
     an_max := mx;
     an_plan_valid := match fin with Some s => goals_hold sc P s | None => false end;
     an_plan_gain := match fin with Some s => gains sc (mk_interp P s []) (pc_soft c) | None => None end |}.

Definition has_plan (c : pcase) : bool := match pc_plan c with Some _ => true | None => false end.

Definition below (g mx : option Qc) : bool :=
  match g, mx with Some x, Some m => qc_ltb x m | None, Some _ => true | _, None => false end.

(* bits of the oversubscription oracle, for one reading of the semantics *)
Definition obits (a : analysis) (c : pcase) : N :=
  ((if has_plan c && negb (an_plan_valid a) then 1 else 0) +
   (if has_plan c && status_eqb (pc_status c) SolvedOpt && below (an_plan_gain a) (an_max a) then 2 else 0) +
   (if status_eqb (pc_status c) UnsolvProven && negb (pc_raised c) && an_gain_states a then 4 else 0) +
   (if positive (pc_status c) && negb (has_plan c) then 8 else 0) +
   (if an_complete a then 0 else 16))%N.

(* documented semantics in the low bits, the model of the code (short-circuit evaluation, simulator loop) shifted
   by 5 bits (computed only when the documented reading reports something): a failure present in both readings is
   not explained by a recorded simulator deviation *)
Definition ocode (P : problem) (c : pcase) : N :=
  let spec := obits (analyse false (spec_step false) P c) c in
  if (spec =? 0)%N then 0%N else (spec + 32 * obits (analyse true (sim_apply true) P c) c)%N.

(* bits of the interpreted-functions oracle *)
Definition ibits (a : analysis) (c : pcase) : N :=
  ((if has_plan c && negb (an_plan_valid a) then 1 else 0) +
   (if negb (has_plan c) && an_solvable a then 2 else 0) +
   (if status_eqb (pc_status c) UnsolvProven && negb (pc_raised c) && an_solvable a then 4 else 0) +
   (if positive (pc_status c) && negb (pc_raised c) && negb (has_plan c) then 8 else 0) +
   (if an_complete a then 0 else 16))%N.

Definition icode (P : problem) (c : pcase) : N :=
  let spec := ibits (analyse false (spec_step false) P c) c in
  if (spec =? 0)%N then 0%N else (spec + 32 * ibits (analyse true (sim_apply true) P c) c)%N.

(* the relaxation hypothesis of ifplanner_complete, per instance: a plan valid for the original problem P must be
   valid for the compiled problem PC (the harness gives the lifted plan) *)
Record rcase := {
  rc_init : list (N * list value * value);
  rc_initc : list (N * list value * value);
  rc_plan : list (N * list value);
  rc_planc : list (N * list value)
}.

(* 1: valid for the original (documented semantics) but the lifted plan is not valid for the compiled problem *)
Definition rcode (P PC : problem) (c : rcase) : N :=
  (if valid_plan false P (st_of (rc_init c)) (rc_plan c) && negb (valid_plan false PC (st_of (rc_initc c)) (rc_planc c))
   then 1 else 0)%N.

(* number of states the documented semantics reaches (statistics) *)
Definition nstates (P : problem) (c : pcase) : nat := an_states (analyse false (spec_step false) P c).

(* one list of cases per generated file *)
Inductive anycase :=
| CO (P : problem) (c : pcase)
| CI (P : problem) (c : pcase)
| CR (P PC : problem) (c : rcase).

Definition anycode (a : anycase) : N :=
  match a with CO P c => ocode P c | CI P c => icode P c | CR P PC c => rcode P PC c end.

Inductive replaycase := RO (c : ocase) | RI (c : icase).
Definition ok_replay (r : replaycase) : bool := match r with RO c => ok_o c | RI c => ok_i c end.
