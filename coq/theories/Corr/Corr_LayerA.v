(* Structural correspondence for Layer A of C06 / C07: the Gallina model of a compiler applied to the serialised
   original problem is compared with the serialised problem the REAL compiler produced (both serialised with one name
   table, so fluents / objects / parameters / variables / unchanged action names have the same numbers), modulo action
   names (the real map-back groups the variants) and modulo the order of actions and of preconditions / goals /
   invariants.  FNode.simplify() is instantiated with the model of C11 (Walkers/Simplify.v, environment-level
   simplifier: no static fluents, no empty-type knowledge). *)
From Coq Require Import List ZArith NArith QArith Qcanon Bool.
Import ListNotations.
Require Import UPV.Core.Expr UPV.Core.Eval UPV.Core.Interp UPV.Planning.Problem UPV.Planning.Sem.
Require Import UPV.Walkers.Simplify UPV.Walkers.Subst UPV.Compilers.Variants.
Require Import UPV.Planning.Ground.
Require Import UPV.Compilers.LayerA_Defs UPV.Compilers.LayerA_Quant UPV.Compilers.LayerA_Inv UPV.Compilers.LayerA_Variants
               UPV.Compilers.LayerA_Ground.

Record la_case := {
  la_kind : N;                       (* 0 quantifiers, 1 state invariants, 2 bounded types, 3 conditional effects,
                                        4 disjunctive conditions, 5 grounder *)
  la_orig : problem;
  la_comp : problem;                 (* what the real compiler produced *)
  la_back : list (N * N);            (* compiled action id -> original action id (real map_back_action_instance) *)
  la_obj_ty : list (N * N);
  la_par_ty : list (N * N);
  la_fl_ty : list (N * N);
  la_anc : list (N * list N);
  la_tau : list (N * N);             (* variable id -> user type id *)
  la_cdnf : list (expr * list expr); (* kind 4: effect condition -> its disjuncts (real Dnf walker + simplify) *)
  la_pdnf : list (N * list (list expr)); (* kind 4: original action id -> disjuncts of its preconditions *)
  la_goals : list expr;              (* kind 4: the compiled goals when no fake goal was needed *)
  la_tuples : list (N * list (list value));   (* kind 5: original action id -> GrounderHelper.get_possible_parameters *)
  la_gback : list (N * (N * list value));     (* kind 5: ground action id -> (original action id, parameters) *)
  la_stat : list (N * list expr * expr);      (* kind 5: static fluent applied to constants -> initial value *)
  la_empty : list N                           (* kind 5: user types without objects *)
}.

Definition la_cfg (c : la_case) : cfg :=
  {| obj_ty := fun o => lookupN o (la_obj_ty c);
     par_ty := fun p => lookupN p (la_par_ty c);
     fl_ty := fun f => lookupN f (la_fl_ty c);
     if_ty := fun _ => None;
     anc := fun t => match lookupN t (la_anc c) with Some l => l | None => [] end;
     empty_ty := fun t => memN t (la_empty c);
     stat := fun f args =>
               (fix look (t : list (N * list expr * expr)) : option expr :=
                  match t with
                  | [] => None
                  | (g, a, v) :: t' => if (f =? g)%N && list_expr_eqb args a then Some v else look t'
                  end) (la_stat c);
     itab := fun _ _ => None |}.

Definition la_smp (c : la_case) (e : expr) : expr :=
  match simplify (la_cfg c) e with Some x => x | None => e end.

(* check_and_simplify_preconditions *)
Definition la_simp_pre (c : la_case) (l : list expr) : option (list expr) :=
  match l with
  | [] => Some []
  | _ => match la_smp c (mkAnd l) with
         | EBool true => Some []
         | EBool false => None
         | EAnd args => Some args
         | x => Some [x]
         end
  end.

(* ---- comparisons *)
Definition subset_e (a b : list expr) : bool := forallb (fun x => existsb (expr_eqb x) b) a.
Definition seteq_e (a b : list expr) : bool := subset_e a b && subset_e b a.

Definition listN_eqb (a b : list N) : bool :=
  (fix go (a b : list N) := match a, b with [] , [] => true | x :: a', y :: b' => (x =? y)%N && go a' b' | _, _ => false end) a b.

Definition kind_eqb (a b : ekind) : bool :=
  match a, b with KAssign, KAssign | KInc, KInc | KDec, KDec => true | _, _ => false end.

Definition eff_eqb (a b : effect) : bool :=
  (e_fl a =? e_fl b)%N && list_expr_eqb (e_args a) (e_args b) && expr_eqb (e_val a) (e_val b) &&
  expr_eqb (e_cond a) (e_cond b) && kind_eqb (e_kind a) (e_kind b) && vars_eqb (e_vars a) (e_vars b) &&
  Bool.eqb (e_isbool a) (e_isbool b).

Fixpoint effs_eqb (a b : list effect) : bool :=
  match a, b with
  | [], [] => true
  | x :: a', y :: b' => eff_eqb x y && effs_eqb a' b'
  | _, _ => false
  end.

(* same parameters, same effects in the same order, same preconditions as a set *)
Definition act_eqb (a b : action) : bool :=
  listN_eqb (a_params a) (a_params b) && seteq_e (a_pre a) (a_pre b) && effs_eqb (a_effs a) (a_effs b).

Definition oq_eqb (a b : option Qc) : bool :=
  match a, b with Some x, Some y => qc_eqb x y | None, None => true | _, _ => false end.
Definition fty_eqb (a b : ftype) : bool :=
  match a, b with
  | FBool, FBool => true
  | FNum l h, FNum l' h' => oq_eqb l l' && oq_eqb h h'
  | FObj t, FObj u => (t =? u)%N
  | _, _ => false
  end.
Definition fd_eqb (a b : fdecl) : bool :=
  (fd_id a =? fd_id b)%N && listN_eqb (fd_sig a) (fd_sig b) && fty_eqb (fd_ty a) (fd_ty b).
Definition fds_seteq (a b : list fdecl) : bool :=
  forallb (fun x => existsb (fd_eqb x) b) a && forallb (fun x => existsb (fd_eqb x) a) b.

(* actions compared name by name (compilers that keep the action names) *)
Definition acts_by_name (m r : list (N * action)) : bool :=
  (length m =? length r)%nat &&
  forallb (fun ia => match lookupN (fst ia) r with Some b => act_eqb (snd ia) b | None => false end) m.

(* variants compared as sets (compilers that rename) *)
Definition acts_as_set (m r : list action) : bool :=
  (length m =? length r)%nat &&
  forallb (fun x => existsb (act_eqb x) r) m && forallb (fun x => existsb (act_eqb x) m) r.

Definition la_cdnf_fun (c : la_case) (e : expr) : list expr :=
  match find (fun kv => expr_eqb (fst kv) e) (la_cdnf c) with Some kv => snd kv | None => [e] end.
Definition la_pdnf_fun (c : la_case) : list (N * list (list expr)) := la_pdnf c.

Definition real_variants (c : la_case) (i : N) : list action :=
  flat_map (fun ia => match lookupN (fst ia) (la_back c) with
                      | Some j => if (j =? i)%N then [snd ia] else []
                      | None => []
                      end) (p_actions (la_comp c)).

Definition model_variants (c : la_case) (i : N) (a : action) : list action :=
  match la_kind c with
  | 3%N => if is_cond_action a then cer_variants (la_simp_pre c) a else [a]
  | 4%N => dnf_variants (la_cdnf_fun c) a (match lookupN i (la_pdnf c) with Some l => l | None => [] end)
  | _ => [a]
  end.

(* ---- kind 5, the grounder: every enumerated tuple has exactly the model's ground action (or none), and every real
   ground action comes from an enumerated tuple *)
Definition values_eqb' (a b : list value) : bool := values_eqb a b.
Definition real_ground (c : la_case) (i : N) (t : list value) : list action :=
  flat_map (fun ia => match lookupN (fst ia) (la_gback c) with
                      | Some (j, u) => if (j =? i)%N && values_eqb t u then [snd ia] else []
                      | None => []
                      end) (p_actions (la_comp c)).

Definition ground_ok (c : la_case) : bool :=
  forallb (fun ia =>
             let ts := match lookupN (fst ia) (la_tuples c) with Some l => l | None => [] end in
             forallb (fun t => match g_action (la_smp c) (snd ia) t, real_ground c (fst ia) t with
                               | Some g, [r] => act_eqb g r
                               | None, [] => true
                               | _, _ => false
                               end) ts)
          (p_actions (la_orig c)) &&
  forallb (fun ia => match lookupN (fst ia) (la_gback c) with
                     | Some (j, u) => match lookupN j (la_tuples c) with
                                      | Some ts => existsb (values_eqb u) ts
                                      | None => false
                                      end
                     | None => false
                     end) (p_actions (la_comp c)).

Definition model_problem (c : la_case) : problem :=
  match la_kind c with
  | 0%N => quant_compile (la_smp c) (la_orig c)
  | 1%N => sir_compile (la_smp c) (la_orig c)
  | 2%N => btr_compile (la_smp c) (la_orig c)
  | _ => la_orig c
  end.

(* code: 0 = the model and the implementation agree;  bits: 1 actions, 2 goals, 4 state invariants,
   8 fluents / objects, 16 a compiled action maps back to no original action *)
Definition la_code (c : la_case) : N :=
  let M := model_problem c in
  let R := la_comp c in
  let renaming := (3 <=? la_kind c)%N in
  let b_act :=
    if (la_kind c =? 5)%N then ground_ok c else
    if renaming
    then forallb (fun ia => acts_as_set (model_variants c (fst ia) (snd ia)) (real_variants c (fst ia)))
                 (p_actions (la_orig c))
    else acts_by_name (p_actions M) (p_actions R) in
  let b_goal := match la_kind c with
                | 3%N => seteq_e (p_goals (la_orig c)) (p_goals R)
                | 4%N => seteq_e (la_goals c) (p_goals R)
                | 5%N => seteq_e (p_goals (la_orig c)) (p_goals R)
                | _ => seteq_e (p_goals M) (p_goals R)
                end in
  let b_inv := seteq_e (p_invs M) (p_invs R) in
  let b_fl := fds_seteq (p_fluents M) (p_fluents R) in
  let b_back := if (la_kind c =? 5)%N then true else if renaming
                then forallb (fun ia => match lookupN (fst ia) (la_back c) with
                                        | Some j => match lookupN j (p_actions (la_orig c)) with Some _ => true | None => false end
                                        | None => false end) (p_actions R)
                else true in
  ((if b_act then 0 else 1) + (if b_goal then 0 else 2) + (if b_inv then 0 else 4) + (if b_fl then 0 else 8) +
   (if b_back then 0 else 16))%N.

(* do the decidable hypotheses of the plan-level theorems hold for this problem?  (coverage, not a check)
   bit 1: problem_wf (QuantifiersRemover), bit 2: no action dropped by the model *)
Definition la_tau_fun (c : la_case) (v : N) : N := match lookupN v (la_tau c) with Some t => t | None => 0%N end.
Definition la_hyps (c : la_case) : N :=
  ((if problem_wf (la_orig c) (la_tau_fun c) then 1 else 0) +
   (if (length (p_actions (model_problem c)) =? length (p_actions (la_orig c)))%nat then 2 else 0))%N.

Definition la_report (c : la_case) : list N := [la_code c; la_hyps c].
