(* The shared expression IR: one constructor per unified_planning OperatorKind that the verified walkers handle
   (unified_planning/model/operators.py, fnode.py).  Names (fluents, parameters, variables, objects, user types,
   interpreted functions) are numbers; the Python harness keeps the name tables.
   Constants: INT_CONSTANT carries a Z, REAL_CONSTANT a canonical rational (Qc) — the node tag is kept because the
   expression manager and the simplifier's output distinguish Int from Real nodes. *)
From Coq Require Import List ZArith NArith QArith Qcanon Bool Lia.
Import ListNotations.
Local Open Scope nat_scope.

Inductive expr : Type :=
| EBool (b : bool)
| EInt (z : Z)
| EReal (q : Qc)
| EObj (o : N)
| EParam (p : N)
| EVar (v : N) (ty : N)                       (* VARIABLE_EXP: variable id and its user type id *)
| EFluent (f : N) (args : list expr)
| EIFun (f : N) (args : list expr)            (* INTERPRETED_FUNCTION_EXP *)
| EAnd (l : list expr)
| EOr (l : list expr)
| ENot (e : expr)
| EImplies (a b : expr)
| EIff (a b : expr)
| EExists (vs : list (N * N)) (e : expr)      (* bound variables: (id, user type id) *)
| EForall (vs : list (N * N)) (e : expr)
| EPlus (l : list expr)
| EMinus (a b : expr)
| ETimes (l : list expr)
| EDiv (a b : expr)
| ELe (a b : expr)
| ELt (a b : expr)
| EEquals (a b : expr)
| EAlways (e : expr)
| ESometime (e : expr)
| ESometimeBefore (a b : expr)
| ESometimeAfter (a b : expr)
| EAtMostOnce (e : expr).

(* ---- induction principle that goes through the nested lists ---- *)
Section ExprInd.
  Variable P : expr -> Prop.
  Hypothesis HBool : forall b, P (EBool b).
  Hypothesis HInt : forall z, P (EInt z).
  Hypothesis HReal : forall q, P (EReal q).
  Hypothesis HObj : forall o, P (EObj o).
  Hypothesis HParam : forall p, P (EParam p).
  Hypothesis HVar : forall v t, P (EVar v t).
  Hypothesis HFluent : forall f args, Forall P args -> P (EFluent f args).
  Hypothesis HIFun : forall f args, Forall P args -> P (EIFun f args).
  Hypothesis HAnd : forall l, Forall P l -> P (EAnd l).
  Hypothesis HOr : forall l, Forall P l -> P (EOr l).
  Hypothesis HNot : forall e, P e -> P (ENot e).
  Hypothesis HImplies : forall a b, P a -> P b -> P (EImplies a b).
  Hypothesis HIff : forall a b, P a -> P b -> P (EIff a b).
  Hypothesis HExists : forall vs e, P e -> P (EExists vs e).
  Hypothesis HForall : forall vs e, P e -> P (EForall vs e).
  Hypothesis HPlus : forall l, Forall P l -> P (EPlus l).
  Hypothesis HMinus : forall a b, P a -> P b -> P (EMinus a b).
  Hypothesis HTimes : forall l, Forall P l -> P (ETimes l).
  Hypothesis HDiv : forall a b, P a -> P b -> P (EDiv a b).
  Hypothesis HLe : forall a b, P a -> P b -> P (ELe a b).
  Hypothesis HLt : forall a b, P a -> P b -> P (ELt a b).
  Hypothesis HEquals : forall a b, P a -> P b -> P (EEquals a b).
  Hypothesis HAlways : forall e, P e -> P (EAlways e).
  Hypothesis HSometime : forall e, P e -> P (ESometime e).
  Hypothesis HSometimeBefore : forall a b, P a -> P b -> P (ESometimeBefore a b).
  Hypothesis HSometimeAfter : forall a b, P a -> P b -> P (ESometimeAfter a b).
  Hypothesis HAtMostOnce : forall e, P e -> P (EAtMostOnce e).

  Fixpoint expr_ind' (e : expr) : P e :=
    let fix go (l : list expr) : Forall P l :=
      match l with
      | [] => Forall_nil P
      | x :: l' => Forall_cons x (expr_ind' x) (go l')
      end in
    match e with
    | EBool b => HBool b
    | EInt z => HInt z
    | EReal q => HReal q
    | EObj o => HObj o
    | EParam p => HParam p
    | EVar v t => HVar v t
    | EFluent f args => HFluent f args (go args)
    | EIFun f args => HIFun f args (go args)
    | EAnd l => HAnd l (go l)
    | EOr l => HOr l (go l)
    | ENot e => HNot e (expr_ind' e)
    | EImplies a b => HImplies a b (expr_ind' a) (expr_ind' b)
    | EIff a b => HIff a b (expr_ind' a) (expr_ind' b)
    | EExists vs e => HExists vs e (expr_ind' e)
    | EForall vs e => HForall vs e (expr_ind' e)
    | EPlus l => HPlus l (go l)
    | EMinus a b => HMinus a b (expr_ind' a) (expr_ind' b)
    | ETimes l => HTimes l (go l)
    | EDiv a b => HDiv a b (expr_ind' a) (expr_ind' b)
    | ELe a b => HLe a b (expr_ind' a) (expr_ind' b)
    | ELt a b => HLt a b (expr_ind' a) (expr_ind' b)
    | EEquals a b => HEquals a b (expr_ind' a) (expr_ind' b)
    | EAlways e => HAlways e (expr_ind' e)
    | ESometime e => HSometime e (expr_ind' e)
    | ESometimeBefore a b => HSometimeBefore a b (expr_ind' a) (expr_ind' b)
    | ESometimeAfter a b => HSometimeAfter a b (expr_ind' a) (expr_ind' b)
    | EAtMostOnce e => HAtMostOnce e (expr_ind' e)
    end.
End ExprInd.

(* ---- decidable structural equality (FNode == is node identity = structural equality under hash-consing) ---- *)
Definition qc_eqb (a b : Qc) : bool := Qeq_bool (this a) (this b).

Definition vars_eqb (a b : list (N * N)) : bool :=
  (fix go (a b : list (N * N)) : bool :=
     match a, b with
     | [], [] => true
     | (x, t) :: a', (y, u) :: b' => (x =? y)%N && (t =? u)%N && go a' b'
     | _, _ => false
     end) a b.

Fixpoint expr_eqb (x y : expr) {struct x} : bool :=
  let fix leqb (a b : list expr) {struct a} : bool :=
    match a, b with
    | [], [] => true
    | p :: a', q :: b' => expr_eqb p q && leqb a' b'
    | _, _ => false
    end in
  match x, y with
  | EBool a, EBool b => Bool.eqb a b
  | EInt a, EInt b => (a =? b)%Z
  | EReal a, EReal b => qc_eqb a b
  | EObj a, EObj b => (a =? b)%N
  | EParam a, EParam b => (a =? b)%N
  | EVar a t, EVar b u => (a =? b)%N && (t =? u)%N
  | EFluent f a, EFluent g b => (f =? g)%N && leqb a b
  | EIFun f a, EIFun g b => (f =? g)%N && leqb a b
  | EAnd a, EAnd b => leqb a b
  | EOr a, EOr b => leqb a b
  | ENot a, ENot b => expr_eqb a b
  | EImplies a1 a2, EImplies b1 b2 => expr_eqb a1 b1 && expr_eqb a2 b2
  | EIff a1 a2, EIff b1 b2 => expr_eqb a1 b1 && expr_eqb a2 b2
  | EExists vs a, EExists ws b => vars_eqb vs ws && expr_eqb a b
  | EForall vs a, EForall ws b => vars_eqb vs ws && expr_eqb a b
  | EPlus a, EPlus b => leqb a b
  | EMinus a1 a2, EMinus b1 b2 => expr_eqb a1 b1 && expr_eqb a2 b2
  | ETimes a, ETimes b => leqb a b
  | EDiv a1 a2, EDiv b1 b2 => expr_eqb a1 b1 && expr_eqb a2 b2
  | ELe a1 a2, ELe b1 b2 => expr_eqb a1 b1 && expr_eqb a2 b2
  | ELt a1 a2, ELt b1 b2 => expr_eqb a1 b1 && expr_eqb a2 b2
  | EEquals a1 a2, EEquals b1 b2 => expr_eqb a1 b1 && expr_eqb a2 b2
  | EAlways a, EAlways b => expr_eqb a b
  | ESometime a, ESometime b => expr_eqb a b
  | ESometimeBefore a1 a2, ESometimeBefore b1 b2 => expr_eqb a1 b1 && expr_eqb a2 b2
  | ESometimeAfter a1 a2, ESometimeAfter b1 b2 => expr_eqb a1 b1 && expr_eqb a2 b2
  | EAtMostOnce a, EAtMostOnce b => expr_eqb a b
  | _, _ => false
  end.

Definition list_expr_eqb : list expr -> list expr -> bool :=
  fix leqb (a b : list expr) {struct a} : bool :=
    match a, b with
    | [], [] => true
    | p :: a', q :: b' => expr_eqb p q && leqb a' b'
    | _, _ => false
    end.

(* ---- size, free variables, fluents, operators (mirrors FreeVarsOracle / FluentsExtractor-style walkers) ---- *)
Fixpoint size (e : expr) : nat :=
  let fix ls (l : list expr) : nat := match l with [] => 0 | x :: l' => size x + ls l' end in
  match e with
  | EBool _ | EInt _ | EReal _ | EObj _ | EParam _ | EVar _ _ => 1
  | EFluent _ l | EIFun _ l | EAnd l | EOr l | EPlus l | ETimes l => S (ls l)
  | ENot a | EAlways a | ESometime a | EAtMostOnce a | EExists _ a | EForall _ a => S (size a)
  | EImplies a b | EIff a b | EMinus a b | EDiv a b | ELe a b | ELt a b | EEquals a b
  | ESometimeBefore a b | ESometimeAfter a b => S (size a + size b)
  end.

Definition memN (x : N) (l : list N) : bool := existsb (N.eqb x) l.

(* free variables: list (with possible repetitions) of variable ids occurring free *)
Fixpoint free_vars (e : expr) : list N :=
  let fix lf (l : list expr) : list N := match l with [] => [] | x :: l' => free_vars x ++ lf l' end in
  match e with
  | EBool _ | EInt _ | EReal _ | EObj _ | EParam _ => []
  | EVar v _ => [v]
  | EFluent _ l | EIFun _ l | EAnd l | EOr l | EPlus l | ETimes l => lf l
  | ENot a | EAlways a | ESometime a | EAtMostOnce a => free_vars a
  | EExists vs a | EForall vs a => filter (fun v => negb (memN v (map fst vs))) (free_vars a)
  | EImplies a b | EIff a b | EMinus a b | EDiv a b | ELe a b | ELt a b | EEquals a b
  | ESometimeBefore a b | ESometimeAfter a b => free_vars a ++ free_vars b
  end.

(* smart constructors mirroring ExpressionManager.And/Or/Not/Plus/Times (expression.py) *)
Definition mkAnd (l : list expr) : expr :=
  match l with [] => EBool true | [x] => x | _ => EAnd l end.
Definition mkOr (l : list expr) : expr :=
  match l with [] => EBool false | [x] => x | _ => EOr l end.
Definition mkNot (e : expr) : expr :=
  match e with ENot x => x | _ => ENot e end.
Definition mkPlus (l : list expr) : expr :=
  match l with [] => EInt 0%Z | [x] => x | _ => EPlus l end.
Definition mkTimes (l : list expr) : expr :=
  match l with [] => EInt 1%Z | [x] => x | _ => ETimes l end.

(* uniform_numeric_constant / Simplifier._number_to_fnode: integral => Int node, otherwise Real node *)
Definition num_node (q : Qc) : expr :=
  if (Zpos (Qden (this q)) =? 1)%Z then EInt (Qnum (this q)) else EReal q.

Definition is_true (e : expr) : bool := match e with EBool true => true | _ => false end.
Definition is_false (e : expr) : bool := match e with EBool false => true | _ => false end.
