(* Finite, list-based interpretations (what the harness can serialise) and their conversion to [interp]. *)
From Coq Require Import List ZArith NArith QArith Qcanon Bool.
Import ListNotations.
Require Import UPV.Core.Expr UPV.Core.Eval.

Fixpoint values_eqb (a b : list value) : bool :=
  match a, b with
  | [], [] => true
  | x :: a', y :: b' => value_eqb x y && values_eqb a' b'
  | _, _ => false
  end.

Record finterp := {
  f_fl : list (N * list value * value);     (* ((fluent, ground args), value) *)
  f_par : list (N * value);
  f_var : list (N * value);
  f_ifun : list (N * list value * value);
  f_objs : list (N * list N)
}.

Fixpoint lookup_app (f : N) (args : list value) (t : list (N * list value * value)) : option value :=
  match t with
  | [] => None
  | (g, a, v) :: t' => if (f =? g)%N && values_eqb args a then Some v else lookup_app f args t'
  end.

Fixpoint lookupN {A} (k : N) (t : list (N * A)) : option A :=
  match t with
  | [] => None
  | (k', v) :: t' => if (k =? k')%N then Some v else lookupN k t'
  end.

Definition to_interp (F : finterp) : interp :=
  {| fl := fun f args => lookup_app f args (f_fl F);
     par := fun p => lookupN p (f_par F);
     var := fun v => lookupN v (f_var F);
     ifun := fun f args => lookup_app f args (f_ifun F);
     objs := fun t => match lookupN t (f_objs F) with Some l => l | None => [] end |}.

Definition ovalue_eqb (a b : option value) : bool :=
  match a, b with
  | Some x, Some y => value_eqb x y
  | None, None => true
  | _, _ => false
  end.

(* rational literal helper for generated files:  qc n d  =  n/d in canonical form *)
Definition qc (n : Z) (d : positive) : Qc := Q2Qc (Qmake n d).
