(* The single reference semantics of expressions (DESIGN.md 3.3).
   Values: Booleans, exact rationals (Int and Real constants compare by numeric value), objects.
   Evaluation is strict: an undefined fluent / parameter / variable, an ill-typed operand or a division by zero makes
   the whole expression undefined (None).  Quantifiers range over [objs I ty] in problem order.
   Two quantifier modes:  strict (every instance must be defined — the reading of C01's last sentence) and
   short-circuit [sc] (what QuantifierSimplifier.walk_exists / walk_forall do: stop at the first deciding instance). *)
From Coq Require Import List ZArith NArith QArith Qcanon Bool.
Import ListNotations.
Require Import UPV.Core.Expr.
Local Open Scope nat_scope.

Inductive value := VBool (b : bool) | VNum (q : Qc) | VObj (o : N).

Definition value_eqb (a b : value) : bool :=
  match a, b with
  | VBool x, VBool y => Bool.eqb x y
  | VNum x, VNum y => qc_eqb x y
  | VObj x, VObj y => (x =? y)%N
  | _, _ => false
  end.

Record interp := {
  fl : N -> list value -> option value;      (* ground fluent values; None = no value *)
  par : N -> option value;
  var : N -> option value;
  ifun : N -> list value -> option value;    (* interpreted functions: oracle tables *)
  objs : N -> list N                         (* objects of a user type (including subtypes), in problem order *)
}.

Definition bind_var (I : interp) (v : N) (o : N) : interp :=
  {| fl := fl I; par := par I; ifun := ifun I; objs := objs I;
     var := fun w => if (w =? v)%N then Some (VObj o) else var I w |}.

Definition zq (z : Z) : Qc := Q2Qc (inject_Z z).

Definition as_bool (v : option value) : option bool := match v with Some (VBool b) => Some b | _ => None end.
Definition as_num (v : option value) : option Qc := match v with Some (VNum q) => Some q | _ => None end.

Definition qc_leb (a b : Qc) : bool := Qle_bool (this a) (this b).
Definition qc_ltb (a b : Qc) : bool := Qle_bool (this a) (this b) && negb (Qeq_bool (this a) (this b)).
Definition qc_is0 (a : Qc) : bool := Qeq_bool (this a) 0%Q.

(* fold over quantifier instances.  [body] evaluates the quantified expression under an extended interpretation.
   [stop] = the deciding truth value (true for Exists, false for Forall). *)
Section Quant.
  Variable sc : bool.
  Variable stop : bool.
  (* combine: left-to-right over instance results *)
  Fixpoint q_fold (rs : list (option bool)) : option bool :=
    match rs with
    | [] => Some (negb stop)
    | r :: rs' =>
        match r with
        | None => None
        | Some b =>
            if Bool.eqb b stop
            then (if sc then Some stop
                  else match q_fold rs' with Some _ => Some stop | None => None end)
            else q_fold rs'
        end
    end.
End Quant.

(* all instances of the bound variables: itertools.product in variable order, first variable outermost *)
Fixpoint instances (I : interp) (vs : list (N * N)) : list interp :=
  match vs with
  | [] => [I]
  | (v, ty) :: vs' => flat_map (fun o => instances (bind_var I v o) vs') (objs I ty)
  end.

Section Eval.
  Variable sc : bool.

  Fixpoint eval (e : expr) (I : interp) {struct e} : option value :=
    let fix evl (l : list expr) : option (list value) :=
      match l with
      | [] => Some []
      | x :: l' => match eval x I, evl l' with Some v, Some vs => Some (v :: vs) | _, _ => None end
      end in
    let fix ebools (l : list expr) : option (list bool) :=
      match l with
      | [] => Some []
      | x :: l' => match as_bool (eval x I), ebools l' with Some v, Some vs => Some (v :: vs) | _, _ => None end
      end in
    let fix enums (l : list expr) : option (list Qc) :=
      match l with
      | [] => Some []
      | x :: l' => match as_num (eval x I), enums l' with Some v, Some vs => Some (v :: vs) | _, _ => None end
      end in
    match e with
    | EBool b => Some (VBool b)
    | EInt z => Some (VNum (zq z))
    | EReal q => Some (VNum q)
    | EObj o => Some (VObj o)
    | EParam p => par I p
    | EVar v _ => var I v
    | EFluent f args => match evl args with Some vs => fl I f vs | None => None end
    | EIFun f args => match evl args with Some vs => ifun I f vs | None => None end
    | EAnd l => match ebools l with Some bs => Some (VBool (forallb (fun b => b) bs)) | None => None end
    | EOr l => match ebools l with Some bs => Some (VBool (existsb (fun b => b) bs)) | None => None end
    | ENot a => match as_bool (eval a I) with Some b => Some (VBool (negb b)) | None => None end
    | EImplies a b =>
        match as_bool (eval a I), as_bool (eval b I) with
        | Some x, Some y => Some (VBool (implb x y)) | _, _ => None end
    | EIff a b =>
        match as_bool (eval a I), as_bool (eval b I) with
        | Some x, Some y => Some (VBool (Bool.eqb x y)) | _, _ => None end
    | EExists vs a =>
        match q_fold sc true (map (fun J => as_bool (eval a J)) (instances I vs)) with
        | Some b => Some (VBool b) | None => None end
    | EForall vs a =>
        match q_fold sc false (map (fun J => as_bool (eval a J)) (instances I vs)) with
        | Some b => Some (VBool b) | None => None end
    | EPlus l => match enums l with Some qs => Some (VNum (fold_right Qcplus (zq 0) qs)) | None => None end
    | ETimes l => match enums l with Some qs => Some (VNum (fold_right Qcmult (zq 1) qs)) | None => None end
    | EMinus a b =>
        match as_num (eval a I), as_num (eval b I) with
        | Some x, Some y => Some (VNum (Qcminus x y)) | _, _ => None end
    | EDiv a b =>
        match as_num (eval a I), as_num (eval b I) with
        | Some x, Some y => if qc_is0 y then None else Some (VNum (Qcdiv x y)) | _, _ => None end
    | ELe a b =>
        match as_num (eval a I), as_num (eval b I) with
        | Some x, Some y => Some (VBool (qc_leb x y)) | _, _ => None end
    | ELt a b =>
        match as_num (eval a I), as_num (eval b I) with
        | Some x, Some y => Some (VBool (qc_ltb x y)) | _, _ => None end
    | EEquals a b =>
        match eval a I, eval b I with
        | Some (VNum x), Some (VNum y) => Some (VBool (qc_eqb x y))
        | Some (VObj x), Some (VObj y) => Some (VBool (x =? y)%N)
        | _, _ => None
        end
    | EAlways _ | ESometime _ | ESometimeBefore _ _ | ESometimeAfter _ _ | EAtMostOnce _ => None
    end.
End Eval.

Definition eval_strict := eval false.
Definition eval_sc := eval true.

(* a condition "holds" only when it evaluates to true; undefined is not satisfied *)
Definition holds (sc : bool) (I : interp) (e : expr) : bool :=
  match eval sc e I with Some (VBool true) => true | _ => false end.
