(* Reference semantics of temporal problems and time-triggered plans (C05, C04).

   Time is dense (Qc).  A plan step starts an instantaneous or durative action at an absolute time; its effects and
   the problem's timed effects are EVENTS at absolute instants.  All events of one instant are applied together to
   the state in force before that instant (joint application, conflict rules below).  The state produced at instant
   x is in force at the instants of (x, x'] where x' is the next happening: "the state in force at instant u" is
   the state produced by the last happening STRICTLY before u (conditions at an instant are evaluated before the
   effects of that instant).  A condition over a (possibly open) interval must hold in the state in force at EVERY
   instant of the interval; durations must lie in the (possibly open) duration interval whose bounds are evaluated
   in the state in force at the start.

   Conflict rules of one instant (per ground fluent), built on Sem.v's [combine]:
     - two DIFFERENT sources (plan steps; the problem's timed effects are one more source) assigning the fluent
       conflict ("Double effect"; concurrent writes);
     - the assignments of a single source combine as in C01 (Boolean both values => true, two different values of
       a numeric/object fluent conflict);
     - an assignment together with an increase/decrease conflicts; increases/decreases of all sources accumulate. *)
From Coq Require Import List ZArith NArith QArith Qcanon Bool.
Import ListNotations.
Require Import UPV.Core.Expr UPV.Core.Eval UPV.Core.Interp UPV.Planning.Problem UPV.Planning.Sem.

(* ------------------------------------------------------------------ syntax *)
Inductive anchor := AStart | AEnd.
Record timing := { tm_anchor : anchor; tm_delay : Qc }.                     (* Timing: START/END of the action + delay *)
Record tinterval := { ti_lo : timing; ti_hi : timing; ti_lopen : bool; ti_ropen : bool }.   (* TimeInterval *)

Record daction := {
  d_params : list N;
  d_lo : expr; d_hi : expr; d_lopen : bool; d_ropen : bool;               (* DurationInterval *)
  d_conds : list (tinterval * list expr);                                   (* DurativeAction.conditions *)
  d_effs : list (timing * list effect)                                      (* DurativeAction.effects *)
}.

(* absolute interval; [ai_hi = None] = up to the end of the plan (GLOBAL_END) *)
Record ainterval := { ai_lo : Qc; ai_hi : option Qc; ai_lopen : bool; ai_ropen : bool }.

Record tproblem := {
  tp_base : problem;                          (* objects, fluents, INSTANTANEOUS actions, goals, invariants *)
  tp_dur : list (N * daction);                (* durative actions by id (ids disjoint from the instantaneous ones) *)
  tp_teffs : list (Qc * list effect);         (* problem.timed_effects: GLOBAL_START + delay *)
  tp_tgoals : list (ainterval * list expr)    (* problem.timed_goals *)
}.

Record pstep := { ps_start : Qc; ps_act : N; ps_args : list value; ps_dur : option Qc }.
Definition tplan := list pstep.

Inductive tact := TInst (a : action) | TDur (d : daction).
Definition lookup_tact (TP : tproblem) (aid : N) : option tact :=
  match lookupN aid (p_actions (tp_base TP)) with
  | Some a => Some (TInst a)
  | None => match lookupN aid (tp_dur TP) with Some d => Some (TDur d) | None => None end
  end.

(* ------------------------------------------------------------------ instantiation of timings *)
Definition abs_time (start dur : Qc) (tm : timing) : Qc :=
  match tm_anchor tm with
  | AStart => Qcplus start (tm_delay tm)
  | AEnd => Qcplus (Qcplus start dur) (tm_delay tm)
  end.

Definition abs_interval (start dur : Qc) (iv : tinterval) : ainterval :=
  {| ai_lo := abs_time start dur (ti_lo iv); ai_hi := Some (abs_time start dur (ti_hi iv));
     ai_lopen := ti_lopen iv; ai_ropen := ti_ropen iv |}.

Definition point_interval (t : Qc) : ainterval := {| ai_lo := t; ai_hi := Some t; ai_lopen := false; ai_ropen := false |}.

(* membership of an instant in an interval *)
Definition in_iv (iv : ainterval) (u : Qc) : Prop :=
  (if ai_lopen iv then ai_lo iv < u else ai_lo iv <= u)%Qc /\
  match ai_hi iv with
  | None => True
  | Some h => (if ai_ropen iv then u < h else u <= h)%Qc
  end.

Definition in_ivb (iv : ainterval) (u : Qc) : bool :=
  (if ai_lopen iv then qc_ltb (ai_lo iv) u else qc_leb (ai_lo iv) u) &&
  match ai_hi iv with
  | None => true
  | Some h => if ai_ropen iv then qc_ltb u h else qc_leb u h
  end.

(* the interval contains at least one instant *)
Definition iv_nonempty (iv : ainterval) : bool :=
  match ai_hi iv with
  | None => true
  | Some h => qc_ltb (ai_lo iv) h || (qc_eqb (ai_lo iv) h && negb (ai_lopen iv) && negb (ai_ropen iv))
  end.

(* ------------------------------------------------------------------ events and conditions of a plan *)
Definition src := option nat.          (* None: the problem's timed effects; Some i: the i-th step of the plan *)
Definition src_eqb (a b : src) : bool :=
  match a, b with None, None => true | Some x, Some y => Nat.eqb x y | _, _ => false end.

Record event := { ev_time : Qc; ev_src : src; ev_bind : list (N * value); ev_effs : list effect }.

Record tcond := { tc_iv : ainterval; tc_bind : list (N * value); tc_expr : expr }.

(* a plan step is well formed: the action exists, a durative action comes with a duration, an instantaneous one
   without (the implementation asserts this) *)
Definition step_wf (TP : tproblem) (st : pstep) : bool :=
  match lookup_tact TP (ps_act st), ps_dur st with
  | Some (TInst _), None => true
  | Some (TDur _), Some _ => true
  | _, _ => false
  end.

Definition step_events (TP : tproblem) (i : nat) (st : pstep) : list event :=
  match lookup_tact TP (ps_act st), ps_dur st with
  | Some (TInst a), _ =>
      [ {| ev_time := ps_start st; ev_src := Some i; ev_bind := zip_params (a_params a) (ps_args st); ev_effs := a_effs a |} ]
  | Some (TDur d), Some dur =>
      map (fun te => {| ev_time := abs_time (ps_start st) dur (fst te); ev_src := Some i;
                        ev_bind := zip_params (d_params d) (ps_args st); ev_effs := snd te |}) (d_effs d)
  | _, _ => []
  end.

Definition step_conds (TP : tproblem) (st : pstep) : list tcond :=
  match lookup_tact TP (ps_act st), ps_dur st with
  | Some (TInst a), _ =>
      map (fun c => {| tc_iv := point_interval (ps_start st); tc_bind := zip_params (a_params a) (ps_args st); tc_expr := c |})
          (a_pre a)
  | Some (TDur d), Some dur =>
      flat_map (fun ic => map (fun c => {| tc_iv := abs_interval (ps_start st) dur (fst ic);
                                           tc_bind := zip_params (d_params d) (ps_args st); tc_expr := c |}) (snd ic))
               (d_conds d)
  | _, _ => []
  end.

Fixpoint indexed_from {A} (i : nat) (l : list A) : list (nat * A) :=
  match l with [] => [] | x :: l' => (i, x) :: indexed_from (S i) l' end.
Definition indexed {A} (l : list A) := indexed_from 0 l.

Definition timed_events (TP : tproblem) : list event :=
  map (fun te => {| ev_time := fst te; ev_src := None; ev_bind := []; ev_effs := snd te |}) (tp_teffs TP).

Definition plan_events (TP : tproblem) (pi : tplan) : list event :=
  flat_map (fun ist => step_events TP (fst ist) (snd ist)) (indexed pi).

Definition all_events (TP : tproblem) (pi : tplan) : list event := timed_events TP ++ plan_events TP pi.

(* every state of the plan's execution: all instants from 0 on *)
Definition always_interval : ainterval := {| ai_lo := zq 0; ai_hi := None; ai_lopen := false; ai_ropen := false |}.

Definition global_conds (TP : tproblem) : list tcond :=
  flat_map (fun ig => map (fun g => {| tc_iv := fst ig; tc_bind := []; tc_expr := g |}) (snd ig)) (tp_tgoals TP) ++
  map (fun c => {| tc_iv := always_interval; tc_bind := []; tc_expr := c |})
      (p_invs (tp_base TP) ++ bound_invs (tp_base TP)).

Definition all_conds (TP : tproblem) (pi : tplan) : list tcond :=
  global_conds TP ++ flat_map (step_conds TP) pi.

(* ------------------------------------------------------------------ joint application of the events of one instant *)
Definition tagged := (src * aeff)%type.

(* the fired effect instances of a list of events, each tagged with its source; None = some evaluation undefined *)
Fixpoint fire_events (sc : bool) (P : problem) (s : state) (evs : list event) : option (list tagged) :=
  match evs with
  | [] => Some []
  | e :: evs' =>
      match fired sc (mk_interp P s (ev_bind e)) (ev_effs e), fire_events sc P s evs' with
      | Some l, Some r => Some (map (fun a => (ev_src e, a)) l ++ r)
      | _, _ => None
      end
  end.

Definition assigners (k : gfl) (l : list tagged) : list src :=
  map fst (filter (fun x => gfl_eqb (ae_key (snd x)) k && is_assign (snd x)) l).

Definition one_source (srcs : list src) : bool :=
  match srcs with [] => true | x :: r => forallb (src_eqb x) r end.

Definition joint_fluent (P : problem) (s : state) (l : list tagged) (k : gfl) : cres :=
  if one_source (assigners k l) then spec_fluent P s (map snd l) k else CFail.

Definition joint_ok (P : problem) (s : state) (l : list tagged) : bool :=
  forallb (fun x => match joint_fluent P s l (ae_key (snd x)) with CFail => false | _ => true end) l.

Definition joint_succ (P : problem) (s : state) (l : list tagged) : state :=
  fun f args => match joint_fluent P s l (f, args) with CVal v => Some v | _ => s f args end.

Definition ref_apply (sc : bool) (P : problem) (s : state) (evs : list event) : option state :=
  match fire_events sc P s evs with
  | None => None
  | Some l => if joint_ok P s l then Some (joint_succ P s l) else None
  end.

(* ------------------------------------------------------------------ the run: happenings in increasing time *)
Fixpoint tinsert (t : Qc) (l : list Qc) : list Qc :=
  match l with
  | [] => [t]
  | x :: r => if qc_ltb t x then t :: l else if qc_eqb t x then l else x :: tinsert t r
  end.
Definition times_of (E : list event) : list Qc := fold_right tinsert [] (map ev_time E).

Definition events_at (t : Qc) (E : list event) : list event := filter (fun e => qc_eqb (ev_time e) t) E.

Definition trace := list (Qc * state).

Section Run.
  Variable step : state -> list event -> option state.
  Variable E : list event.
  Fixpoint run_times (s : state) (ts : list Qc) : option trace :=
    match ts with
    | [] => Some []
    | t :: ts' =>
        match step s (events_at t E) with
        | None => None
        | Some s' => match run_times s' ts' with Some tr => Some ((t, s') :: tr) | None => None end
        end
    end.
End Run.

(* the state in force at instant u: produced by the last happening strictly before u ([tr] is in increasing time) *)
Fixpoint state_at (s0 : state) (tr : trace) (u : Qc) : state :=
  match tr with
  | [] => s0
  | (x, s) :: tr' => if qc_ltb x u then state_at s tr' u else s0
  end.

Fixpoint final_state (s0 : state) (tr : trace) : state :=
  match tr with [] => s0 | (_, s) :: tr' => final_state s tr' end.

(* ------------------------------------------------------------------ validity *)
Section Valid.
  Variable sc : bool.
  Variable TP : tproblem.
  Let P := tp_base TP.

  Definition holds_in (s : state) (bind : list (N * value)) (c : expr) : bool := holds sc (mk_interp P s bind) c.

  (* the duration lies in the (possibly open) duration interval; bounds evaluated in [s] *)
  Definition dur_ok (s : state) (bind : list (N * value)) (d : daction) (dur : Qc) : bool :=
    match eval sc (d_lo d) (mk_interp P s bind), eval sc (d_hi d) (mk_interp P s bind) with
    | Some (VNum l), Some (VNum h) =>
        (if d_lopen d then qc_ltb l dur else qc_leb l dur) && (if d_ropen d then qc_ltb dur h else qc_leb dur h)
    | _, _ => false
    end.

  Definition step_dur_ok (s0 : state) (tr : trace) (st : pstep) : bool :=
    match lookup_tact TP (ps_act st), ps_dur st with
    | Some (TDur d), Some dur => dur_ok (state_at s0 tr (ps_start st)) (zip_params (d_params d) (ps_args st)) d dur
    | _, _ => true
    end.

  (* a condition holds in the state in force at every instant of its interval (dense time) *)
  Definition cond_ok (s0 : state) (tr : trace) (c : tcond) : Prop :=
    forall u : Qc, in_iv (tc_iv c) u -> holds_in (state_at s0 tr u) (tc_bind c) (tc_expr c) = true.

  Definition plan_wf (pi : tplan) : bool := forallb (step_wf TP) pi.

  Definition tt_valid (s0 : state) (pi : tplan) : Prop :=
    plan_wf pi = true /\
    exists tr, run_times (ref_apply sc P) (all_events TP pi) s0 (times_of (all_events TP pi)) = Some tr /\
      (forall st, In st pi -> step_dur_ok s0 tr st = true) /\
      (forall c, In c (all_conds TP pi) -> cond_ok s0 tr c) /\
      goals_hold sc P (final_state s0 tr) = true.

  (* ---------------- executable form of the same definition: a condition is tested at SAMPLE instants.
     The breakpoints of an interval are its bounds and the happening times strictly inside; the state in force
     is constant on each (p, p'] between consecutive breakpoints, so the lower bound (when it belongs to the interval)
     and the midpoints of consecutive breakpoints represent every instant.  For an interval without upper bound the
     last stretch is represented by (last breakpoint + 1). *)
  Definition two : Qc := zq 2.
  Definition mid (a b : Qc) : Qc := Qcdiv (Qcplus a b) two.

  Fixpoint mids (p : Qc) (ps : list Qc) : list Qc :=
    match ps with [] => [] | q :: ps' => mid p q :: mids q ps' end.

  Definition samples (tr : trace) (iv : ainterval) : list Qc :=
    let lo := ai_lo iv in
    match ai_hi iv with
    | Some h =>
        if qc_ltb lo h
        then (if ai_lopen iv then [] else [lo]) ++
             mids lo (filter (fun x => qc_ltb lo x && qc_ltb x h) (map fst tr) ++ [h])
        else if in_ivb iv lo then [lo] else []
    | None =>
        let inner := filter (fun x => qc_ltb lo x) (map fst tr) in
        (if ai_lopen iv then [] else [lo]) ++ mids lo inner ++ [Qcplus (last inner lo) (zq 1)]
    end.

  Definition cond_okb (s0 : state) (tr : trace) (c : tcond) : bool :=
    forallb (fun u => holds_in (state_at s0 tr u) (tc_bind c) (tc_expr c)) (samples tr (tc_iv c)).

  Definition tt_valid_b (s0 : state) (pi : tplan) : bool :=
    plan_wf pi &&
    match run_times (ref_apply sc P) (all_events TP pi) s0 (times_of (all_events TP pi)) with
    | None => false
    | Some tr =>
        forallb (step_dur_ok s0 tr) pi && forallb (cond_okb s0 tr) (all_conds TP pi) &&
        goals_hold sc P (final_state s0 tr)
    end.
End Valid.

(* ------------------------------------------------------------------ side conditions on (problem, plan) *)
(* plans on which the validator's algorithm is meaningful: start times are not negative, no effect of a step is
   scheduled before the step starts, timed effects are not scheduled before time 0, and no condition interval is
   empty (an empty interval contains no state at all; the implementation still tests one) *)
Definition nonneg (t : Qc) : bool := qc_leb (zq 0) t.

Definition step_times_ok (TP : tproblem) (i : nat) (st : pstep) : bool :=
  nonneg (ps_start st) && forallb (fun e => qc_leb (ps_start st) (ev_time e)) (step_events TP i st).

Definition plan_times_ok (TP : tproblem) (pi : tplan) : bool :=
  forallb (fun e => nonneg (ev_time e)) (timed_events TP) &&
  forallb (fun ist => step_times_ok TP (fst ist) (snd ist)) (indexed pi).

Definition intervals_ok (TP : tproblem) (pi : tplan) : bool :=
  forallb (fun c => iv_nonempty (tc_iv c) && nonneg (ai_lo (tc_iv c))) (all_conds TP pi).

Definition supported_plan (TP : tproblem) (pi : tplan) : bool :=
  plan_times_ok TP pi && intervals_ok TP pi.
