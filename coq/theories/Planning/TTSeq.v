(* C04: time-triggered plans made of instantaneous actions, and the sequential plan they denote. *)
From Coq Require Import List ZArith NArith QArith Qcanon Bool.
Import ListNotations.
Require Import UPV.Core.Expr UPV.Core.Eval UPV.Core.Interp UPV.Planning.Problem UPV.Planning.Sem UPV.Planning.SeqValidate.
Require Import UPV.Planning.Temporal UPV.Planning.TTValidate.

(* the time-triggered plan that starts the i-th action instance of [plan] at the i-th time of [times] *)
Fixpoint schedule (plan : list (N * list value)) (times : list Qc) : tplan :=
  match plan, times with
  | (a, args) :: plan', t :: times' =>
      {| ps_start := t; ps_act := a; ps_args := args; ps_dur := None |} :: schedule plan' times'
  | _, _ => []
  end.

(* the same action instances in start-time order (insertion sort on the start time) *)
Fixpoint ins_time (x : pstep) (l : list pstep) : list pstep :=
  match l with
  | [] => [x]
  | y :: r => if qc_leb (ps_start x) (ps_start y) then x :: l else y :: ins_time x r
  end.
Definition sort_steps (pi : tplan) : list pstep := fold_right ins_time [] pi.
Definition seq_of (l : list pstep) : list (N * list value) := map (fun st => (ps_act st, ps_args st)) l.
Definition sort_by_time (plan : list (N * list value)) (times : list Qc) : list (N * list value) :=
  seq_of (sort_steps (schedule plan times)).

Definition instantaneous (TP : tproblem) : Prop := tp_dur TP = [].
Definition no_timed (TP : tproblem) : Prop := tp_teffs TP = [] /\ tp_tgoals TP = [].
Definition init_ok (sc : bool) (TP : tproblem) (s0 : state) : Prop := invariants_ok sc (tp_base TP) s0 = true.

Definition verdict_of (r : vresult) : verdict := match r with Valid _ => VALID | Invalid => INVALID end.
