(* Sequential semantics of action application.
   [spec_*]  : the documented semantics, written declaratively (per ground fluent: all assignments / all
               increases+decreases of the action instance are combined; C01's statement clause by clause);
   [sim_*]   : the imperative algorithm of UPSequentialSimulator.apply_unsafe / _evaluate_effect
               (ordered loop with `updated_values` and `assigned_fluent`).
   Both are parametrised by the quantifier mode [sc] of the expression evaluator, so the equivalence theorem
   (Proofs/Sem_proofs.v) is independent of how expressions are evaluated. *)
From Coq Require Import List ZArith NArith QArith Qcanon Bool.
Import ListNotations.
Require Import UPV.Core.Expr UPV.Core.Eval UPV.Core.Interp UPV.Planning.Problem.

Definition gfl := (N * list value)%type.
Definition gfl_eqb (a b : gfl) : bool := (fst a =? fst b)%N && values_eqb (snd a) (snd b).

(* an active (fired) effect instance *)
Record aeff := { ae_key : gfl; ae_kind : ekind; ae_val : value }.

Definition is_bool_fluent (P : problem) (f : N) : bool :=
  existsb (fun fd => (fd_id fd =? f)%N && match fd_ty fd with FBool => true | _ => false end) (p_fluents P).

Definition is_assign (a : aeff) : bool := match ae_kind a with KAssign => true | _ => false end.


Fixpoint evals_l (sc : bool) (J : interp) (l : list expr) : option (list value) :=
  match l with
  | [] => Some []
  | x :: l' => match eval sc x J, evals_l sc J l' with Some v, Some vs => Some (v :: vs) | _, _ => None end
  end.

Inductive eres := EErr | ESkip | EAct (a : aeff).

(* _evaluate_effect, evaluation part: target arguments, then the condition, then (only if it fires) the value *)
Definition eval_effect (sc : bool) (J : interp) (e : effect) : eres :=
  match evals_l sc J (e_args e) with
  | None => EErr
  | Some args =>
      match eval sc (e_cond e) J with
      | Some (VBool true) =>
          match eval sc (e_val e) J with
          | Some v => EAct {| ae_key := (e_fl e, args); ae_kind := e_kind e; ae_val := v |}
          | None => EErr
          end
      | Some _ => ESkip
      | None => EErr
      end
  end.

(* all fired effect instances of an action, in the order apply_unsafe visits them (effects in order, each
   expanded over its forall variables); None when some needed evaluation is undefined *)
Fixpoint collect_res (rs : list eres) : option (list aeff) :=
  match rs with
  | [] => Some []
  | EErr :: _ => None
  | ESkip :: rs' => collect_res rs'
  | EAct a :: rs' => match collect_res rs' with Some l => Some (a :: l) | None => None end
  end.

Definition fired (sc : bool) (I : interp) (effs : list effect) : option (list aeff) :=
  collect_res (flat_map (fun e => map (fun J => eval_effect sc J e) (instances I (e_vars e))) effs).

(* ------------------------------------------------------------------ declarative combination (the specification) *)
Definition avals (k : gfl) (l : list aeff) : list value :=
  map ae_val (filter (fun a => gfl_eqb (ae_key a) k && is_assign a) l).

(* signed deltas; None = some increase/decrease value is not a number *)
Definition delta_of (a : aeff) : option Qc :=
  match ae_val a, ae_kind a with
  | VNum d, KInc => Some d
  | VNum d, KDec => Some (Qcopp d)
  | _, _ => None
  end.
Definition deltas (k : gfl) (l : list aeff) : list (option Qc) :=
  map delta_of (filter (fun a => gfl_eqb (ae_key a) k && negb (is_assign a)) l).

Fixpoint sum_deltas (base : Qc) (ds : list (option Qc)) : option Qc :=
  match ds with
  | [] => Some base
  | Some d :: ds' => sum_deltas (Qcplus base d) ds'
  | None :: _ => None
  end.

Inductive cres := CUnchanged | CVal (v : value) | CFail.

Definition is_vtrue (v : value) : bool := match v with VBool true => true | _ => false end.
Definition is_vbool (v : value) : bool := match v with VBool _ => true | _ => false end.

(* typing side condition used by the equivalence theorem: a Boolean fluent is only assigned, and only Booleans *)
Definition wt_aeff (P : problem) (a : aeff) : bool :=
  if is_bool_fluent P (fst (ae_key a)) then is_assign a && is_vbool (ae_val a) else true.

Definition combine (isb : bool) (old : option value) (A : list value) (D : list (option Qc)) : cres :=
  match A, D with
  | [], [] => CUnchanged
  | _ :: _, _ :: _ => CFail                                      (* assignment together with increase/decrease *)
  | a :: rest, [] =>
      if isb
      then CVal (VBool (existsb is_vtrue A))                                          (* both values => true *)
      else (if forallb (value_eqb a) rest then CVal a else CFail)                     (* two different values *)
  | [], _ :: _ =>
      match old with
      | Some (VNum c) => match sum_deltas c D with Some r => CVal (VNum r) | None => CFail end
      | _ => CFail                                                                    (* no value to increase *)
      end
  end.

Definition spec_fluent (P : problem) (s : state) (acts : list aeff) (k : gfl) : cres :=
  combine (is_bool_fluent P (fst k)) (s (fst k) (snd k)) (avals k acts) (deltas k acts).

Definition spec_effects_ok (P : problem) (s : state) (acts : list aeff) : bool :=
  forallb (fun a => match spec_fluent P s acts (ae_key a) with CFail => false | _ => true end) acts.

Definition spec_succ (P : problem) (s : state) (acts : list aeff) : state :=
  fun f args => match spec_fluent P s acts (f, args) with CVal v => Some v | _ => s f args end.

(* ------------------------------------------------------------------ the simulator's ordered loop *)
Definition upd_map := list (gfl * value).

Fixpoint alookup (k : gfl) (u : upd_map) : option value :=
  match u with
  | [] => None
  | (k', v) :: u' => if gfl_eqb k k' then Some v else alookup k u'
  end.

Definition amem (k : gfl) (l : list gfl) : bool := existsb (gfl_eqb k) l.

(* one iteration of the loop in apply_unsafe: _evaluate_effect's bookkeeping part followed by
   `updated_values[fluent] = value`.  None = UPConflictingEffectsException / UPStateMissingFluentError *)
Definition sim_step (P : problem) (s : state) (st : upd_map * list gfl) (a : aeff) : option (upd_map * list gfl) :=
  let '(upd, asg) := st in
  let k := ae_key a in
  let v := ae_val a in
  match ae_kind a with
  | KAssign =>
      match alookup k upd with
      | Some old =>
          if negb (value_eqb v old)
          then (if is_bool_fluent P (fst k)
                then (match old with
                      | VBool false => Some ((k, v) :: upd, asg)      (* add-after-delete *)
                      | _ => Some (upd, asg)
                      end)
                else None)
          else if negb (amem k asg) then None
          else Some ((k, v) :: upd, k :: asg)
      | None => Some ((k, v) :: upd, k :: asg)
      end
  | KInc | KDec =>
      if amem k asg then None
      else match s (fst k) (snd k) with
           | None => None                                  (* evaluate(fluent) raises *)
           | Some cur0 =>
               let cur := match alookup k upd with Some u => u | None => cur0 end in
               match cur, delta_of a with
               | VNum c, Some d => Some ((k, VNum (Qcplus c d)) :: upd, asg)
               | _, _ => None
               end
           end
  end.

Fixpoint sim_loop (P : problem) (s : state) (st : upd_map * list gfl) (l : list aeff) : option (upd_map * list gfl) :=
  match l with
  | [] => Some st
  | a :: l' => match sim_step P s st a with Some st' => sim_loop P s st' l' | None => None end
  end.

(* UPState.make_child(updated_values) seen as a map *)
Definition apply_upd (s : state) (u : upd_map) : state :=
  fun f args => match alookup (f, args) u with Some v => Some v | None => s f args end.

(* ------------------------------------------------------------------ whole steps *)
Section Step.
  Variable sc : bool.
  Variable P : problem.

  Definition all_hold (I : interp) (cs : list expr) : bool := forallb (holds sc I) cs.

  Definition invariants_ok (s : state) : bool :=
    all_hold (mk_interp P s []) (p_invs P ++ bound_invs P).

  (* the documented semantics *)
  Definition spec_step (s : state) (a : action) (args : list value) : option state :=
    let I := mk_interp P s (zip_params (a_params a) args) in
    if negb (all_hold I (a_pre a)) then None
    else match fired sc I (a_effs a) with
         | None => None
         | Some acts =>
             if negb (spec_effects_ok P s acts) then None
             else let s' := spec_succ P s acts in
                  if invariants_ok s' then Some s' else None
         end.

  (* UPSequentialSimulator._apply: preconditions, then apply_unsafe *)
  Definition sim_apply (s : state) (a : action) (args : list value) : option state :=
    let I := mk_interp P s (zip_params (a_params a) args) in
    if negb (all_hold I (a_pre a)) then None
    else match fired sc I (a_effs a) with
         | None => None
         | Some acts =>
             match sim_loop P s ([], []) acts with
             | None => None
             | Some (upd, _) =>
                 let s' := apply_upd s upd in
                 if invariants_ok s' then Some s' else None
             end
         end.

  (* _is_applicable: get_unsatisfied_conditions(full_check=True) has no reason to report *)
  Definition sim_is_applicable (s : state) (a : action) (args : list value) : bool :=
    let I := mk_interp P s (zip_params (a_params a) args) in
    all_hold I (a_pre a) &&
    match fired sc I (a_effs a) with
    | None => false
    | Some acts =>
        match sim_loop P s ([], []) acts with
        | None => false
        | Some (upd, _) => invariants_ok (apply_upd s upd)
        end
    end.

  Definition goals_hold (s : state) : bool := all_hold (mk_interp P s []) (p_goals P).
  Definition sim_unsat_goals (s : state) : list expr :=
    filter (fun g => negb (holds sc (mk_interp P s []) g)) (p_goals P).
  Definition sim_is_goal (s : state) : bool := goals_hold s.

  Definition lookup_action (aid : N) : option action := lookupN aid (p_actions P).

  (* running a plan = list of (action id, arguments) *)
  Fixpoint run (step : state -> action -> list value -> option state) (s : state) (plan : list (N * list value))
    : option state :=
    match plan with
    | [] => Some s
    | (aid, args) :: rest =>
        match lookup_action aid with
        | None => None
        | Some a => match step s a args with Some s' => run step s' rest | None => None end
        end
    end.

  Definition valid_plan (s0 : state) (plan : list (N * list value)) : bool :=
    match run spec_step s0 plan with Some s => goals_hold s | None => false end.
End Step.
