(* Model of SequentialPlanValidator._validate (unified_planning/engines/plan_validator.py) and
   evaluate_quality_metric (sequential_simulator.py), over the step functions of Planning/Sem.v. *)
From Coq Require Import List ZArith NArith QArith Qcanon Bool.
Import ListNotations.
Require Import UPV.Core.Expr UPV.Core.Eval UPV.Core.Interp UPV.Planning.Problem UPV.Planning.Sem.

Inductive metric :=
| MNone
| MCosts (costs : list (N * expr)) (dflt : option expr)   (* MinimizeActionCosts: action id -> cost, default *)
| MLength                                                 (* MinimizeSequentialPlanLength *)
| MFinal (e : expr)                                       (* Minimize/MaximizeExpressionOnFinalState *)
| MOversub (goals : list (expr * Qc)).                    (* Oversubscription: goal -> gain *)

(* VALID carries the metric evaluation (None when the problem has no metric) *)
Inductive vresult := Invalid | Valid (m : option Qc).

Section Validate.
  Variable sc : bool.
  Variable P : problem.
  Variable M : metric.

  Definition cost_expr (aid : N) : option expr :=
    match M with
    | MCosts costs dflt => match lookupN aid costs with Some e => Some e | None => dflt end
    | _ => None
    end.

  (* contribution of one step to a cumulative metric, evaluated in the PRE-state with the action's parameters bound *)
  Definition step_metric (s : state) (aid : N) (a : action) (args : list value) (acc : Qc) : option Qc :=
    match M with
    | MCosts _ _ =>
        match cost_expr aid with
        | None => None                         (* UPUsageError: cost not set *)
        | Some e => match eval sc e (mk_interp P s (zip_params (a_params a) args)) with
                    | Some (VNum c) => Some (Qcplus c acc)
                    | _ => None end
        end
    | MLength => Some (Qcplus acc (zq 1))
    | _ => Some acc
    end.

  Fixpoint gains (I : interp) (gs : list (expr * Qc)) : option Qc :=
    match gs with
    | [] => Some (zq 0)
    | (g, w) :: gs' =>
        match eval sc g I, gains I gs' with
        | Some (VBool b), Some r => Some (if b then Qcplus w r else r)
        | _, _ => None
        end
    end.

  Definition final_metric (s : state) (acc : Qc) : option (option Qc) :=
    match M with
    | MNone => Some None
    | MCosts _ _ | MLength => Some (Some acc)
    | MFinal e => match eval sc e (mk_interp P s []) with Some (VNum q) => Some (Some q) | _ => None end
    | MOversub gs => match gains (mk_interp P s []) gs with Some q => Some (Some q) | None => None end
    end.

  (* the simulation loop followed by the goal check *)
  Fixpoint validate_from (step : state -> action -> list value -> option state)
           (s : state) (acc : Qc) (plan : list (N * list value)) : vresult :=
    match plan with
    | [] =>
        if goals_hold sc P s
        then match final_metric s acc with Some m => Valid m | None => Invalid end
        else Invalid
    | (aid, args) :: rest =>
        match lookup_action P aid with
        | None => Invalid                                      (* UPUsageError: action not in the problem *)
        | Some a =>
            match step s a args with
            | None => Invalid
            | Some s' =>
                match step_metric s aid a args acc with
                | None => Invalid
                | Some acc' => validate_from step s' acc' rest
                end
            end
        end
    end.

  Definition seq_validate (s0 : state) (plan : list (N * list value)) : vresult :=
    validate_from (sim_apply sc P) s0 (zq 0) plan.

  (* ---------------- declarative reading of the metric values ---------------- *)
  (* pre-states along the run of a plan *)
  Fixpoint trace (step : state -> action -> list value -> option state) (s : state) (plan : list (N * list value))
    : option (list (state * (N * list value)) * state) :=
    match plan with
    | [] => Some ([], s)
    | (aid, args) :: rest =>
        match lookup_action P aid with
        | None => None
        | Some a => match step s a args with
                    | None => None
                    | Some s' => match trace step s' rest with
                                 | Some (tr, fin) => Some ((s, (aid, args)) :: tr, fin)
                                 | None => None end
                    end
        end
    end.

  Definition cost_at (sa : state * (N * list value)) : option Qc :=
    let '(s, (aid, args)) := sa in
    match lookup_action P aid, cost_expr aid with
    | Some a, Some e => match eval sc e (mk_interp P s (zip_params (a_params a) args)) with
                        | Some (VNum c) => Some c | _ => None end
    | _, _ => None
    end.

  Fixpoint sum_costs (tr : list (state * (N * list value))) : option Qc :=
    match tr with
    | [] => Some (zq 0)
    | sa :: tr' => match cost_at sa, sum_costs tr' with Some c, Some r => Some (Qcplus c r) | _, _ => None end
    end.

  (* what the metric DEFINES for a run with pre-states [tr] ending in [fin] *)
  Definition metric_spec (tr : list (state * (N * list value))) (fin : state) : option (option Qc) :=
    match M with
    | MNone => Some None
    | MCosts _ _ => option_map Some (sum_costs tr)
    | MLength => Some (Some (zq (Z.of_nat (length tr))))
    | MFinal e => match eval sc e (mk_interp P fin []) with Some (VNum q) => Some (Some q) | _ => None end
    | MOversub gs => option_map Some (gains (mk_interp P fin []) gs)
    end.
End Validate.
