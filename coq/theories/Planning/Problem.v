(* Classical / numeric planning problems over the shared expression IR (DESIGN.md 3.4).
   Mirrors the parts of unified_planning.model.Problem that the sequential semantics reads:
   objects per type, fluent declarations (type with optional numeric bounds), instantaneous actions
   (parameters, preconditions, effects with kind / condition / forall variables), goals, state invariants. *)
From Coq Require Import List ZArith NArith QArith Qcanon Bool.
Import ListNotations.
Require Import UPV.Core.Expr UPV.Core.Eval UPV.Core.Interp.

Inductive ekind := KAssign | KInc | KDec.

Record effect := {
  e_fl : N;                   (* target fluent symbol *)
  e_args : list expr;         (* target arguments (may mention parameters, forall variables, fluents) *)
  e_val : expr;
  e_cond : expr;              (* EBool true when unconditional *)
  e_kind : ekind;
  e_vars : list (N * N);      (* forall variables (id, user type) *)
  e_isbool : bool             (* the target fluent has Boolean type *)
}.

Record action := {
  a_params : list N;          (* parameter ids, in order *)
  a_pre : list expr;
  a_effs : list effect
}.

Inductive ftype := FBool | FNum (lo hi : option Qc) | FObj (ty : N).

Record fdecl := { fd_id : N; fd_sig : list N (* user type ids of the parameters *); fd_ty : ftype }.

Record problem := {
  p_objs : list (N * list N);            (* user type -> objects (including subtypes), problem order *)
  p_ifun : list (N * list value * value);
  p_fluents : list fdecl;
  p_actions : list (N * action);         (* action id -> action *)
  p_goals : list expr;
  p_invs : list expr                     (* state invariants (quantifiers allowed) *)
}.

(* A state maps ground fluents to values; None = the fluent has no value. *)
Definition state := N -> list value -> option value.

Definition objs_of (P : problem) (t : N) : list N :=
  match lookupN t (p_objs P) with Some l => l | None => [] end.

Fixpoint zip_params (ps : list N) (vs : list value) : list (N * value) :=
  match ps, vs with
  | p :: ps', v :: vs' => (p, v) :: zip_params ps' vs'
  | _, _ => []
  end.

(* the interpretation in which an action instance is evaluated: fluents from the state, parameters bound to the
   actual arguments, no variable bound yet *)
Definition mk_interp (P : problem) (s : state) (pars : list (N * value)) : interp :=
  {| fl := s;
     par := fun p => lookupN p pars;
     var := fun _ => None;
     ifun := fun f args => lookup_app f args (p_ifun P);
     objs := objs_of P |}.

(* all ground argument tuples of a signature: itertools.product over objects of each type *)
Fixpoint arg_tuples (P : problem) (sig : list N) : list (list value) :=
  match sig with
  | [] => [[]]
  | t :: sig' => flat_map (fun o => map (fun tl => VObj o :: tl) (arg_tuples P sig')) (objs_of P t)
  end.

Definition ground_fluents (P : problem) : list (N * list value) :=
  flat_map (fun fd => map (fun a => (fd_id fd, a)) (arg_tuples P (fd_sig fd))) (p_fluents P).

(* bounded numeric types, checked as state invariants on every ground instance of a bounded fluent
   (UPSequentialSimulator.__init__: em.LE(lower_bound, f_e) / em.LE(f_e, upper_bound)) *)
Definition value_expr (v : value) : expr :=
  match v with VBool b => EBool b | VNum q => num_node q | VObj o => EObj o end.

Definition bound_invs (P : problem) : list expr :=
  flat_map (fun fd =>
    match fd_ty fd with
    | FNum lo hi =>
        flat_map (fun a =>
          let fe := EFluent (fd_id fd) (map value_expr a) in
          (match lo with Some l => [ELe (num_node l) fe] | None => [] end) ++
          (match hi with Some h => [ELe fe (num_node h)] | None => [] end))
          (arg_tuples P (fd_sig fd))
    | _ => []
    end) (p_fluents P).
