(* Model of TimeTriggeredPlanValidator._validate (unified_planning/engines/plan_validator.py, after the repairs
   5249d13 011fe6a bec5108 74b68a3 e93aea2), status only.

   Mirrored Python                               Gallina
   ---------------------------------------------------------------------------------------------------------
   start_actions.sort(reverse) + pop()           [starts_order]   (ascending start time, ties in REVERSE plan order)
   scheduled_effects (heapq on (time, id, ..))   [list event] kept sorted by time, FIFO among equal times: ids are
                                                 allocated increasingly, so a pushed entry has the largest id  [hpush]
   trace : Dict[Fraction, State]                 association list in insertion order, (-1, initial state) first
   _instantiate_timing / _instantiate_interval   [abs_time] / [abs_interval] (Temporal.v; is_right_open is ignored by
                                                 the code and by [states_in_interval])
   _apply_effect (generator over forall inst.)   [fired] of Sem.v per scheduled entry ([fire_events]); Effect.__init__
                                                 rejects fluents inside target arguments, so evaluating the target
                                                 before the condition (Sem.v) or after it (this code) is unobservable
   _apply_effects (updates / assigned dicts)     [tt_step] / [tt_loop] : Sem.v's [sim_step] + owner of each assignment
   _states_in_interval                           [states_in_interval]
   while len(start_actions)+len(scheduled) > 0   [tt_main] (one start per iteration) + [drain] (effect groups)
   durative_conditions                           [tt_conds]: independent of the simulated states, so computed apart
   final loop over durative_conditions, goals    [tt_validate]
   Exceptions UPConflictingEffectsException / UPStateMissingFluentError => INVALID.  Quality metrics and simulated
   effects are not modelled. *)
From Coq Require Import List ZArith NArith QArith Qcanon Bool.
Import ListNotations.
Require Import UPV.Core.Expr UPV.Core.Eval UPV.Core.Interp UPV.Planning.Problem UPV.Planning.Sem UPV.Planning.Temporal.

(* ------------------------------------------------------------------ _apply_effects *)
Definition own_map := list (gfl * src).

Fixpoint owner (k : gfl) (o : own_map) : option src :=
  match o with
  | [] => None
  | (k', x) :: o' => if gfl_eqb k k' then Some x else owner k o'
  end.

(* one (fluent, value) pair produced by _apply_effect, processed by the body of the loop in _apply_effects.
   None = UPConflictingEffectsException("Double effect") / UPStateMissingFluentError *)
Definition tt_step (P : problem) (s : state) (st : upd_map * own_map) (x : tagged) : option (upd_map * own_map) :=
  let '(upd, asg) := st in
  let '(ai, a) := x in
  let k := ae_key a in
  let v := ae_val a in
  match ae_kind a with
  | KAssign =>
      match alookup k upd with
      | None => Some ((k, v) :: upd, (k, ai) :: asg)                     (* updates[f] = v; assigned[f] = ai *)
      | Some old =>                                                        (* f in updates and eff.is_assignment() *)
          match owner k asg with
          | Some ow =>
              if src_eqb ow ai
              then (if value_eqb v old then Some (upd, asg)                (* same instance, same value: no conflict *)
                    else if is_bool_fluent P (fst k)
                         then (if is_vtrue v then Some ((k, v) :: upd, asg) else Some (upd, asg))   (* delete before add *)
                         else None)
              else None                                                    (* assigned by another instance *)
          | None => None                                                   (* increased/decreased, now assigned *)
          end
      end
  | KInc | KDec =>
      (* _apply_effect reads updates[f] or state.get_value(f) and adds; then `f in assigned` => Double effect *)
      match s (fst k) (snd k) with
      | None => None
      | Some cur0 =>
          let cur := match alookup k upd with Some u => u | None => cur0 end in
          match cur, delta_of a with
          | VNum c, Some d =>
              match owner k asg with
              | Some _ => None
              | None => Some ((k, VNum (Qcplus c d)) :: upd, asg)
              end
          | _, _ => None
          end
      end
  end.

Fixpoint tt_loop (P : problem) (s : state) (st : upd_map * own_map) (l : list tagged) : option (upd_map * own_map) :=
  match l with
  | [] => Some st
  | x :: l' => match tt_step P s st x with Some st' => tt_loop P s st' l' | None => None end
  end.

Definition tt_apply_effects (sc : bool) (P : problem) (s : state) (grp : list event) : option state :=
  match fire_events sc P s grp with
  | None => None
  | Some l => match tt_loop P s ([], []) l with
              | None => None
              | Some (upd, _) => Some (apply_upd s upd)          (* state.make_child(updated_values=updates) *)
              end
  end.

(* ------------------------------------------------------------------ _states_in_interval *)
Definition minus1 : Qc := zq (-1).

Fixpoint tlookup (x : Qc) (tr : trace) : option state :=
  match tr with
  | [] => None
  | (y, s) :: tr' => if qc_eqb x y then Some s else tlookup x tr'
  end.

(* trace[time] = new_state *)
Fixpoint trace_set (tr : trace) (x : Qc) (s : state) : trace :=
  match tr with
  | [] => [(x, s)]
  | (y, s') :: tr' => if qc_eqb x y then (y, s) :: tr' else (y, s') :: trace_set tr' x s
  end.

Definition opt_qc_eqb (a : option Qc) (b : Qc) : bool := match a with Some x => qc_eqb x b | None => false end.

(* the scan `for x in trace` *)
Definition scan_step (start : Qc) (end_ : option Qc) (acc : Qc * Qc * list Qc) (x : Qc) : Qc * Qc * list Qc :=
  let '(bt, et, ins) := acc in
  (if qc_ltb x start && qc_ltb bt x then x else bt,
   if qc_leb x start && qc_ltb et x then x else et,
   if qc_ltb start x && match end_ with None => true | Some e => qc_ltb x e end then ins ++ [x] else ins).

Definition pick (tr : trace) (x : Qc) : list (Qc * state) :=
  match tlookup x tr with Some s => [(x, s)] | None => [] end.

Definition states_in_interval (tr : trace) (start : Qc) (end_ : option Qc) (open_interval : bool) : list (Qc * state) :=
  let '(bt, et, ins) := fold_left (scan_step start end_) (map fst tr) (minus1, minus1, []) in
  (if negb open_interval || (qc_eqb et bt && negb (opt_qc_eqb end_ start)) then pick tr bt else []) ++
  (if negb (qc_eqb et bt) && negb (opt_qc_eqb end_ et) then pick tr et else []) ++
  flat_map (pick tr) ins.

(* ------------------------------------------------------------------ the main loop *)
(* heapq.heappush of an entry whose id is larger than every id in the heap *)
Fixpoint hpush (e : event) (h : list event) : list event :=
  match h with
  | [] => [e]
  | x :: r => if qc_ltb (ev_time e) (ev_time x) then e :: h else x :: hpush e r
  end.

Definition hpush_all (evs : list event) (h : list event) : list event := fold_left (fun h e => hpush e h) evs h.

(* while scheduled_effects and scheduled_effects[0][0] == time: heappop *)
Fixpoint span_time (t : Qc) (h : list event) : list event * list event :=
  match h with
  | [] => ([], [])
  | e :: r => if qc_eqb (ev_time e) t then let '(g, r') := span_time t r in (e :: g, r') else ([], h)
  end.

(* start_actions.sort(key=start, reverse=True) is stable; pop() takes from the end *)
Fixpoint ins_desc (x : nat * pstep) (l : list (nat * pstep)) : list (nat * pstep) :=
  match l with
  | [] => [x]
  | y :: r => if qc_ltb (ps_start (snd x)) (ps_start (snd y)) then y :: ins_desc x r else x :: l
  end.
Definition starts_order (pi : tplan) : list (nat * pstep) := rev (fold_right ins_desc [] (indexed pi)).

Definition mstate := (state * trace)%type.          (* last_state, trace *)
Inductive dres := DFail | DFuel | DOk (h : list event) (m : mstate).

Section Main.
  Variable sc : bool.
  Variable TP : tproblem.
  Let P := tp_base TP.

  (* the `elif scheduled_effects:` iterations that happen before the next start action is popped ([lim] = its start
     time: it is popped as soon as start <= scheduled_effects[0][0]); [lim = None]: no start action is left *)
  Fixpoint drain (fuel : nat) (lim : option Qc) (h : list event) (m : mstate) : dres :=
    match h with
    | [] => DOk [] m
    | e :: _ =>
        if match lim with Some t => qc_leb t (ev_time e) | None => false end then DOk h m
        else match fuel with
             | O => DFuel
             | S fuel' =>
                 let '(g, r) := span_time (ev_time e) h in
                 match tt_apply_effects sc P (fst m) g with
                 | None => DFail
                 | Some s' => drain fuel' lim r (s', trace_set (snd m) (ev_time e) s')
                 end
             end
    end.

  Fixpoint tt_main (starts : list (nat * pstep)) (h : list event) (m : mstate) : dres :=
    match starts with
    | [] => drain (length h) None h m
    | (i, st) :: rest =>
        match drain (length h) (Some (ps_start st)) h m with
        | DOk h' m' => tt_main rest (hpush_all (step_events TP i st) h') m'
        | r => r
        end
    end.

  (* durative_conditions: timed goals, state invariants, bounded types, then per popped start action *)
  Definition dur_expr (d : daction) (dur : Qc) : expr :=
    EAnd [ (if d_lopen d then ELt (d_lo d) (EReal dur) else ELe (d_lo d) (EReal dur));
           (if d_ropen d then ELt (EReal dur) (d_hi d) else ELe (EReal dur) (d_hi d)) ].

  Definition step_dur_cond (st : pstep) : list tcond :=
    match lookup_tact TP (ps_act st), ps_dur st with
    | Some (TDur d), Some dur =>
        [ {| tc_iv := point_interval (ps_start st); tc_bind := zip_params (d_params d) (ps_args st);
             tc_expr := dur_expr d dur |} ]
    | _, _ => []
    end.

  Definition tt_conds (pi : tplan) : list tcond :=
    global_conds TP ++ flat_map (fun ist => step_dur_cond (snd ist) ++ step_conds TP (snd ist)) (starts_order pi).

  Definition check_cond (tr : trace) (c : tcond) : bool :=
    forallb (fun xs => holds_in sc TP (snd xs) (tc_bind c) (tc_expr c))
            (states_in_interval tr (ai_lo (tc_iv c)) (ai_hi (tc_iv c)) (ai_lopen (tc_iv c))).

  Inductive verdict := VALID | INVALID | OUT_OF_FUEL.

  Definition init_heap : list event := hpush_all (timed_events TP) [].

  Definition tt_validate (s0 : state) (pi : tplan) : verdict :=
    if negb (plan_wf TP pi) then INVALID
    else match tt_main (starts_order pi) init_heap (s0, [(minus1, s0)]) with
         | DFail => INVALID
         | DFuel => OUT_OF_FUEL
         | DOk _ (last_state, tr) =>
             if forallb (check_cond tr) (tt_conds pi) && goals_hold sc P last_state then VALID else INVALID
         end.
End Main.
